// Builder call histories (C20): filled in with the history model.
use crate::{Kvs, Toks};

pub fn run_hist(_t: &mut Toks) -> Result<Kvs, String> {
    Err("hist-not-implemented".to_string())
}
