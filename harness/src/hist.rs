// Builder call histories (C20): the same step language as ocaml/driver.ml's parse_hist, executed on
// the real builders: setters in the given order, owned/borrowed variants, PacketBuilder::from and a
// one-member compound as wrappers.
use crate::{guard, parse_rb, unhex, utf8, wres, Kvs, Obs, Toks, W};
use rtcp_types::*;

struct ItemHist {
    ty: u8,
    value: String,
    add_owned: bool,
    ops: Vec<ItemOp>,
}
enum ItemOp {
    Prefix(Vec<u8>),
    IntoOwned,
}
enum RpsiOp {
    Pt(u8),
    Data(Vec<u8>, u8),
    DataOwned(Vec<u8>, u8),
}
enum FciHist {
    Nack(Vec<u16>),
    Fir(Vec<(u32, u8)>),
    Sli(Vec<(u16, u16, u8)>),
    Rpsi(Vec<RpsiOp>),
    Pli,
}
enum Op {
    Pad(u8),
    Ntp(u64),
    Rtp(u32),
    Pc(u32),
    Oc(u32),
    Rb(crate::RbCfg),
    Subtype(u8),
    Data(Vec<u8>),
    Src(u32),
    Reason(String),
    ReasonOwned(String),
    Chunk(u32, Vec<ItemHist>),
    Count(u8),
    Sender(u32),
    Media(u32),
}
enum Init {
    Sr(u32),
    Rr(u32),
    App(u32, String),
    Bye,
    Sdes,
    Unk(u8, Vec<u8>),
    Fb { transport: bool, owned: bool, fci: FciHist },
}

fn parse_fci_hist(t: &mut Toks) -> Result<FciHist, String> {
    Ok(match t.next()? {
        "nack" => {
            let n: usize = t.num()?;
            let mut v = vec![];
            for _ in 0..n {
                v.push(t.num()?);
            }
            FciHist::Nack(v)
        }
        "fir" => {
            let n: usize = t.num()?;
            let mut v = vec![];
            for _ in 0..n {
                v.push((t.num()?, t.num()?));
            }
            FciHist::Fir(v)
        }
        "sli" => {
            let n: usize = t.num()?;
            let mut v = vec![];
            for _ in 0..n {
                v.push((t.num()?, t.num()?, t.num()?));
            }
            FciHist::Sli(v)
        }
        "rpsi" => {
            let n: usize = t.num()?;
            let mut v = vec![];
            for _ in 0..n {
                v.push(match t.next()? {
                    "pt" => RpsiOp::Pt(t.num()?),
                    "data" => RpsiOp::Data(t.hex()?, t.num()?),
                    "dataown" => RpsiOp::DataOwned(t.hex()?, t.num()?),
                    s => return Err(format!("bad rpsi op {}", s)),
                });
            }
            FciHist::Rpsi(v)
        }
        "pli" => FciHist::Pli,
        s => return Err(format!("bad fci hist {}", s)),
    })
}

fn parse_item_hist(t: &mut Toks) -> Result<ItemHist, String> {
    let ty = t.num()?;
    let value = utf8(t.hex()?)?;
    let add_owned = match t.next()? {
        "o" => true,
        "b" => false,
        s => return Err(format!("bad add mode {}", s)),
    };
    let n: usize = t.num()?;
    let mut ops = vec![];
    for _ in 0..n {
        ops.push(match t.next()? {
            "prefix" => ItemOp::Prefix(t.hex()?),
            "own" => ItemOp::IntoOwned,
            s => return Err(format!("bad item op {}", s)),
        });
    }
    Ok(ItemHist { ty, value, add_owned, ops })
}

fn parse_ops(t: &mut Toks) -> Result<Vec<Op>, String> {
    let mut ops = vec![];
    loop {
        ops.push(match t.next()? {
            "end" => break,
            "pad" => Op::Pad(t.num()?),
            "ntp" => Op::Ntp(t.num()?),
            "rtp" => Op::Rtp(t.num()?),
            "pc" => Op::Pc(t.num()?),
            "oc" => Op::Oc(t.num()?),
            "rb" => Op::Rb(parse_rb(t)?),
            "subtype" => Op::Subtype(t.num()?),
            "data" => Op::Data(t.hex()?),
            "src" => Op::Src(t.num()?),
            "reason" => Op::Reason(utf8(t.hex()?)?),
            "reasonown" => Op::ReasonOwned(utf8(t.hex()?)?),
            "chunk" => {
                let ssrc = t.num()?;
                let n: usize = t.num()?;
                let mut items = vec![];
                for _ in 0..n {
                    items.push(parse_item_hist(t)?);
                }
                Op::Chunk(ssrc, items)
            }
            "count" => Op::Count(t.num()?),
            "sender" => Op::Sender(t.num()?),
            "media" => Op::Media(t.num()?),
            s => return Err(format!("bad op {}", s)),
        });
    }
    Ok(ops)
}

thread_local! {
    /// set per history case: after every builder call, query the builder (calculate_size, get_padding, a
    /// write into a scratch buffer) - pure calls that must not change what is written later
    static QUERY: std::cell::Cell<bool> = const { std::cell::Cell::new(false) };
}
fn probe<W: RtcpPacketWriter>(b: &W) {
    if QUERY.with(|q| q.get()) {
        let _ = guard(|| {
            let _ = b.get_padding();
            if let Ok(n) = b.calculate_size() {
                let mut scratch = vec![0x5au8; n];
                let _ = b.write_into(&mut scratch);
            }
        });
    }
}

/// run the finished builder through the chosen wrapper and observe size and bytes
fn finish<'a, B>(wrap: &str, b: B, into_pb: impl FnOnce(B) -> PacketBuilder<'a>) -> Result<Kvs, String>
where
    B: RtcpPacketWriter + W + 'a,
{
    match wrap {
        "d" => observe(&b, false),
        "pb" => observe(&into_pb(b), false),
        "comp" => observe(&Compound::builder().add_packet(b), true),
        s => Err(format!("bad wrap {}", s)),
    }
}

fn observe(w: &dyn W, compound: bool) -> Result<Kvs, String> {
    let size = guard(|| w.calc());
    let n = match &size {
        Ok(Ok(n)) => Some(*n),
        _ => None,
    };
    let mut buf = vec![0xaau8; n.unwrap_or(0)];
    let r = guard(|| w.write(&mut buf));
    let size_obs = match size {
        Ok(Ok(n)) => crate::ok(Obs::I(n)),
        Ok(Err(e)) => crate::err(crate::werr(&e)),
        Err(()) => Obs::S("PANIC"),
    };
    // what was written (into an exact-size buffer prefilled with 0xaa), parsed back
    let mut rt: Kvs = vec![];
    if let (Some(n), Ok(Ok(wn))) = (n, &r) {
        let img = &buf[..(*wn).min(n)];
        let kv = if compound { crate::run_compound(img) } else { crate::run_packet(img) };
        for (k, v) in kv {
            rt.push((format!("rt.{}", k), v));
        }
    }
    let pad_obs = match guard(|| w.pad()) {
        Ok(p) => crate::opt_pad(p),
        Err(()) => Obs::S("PANIC"),
    };
    let mut out = vec![
        ("size".to_string(), size_obs),
        ("get_padding".to_string(), pad_obs),
        ("writes".to_string(), Obs::L(vec![Obs::L(vec![wres(r), Obs::B(buf)])])),
    ];
    out.extend(rt);
    Ok(out)
}

fn item_from_hist(h: &ItemHist) -> SdesItemBuilder<'_> {
    let mut b = SdesItem::builder(h.ty, h.value.as_str());
    for op in h.ops.iter() {
        b = match op {
            ItemOp::Prefix(p) => b.prefix(p.as_slice()),
            ItemOp::IntoOwned => b.into_owned(),
        };
        if QUERY.with(|q| q.get()) {
            // item builders are not packet writers: query through the item-level write_into
            let _ = guard(|| {
                let mut scratch = [0x5au8; 600];
                let _ = b.write_into(&mut scratch);
            });
        }
    }
    b
}

pub fn run_hist(t: &mut Toks) -> Result<Kvs, String> {
    let wrap_tok = t.next()?;
    let (wrap, query) = match wrap_tok.strip_suffix('q') {
        Some(w) => (w, true),
        None => (wrap_tok, false),
    };
    QUERY.with(|q| q.set(query));
    let init = match t.next()? {
        "sr" => Init::Sr(t.num()?),
        "rr" => Init::Rr(t.num()?),
        "app" => Init::App(t.num()?, utf8(t.hex()?)?),
        "bye" => Init::Bye,
        "sdes" => Init::Sdes,
        "unk" => Init::Unk(t.num()?, t.hex()?),
        "fb" => {
            let transport = match t.next()? {
                "t" => true,
                "p" => false,
                s => return Err(format!("bad kind {}", s)),
            };
            let owned = match t.next()? {
                "own" => true,
                "bor" => false,
                s => return Err(format!("bad fci ownership {}", s)),
            };
            Init::Fb { transport, owned, fci: parse_fci_hist(t)? }
        }
        s => return Err(format!("bad hist init {}", s)),
    };
    let ops = parse_ops(t)?;
    let _ = unhex;
    match &init {
        Init::Sr(ssrc) => {
            let mut b = SenderReport::builder(*ssrc);
            for op in ops.iter() {
                b = match op {
                    Op::Pad(p) => b.padding(*p),
                    Op::Ntp(v) => b.ntp_timestamp(*v),
                    Op::Rtp(v) => b.rtp_timestamp(*v),
                    Op::Pc(v) => b.packet_count(*v),
                    Op::Oc(v) => b.octet_count(*v),
                    Op::Rb(rb) => b.add_report_block(rb.builder()),
                    _ => b,
                };
                probe(&b);
            }
            finish(wrap, b, PacketBuilder::from)
        }
        Init::Rr(ssrc) => {
            let mut b = ReceiverReport::builder(*ssrc);
            for op in ops.iter() {
                b = match op {
                    Op::Pad(p) => b.padding(*p),
                    Op::Rb(rb) => b.add_report_block(rb.builder()),
                    _ => b,
                };
                probe(&b);
            }
            finish(wrap, b, PacketBuilder::from)
        }
        Init::App(ssrc, name) => {
            let mut b = App::builder(*ssrc, name.as_str());
            for op in ops.iter() {
                b = match op {
                    Op::Pad(p) => b.padding(*p),
                    Op::Subtype(v) => b.subtype(*v),
                    Op::Data(d) => b.data(d.as_slice()),
                    _ => b,
                };
                probe(&b);
            }
            finish(wrap, b, PacketBuilder::from)
        }
        Init::Bye => {
            let mut b = Bye::builder();
            for op in ops.iter() {
                b = match op {
                    Op::Pad(p) => b.padding(*p),
                    Op::Src(s) => b.add_source(*s),
                    Op::Reason(r) => b.reason(r.as_str()),
                    Op::ReasonOwned(r) => b.reason_owned(r.as_str()),
                    _ => b,
                };
                probe(&b);
            }
            finish(wrap, b, PacketBuilder::from)
        }
        Init::Sdes => {
            let mut b = Sdes::builder();
            for op in ops.iter() {
                b = match op {
                    Op::Pad(p) => b.padding(*p),
                    Op::Chunk(ssrc, items) => {
                        let mut c = SdesChunk::builder(*ssrc);
                        for it in items.iter() {
                            c = if it.add_owned {
                                c.add_item_owned(item_from_hist(it))
                            } else {
                                c.add_item(item_from_hist(it))
                            };
                            probe(&b);
                        }
                        b.add_chunk(c)
                    }
                    _ => b,
                };
                probe(&b);
            }
            finish(wrap, b, PacketBuilder::from)
        }
        Init::Unk(ty, data) => {
            let mut b = Unknown::builder(*ty, data.as_slice());
            for op in ops.iter() {
                b = match op {
                    Op::Pad(p) => b.padding(*p),
                    Op::Count(v) => b.count(*v),
                    _ => b,
                };
                probe(&b);
            }
            finish(wrap, b, PacketBuilder::from)
        }
        Init::Fb { transport, owned, fci } => {
            // build the FCI builder first (its own history), keep it alive for the borrowed variant
            let nack;
            let fir;
            let sli;
            let rpsi;
            let pli;
            macro_rules! fb_run {
                ($fci:expr, $fcity:ty) => {{
                    if *transport {
                        let mut b = if *owned {
                            TransportFeedback::builder_owned($fci)
                        } else {
                            return fb_borrowed_t(wrap, &$fci, &ops);
                        };
                        for op in ops.iter() {
                            b = match op {
                                Op::Pad(p) => b.padding(*p),
                                Op::Sender(v) => b.sender_ssrc(*v),
                                Op::Media(v) => b.media_ssrc(*v),
                                _ => b,
                            };
                            probe(&b);
                        }
                        finish(wrap, b, PacketBuilder::from)
                    } else {
                        let mut b = if *owned {
                            PayloadFeedback::builder_owned($fci)
                        } else {
                            return fb_borrowed_p(wrap, &$fci, &ops);
                        };
                        for op in ops.iter() {
                            b = match op {
                                Op::Pad(p) => b.padding(*p),
                                Op::Sender(v) => b.sender_ssrc(*v),
                                Op::Media(v) => b.media_ssrc(*v),
                                _ => b,
                            };
                            probe(&b);
                        }
                        finish(wrap, b, PacketBuilder::from)
                    }
                }};
            }
            match fci {
                FciHist::Nack(v) => {
                    nack = {
                        let mut b = Nack::builder();
                        for s in v.iter() {
                            b = b.add_rtp_sequence(*s);
                            probe(&b);
                        }
                        b
                    };
                    fb_run!(nack, NackBuilder)
                }
                FciHist::Fir(v) => {
                    fir = {
                        let mut b = Fir::builder();
                        for (s, q) in v.iter() {
                            b = b.add_ssrc(*s, *q);
                            probe(&b);
                        }
                        b
                    };
                    fb_run!(fir, FirBuilder)
                }
                FciHist::Sli(v) => {
                    sli = {
                        let mut b = Sli::builder();
                        for (a, c, p) in v.iter() {
                            b = b.add_lost_macroblock(*a, *c, *p);
                            probe(&b);
                        }
                        b
                    };
                    fb_run!(sli, SliBuilder)
                }
                FciHist::Pli => {
                    pli = Pli::builder();
                    fb_run!(pli, PliBuilder)
                }
                FciHist::Rpsi(rops) => {
                    // the owned feedback builder needs a 'static FCI builder: finish with an owned step
                    let mut b: RpsiBuilder<'static> = Rpsi::builder().native_data_owned(Vec::<u8>::new(), 0);
                    // re-create the default state exactly: payload_type 0, empty string, overrun 0
                    b = b.payload_type(0);
                    for op in rops.iter() {
                        b = match op {
                            RpsiOp::Pt(v) => b.payload_type(*v),
                            RpsiOp::Data(d, ov) => b.native_data(d.clone(), *ov),
                            RpsiOp::DataOwned(d, ov) => b.native_data_owned(d.as_slice(), *ov),
                        };
                        probe(&b);
                    }
                    rpsi = b;
                    fb_run!(rpsi, RpsiBuilder)
                }
            }
        }
    }
}

fn fb_borrowed_t<'a, F: FciBuilder<'a>>(wrap: &str, fci: &'a F, ops: &[Op]) -> Result<Kvs, String> {
    let mut b = TransportFeedback::builder(fci);
    for op in ops.iter() {
        b = match op {
            Op::Pad(p) => b.padding(*p),
            Op::Sender(v) => b.sender_ssrc(*v),
            Op::Media(v) => b.media_ssrc(*v),
            _ => b,
        };
        probe(&b);
    }
    finish(wrap, b, PacketBuilder::from)
}
fn fb_borrowed_p<'a, F: FciBuilder<'a>>(wrap: &str, fci: &'a F, ops: &[Op]) -> Result<Kvs, String> {
    let mut b = PayloadFeedback::builder(fci);
    for op in ops.iter() {
        b = match op {
            Op::Pad(p) => b.padding(*p),
            Op::Sender(v) => b.sender_ssrc(*v),
            Op::Media(v) => b.media_ssrc(*v),
            _ => b,
        };
        probe(&b);
    }
    finish(wrap, b, PacketBuilder::from)
}
