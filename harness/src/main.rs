// Correspondence harness: reads the same case lines as ocaml/driver.ml, runs the real crate
// (path dependency on /repo, public API only) and prints observations in the same grammar.
// It decides nothing; every random choice lives in the generator.
#![allow(clippy::all)]

use rtcp_types::prelude::*;
use rtcp_types::utils::{parser, writer};
use rtcp_types::*;
use std::fmt::Write as _;
use std::io::{BufRead, Write};
use std::panic::{catch_unwind, AssertUnwindSafe};

mod hist;

// ------------------------------------------------------------------ observations

#[derive(Clone, Debug, PartialEq)]
pub enum Obs {
    N(u128),
    I(usize),
    B(Vec<u8>),
    S(&'static str),
    L(Vec<Obs>),
}
use Obs::*;

pub fn print_obs(out: &mut String, o: &Obs) {
    match o {
        N(x) => {
            let _ = write!(out, "#{:x}", x);
        }
        I(x) => {
            let _ = write!(out, "{}", x);
        }
        B(b) => {
            out.push('x');
            for v in b {
                let _ = write!(out, "{:02x}", v);
            }
        }
        S(s) => out.push_str(s),
        L(l) => {
            out.push('(');
            for (i, x) in l.iter().enumerate() {
                if i > 0 {
                    out.push(' ');
                }
                print_obs(out, x);
            }
            out.push(')');
        }
    }
}

pub type Kvs = Vec<(String, Obs)>;

pub fn ok(o: Obs) -> Obs {
    L(vec![S("ok"), o])
}
pub fn err(o: Obs) -> Obs {
    L(vec![S("err"), o])
}
pub fn none() -> Obs {
    S("none")
}
pub fn some(o: Obs) -> Obs {
    L(vec![S("some"), o])
}
/// builder side only: `Some(0)` and `None` both mean that no padding is requested
pub fn opt_pad(o: Option<u8>) -> Obs {
    opt_n(o.filter(|p| *p != 0))
}
pub fn opt_n(o: Option<u8>) -> Obs {
    match o {
        None => none(),
        Some(p) => some(N(p as u128)),
    }
}

/// run `f` under catch_unwind; a panic is the token PANIC
pub fn guard<T>(f: impl FnOnce() -> T) -> Result<T, ()> {
    catch_unwind(AssertUnwindSafe(f)).map_err(|_| ())
}
/// an accessor that cannot return an error: (ok v) or PANIC
pub fn acc<T>(f: impl FnOnce() -> T, p: impl FnOnce(T) -> Obs) -> Obs {
    match guard(f) {
        Ok(v) => match guard(move || p(v)) {
            Ok(o) => ok(o),
            Err(()) => S("PANIC"),
        },
        Err(()) => S("PANIC"),
    }
}

pub fn perr(e: &RtcpParseError) -> Obs {
    use RtcpParseError::*;
    match e {
        UnsupportedVersion(v) => L(vec![S("UnsupportedVersion"), N(*v as u128)]),
        Truncated { expected, actual } => L(vec![S("Truncated"), I(*expected), I(*actual)]),
        TooLarge { expected, actual } => L(vec![S("TooLarge"), I(*expected), I(*actual)]),
        InvalidPadding => L(vec![S("InvalidPadding")]),
        SdesValueTooLarge { len, max } => L(vec![S("SdesValueTooLarge"), I(*len), N(*max as u128)]),
        SdesPrivContentTruncated { len, min } => {
            L(vec![S("SdesPrivContentTruncated"), I(*len), N(*min as u128)])
        }
        SdesPrivPrefixTooLarge { len, available } => {
            L(vec![S("SdesPrivPrefixTooLarge"), I(*len), N(*available as u128)])
        }
        WrongImplementation => L(vec![S("WrongImplementation")]),
        PacketTypeMismatch { actual, requested } => {
            L(vec![S("PacketTypeMismatch"), N(*actual as u128), N(*requested as u128)])
        }
        // an error variant this harness does not know (added by a later change to the crate): printed as
        // such, so that it shows up as a difference from the model instead of breaking the harness build
        #[allow(unreachable_patterns)]
        _ => L(vec![S("UnknownParseErrorVariant"), S("see-debug")]),
    }
}

pub fn werr(e: &RtcpWriteError) -> Obs {
    use RtcpWriteError::*;
    match e {
        OutputTooSmall(n) => L(vec![S("OutputTooSmall"), I(*n)]),
        InvalidPadding { padding } => L(vec![S("InvalidPadding"), N(*padding as u128)]),
        AppSubtypeOutOfRange { subtype, max } => {
            L(vec![S("AppSubtypeOutOfRange"), N(*subtype as u128), N(*max as u128)])
        }
        InvalidName => L(vec![S("InvalidName")]),
        DataLen32bitMultiple(n) => L(vec![S("DataLen32bitMultiple"), I(*n)]),
        TooManySources { count, max } => L(vec![S("TooManySources"), I(*count), N(*max as u128)]),
        ReasonLenTooLarge { len, max } => L(vec![S("ReasonLenTooLarge"), I(*len), N(*max as u128)]),
        CumulativeLostTooLarge { value, max } => {
            L(vec![S("CumulativeLostTooLarge"), N(*value as u128), N(*max as u128)])
        }
        TooManyReportBlocks { count, max } => {
            L(vec![S("TooManyReportBlocks"), I(*count), N(*max as u128)])
        }
        TooManySdesChunks { count, max } => L(vec![S("TooManySdesChunks"), I(*count), N(*max as u128)]),
        SdesValueTooLarge { len, max } => L(vec![S("SdesValueTooLarge"), I(*len), N(*max as u128)]),
        SdesPrivPrefixTooLarge { len, max } => {
            L(vec![S("SdesPrivPrefixTooLarge"), I(*len), N(*max as u128)])
        }
        CountOutOfRange { count, max } => L(vec![S("CountOutOfRange"), N(*count as u128), N(*max as u128)]),
        NonLastCompoundPacketPadding => L(vec![S("NonLastCompoundPacketPadding")]),
        MissingFci => L(vec![S("MissingFci")]),
        TooManyNack => L(vec![S("TooManyNack")]),
        FciWrongFeedbackPacketType => L(vec![S("FciWrongFeedbackPacketType")]),
        PayloadTypeInvalid => L(vec![S("PayloadTypeInvalid")]),
        PaddingBitsTooLarge => L(vec![S("PaddingBitsTooLarge")]),
        TooManyFir => L(vec![S("TooManyFir")]),
        #[allow(unreachable_patterns)]
        _ => L(vec![S("UnknownWriteErrorVariant"), S("see-debug")]),
    }
}

/// a fallible call: (ok ..) / (err ..) / PANIC
pub fn pres<T>(f: impl FnOnce() -> Result<T, RtcpParseError>, p: impl FnOnce(T) -> Obs) -> Obs {
    match guard(f) {
        Ok(Ok(v)) => match guard(move || p(v)) {
            Ok(o) => ok(o),
            Err(()) => S("PANIC"),
        },
        Ok(Err(e)) => err(perr(&e)),
        Err(()) => S("PANIC"),
    }
}
pub fn wres_ref(r: &Result<Result<usize, RtcpWriteError>, ()>) -> Obs {
    match r {
        Ok(Ok(n)) => ok(I(*n)),
        Ok(Err(e)) => err(werr(e)),
        Err(()) => S("PANIC"),
    }
}

pub fn wres(r: Result<Result<usize, RtcpWriteError>, ()>) -> Obs {
    match r {
        Ok(Ok(n)) => ok(I(n)),
        Ok(Err(e)) => err(werr(&e)),
        Err(()) => S("PANIC"),
    }
}

/// a slice handed out by the crate, as (offset, length) into the caller's input
pub fn rng(input: &[u8], s: &[u8]) -> Obs {
    let base = input.as_ptr() as usize;
    let p = s.as_ptr() as usize;
    if p >= base && p + s.len() <= base + input.len() {
        L(vec![S("@"), I(p - base), I(s.len())])
    } else if s.is_empty() {
        // an empty slice may legitimately point anywhere; report it at its nominal position
        L(vec![S("@"), S("EMPTY-FOREIGN"), I(0)])
    } else {
        S("FOREIGN")
    }
}

pub fn kvs_obs(k: Kvs) -> Obs {
    L(k.into_iter()
        .map(|(k, v)| L(vec![S(Box::leak(k.into_boxed_str())), v]))
        .collect())
}

// ------------------------------------------------------------------ views

fn obs_hdr<'a, P: RtcpPacketParser<'a>>(p: &P) -> Obs {
    acc(
        || p.header_data(),
        |_| {
            L(vec![
                acc(|| p.version(), |v| N(v as u128)),
                acc(|| p.type_(), |v| N(v as u128)),
                acc(|| p.count(), |v| N(v as u128)),
                acc(|| p.subtype(), |v| N(v as u128)),
                acc(|| p.length(), I),
            ])
        },
    )
}

fn obs_rb(rb: &ReportBlock) -> Obs {
    L(vec![
        acc(|| rb.ssrc(), |v| N(v as u128)),
        acc(|| rb.fraction_lost(), |v| N(v as u128)),
        acc(|| rb.cumulative_lost(), |v| N(v as u128)),
        acc(|| rb.extended_sequence_number(), |v| N(v as u128)),
        acc(|| rb.interarrival_jitter(), |v| N(v as u128)),
        acc(|| rb.last_sender_report_timestamp(), |v| N(v as u128)),
        acc(|| rb.delay_since_last_sender_report_timestamp(), |v| N(v as u128)),
    ])
}

/// drain an iterator with a cap on the number of items (an over-long iterator is reported)
/// Collect an iterator with plain `next()` calls (at most cap + 1 items), then walk fresh instances of it
/// through the adaptors a caller may equally use - `nth`, `skip`, `step_by`, `count`, `last` - and compare them
/// with what the Iterator contract derives from the collected sequence (a type may override those methods).
/// Status: 0 fine, 1 more than `cap` items, 2 an adaptor disagrees with repeated `next()`.
fn drain<T: std::fmt::Debug, I: Iterator<Item = T>>(mk: impl Fn() -> I, cap: usize) -> (Vec<T>, u8) {
    let mut v = Vec::new();
    for x in mk() {
        if v.len() > cap {
            return (v, 1);
        }
        v.push(x);
    }
    let dbg: Vec<String> = v.iter().map(|x| format!("{:?}", x)).collect();
    let n = dbg.len();
    let mut ks = vec![0usize, 1, 2, n / 2, n.saturating_sub(1), n, n + 1];
    ks.sort_unstable();
    ks.dedup();
    for k in ks {
        if mk().nth(k).map(|x| format!("{:?}", x)) != dbg.get(k).cloned() {
            return (v, 2);
        }
    }
    let stepped: Vec<String> = mk().skip(1).step_by(2).take(cap + 2).map(|x| format!("{:?}", x)).collect();
    let want: Vec<String> = dbg.iter().skip(1).step_by(2).cloned().collect();
    if stepped != want {
        return (v, 2);
    }
    let mut it = mk();
    if n > 0 {
        let first = it.next().map(|x| format!("{:?}", x));
        let rest = it.nth(n.saturating_sub(2)).map(|x| format!("{:?}", x));
        if first != dbg.first().cloned() || (n >= 2 && rest != dbg.last().cloned()) {
            return (v, 2);
        }
    }
    if mk().take(cap + 2).count() != n || mk().take(cap + 2).last().map(|x| format!("{:?}", x)) != dbg.last().cloned() {
        return (v, 2);
    }
    (v, 0)
}
fn list_or_overrun(l: Vec<Obs>, status: u8) -> Obs {
    match status {
        0 => L(l),
        1 => S("OVERRUN"),
        _ => S("ITER-MISMATCH"),
    }
}

fn view_app(input: &[u8], a: &App) -> Kvs {
    // std-only helper: must not panic; not otherwise observed
    // std-side convenience: must not panic, and must say what the byte accessor says (the name up to its first NUL)
    let std_ok = guard(|| {
        let name = a.name();
        let cut = name.iter().position(|&b| b == 0).unwrap_or(name.len());
        a.get_name_string().ok() == String::from_utf8(name[..cut].to_vec()).ok()
    });
    let mut k = vec![
        ("hdr".to_string(), obs_hdr(a)),
        ("padding".to_string(), acc(|| a.padding(), opt_n)),
        ("ssrc".to_string(), acc(|| a.ssrc(), |v| N(v as u128))),
        ("name".to_string(), acc(|| a.name(), |v| B(v.to_vec()))),
        ("data".to_string(), acc(|| a.data(), |s| rng(input, s))),
    ];
    match std_ok {
        Ok(true) => {}
        Ok(false) => k.push(("std".to_string(), S("STRING-MISMATCH"))),
        Err(()) => k.push(("std".to_string(), S("PANIC"))),
    }
    k
}

fn view_bye(input: &[u8], b: &Bye) -> Kvs {
    // the string view of the reason is the byte view decoded: present exactly when reason() is, same bytes
    let std_ok = guard(|| {
        b.get_reason_string().map(|r| r.ok()) == b.reason().map(|r| String::from_utf8(r.to_vec()).ok())
    });
    let cap = input.len();
    let mut k = vec![
        ("hdr".to_string(), obs_hdr(b)),
        ("padding".to_string(), acc(|| b.padding(), opt_n)),
        (
            "ssrcs".to_string(),
            acc(
                || drain(|| b.ssrcs(), cap),
                |(v, o)| list_or_overrun(v.into_iter().map(|x| N(x as u128)).collect(), o),
            ),
        ),
        (
            "reason".to_string(),
            acc(
                || b.reason(),
                |r| match r {
                    None => none(),
                    Some(s) => some(rng(input, s)),
                },
            ),
        ),
    ];
    match std_ok {
        Ok(true) => {}
        Ok(false) => k.push(("std".to_string(), S("STRING-MISMATCH"))),
        Err(()) => k.push(("std".to_string(), S("PANIC"))),
    }
    k
}

fn view_rr(input: &[u8], r: &ReceiverReport) -> Kvs {
    let cap = input.len();
    vec![
        ("hdr".to_string(), obs_hdr(r)),
        ("padding".to_string(), acc(|| r.padding(), opt_n)),
        ("n_reports".to_string(), acc(|| r.n_reports(), |v| N(v as u128))),
        ("ssrc".to_string(), acc(|| r.ssrc(), |v| N(v as u128))),
        (
            "rbs".to_string(),
            acc(
                || drain(|| r.report_blocks(), cap),
                |(v, o)| list_or_overrun(v.iter().map(obs_rb).collect(), o),
            ),
        ),
    ]
}

fn view_sr(input: &[u8], r: &SenderReport) -> Kvs {
    let cap = input.len();
    vec![
        ("hdr".to_string(), obs_hdr(r)),
        ("padding".to_string(), acc(|| r.padding(), opt_n)),
        ("n_reports".to_string(), acc(|| r.n_reports(), |v| N(v as u128))),
        ("ssrc".to_string(), acc(|| r.ssrc(), |v| N(v as u128))),
        ("ntp".to_string(), acc(|| r.ntp_timestamp(), |v| N(v as u128))),
        ("rtp".to_string(), acc(|| r.rtp_timestamp(), |v| N(v as u128))),
        ("pc".to_string(), acc(|| r.packet_count(), |v| N(v as u128))),
        ("oc".to_string(), acc(|| r.octet_count(), |v| N(v as u128))),
        (
            "rbs".to_string(),
            acc(
                || drain(|| r.report_blocks(), cap),
                |(v, o)| list_or_overrun(v.iter().map(obs_rb).collect(), o),
            ),
        ),
    ]
}

fn obs_item(input: &[u8], it: &SdesItem) -> Obs {
    // the string view of the value is the byte view decoded
    let std_ok = guard(|| it.get_value_string().ok() == String::from_utf8(it.value().to_vec()).ok());
    let mut l = vec![
        acc(|| it.type_(), |v| N(v as u128)),
        acc(|| it.length(), I),
        acc(|| it.value(), |s| rng(input, s)),
    ];
    if let Ok(false) = std_ok {
        l.push(S("STRING-MISMATCH"));
    }
    if let Ok(ty) = guard(|| it.type_()) {
        if ty == SdesItem::PRIV {
            l.push(acc(|| it.priv_prefix_len(), |v| N(v as u128)));
            l.push(acc(|| it.priv_prefix(), |s| rng(input, s)));
        }
    }
    L(l)
}

fn obs_chunk(input: &[u8], c: &SdesChunk) -> Obs {
    let cap = input.len();
    let items = match guard(|| drain(|| c.items(), cap)) {
        Ok((v, o)) => list_or_overrun(v.into_iter().map(|it| obs_item(input, it)).collect(), o),
        Err(()) => S("PANIC"),
    };
    let ssrc = match guard(|| c.ssrc()) {
        Ok(v) => N(v as u128),
        Err(()) => S("PANIC"),
    };
    L(vec![ssrc, acc(|| c.length(), I), items])
}

fn view_sdes(input: &[u8], s: &Sdes) -> Kvs {
    let cap = input.len();
    let chunks = match guard(|| drain(|| s.chunks(), cap)) {
        Ok((v, o)) => list_or_overrun(v.into_iter().map(|c| obs_chunk(input, c)).collect(), o),
        Err(()) => S("PANIC"),
    };
    vec![
        ("hdr".to_string(), obs_hdr(s)),
        ("padding".to_string(), acc(|| s.padding(), opt_n)),
        ("chunks".to_string(), chunks),
    ]
}

// ---- FCI

fn parse_sli_debug(s: &str) -> Obs {
    // "MacroBlockEntry { start: 1, count: 2, picture_id: 3 }" (derived Debug; fields are private)
    let mut nums = vec![];
    let mut cur = String::new();
    let mut in_num = false;
    let mut prev = ' ';
    for ch in s.chars() {
        if ch.is_ascii_digit() && (in_num || prev == ' ') {
            cur.push(ch);
            in_num = true;
        } else {
            if in_num {
                nums.push(cur.parse::<u128>().unwrap_or(u128::MAX));
                cur.clear();
            }
            in_num = false;
        }
        prev = ch;
    }
    if in_num {
        nums.push(cur.parse::<u128>().unwrap_or(u128::MAX));
    }
    if nums.len() == 3 {
        L(vec![N(nums[0]), N(nums[1]), N(nums[2])])
    } else {
        S("BAD-DEBUG")
    }
}

fn fci_nack(input: &[u8], n: &Nack) -> Obs {
    let cap = 5 * input.len() + 8;
    let entries = acc(
        || drain(|| n.entries(), cap),
        |(v, o)| list_or_overrun(v.into_iter().map(|x| N(x as u128)).collect(), o),
    );
    // three further next() calls after exhaustion
    let post = acc(
        || {
            let mut it = n.entries();
            let mut k = 0usize;
            while it.next().is_some() {
                k += 1;
                if k > cap {
                    break;
                }
            }
            let a = it.next();
            let b = it.next();
            let c = it.next();
            a.is_none() && b.is_none() && c.is_none()
        },
        |b| if b { S("fused") } else { S("RESUMED") },
    );
    L(vec![entries, post])
}
fn fci_fir(input: &[u8], f: &Fir) -> Obs {
    let cap = input.len() + 8;
    acc(
        || drain(|| f.entries(), cap),
        |(v, o)| {
            list_or_overrun(
                v.into_iter()
                    .map(|e| L(vec![N(e.ssrc() as u128), N(e.sequence() as u128)]))
                    .collect(),
                o,
            )
        },
    )
}
fn fci_sli(input: &[u8], s: &Sli) -> Obs {
    let cap = input.len() + 8;
    acc(
        || drain(|| s.lost_macroblocks(), cap),
        |(v, o)| list_or_overrun(v.into_iter().map(|e| parse_sli_debug(&format!("{:?}", e))).collect(), o),
    )
}
fn fci_rpsi(input: &[u8], r: &Rpsi) -> Obs {
    L(vec![
        acc(|| r.payload_type(), |v| N(v as u128)),
        acc(|| r.bit_string(), |(s, bits)| L(vec![rng(input, s), I(bits)])),
    ])
}

macro_rules! fcis {
    ($input:expr, $fb:expr) => {
        L(vec![
            pres(|| $fb.parse_fci::<Nack>(), |f| fci_nack($input, &f)),
            pres(|| $fb.parse_fci::<Fir>(), |f| fci_fir($input, &f)),
            pres(|| $fb.parse_fci::<Sli>(), |f| fci_sli($input, &f)),
            pres(|| $fb.parse_fci::<Rpsi>(), |f| fci_rpsi($input, &f)),
            pres(|| $fb.parse_fci::<Pli>(), |_f| S("pli")),
        ])
    };
}

fn view_tfb(input: &[u8], f: &TransportFeedback) -> Kvs {
    vec![
        ("hdr".to_string(), obs_hdr(f)),
        ("padding".to_string(), acc(|| f.padding(), opt_n)),
        ("sender".to_string(), acc(|| f.sender_ssrc(), |v| N(v as u128))),
        ("media".to_string(), acc(|| f.media_ssrc(), |v| N(v as u128))),
        ("fci".to_string(), fcis!(input, f)),
    ]
}
fn view_pfb(input: &[u8], f: &PayloadFeedback) -> Kvs {
    vec![
        ("hdr".to_string(), obs_hdr(f)),
        ("padding".to_string(), acc(|| f.padding(), opt_n)),
        ("sender".to_string(), acc(|| f.sender_ssrc(), |v| N(v as u128))),
        ("media".to_string(), acc(|| f.media_ssrc(), |v| N(v as u128))),
        ("fci".to_string(), fcis!(input, f)),
    ]
}
fn view_unknown(input: &[u8], u: &Unknown) -> Kvs {
    vec![
        ("hdr".to_string(), obs_hdr(u)),
        ("data".to_string(), match guard(|| u.data()) {
            Ok(s) => rng(input, s),
            Err(()) => S("PANIC"),
        }),
    ]
}

fn obs_packet(input: &[u8], p: &Packet) -> Obs {
    let (name, kvs) = match p {
        Packet::App(a) => ("App", view_app(input, a)),
        Packet::Bye(a) => ("Bye", view_bye(input, a)),
        Packet::Rr(a) => ("Rr", view_rr(input, a)),
        Packet::Sdes(a) => ("Sdes", view_sdes(input, a)),
        Packet::Sr(a) => ("Sr", view_sr(input, a)),
        Packet::TransportFeedback(a) => ("Tfb", view_tfb(input, a)),
        Packet::PayloadFeedback(a) => ("Pfb", view_pfb(input, a)),
        Packet::Unknown(a) => ("Unknown", view_unknown(input, a)),
    };
    L(vec![S(name), kvs_obs(kvs)])
}

// ---- conversions: by reference (try_as / TryFrom<&Packet>) and by value (TryFrom<Packet>)

macro_rules! conv_ref {
    ($input:expr, $p:expr, $ty:ty, $variant:ident, $name:expr, $view:ident) => {
        pres(
            || $p.try_as::<$ty>(),
            |q| {
                if let Packet::$variant(orig) = $p {
                    if *orig == q {
                        return S("same");
                    }
                }
                L(vec![S($name), kvs_obs($view($input, &q))])
            },
        )
    };
}
macro_rules! conv_val {
    ($input:expr, $p:expr, $ty:ty, $variant:ident, $name:expr, $view:ident) => {{
        // TryFrom<Packet> consumes the packet: parse a fresh one for every target
        match guard(|| Packet::parse($input)) {
            Ok(Ok(fresh)) => pres(
                || <$ty>::try_from(fresh),
                |q| {
                    if let Packet::$variant(orig) = $p {
                        if *orig == q {
                            return S("same");
                        }
                    }
                    L(vec![S($name), kvs_obs($view($input, &q))])
                },
            ),
            _ => S("REPARSE-FAILED"),
        }
    }};
}

fn obs_conv(input: &[u8], p: &Packet) -> (Obs, Obs) {
    let r = L(vec![
        conv_ref!(input, p, App, App, "App", view_app),
        conv_ref!(input, p, Bye, Bye, "Bye", view_bye),
        conv_ref!(input, p, ReceiverReport, Rr, "Rr", view_rr),
        conv_ref!(input, p, Sdes, Sdes, "Sdes", view_sdes),
        conv_ref!(input, p, SenderReport, Sr, "Sr", view_sr),
        conv_ref!(input, p, TransportFeedback, TransportFeedback, "Tfb", view_tfb),
        conv_ref!(input, p, PayloadFeedback, PayloadFeedback, "Pfb", view_pfb),
    ]);
    let v = L(vec![
        conv_val!(input, p, App, App, "App", view_app),
        conv_val!(input, p, Bye, Bye, "Bye", view_bye),
        conv_val!(input, p, ReceiverReport, Rr, "Rr", view_rr),
        conv_val!(input, p, Sdes, Sdes, "Sdes", view_sdes),
        conv_val!(input, p, SenderReport, Sr, "Sr", view_sr),
        conv_val!(input, p, TransportFeedback, TransportFeedback, "Tfb", view_tfb),
        conv_val!(input, p, PayloadFeedback, PayloadFeedback, "Pfb", view_pfb),
    ]);
    (r, v)
}

macro_rules! uconv_ref {
    ($input:expr, $u:expr, $ty:ty, $name:expr, $view:ident) => {
        pres(|| $u.try_as::<$ty>(), |q| L(vec![S($name), kvs_obs($view($input, &q))]))
    };
}
macro_rules! uconv_val {
    ($input:expr, $ty:ty, $name:expr, $view:ident) => {{
        match guard(|| Unknown::parse($input)) {
            Ok(Ok(fresh)) => pres(|| <$ty>::try_from(fresh), |q| L(vec![S($name), kvs_obs($view($input, &q))])),
            _ => S("REPARSE-FAILED"),
        }
    }};
}
// the same conversions on an unknown packet wrapped as Packet::Unknown (Packet::from(unknown)): the packet
// type may then be one of the known ones, which Packet::parse never puts in that variant
macro_rules! pconv_val {
    ($input:expr, $ty:ty, $name:expr, $view:ident) => {{
        match guard(|| Unknown::parse($input)) {
            Ok(Ok(fresh)) => {
                let wrapped = Packet::from(fresh);
                pres(|| <$ty>::try_from(wrapped), |q| L(vec![S($name), kvs_obs($view($input, &q))]))
            }
            _ => S("REPARSE-FAILED"),
        }
    }};
}
fn obs_pconv(input: &[u8]) -> Option<(Obs, Obs)> {
    let u = match guard(|| Unknown::parse(input)) {
        Ok(Ok(u)) => u,
        _ => return None,
    };
    let p = Packet::from(u);
    let r = L(vec![
        pres(|| p.try_as::<App>(), |q| L(vec![S("App"), kvs_obs(view_app(input, &q))])),
        pres(|| p.try_as::<Bye>(), |q| L(vec![S("Bye"), kvs_obs(view_bye(input, &q))])),
        pres(|| p.try_as::<ReceiverReport>(), |q| L(vec![S("Rr"), kvs_obs(view_rr(input, &q))])),
        pres(|| p.try_as::<Sdes>(), |q| L(vec![S("Sdes"), kvs_obs(view_sdes(input, &q))])),
        pres(|| p.try_as::<SenderReport>(), |q| L(vec![S("Sr"), kvs_obs(view_sr(input, &q))])),
        pres(|| p.try_as::<TransportFeedback>(), |q| L(vec![S("Tfb"), kvs_obs(view_tfb(input, &q))])),
        pres(|| p.try_as::<PayloadFeedback>(), |q| L(vec![S("Pfb"), kvs_obs(view_pfb(input, &q))])),
    ]);
    let v = L(vec![
        pconv_val!(input, App, "App", view_app),
        pconv_val!(input, Bye, "Bye", view_bye),
        pconv_val!(input, ReceiverReport, "Rr", view_rr),
        pconv_val!(input, Sdes, "Sdes", view_sdes),
        pconv_val!(input, SenderReport, "Sr", view_sr),
        pconv_val!(input, TransportFeedback, "Tfb", view_tfb),
        pconv_val!(input, PayloadFeedback, "Pfb", view_pfb),
    ]);
    Some((r, v))
}

fn obs_uconv(input: &[u8], u: &Unknown) -> (Obs, Obs) {
    let r = L(vec![
        uconv_ref!(input, u, App, "App", view_app),
        uconv_ref!(input, u, Bye, "Bye", view_bye),
        uconv_ref!(input, u, ReceiverReport, "Rr", view_rr),
        uconv_ref!(input, u, Sdes, "Sdes", view_sdes),
        uconv_ref!(input, u, SenderReport, "Sr", view_sr),
        uconv_ref!(input, u, TransportFeedback, "Tfb", view_tfb),
        uconv_ref!(input, u, PayloadFeedback, "Pfb", view_pfb),
    ]);
    let v = L(vec![
        uconv_val!(input, App, "App", view_app),
        uconv_val!(input, Bye, "Bye", view_bye),
        uconv_val!(input, ReceiverReport, "Rr", view_rr),
        uconv_val!(input, Sdes, "Sdes", view_sdes),
        uconv_val!(input, SenderReport, "Sr", view_sr),
        uconv_val!(input, TransportFeedback, "Tfb", view_tfb),
        uconv_val!(input, PayloadFeedback, "Pfb", view_pfb),
    ]);
    (r, v)
}

// ------------------------------------------------------------------ third-party packet family

/// A packet type defined outside the crate on the public helpers, parameterised by type number and
/// minimum length (cf. tests/custom_packet.rs).
#[derive(Clone, Debug, PartialEq, Eq)]
pub struct Custom<'a, const PT: u8, const MIN: usize> {
    data: &'a [u8],
}
impl<'a, const PT: u8, const MIN: usize> RtcpPacket for Custom<'a, PT, MIN> {
    const MIN_PACKET_LEN: usize = MIN;
    const PACKET_TYPE: u8 = PT;
}
impl<'a, const PT: u8, const MIN: usize> RtcpPacketParser<'a> for Custom<'a, PT, MIN> {
    fn parse(data: &'a [u8]) -> Result<Self, RtcpParseError> {
        parser::check_packet::<Self>(data)?;
        Ok(Self { data })
    }
    fn header_data(&self) -> [u8; 4] {
        self.data[..4].try_into().unwrap()
    }
}
impl<'a, const PT: u8, const MIN: usize> Custom<'a, PT, MIN> {
    pub fn padding(&self) -> Option<u8> {
        parser::parse_padding(self.data)
    }
}
#[derive(Debug)]
pub struct CustomBuilder<const PT: u8, const MIN: usize> {
    pub count: u8,
    pub padding: u8,
    pub payload: Vec<u8>,
}
impl<const PT: u8, const MIN: usize> RtcpPacketWriter for CustomBuilder<PT, MIN> {
    fn calculate_size(&self) -> Result<usize, RtcpWriteError> {
        writer::check_padding(self.padding)?;
        Ok(4 + self.payload.len() + self.padding as usize)
    }
    fn write_into_unchecked(&self, buf: &mut [u8]) -> usize {
        writer::write_header_unchecked::<Custom<PT, MIN>>(self.padding, self.count, buf);
        let mut end = 4 + self.payload.len();
        buf[4..end].copy_from_slice(&self.payload);
        end += writer::write_padding_unchecked(self.padding, &mut buf[end..]);
        end
    }
    /// A third-party writer may report "no padding" as `None` or as `Some(0)`: the types with an odd number do
    /// the latter, the others the former.  Neither requests padding.
    fn get_padding(&self) -> Option<u8> {
        if self.padding == 0 && PT % 2 == 0 {
            None
        } else {
            Some(self.padding)
        }
    }
}

/// dispatch a runtime (pt, min) to the const-generic family
macro_rules! with_custom {
    ($pt:expr, $min:expr, $f:ident, $($arg:expr),*) => {
        with_custom!(@pts $pt, $min, $f, ($($arg),*), [0, 77, 192, 199, 207, 210, 242, 255])
    };
    (@pts $pt:expr, $min:expr, $f:ident, $args:tt, [$($p:literal),*]) => {
        match $pt {
            $( $p => with_custom!(@mins $p, $min, $f, $args, [4, 8, 12, 16, 20, 28]), )*
            _ => None,
        }
    };
    (@mins $p:literal, $min:expr, $f:ident, $args:tt, [$($m:literal),*]) => {
        match $min {
            $( $m => Some($f::<$p, $m> $args), )*
            _ => None,
        }
    };
}

fn custom_parse_obs<const PT: u8, const MIN: usize>(input: &[u8]) -> Kvs {
    let r = pres(
        || Custom::<PT, MIN>::parse(input),
        |c| L(vec![obs_hdr(&c), acc(|| c.padding(), opt_n)]),
    );
    let via = pres(
        || Packet::parse(input),
        |p| {
            let name = match &p {
                Packet::App(_) => "App",
                Packet::Bye(_) => "Bye",
                Packet::Rr(_) => "Rr",
                Packet::Sdes(_) => "Sdes",
                Packet::Sr(_) => "Sr",
                Packet::TransportFeedback(_) => "Tfb",
                Packet::PayloadFeedback(_) => "Pfb",
                Packet::Unknown(_) => "Unknown",
            };
            let second = match &p {
                Packet::Unknown(u) => pres(|| Custom::<PT, MIN>::parse(u.data()), |_| S("custom")),
                _ => S("known"),
            };
            L(vec![S(name), second])
        },
    );
    vec![("r".to_string(), r), ("via_packet".to_string(), via)]
}

// ------------------------------------------------------------------ parse entries

pub fn run_compound(input: &[u8]) -> Kvs {
    let mut out: Kvs = vec![];
    let r = guard(|| Compound::parse(input));
    match r {
        Err(()) => out.push(("r".to_string(), S("PANIC"))),
        Ok(Err(e)) => out.push(("r".to_string(), err(perr(&e)))),
        Ok(Ok(mut c)) => {
            out.push(("r".to_string(), ok(S("compound"))));
            let cap = input.len() / 4 + 1;
            let mut items = vec![];
            let mut n = 0usize;
            let mut failed = false;
            // ranges inside each yielded packet are reported relative to that packet's own first
            // byte: the tile start is tracked from the length() of the packets yielded so far
            let mut tile = 0usize;
            let item_obs = |r: Result<Packet, RtcpParseError>, tile: &mut usize| -> Obs {
                let base = &input[(*tile).min(input.len())..];
                match r {
                    Ok(p) => {
                        let o = ok(obs_packet(base, &p));
                        *tile += guard(|| p.length()).unwrap_or(0);
                        o
                    }
                    Err(e) => err(perr(&e)),
                }
            };
            loop {
                if n >= cap {
                    items.push(S("FUEL"));
                    failed = true;
                    break;
                }
                match guard(|| c.next()) {
                    Err(()) => {
                        items.push(S("PANIC"));
                        failed = true;
                        break;
                    }
                    Ok(None) => {
                        items.push(none());
                        break;
                    }
                    Ok(Some(r)) => {
                        items.push(some(item_obs(r, &mut tile)));
                        n += 1;
                    }
                }
            }
            if !failed {
                for _ in 0..3 {
                    match guard(|| c.next()) {
                        Err(()) => {
                            items.push(S("PANIC"));
                            break;
                        }
                        Ok(None) => items.push(none()),
                        Ok(Some(r)) => items.push(some(item_obs(r, &mut tile))),
                    }
                }
            }
            if !failed {
                // the same walk through nth / skip / step_by / count / last on fresh iterators
                let walk = guard(|| drain(|| Compound::parse(input).unwrap(), cap + 4).1);
                match walk {
                    Ok(0) => {}
                    Ok(1) => items.push(S("OVERRUN")),
                    Ok(_) => items.push(S("ITER-MISMATCH")),
                    Err(()) => items.push(S("PANIC")),
                }
            }
            out.push(("items".to_string(), L(items)));
        }
    }
    out
}

pub fn run_packet(input: &[u8]) -> Kvs {
    let mut out: Kvs = vec![];
    match guard(|| Packet::parse(input)) {
        Err(()) => out.push(("r".to_string(), S("PANIC"))),
        Ok(Err(e)) => out.push(("r".to_string(), err(perr(&e)))),
        Ok(Ok(p)) => {
            out.push(("r".to_string(), ok(obs_packet(input, &p))));
            // Packet::try_as / TryFrom<Packet> for every variant, the unknown one included
            let (r, v) = obs_conv(input, &p);
            out.push(("conv".to_string(), r));
            out.push(("convv".to_string(), v));
        }
    }
    out
}

macro_rules! run_typed {
    ($input:expr, $ty:ty, $name:expr, $view:ident) => {{
        vec![(
            "r".to_string(),
            pres(|| <$ty>::parse($input), |v| L(vec![S($name), kvs_obs($view($input, &v))])),
        )]
    }};
}

fn run_unknown(input: &[u8]) -> Kvs {
    let mut out: Kvs = vec![];
    match guard(|| Unknown::parse(input)) {
        Err(()) => out.push(("r".to_string(), S("PANIC"))),
        Ok(Err(e)) => out.push(("r".to_string(), err(perr(&e)))),
        Ok(Ok(u)) => {
            out.push(("r".to_string(), ok(L(vec![S("Unknown"), kvs_obs(view_unknown(input, &u))]))));
            let (r, v) = obs_uconv(input, &u);
            out.push(("conv".to_string(), r));
            out.push(("convv".to_string(), v));
            if let Some((r, v)) = obs_pconv(input) {
                out.push(("pconv".to_string(), r));
                out.push(("pconvv".to_string(), v));
            }
        }
    }
    out
}

fn run_parse(entry: &str, input: &[u8]) -> Result<Kvs, String> {
    let parts: Vec<&str> = entry.split(':').collect();
    Ok(match parts.as_slice() {
        ["compound"] => run_compound(input),
        ["packet"] => run_packet(input),
        ["app"] => run_typed!(input, App, "App", view_app),
        ["bye"] => run_typed!(input, Bye, "Bye", view_bye),
        ["rr"] => run_typed!(input, ReceiverReport, "Rr", view_rr),
        ["sdes"] => run_typed!(input, Sdes, "Sdes", view_sdes),
        ["sr"] => run_typed!(input, SenderReport, "Sr", view_sr),
        ["tfb"] => run_typed!(input, TransportFeedback, "Tfb", view_tfb),
        ["pfb"] => run_typed!(input, PayloadFeedback, "Pfb", view_pfb),
        ["unknown"] => run_unknown(input),
        ["rb"] => vec![("r".to_string(), pres(|| ReportBlock::parse(input), |rb| obs_rb(&rb)))],
        ["fci", "nack"] => vec![("r".to_string(), pres(|| Nack::parse(input), |f| fci_nack(input, &f)))],
        ["fci", "fir"] => vec![("r".to_string(), pres(|| Fir::parse(input), |f| fci_fir(input, &f)))],
        ["fci", "sli"] => vec![("r".to_string(), pres(|| Sli::parse(input), |f| fci_sli(input, &f)))],
        ["fci", "rpsi"] => vec![("r".to_string(), pres(|| Rpsi::parse(input), |f| fci_rpsi(input, &f)))],
        ["fci", "pli"] => vec![("r".to_string(), pres(|| Pli::parse(input), |_f| S("pli")))],
        ["custom", pt, min] => {
            let pt: u8 = pt.parse().map_err(|_| "bad pt".to_string())?;
            let min: usize = min.parse().map_err(|_| "bad min".to_string())?;
            with_custom!(pt, min, custom_parse_obs, input).ok_or("custom family".to_string())?
        }
        _ => return Err(format!("bad entry {}", entry)),
    })
}

// ------------------------------------------------------------------ case tokens and configurations

pub struct Toks<'a> {
    pub it: std::vec::IntoIter<&'a str>,
}
impl<'a> Toks<'a> {
    pub fn next(&mut self) -> Result<&'a str, String> {
        self.it.next().ok_or("unexpected end of case".to_string())
    }
    pub fn num<T: std::str::FromStr>(&mut self) -> Result<T, String> {
        let s = self.next()?;
        s.parse::<T>().map_err(|_| format!("bad number {}", s))
    }
    pub fn hex(&mut self) -> Result<Vec<u8>, String> {
        unhex(self.next()?)
    }
}
pub fn unhex(s: &str) -> Result<Vec<u8>, String> {
    if s == "-" {
        return Ok(vec![]);
    }
    if s.len() % 2 != 0 {
        return Err("odd hex".to_string());
    }
    let b = s.as_bytes();
    let hv = |c: u8| -> Result<u8, String> {
        match c {
            b'0'..=b'9' => Ok(c - b'0'),
            b'a'..=b'f' => Ok(c - b'a' + 10),
            _ => Err("bad hex".to_string()),
        }
    };
    let mut v = Vec::with_capacity(s.len() / 2);
    for i in 0..s.len() / 2 {
        v.push(hv(b[2 * i])? * 16 + hv(b[2 * i + 1])?);
    }
    Ok(v)
}
pub fn utf8(b: Vec<u8>) -> Result<String, String> {
    String::from_utf8(b).map_err(|_| "not utf-8".to_string())
}

#[derive(Debug, Clone)]
pub struct RbCfg {
    pub ssrc: u32,
    pub fraction: u8,
    pub cumulative: u32,
    pub esn: u32,
    pub jitter: u32,
    pub lsr: u32,
    pub dlsr: u32,
}
impl RbCfg {
    /// The setters are independent: the order they are called in (and calling one twice, first with another
    /// value) must not matter.  The order is chosen from the block's own values so that every order occurs and a
    /// case replays identically.
    pub fn builder(&self) -> ReportBlockBuilder {
        let b = ReportBlock::builder(self.ssrc);
        match (self.jitter ^ self.esn) % 4 {
            0 => b
                .fraction_lost(self.fraction)
                .cumulative_lost(self.cumulative)
                .extended_sequence_number(self.esn)
                .interarrival_jitter(self.jitter)
                .last_sender_report_timestamp(self.lsr)
                .delay_since_last_sender_report_timestamp(self.dlsr),
            1 => b
                .delay_since_last_sender_report_timestamp(self.dlsr)
                .last_sender_report_timestamp(self.lsr)
                .interarrival_jitter(self.jitter)
                .extended_sequence_number(self.esn)
                .cumulative_lost(self.cumulative)
                .fraction_lost(self.fraction),
            2 => b
                .last_sender_report_timestamp(self.lsr.wrapping_add(1))
                .cumulative_lost(self.cumulative)
                .delay_since_last_sender_report_timestamp(self.dlsr)
                .fraction_lost(self.fraction.wrapping_add(1))
                .interarrival_jitter(self.jitter)
                .last_sender_report_timestamp(self.lsr)
                .extended_sequence_number(self.esn)
                .fraction_lost(self.fraction),
            _ => b
                .interarrival_jitter(self.jitter)
                .delay_since_last_sender_report_timestamp(self.dlsr)
                .extended_sequence_number(self.esn)
                .last_sender_report_timestamp(self.lsr)
                .fraction_lost(self.fraction)
                .cumulative_lost(self.cumulative),
        }
    }
}
#[derive(Debug, Clone)]
pub struct ItemCfg {
    pub ty: u8,
    pub prefix: Vec<u8>,
    pub value: String,
}
#[derive(Debug, Clone)]
pub struct ChunkCfg {
    pub ssrc: u32,
    pub items: Vec<ItemCfg>,
}
#[derive(Debug, Clone)]
pub enum FciCfg {
    Nack(Vec<u16>),
    Fir(Vec<(u32, u8)>),
    Sli(Vec<(u16, u16, u8)>),
    Rpsi(u8, Vec<u8>, u8),
    Pli,
}
#[derive(Debug, Clone)]
pub enum Member {
    Sr { pad: u8, ssrc: u32, ntp: u64, rtp: u32, pc: u32, oc: u32, blocks: Vec<RbCfg> },
    Rr { pad: u8, ssrc: u32, blocks: Vec<RbCfg> },
    App { pad: u8, ssrc: u32, subtype: u8, name: String, data: Vec<u8> },
    Bye { pad: u8, sources: Vec<u32>, reason: String },
    Sdes { pad: u8, chunks: Vec<ChunkCfg> },
    Fb { transport: bool, pad: u8, sender: u32, media: u32, fci: FciCfg },
    Unk { pad: u8, ty: u8, count: u8, data: Vec<u8> },
    Custom { pt: u8, min: usize, count: u8, pad: u8, payload: Vec<u8> },
    Compound(Vec<Member>),
}

pub fn parse_rb(t: &mut Toks) -> Result<RbCfg, String> {
    Ok(RbCfg {
        ssrc: t.num()?,
        fraction: t.num()?,
        cumulative: t.num()?,
        esn: t.num()?,
        jitter: t.num()?,
        lsr: t.num()?,
        dlsr: t.num()?,
    })
}
pub fn parse_item(t: &mut Toks) -> Result<ItemCfg, String> {
    Ok(ItemCfg { ty: t.num()?, prefix: t.hex()?, value: utf8(t.hex()?)? })
}
pub fn parse_chunk(t: &mut Toks) -> Result<ChunkCfg, String> {
    let ssrc = t.num()?;
    let n: usize = t.num()?;
    let mut items = vec![];
    for _ in 0..n {
        items.push(parse_item(t)?);
    }
    Ok(ChunkCfg { ssrc, items })
}
pub fn parse_fci(t: &mut Toks) -> Result<FciCfg, String> {
    Ok(match t.next()? {
        "nack" => {
            let n: usize = t.num()?;
            let mut v = vec![];
            for _ in 0..n {
                v.push(t.num()?);
            }
            FciCfg::Nack(v)
        }
        "fir" => {
            let n: usize = t.num()?;
            let mut v = vec![];
            for _ in 0..n {
                v.push((t.num()?, t.num()?));
            }
            FciCfg::Fir(v)
        }
        "sli" => {
            let n: usize = t.num()?;
            let mut v = vec![];
            for _ in 0..n {
                v.push((t.num()?, t.num()?, t.num()?));
            }
            FciCfg::Sli(v)
        }
        "rpsi" => FciCfg::Rpsi(t.num()?, t.hex()?, t.num()?),
        "pli" => FciCfg::Pli,
        s => return Err(format!("bad fci {}", s)),
    })
}
pub fn parse_member(t: &mut Toks) -> Result<Member, String> {
    Ok(match t.next()? {
        "sr" => {
            let pad = t.num()?;
            let ssrc = t.num()?;
            let ntp = t.num()?;
            let rtp = t.num()?;
            let pc = t.num()?;
            let oc = t.num()?;
            let n: usize = t.num()?;
            let mut blocks = vec![];
            for _ in 0..n {
                blocks.push(parse_rb(t)?);
            }
            Member::Sr { pad, ssrc, ntp, rtp, pc, oc, blocks }
        }
        "rr" => {
            let pad = t.num()?;
            let ssrc = t.num()?;
            let n: usize = t.num()?;
            let mut blocks = vec![];
            for _ in 0..n {
                blocks.push(parse_rb(t)?);
            }
            Member::Rr { pad, ssrc, blocks }
        }
        "app" => Member::App {
            pad: t.num()?,
            ssrc: t.num()?,
            subtype: t.num()?,
            name: utf8(t.hex()?)?,
            data: t.hex()?,
        },
        "bye" => {
            let pad = t.num()?;
            let n: usize = t.num()?;
            let mut sources = vec![];
            for _ in 0..n {
                sources.push(t.num()?);
            }
            Member::Bye { pad, sources, reason: utf8(t.hex()?)? }
        }
        "sdes" => {
            let pad = t.num()?;
            let n: usize = t.num()?;
            let mut chunks = vec![];
            for _ in 0..n {
                chunks.push(parse_chunk(t)?);
            }
            Member::Sdes { pad, chunks }
        }
        "fb" => {
            let transport = match t.next()? {
                "t" => true,
                "p" => false,
                s => return Err(format!("bad kind {}", s)),
            };
            Member::Fb { transport, pad: t.num()?, sender: t.num()?, media: t.num()?, fci: parse_fci(t)? }
        }
        "unk" => Member::Unk { pad: t.num()?, ty: t.num()?, count: t.num()?, data: t.hex()? },
        "custom" => Member::Custom {
            pt: t.num()?,
            min: t.num()?,
            count: t.num()?,
            pad: t.num()?,
            payload: t.hex()?,
        },
        "compound" => {
            let n: usize = t.num()?;
            let mut ms = vec![];
            for _ in 0..n {
                ms.push(parse_member(t)?);
            }
            Member::Compound(ms)
        }
        s => return Err(format!("bad member {}", s)),
    })
}

// ------------------------------------------------------------------ building the real builders

/// object-safe view of a concrete writer, including the provided `write_into`
pub trait W {
    fn calc(&self) -> Result<usize, RtcpWriteError>;
    fn pad(&self) -> Option<u8>;
    fn write(&self, buf: &mut [u8]) -> Result<usize, RtcpWriteError>;
    fn write_unchecked(&self, buf: &mut [u8]) -> usize;
}
/// One impl per concrete builder type, so that every call below is written - and resolved - the way a user of
/// the crate writes it: method syntax on the concrete type.  (A blanket impl over `T: RtcpPacketWriter` would
/// always reach the trait's methods and never an inherent method of the same name on one builder.)
macro_rules! impl_w {
    ($([$($g:tt)*] $t:ty),* $(,)?) => { $(
        impl<$($g)*> W for $t {
            fn calc(&self) -> Result<usize, RtcpWriteError> {
                self.calculate_size()
            }
            fn pad(&self) -> Option<u8> {
                self.get_padding()
            }
            fn write(&self, buf: &mut [u8]) -> Result<usize, RtcpWriteError> {
                self.write_into(buf)
            }
            fn write_unchecked(&self, buf: &mut [u8]) -> usize {
                self.write_into_unchecked(buf)
            }
        }
    )* };
}
impl_w!(
    [] SenderReportBuilder,
    [] ReceiverReportBuilder,
    ['a] AppBuilder<'a>,
    ['a] ByeBuilder<'a>,
    ['a] SdesBuilder<'a>,
    ['a] TransportFeedbackBuilder<'a>,
    ['a] PayloadFeedbackBuilder<'a>,
    ['a] UnknownBuilder<'a>,
    ['a] CompoundBuilder<'a>,
    ['a] PacketBuilder<'a>,
    [const PT: u8, const MIN: usize] CustomBuilder<PT, MIN>,
);

pub fn item_builder(c: &ItemCfg) -> SdesItemBuilder<'_> {
    let b = SdesItem::builder(c.ty, c.value.as_str());
    if c.prefix.is_empty() {
        b
    } else {
        b.prefix(c.prefix.as_slice())
    }
}
pub fn chunk_builder(c: &ChunkCfg) -> SdesChunkBuilder<'_> {
    let mut b = SdesChunk::builder(c.ssrc);
    for it in c.items.iter() {
        b = b.add_item(item_builder(it));
    }
    b
}

pub fn nack_builder(v: &[u16]) -> NackBuilder {
    let mut b = Nack::builder();
    for s in v {
        b = b.add_rtp_sequence(*s);
    }
    b
}
pub fn fir_builder(v: &[(u32, u8)]) -> FirBuilder {
    let mut b = Fir::builder();
    for (s, q) in v {
        b = b.add_ssrc(*s, *q);
    }
    b
}
pub fn sli_builder(v: &[(u16, u16, u8)]) -> SliBuilder {
    let mut b = Sli::builder();
    for (a, c, p) in v {
        b = b.add_lost_macroblock(*a, *c, *p);
    }
    b
}
pub fn rpsi_builder(pt: u8, bits: &[u8], ov: u8) -> RpsiBuilder<'static> {
    let b = Rpsi::builder().payload_type(pt);
    if bits.is_empty() && ov == 0 {
        b.native_data_owned(Vec::<u8>::new(), 0)
    } else {
        b.native_data_owned(bits.to_vec(), ov)
    }
}

macro_rules! fb_with_fci {
    ($ctor:path, $fci:expr) => {
        match $fci {
            FciCfg::Nack(v) => $ctor(nack_builder(v)),
            FciCfg::Fir(v) => $ctor(fir_builder(v)),
            FciCfg::Sli(v) => $ctor(sli_builder(v)),
            FciCfg::Rpsi(pt, bits, ov) => $ctor(rpsi_builder(*pt, bits, *ov)),
            FciCfg::Pli => $ctor(Pli::builder()),
        }
    };
}

fn custom_box<'a, const PT: u8, const MIN: usize>(count: u8, pad: u8, payload: &[u8]) -> Box<dyn W + 'a> {
    Box::new(CustomBuilder::<PT, MIN> { count, padding: pad, payload: payload.to_vec() })
}
fn custom_add<'a, const PT: u8, const MIN: usize>(
    cb: CompoundBuilder<'a>,
    count: u8,
    pad: u8,
    payload: &[u8],
) -> CompoundBuilder<'a> {
    cb.add_packet(CustomBuilder::<PT, MIN> { count, padding: pad, payload: payload.to_vec() })
}

pub fn sr_builder(pad: u8, ssrc: u32, ntp: u64, rtp: u32, pc: u32, oc: u32, blocks: &[RbCfg]) -> SenderReportBuilder {
    let mut b = SenderReport::builder(ssrc)
        .padding(pad)
        .ntp_timestamp(ntp)
        .rtp_timestamp(rtp)
        .packet_count(pc)
        .octet_count(oc);
    for rb in blocks {
        b = b.add_report_block(rb.builder());
    }
    b
}
pub fn rr_builder(pad: u8, ssrc: u32, blocks: &[RbCfg]) -> ReceiverReportBuilder {
    let mut b = ReceiverReport::builder(ssrc).padding(pad);
    for rb in blocks {
        b = b.add_report_block(rb.builder());
    }
    b
}
pub fn bye_builder<'a>(pad: u8, sources: &[u32], reason: &'a str) -> ByeBuilder<'a> {
    let mut b = Bye::builder().padding(pad);
    for s in sources {
        b = b.add_source(*s);
    }
    if !reason.is_empty() {
        b = b.reason(reason);
    }
    b
}
pub fn sdes_builder<'a>(pad: u8, chunks: &'a [ChunkCfg]) -> SdesBuilder<'a> {
    let mut b = Sdes::builder().padding(pad);
    for c in chunks {
        b = b.add_chunk(chunk_builder(c));
    }
    b
}

/// apply `f` to the concrete writer for `m`
macro_rules! with_writer {
    ($m:expr, $w:ident => $body:expr) => {
        match $m {
            Member::Sr { pad, ssrc, ntp, rtp, pc, oc, blocks } => {
                let $w = sr_builder(*pad, *ssrc, *ntp, *rtp, *pc, *oc, blocks);
                $body
            }
            Member::Rr { pad, ssrc, blocks } => {
                let $w = rr_builder(*pad, *ssrc, blocks);
                $body
            }
            Member::App { pad, ssrc, subtype, name, data } => {
                let $w = App::builder(*ssrc, name.as_str()).padding(*pad).subtype(*subtype).data(data.as_slice());
                $body
            }
            Member::Bye { pad, sources, reason } => {
                let $w = bye_builder(*pad, sources, reason.as_str());
                $body
            }
            Member::Sdes { pad, chunks } => {
                let $w = sdes_builder(*pad, chunks);
                $body
            }
            Member::Fb { transport: true, pad, sender, media, fci } => {
                let $w = fb_with_fci!(TransportFeedback::builder_owned, fci)
                    .padding(*pad)
                    .sender_ssrc(*sender)
                    .media_ssrc(*media);
                $body
            }
            Member::Fb { transport: false, pad, sender, media, fci } => {
                let $w = fb_with_fci!(PayloadFeedback::builder_owned, fci)
                    .padding(*pad)
                    .sender_ssrc(*sender)
                    .media_ssrc(*media);
                $body
            }
            Member::Unk { pad, ty, count, data } => {
                let $w = Unknown::builder(*ty, data.as_slice()).padding(*pad).count(*count);
                $body
            }
            Member::Custom { .. } | Member::Compound(_) => unreachable!(),
        }
    };
}

pub fn compound_builder<'a>(ms: &'a [Member]) -> Result<CompoundBuilder<'a>, String> {
    compound_builder_q(ms, false)
}
/// `query`: after every add_packet call calculate_size() and get_padding() on the compound built so far (and on
/// nested compounds likewise) - pure calls that must not change what the finished builder announces and writes
pub fn compound_builder_q<'a>(ms: &'a [Member], query: bool) -> Result<CompoundBuilder<'a>, String> {
    let mut cb = Compound::builder();
    for m in ms {
        cb = match m {
            Member::Custom { pt, min, count, pad, payload } => {
                with_custom!(*pt, *min, custom_add, cb, *count, *pad, payload).ok_or("custom family".to_string())?
            }
            Member::Compound(inner) => cb.add_packet(compound_builder_q(inner, query)?),
            other => with_writer!(other, w => cb.add_packet(w)),
        };
        if query {
            let _ = guard(|| {
                let _ = cb.calculate_size();
                let _ = cb.get_padding();
            });
        }
    }
    Ok(cb)
}

pub fn boxed_writer<'a>(m: &'a Member) -> Result<Box<dyn W + 'a>, String> {
    Ok(match m {
        Member::Custom { pt, min, count, pad, payload } => {
            with_custom!(*pt, *min, custom_box, *count, *pad, payload).ok_or("custom family".to_string())?
        }
        Member::Compound(ms) => Box::new(compound_builder(ms)?),
        other => with_writer!(other, w => Box::new(w)),
    })
}

// ------------------------------------------------------------------ build entries

/// "a<len>:<fill>" absolute, "e<delta>:<fill>" relative to the calculated size
pub fn parse_bufs(s: &str, size: usize) -> Result<Vec<(usize, u8)>, String> {
    if s == "-" {
        return Ok(vec![]);
    }
    let mut v = vec![];
    for spec in s.split(',') {
        let (ls, fill) = spec.split_once(':').ok_or("bad buf spec")?;
        let fill = u8::from_str_radix(fill, 16).map_err(|_| "bad fill")?;
        let k: i64 = ls[1..].parse().map_err(|_| "bad buf len")?;
        let len = match &ls[..1] {
            "a" => k.max(0) as usize,
            "e" => (size as i64 + k).max(0) as usize,
            _ => return Err("bad buf spec".to_string()),
        };
        v.push((len, fill));
    }
    Ok(v)
}

fn obs_writes(bufs: &[(usize, u8)], f: impl Fn(&mut [u8]) -> Result<usize, RtcpWriteError>) -> Obs {
    let mut l = vec![];
    for (len, fill) in bufs {
        let mut buf = vec![*fill; *len];
        let r = guard(|| f(&mut buf));
        l.push(L(vec![wres(r), B(buf)]));
    }
    L(l)
}

/// a bare FCI builder used as a writer in its own right (the five FCI builders implement RtcpPacketWriter)
fn run_fci(bufspec: &str, f: &FciCfg) -> Result<Kvs, String> {
    fn go<Wr: RtcpPacketWriter>(bufspec: &str, w: Wr) -> Result<Kvs, String> {
        let size = guard(|| w.calculate_size());
        let n = match &size {
            Ok(Ok(n)) => *n,
            _ => 0,
        };
        let bufs = parse_bufs(bufspec, n)?;
        Ok(vec![("size".to_string(), wres_ref(&size)), ("writes".to_string(), obs_writes(&bufs, |b| w.write_into(b)))])
    }
    match f {
        FciCfg::Nack(v) => go(bufspec, nack_builder(v)),
        FciCfg::Fir(v) => go(bufspec, fir_builder(v)),
        FciCfg::Sli(v) => go(bufspec, sli_builder(v)),
        FciCfg::Rpsi(pt, bits, ov) => go(bufspec, rpsi_builder(*pt, bits, *ov)),
        FciCfg::Pli => go(bufspec, Pli::builder()),
    }
}

fn helper_hdr<const PT: u8, const MIN: usize>(padding: u8, count: u8, buf: &mut [u8]) -> usize {
    writer::write_header_unchecked::<Custom<PT, MIN>>(padding, count, buf)
}

/// direct calls of the public writer helpers (utils::writer) on a caller-supplied buffer of any length
fn run_helper(t: &mut Toks) -> Result<Kvs, String> {
    let one_buf = |t: &mut Toks| -> Result<Vec<u8>, String> {
        let b = parse_bufs(t.next()?, 0)?;
        if b.len() != 1 {
            return Err("helper: one buffer".to_string());
        }
        Ok(vec![b[0].1; b[0].0])
    };
    let w = match t.next()? {
        "pad" => {
            let p: u8 = t.num()?;
            let mut buf = one_buf(t)?;
            let r = guard(|| Ok(writer::write_padding_unchecked(p, &mut buf)));
            let bytes = if r.is_ok() { buf } else { vec![] };
            L(vec![wres(r), B(bytes)])
        }
        "hdr" => {
            let pt: u8 = t.num()?;
            let p: u8 = t.num()?;
            let c: u8 = t.num()?;
            let mut buf = one_buf(t)?;
            let r = guard(|| with_custom!(pt, 4usize, helper_hdr, p, c, &mut buf));
            let r = match r {
                Ok(Some(n)) => Ok(Ok(n)),
                Ok(None) => return Err("helper: type not in the third-party family".to_string()),
                Err(()) => Err(()),
            };
            let bytes = if r.is_ok() { buf } else { vec![] };
            L(vec![wres(r), B(bytes)])
        }
        "phdr" => {
            let d = t.hex()?;
            L(vec![
                acc(|| parser::parse_version(&d), |v| N(v as u128)),
                acc(|| parser::parse_padding_bit(&d), |b| S(if b { "true" } else { "false" })),
                acc(|| parser::parse_padding(&d), opt_n),
                acc(|| parser::parse_count(&d), |v| N(v as u128)),
                acc(|| parser::parse_packet_type(&d), |v| N(v as u128)),
                acc(|| parser::parse_length(&d), I),
                acc(|| parser::parse_ssrc(&d), |v| N(v as u128)),
            ])
        }
        "chk" => {
            let p: u8 = t.num()?;
            match guard(|| writer::check_padding(p)) {
                Ok(Ok(())) => ok(S("unit")),
                Ok(Err(e)) => err(werr(&e)),
                Err(()) => S("PANIC"),
            }
        }
        _ => return Err("bad helper".to_string()),
    };
    Ok(vec![("w".to_string(), w)])
}

fn run_build(bufspec: &str, m: &Member) -> Result<Kvs, String> {
    let w = boxed_writer(m)?;
    let size = guard(|| w.calc());
    let n = match &size {
        Ok(Ok(n)) => *n,
        _ => 0,
    };
    let bufs = parse_bufs(bufspec, n)?;
    let mut out: Kvs = vec![
        ("size".to_string(), wres_ref(&size)),
        (
            "get_padding".to_string(),
            match guard(|| w.pad()) {
                Ok(p) => opt_pad(p),
                Err(()) => S("PANIC"),
            },
        ),
        ("writes".to_string(), obs_writes(&bufs, |b| w.write(b))),
    ];
    let uw_len = match (&size, m) {
        (Ok(Ok(n)), _) => Some(*n + 8),
        // the one invalid configuration whose unchecked write returns 0 instead of panicking
        (Ok(Err(RtcpWriteError::FciWrongFeedbackPacketType)), Member::Fb { .. }) => Some(24),
        _ => None,
    };
    if let Some(len) = uw_len {
        // write_into_unchecked called directly on a buffer 8 bytes longer than the calculated size
        let fill = bufs.first().map(|b| b.1).unwrap_or(0);
        let mut buf = vec![fill; len];
        let r = guard(|| Ok(w.write_unchecked(&mut buf)));
        let bytes = if r.is_ok() { buf } else { vec![] };
        out.push(("uw".to_string(), L(vec![wres(r), B(bytes)])));
    }
    if let Member::Compound(ms) = m {
        // the same compound built with a size / padding query after every add_packet
        let q = compound_builder_q(ms, true)?;
        let qsize = guard(|| q.calculate_size());
        out.push(("qsize".to_string(), wres_ref(&qsize)));
        if let Some((len, fill)) = bufs.first() {
            let mut buf = vec![*fill; *len];
            let r = guard(|| q.write_into(&mut buf));
            out.push(("qwrites".to_string(), L(vec![L(vec![wres(r), B(buf)])])));
        }
    }
    // round trip through an exact-size buffer prefilled like the first buffer of the case (zero if none)
    if let Ok(Ok(n)) = size {
        let fill = bufs.first().map(|b| b.1).unwrap_or(0);
        let mut img = vec![fill; n];
        if let Ok(Ok(wn)) = guard(|| w.write(&mut img)) {
            let img = &img[..wn.min(n)];
            let rt = match m {
                Member::Compound(_) => run_compound(img),
                Member::Custom { pt, min, .. } => {
                    with_custom!(*pt, *min, custom_parse_obs, img).ok_or("custom family".to_string())?
                }
                _ => run_packet(img),
            };
            for (k, v) in rt {
                out.push((format!("rt.{}", k), v));
            }
        }
    }
    Ok(out)
}

fn run_chunk(bufspec: &str, c: &ChunkCfg) -> Result<Kvs, String> {
    let b = chunk_builder(c);
    // calculate_size is private: learn the size from a zero-length write
    let n = match guard(|| b.write_into(&mut [])) {
        Ok(Err(RtcpWriteError::OutputTooSmall(n))) => n,
        _ => 0,
    };
    let bufs = parse_bufs(bufspec, n)?;
    Ok(vec![("writes".to_string(), obs_writes(&bufs, |buf| b.write_into(buf)))])
}
fn run_item(bufspec: &str, c: &ItemCfg) -> Result<Kvs, String> {
    let b = item_builder(c);
    let n = match guard(|| b.write_into(&mut [])) {
        Ok(Err(RtcpWriteError::OutputTooSmall(n))) => n,
        _ => 0,
    };
    let bufs = parse_bufs(bufspec, n)?;
    Ok(vec![("writes".to_string(), obs_writes(&bufs, |buf| b.write_into(buf)))])
}

// ------------------------------------------------------------------ main loop

fn run_line(line: &str) -> Option<String> {
    let toks: Vec<&str> = line.split(' ').filter(|s| !s.is_empty()).collect();
    if toks.is_empty() {
        return None;
    }
    let id = toks[0];
    if toks.len() < 2 {
        return Some(format!("{}\tBADCASE=short", id));
    }
    let kind = toks[1];
    let mut t = Toks { it: toks[2..].to_vec().into_iter() };
    let res: Result<Kvs, String> = (|| match kind {
        "parse" => {
            let entry = t.next()?;
            let data = t.hex()?;
            run_parse(entry, &data)
        }
        "build" => {
            let bufs = t.next()?;
            let m = parse_member(&mut t)?;
            run_build(bufs, &m)
        }
        "chunk" => {
            let bufs = t.next()?;
            let c = parse_chunk(&mut t)?;
            run_chunk(bufs, &c)
        }
        "item" => {
            let bufs = t.next()?;
            let c = parse_item(&mut t)?;
            run_item(bufs, &c)
        }
        "hist" => hist::run_hist(&mut t),
        "fci" => {
            let bufs = t.next()?;
            let f = parse_fci(&mut t)?;
            run_fci(bufs, &f)
        }
        "helper" => run_helper(&mut t),
        _ => Err("unknown-kind".to_string()),
    })();
    let mut out = String::new();
    out.push_str(id);
    match res {
        Ok(kvs) => {
            for (k, v) in kvs {
                out.push('\t');
                out.push_str(&k);
                out.push('=');
                print_obs(&mut out, &v);
            }
        }
        Err(e) => {
            let _ = write!(out, "\tBADCASE={}", e);
        }
    }
    Some(out)
}

fn main() {
    std::panic::set_hook(Box::new(|_| {}));
    let args: Vec<String> = std::env::args().collect();
    let input: Box<dyn BufRead> = if args.len() > 1 {
        Box::new(std::io::BufReader::new(std::fs::File::open(&args[1]).expect("case file")))
    } else {
        Box::new(std::io::BufReader::new(std::io::stdin()))
    };
    let stdout = std::io::stdout();
    let mut out = std::io::BufWriter::new(stdout.lock());
    for line in input.lines() {
        let line = line.expect("read");
        if line.is_empty() || line.starts_with('#') {
            continue;
        }
        if let Some(o) = run_line(&line) {
            let _ = writeln!(out, "{}", o);
        }
    }
    let _ = out.flush();
}
