(* Reference decoders and predicates written from the RFCs, independent of the model's parsers:
   field-by-offset views (C09), compound tiling (C11), FCI decoding (C15), SDES tokenisation (C10),
   padding (C13), representability of builder configurations (C16).  Definitions only. *)
From RtcpV Require Export Spec.Views.

Definition sub (l : bytes) (off len : nat) : bytes := firstn len (skipn off l).
Definition beN (l : bytes) (off len : nat) : N := be_dec (sub l off len).
Definition byte_at (l : bytes) (off : nat) : N := nth off l 0%N.

(* ---------------------------------------------------------------- C09: fields by RFC offset *)

Definition ref_hdr (l : bytes) : obs :=
  okO (OL [okN (byte_at l 0 / 64); okN (byte_at l 1); okN (byte_at l 0 mod 32); okN (byte_at l 0 mod 32);
           okI (4 * (N.to_nat (beN l 2 2) + 1))]).
Definition ref_padding (l : bytes) : obs :=
  okO (if ((byte_at l 0 / 32) mod 2 =? 1)%N then OL [OS "some"; ON (last l 0%N)] else OS "none").
Definition ref_pad_len (l : bytes) : nat :=
  if ((byte_at l 0 / 32) mod 2 =? 1)%N then N.to_nat (last l 0%N) else 0.

Definition ref_rb (l : bytes) (off : nat) : obs :=
  OL [okN (beN l off 4); okN (byte_at l (off + 4)); okN (beN l (off + 5) 3); okN (beN l (off + 8) 4);
      okN (beN l (off + 12) 4); okN (beN l (off + 16) 4); okN (beN l (off + 20) 4)].
Definition ref_rbs (l : bytes) (start : nat) : obs :=
  okO (OL (map (fun k => ref_rb l (start + 24 * k)) (seq 0 (N.to_nat (byte_at l 0 mod 32))))).

Definition ref_view (v : variant) (l : bytes) : list kv :=
  ("hdr", ref_hdr l) ::
  match v with
  | VSr => [("padding", ref_padding l); ("n_reports", okN (byte_at l 0 mod 32)); ("ssrc", okN (beN l 4 4));
            ("ntp", okN (beN l 8 8)); ("rtp", okN (beN l 16 4)); ("pc", okN (beN l 20 4)); ("oc", okN (beN l 24 4));
            ("rbs", ref_rbs l 28)]
  | VRr => [("padding", ref_padding l); ("n_reports", okN (byte_at l 0 mod 32)); ("ssrc", okN (beN l 4 4));
            ("rbs", ref_rbs l 8)]
  | VApp => [("padding", ref_padding l); ("ssrc", okN (beN l 4 4)); ("name", okO (OB (sub l 8 4)));
             ("data", okO (obs_range 12 (length l - ref_pad_len l - 12)))]
  | VBye =>
      let n := N.to_nat (byte_at l 0 mod 32) in
      let off := 4 + 4 * n in
      [("padding", ref_padding l);
       ("ssrcs", okO (OL (map (fun k => ON (beN l (4 + 4 * k) 4)) (seq 0 n))));
       (* a reason is present when bytes remain between the sources and the padding *)
       ("reason", okO (if off + 1 + ref_pad_len l <? length l
                       then OL [OS "some"; obs_range (off + 1) (N.to_nat (byte_at l off))]
                       else OS "none"))]
  | VTfb | VPfb => [("padding", ref_padding l); ("sender", okN (beN l 4 4)); ("media", okN (beN l 8 4))]
  | VUnknown => [("data", obs_range 0 (length l))]
  | VSdes => [("padding", ref_padding l)]
  end.

(* ---------------------------------------------------------------- C11: tiling *)

(* the chain of length fields starting at [off]: Some tiles when it partitions l exactly *)
Fixpoint tiling (fuel : nat) (l : bytes) (off : nat) : option (list (nat * nat)) :=
  match fuel with
  | O => None
  | S f =>
      if off =? length l then Some []
      else if length l <? off + 4 then None
      else
        let tl := 4 * (N.to_nat (beN l (off + 2) 2) + 1) in
        if length l <? off + tl then None
        else match tiling f l (off + tl) with
             | Some r => Some ((off, tl) :: r)
             | None => None
             end
  end.
Definition tiling_of (l : bytes) : option (list (nat * nat)) :=
  match l with [] => None | _ => tiling (S (length l)) l 0 end.

(* ---------------------------------------------------------------- C15: FCI reference decoding *)

Fixpoint words (k : nat) (fuel : nat) (l : bytes) : list bytes :=
  match fuel with
  | O => []
  | S f => if length l <? k then [] else firstn k l :: words k f (skipn k l)
  end.

(* generic NACK: PID, then PID+k for each set bit k-1 of the BLP, k increasing, modulo 2^16 *)
Definition nack_word_seqs (w : bytes) : list N :=
  let pid := beN w 0 2 in
  let blp := beN w 2 2 in
  pid :: flat_map (fun k => if ((blp / 2 ^ N.of_nat (k - 1)) mod 2 =? 1)%N
                            then [((pid + N.of_nat k) mod 65536)%N] else [])
                  (seq 1 16).

Definition fci_ref (t : fci_type) (base : nat) (fci : bytes) : obs :=
  match t with
  | TNack => okO (OL [okO (OL (map ON (flat_map nack_word_seqs (words 4 (length fci) fci)))); okO (OS "fused")])
  | TFir =>
      if length fci <? 8 then OL [OS "err"; obs_perr (Truncated 8 (length fci))] else
      okO (okO (OL (map (fun w => OL [ON (beN w 0 4); ON (byte_at w 4)]) (words 8 (length fci) fci))))
  | TSli =>
      if length fci <? 4 then OL [OS "err"; obs_perr (Truncated 4 (length fci))] else
      okO (okO (OL (map (fun w => let x := beN w 0 4 in
                                  OL [ON (x / 524288); ON ((x / 64) mod 8192); ON (x mod 64)]%N)
                        (words 4 (length fci) fci))))
  | TRpsi =>
      if length fci <? 4 then OL [OS "err"; obs_perr (Truncated 4 (length fci))] else
      let pb := N.to_nat (byte_at fci 0) in
      if length fci - 2 <? pb / 8 then OL [OS "err"; obs_perr (Truncated (pb / 8 + 2) (length fci))] else
      okO (OL [okN (byte_at fci 1 mod 128);
               okO (OL [obs_range (base + 2) (length fci - 2 - pb / 8); OI (pb mod 8)])])
  | TPli =>
      if length fci =? 0 then okO (OS "pli") else OL [OS "err"; obs_perr (TooLarge 0 (length fci))]
  end.

(* what parse_fci::<F>() must return for each F on an accepted feedback packet *)
Definition fb_fci_ref (k : fb_kind) (l : bytes) : obs :=
  let fmt := (byte_at l 0 mod 32)%N in
  let fci := sub l 12 (length l - ref_pad_len l - 12) in
  OL (map (fun t =>
             if fb_kind_eqb (match t with TNack => Transport | _ => Payload end) k &&
                (fmt =? match t with TNack => 1 | TPli => 1 | TSli => 2 | TRpsi => 3 | TFir => 4 end)%N
             then fci_ref t 12 fci else errWI)
          all_fci).

(* ---------------------------------------------------------------- C13: RFC 3550 padding *)

Definition pad_packet (l : bytes) (p : nat) : bytes :=
  match l with
  | b0 :: b1 :: _ :: _ :: rest =>
      (b0 + 32)%N :: b1 :: be16 (N.of_nat ((length l + p) / 4 - 1)) ++ rest ++ zeros (p - 1) ++ [N.of_nat p]
  | _ => l
  end.

(* ---------------------------------------------------------------- C10: SDES tokenisation *)

Inductive ref_item := RItem (ty : N) (off len : nat) (prefix : option (nat * nat)).
Record ref_chunk := mk_rchunk { rc_ssrc : N; rc_len : nat; rc_items : list ref_item }.
Inductive verdict := MustAccept (cs : list ref_chunk) | MustReject | Either.

(* items of one chunk starting at absolute offset p in [0, e): returns items and the offset of the
   byte after the chunk *)
Inductive scan A := Done (a : A) | Reject | Ambiguous.
Arguments Done {A} a. Arguments Reject {A}. Arguments Ambiguous {A}.

Fixpoint ref_items (fuel : nat) (l : bytes) (e : nat) (p : nat) : scan (list ref_item * nat) :=
  match fuel with
  | O => Ambiguous
  | S f =>
      if e <=? p then Ambiguous                         (* ran out without a terminator *)
      else if (byte_at l p =? 0)%N then
        (* terminator, then zero fill up to the next 32-bit boundary *)
        let stop := pad4 (p + 1) in
        if e <? stop then Ambiguous
        else if forallb (fun b => (b =? 0)%N) (sub l p (stop - p)) then Done ([], stop) else Reject
      else if e <? p + 2 then Reject                    (* an item without its length octet *)
      else
        let len := N.to_nat (byte_at l (p + 1)) in
        if e <? p + 2 + len then Reject                 (* item overruns the packet *)
        else
          let ty := byte_at l p in
          let pre := if (ty =? 8)%N then
                       if len =? 0 then Ambiguous
                       else let pl := N.to_nat (byte_at l (p + 2)) in
                            if len <? pl + 1 then Reject  (* PRIV prefix overruns its item *)
                            else Done (Some (p + 3, pl))
                     else Done None in
          match pre with
          | Reject => Reject
          | Ambiguous => Ambiguous
          | Done pr =>
              match ref_items f l e (p + 2 + len) with
              | Done (its, stop) =>
                  let v := match pr with Some (po, pl) => (po + pl, len - 1 - pl) | None => (p + 2, len) end in
                  Done (RItem ty (fst v) (snd v) pr :: its, stop)
              | Reject => Reject
              | Ambiguous => Ambiguous
              end
          end
  end.

Fixpoint ref_chunks (fuel : nat) (l : bytes) (e : nat) (p : nat) : scan (list ref_chunk) :=
  match fuel with
  | O => Ambiguous
  | S f =>
      if e <=? p then Done []
      else if e <? p + 4 then Ambiguous
      else match ref_items (S (length l)) l e (p + 4) with
           | Done (its, stop) =>
               match ref_chunks f l e stop with
               | Done cs => Done (mk_rchunk (beN l p 4) (stop - p) its :: cs)
               | Reject => Reject
               | Ambiguous => Ambiguous
               end
           | Reject => Reject
           | Ambiguous => Ambiguous
           end
  end.

(* for a string already framed as an SDES packet *)
Definition sdes_ref (l : bytes) : verdict :=
  match ref_chunks (S (length l)) l (length l - ref_pad_len l) 4 with
  | Done cs => MustAccept cs
  | Reject => MustReject
  | Ambiguous => Either
  end.

Definition obs_ref_item (i : ref_item) : obs :=
  match i with
  | RItem ty off len None => OL [okN ty; okI len; okO (obs_range off len)]
  | RItem ty off len (Some (po, pl)) =>
      OL [okN ty; okI (1 + pl + len); okO (obs_range off len); okN (N.of_nat pl); okO (obs_range po pl)]
  end.
Definition obs_ref_chunk (c : ref_chunk) : obs :=
  OL [ON (rc_ssrc c); okI (rc_len c); OL (map obs_ref_item (rc_items c))].
Definition obs_verdict (v : verdict) : obs :=
  match v with
  | MustAccept cs => OL [OS "accept"; OL (map obs_ref_chunk cs)]
  | MustReject => OS "reject"
  | Either => OS "either"
  end.

(* ---------------------------------------------------------------- C16: representable configurations *)

(* every rule the configuration violates, as the error that names it *)
Definition rb_violations (b : rb_cfg) : list werr :=
  if (16777215 <? rb_c_cumulative b)%N then [CumulativeLostTooLarge (rb_c_cumulative b) 16777215%N] else [].
Definition pad_violations (p : N) : list werr := if (p mod 4 =? 0)%N then [] else [InvalidPadding p].

Definition item_violations (i : item_cfg) : list werr :=
  if (it_c_type i =? 8)%N then
    (if 254 <? length (it_c_prefix i) then [SdesPrivPrefixTooLarge (length (it_c_prefix i)) 254%N] else []) ++
    (if 254 <? length (it_c_prefix i) + length (it_c_value i)
     then [SdesValueTooLarge (length (it_c_value i)) (254 - N.of_nat (length (it_c_prefix i)))%N] else [])
  else if 255 <? length (it_c_value i) then [SdesValueTooLarge (length (it_c_value i)) 255%N] else [].

Definition fci_violations (k : fb_kind) (f : fci_cfg) : list werr :=
  (if fb_kind_eqb (match f with FNack _ => Transport | _ => Payload end) k then [] else [FciWrongFeedbackPacketType]) ++
  match f with
  | FRpsi pt bits ov =>
      (if (127 <? pt)%N then [PayloadTypeInvalid] else []) ++
      (if (8 <? ov)%N || (match bits with [] => (0 <? ov)%N | _ => false end) then [PaddingBitsTooLarge] else [])
  | FFir adds => if (32766 <? N.of_nat (length (rfc_fir_map adds)))%N then [TooManyFir] else []
  (* more than 65533 (PID, BLP) words do not fit the 16-bit length field (never reached by u16 sets) *)
  | FNack adds => let s := rfc_set adds in
                  if (65533 <? N.of_nat (length (rfc_nack_words (length s) s)))%N then [TooManyNack] else []
  | _ => []
  end.

Fixpoint violations (m : member) : list werr :=
  match m with
  | MSr c => (if 31 <? length (sr_c_blocks c) then [TooManyReportBlocks (length (sr_c_blocks c)) 31%N] else []) ++
             pad_violations (sr_c_padding c) ++ flat_map rb_violations (sr_c_blocks c)
  | MRr c => (if 31 <? length (rr_c_blocks c) then [TooManyReportBlocks (length (rr_c_blocks c)) 31%N] else []) ++
             pad_violations (rr_c_padding c) ++ flat_map rb_violations (rr_c_blocks c)
  | MApp c => (if (31 <? app_c_subtype c)%N then [AppSubtypeOutOfRange (app_c_subtype c) 31%N] else []) ++
              (if (4 <? length (app_c_name c)) || negb (forallb (fun b => (b <? 128)%N) (app_c_name c))
               then [InvalidName] else []) ++
              (if length (app_c_data c) mod 4 =? 0 then [] else [DataLen32bitMultiple (length (app_c_data c))]) ++
              pad_violations (app_c_padding c)
  | MBye c => (if 31 <? length (bye_c_sources c) then [TooManySources (length (bye_c_sources c)) 31%N] else []) ++
              pad_violations (bye_c_padding c) ++
              (if 255 <? length (bye_c_reason c) then [ReasonLenTooLarge (length (bye_c_reason c)) 255%N] else [])
  | MSdes c => (if 31 <? length (sdes_c_chunks c) then [TooManySdesChunks (length (sdes_c_chunks c)) 31%N] else []) ++
               pad_violations (sdes_c_padding c) ++
               flat_map (fun ch => flat_map item_violations (ch_c_items ch)) (sdes_c_chunks c)
  | MFb c => pad_violations (fb_c_padding c) ++ fci_violations (fb_c_kind c) (fb_c_fci c)
  | MUnk c => (if (31 <? unk_c_count c)%N then [CountOutOfRange (unk_c_count c) 31%N] else []) ++
              pad_violations (unk_c_padding c) ++
              (if length (unk_c_data c) mod 4 =? 0 then [] else [DataLen32bitMultiple (length (unk_c_data c))])
  | MCustom c => pad_violations (cu_padding c)
  | MCompound ms =>
      (fix go (ms : list member) : list werr :=
         match ms with
         | [] => []
         | m :: r => violations m ++
                     (match r, m_padding m with
                      | _ :: _, Some p => if (0 <? p)%N then [NonLastCompoundPacketPadding] else []
                      | _, _ => []
                      end) ++ go r
         end) ms
  end.

(* representable on the wire: no rule violated (the total-size rule is the known finding D13 and is
   reported through the class "oversize", see m_classes) *)
Definition representable (m : member) : bool := match violations m with [] => true | _ => false end.

(* ---------------------------------------------------------------- spec observations for parse entries *)

Definition obs_tiles (o : option (list (nat * nat))) : obs :=
  match o with None => OS "none" | Some ts => OL [OS "some"; OL (map (fun t => OL [OI (fst t); OI (snd t)]) ts)] end.

Definition spec_parse2 (e : entry) (l : bytes) : list kv :=
  spec_parse e l ++
  match e with
  | ETyped VSdes => [("spec.ref", obs_kvs (ref_view VSdes l)); ("spec.sdes", obs_verdict (sdes_ref l))]
  | ETyped VTfb => [("spec.ref", obs_kvs (ref_view VTfb l)); ("spec.fci", fb_fci_ref Transport l)]
  | ETyped VPfb => [("spec.ref", obs_kvs (ref_view VPfb l)); ("spec.fci", fb_fci_ref Payload l)]
  | ETyped v => [("spec.ref", obs_kvs (ref_view v l))]
  | ERb => [("spec.ref", okO (ref_rb l 0))]
  | EFci t => [("spec.fci", fci_ref t 0 l)]
  | ECompound => [("spec.tiles", obs_tiles (tiling_of l))]
  | _ => []
  end.

(* with the total-size rule of the property (65536 words per packet) included *)
Definition representable_full (m : member) : bool := representable m && negb (m_oversize m).

Definition spec_build2 (m : member) : list kv :=
  spec_build m ++
  [("spec.representable", obs_bool (representable_full m)); ("spec.violations", OL (map obs_werr (violations m)))].

(* the bare chunk- and item-level public writers (SdesChunkBuilder / SdesItemBuilder::write_into) *)
Definition spec_chunk (c : chunk_cfg) : list kv := [("spec.image", OB (rfc_chunk c))].
Definition spec_item (i : item_cfg) : list kv := [("spec.image", OB (rfc_item i))].
