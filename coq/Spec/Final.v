(* C20: the final configuration a call history denotes, declaratively: the last value of every scalar
   setter (the constructor's default when never set), list-adding calls in call order.  Definitions only. *)
From RtcpV Require Export Model.Hist.

Definition last_of {A} (sel : op -> option A) (ops : list op) (default : A) : A :=
  fold_left (fun acc o => match sel o with Some v => v | None => acc end) ops default.

Definition all_of {A} (sel : op -> option A) (ops : list op) : list A :=
  flat_map (fun o => match sel o with Some v => [v] | None => [] end) ops.

Definition sel_pad o := match o with OPad p => Some p | _ => None end.
Definition sel_ntp o := match o with ONtp v => Some v | _ => None end.
Definition sel_rtp o := match o with ORtp v => Some v | _ => None end.
Definition sel_pc o := match o with OPc v => Some v | _ => None end.
Definition sel_oc o := match o with OOc v => Some v | _ => None end.
Definition sel_rb o := match o with ORb b => Some b | _ => None end.
Definition sel_subtype o := match o with OSubtype v => Some v | _ => None end.
Definition sel_data o := match o with OData d => Some d | _ => None end.
Definition sel_src o := match o with OSrc s => Some s | _ => None end.
Definition sel_reason o := match o with OReason r => Some r | OReasonOwned r => Some r | _ => None end.
Definition sel_chunk o := match o with OChunk c => Some c | _ => None end.
Definition sel_count o := match o with OCount v => Some v | _ => None end.
Definition sel_sender o := match o with OSender v => Some v | _ => None end.
Definition sel_media o := match o with OMedia v => Some v | _ => None end.

(* an item: the last prefix set (none: empty), whatever owned conversions happened in between *)
Definition final_item (h : item_hist) : item_cfg :=
  mk_icfg (ih_type h)
          (fold_left (fun acc o => match o with IPrefix p => p | IIntoOwned => acc end) (ih_ops h) [])
          (ih_value h).
Definition final_chunk (h : chunk_hist) : chunk_cfg := mk_ccfg (chh_ssrc h) (map final_item (chh_items h)).

Definition final_rpsi (ops : list rpsi_op) : fci_cfg :=
  FRpsi (fold_left (fun acc o => match o with RPt v => v | _ => acc end) ops 0%N)
        (fold_left (fun acc o => match o with RData d _ => d | RDataOwned d _ => d | _ => acc end) ops [])
        (fold_left (fun acc o => match o with RData _ ov => ov | RDataOwned _ ov => ov | _ => acc end) ops 0%N).

Definition final_fci (h : fci_hist) : fci_cfg :=
  match h with
  | FHNack a => FNack a | FHFir a => FFir a | FHSli a => FSli a | FHPli => FPli
  | FHRpsi ops => final_rpsi ops
  end.

Definition final_member (i : hist_init) (ops : list op) : member :=
  match i with
  | HSr s => MSr (mk_sr s (last_of sel_pad ops 0%N) (last_of sel_ntp ops 0%N) (last_of sel_rtp ops 0%N)
                        (last_of sel_pc ops 0%N) (last_of sel_oc ops 0%N) (all_of sel_rb ops))
  | HRr s => MRr (mk_rr s (last_of sel_pad ops 0%N) (all_of sel_rb ops))
  | HApp s n => MApp (mk_app s (last_of sel_pad ops 0%N) (last_of sel_subtype ops 0%N) n (last_of sel_data ops []))
  | HBye => MBye (mk_bye (last_of sel_pad ops 0%N) (all_of sel_src ops) (last_of sel_reason ops []))
  | HSdes => MSdes (mk_sdes (last_of sel_pad ops 0%N) (all_of sel_chunk ops))
  | HUnk t d => MUnk (mk_unk (last_of sel_pad ops 0%N) t (last_of sel_count ops 0%N) d)
  | HFb k f => MFb (mk_fb k (last_of sel_pad ops 0%N) (last_of sel_sender ops 0%N) (last_of sel_media ops 0%N)
                          (final_fci f))
  end.

Definition final_config (h : hist) : member :=
  match h_wrap h with
  | WCompound => MCompound [final_member (h_init h) (h_ops h)]
  | _ => final_member (h_init h) (h_ops h)
  end.
