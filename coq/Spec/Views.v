(* What a faithful parser must report for a packet built from a configuration: the expected
   observation tree, written directly from the configuration (never by running a parser).
   Definitions only. *)
From RtcpV Require Export Spec.Rfc Model.Run.

Definition okO (o : obs) : obs := OL [OS "ok"; o].
Definition okN (x : N) : obs := okO (ON x).
Definition okI (x : nat) : obs := okO (OI x).
Definition okPad (padding : N) : obs := okO (obs_optN (get_padding_of padding)).

Definition exp_hdr (pt count : N) (total : nat) : obs :=
  okO (OL [okN 2; okN pt; okN count; okN count; okI total]).

Definition exp_rb (b : rb_cfg) : obs :=
  OL [okN (rb_c_ssrc b); okN (rb_c_fraction b); okN (rb_c_cumulative b); okN (rb_c_ext_seq b);
      okN (rb_c_jitter b); okN (rb_c_lsr b); okN (rb_c_dlsr b)].

Definition exp_sr (c : sr_cfg) : list kv :=
  let nb := N.of_nat (length (sr_c_blocks c)) in
  [("hdr", exp_hdr 200 nb (28 + 24 * length (sr_c_blocks c) + N.to_nat (sr_c_padding c)));
   ("padding", okPad (sr_c_padding c)); ("n_reports", okN nb); ("ssrc", okN (sr_c_ssrc c));
   ("ntp", okN (sr_c_ntp c)); ("rtp", okN (sr_c_rtp c)); ("pc", okN (sr_c_pc c)); ("oc", okN (sr_c_oc c));
   ("rbs", okO (OL (map exp_rb (sr_c_blocks c))))].

Definition exp_rr (c : rr_cfg) : list kv :=
  let nb := N.of_nat (length (rr_c_blocks c)) in
  [("hdr", exp_hdr 201 nb (8 + 24 * length (rr_c_blocks c) + N.to_nat (rr_c_padding c)));
   ("padding", okPad (rr_c_padding c)); ("n_reports", okN nb); ("ssrc", okN (rr_c_ssrc c));
   ("rbs", okO (OL (map exp_rb (rr_c_blocks c))))].

Definition exp_app (c : app_cfg) : list kv :=
  [("hdr", exp_hdr 204 (app_c_subtype c) (12 + length (app_c_data c) + N.to_nat (app_c_padding c)));
   ("padding", okPad (app_c_padding c)); ("ssrc", okN (app_c_ssrc c));
   ("name", okO (OB (app_c_name c ++ zeros (4 - length (app_c_name c)))));
   ("data", okO (obs_range 12 (length (app_c_data c))))].

Definition exp_bye (c : bye_cfg) : list kv :=
  let ns := length (bye_c_sources c) in
  [("hdr", exp_hdr 203 (N.of_nat ns)
                   (4 + 4 * ns + length (rfc_reason (bye_c_reason c)) + N.to_nat (bye_c_padding c)));
   ("padding", okPad (bye_c_padding c)); ("ssrcs", okO (OL (map ON (bye_c_sources c))));
   ("reason", okO (match bye_c_reason c with
                   | [] => OS "none"
                   | r => OL [OS "some"; obs_range (4 + 4 * ns + 1) (length r)]
                   end))].

(* SDES: items and chunks carry their offsets in the packet *)
Definition item_size (i : item_cfg) : nat := length (rfc_item i).
Definition exp_item (off : nat) (i : item_cfg) : obs :=
  if (it_c_type i =? 8)%N then
    let pl := length (it_c_prefix i) in
    OL [okN 8; okI (1 + pl + length (it_c_value i)); okO (obs_range (off + 3 + pl) (length (it_c_value i)));
        okN (N.of_nat pl); okO (obs_range (off + 3) pl)]
  else
    OL [okN (it_c_type i); okI (length (it_c_value i)); okO (obs_range (off + 2) (length (it_c_value i)))].
Fixpoint exp_items (off : nat) (its : list item_cfg) : list obs :=
  match its with
  | [] => []
  | i :: r => exp_item off i :: exp_items (off + item_size i) r
  end.
Definition chunk_size (c : chunk_cfg) : nat := length (rfc_chunk c).
Definition exp_chunk (off : nat) (c : chunk_cfg) : obs :=
  OL [ON (ch_c_ssrc c); okI (chunk_size c); OL (exp_items (off + 4) (ch_c_items c))].
Fixpoint exp_chunks (off : nat) (cs : list chunk_cfg) : list obs :=
  match cs with
  | [] => []
  | c :: r => exp_chunk off c :: exp_chunks (off + chunk_size c) r
  end.
Definition exp_sdes (c : sdes_cfg) : list kv :=
  [("hdr", exp_hdr 202 (N.of_nat (length (sdes_c_chunks c)))
                   (4 + length (concat (map rfc_chunk (sdes_c_chunks c))) + N.to_nat (sdes_c_padding c)));
   ("padding", okPad (sdes_c_padding c));
   ("chunks", OL (exp_chunks 4 (sdes_c_chunks c)))].

(* feedback: what each of the five parse_fci::<F>() calls must return *)
Definition errWI : obs := OL [OS "err"; OL [OS "WrongImplementation"]].
Definition exp_fci_entries (f : fci_cfg) : obs :=
  match f with
  | FNack adds => okO (OL [okO (OL (map ON (rfc_set adds))); okO (OS "fused")])
  | FFir adds => okO (okO (OL (map (fun kv => OL [ON (fst kv); ON (snd kv)]) (rfc_fir_map adds))))
  | FSli es => okO (okO (OL (map (fun e => OL [ON (fst (fst e) mod 8192); ON (snd (fst e) mod 8192);
                                               ON (snd e mod 64)]%N) es)))
  | FRpsi pt bits ov =>
      let fill := (4 - (2 + length bits) mod 4) mod 4 in
      let total_bits := 8 * fill + N.to_nat ov in
      okO (OL [okN (pt mod 128);
               okO (OL [obs_range 14 (length bits + fill - total_bits / 8); OI (total_bits mod 8)])])
  | FPli => okO (OS "pli")
  end.
Definition exp_fcis (c : fb_cfg) : obs :=
  OL (map (fun t => match t, fb_c_fci c with
                    | TNack, FNack _ | TFir, FFir _ | TSli, FSli _ | TRpsi, FRpsi _ _ _ | TPli, FPli =>
                        exp_fci_entries (fb_c_fci c)
                    | _, _ => errWI
                    end) all_fci).
Definition exp_fb (c : fb_cfg) : list kv :=
  [("hdr", exp_hdr (match fb_c_kind c with Transport => 205 | Payload => 206 end)
                   (match fb_c_fci c with FNack _ => 1 | FPli => 1 | FSli _ => 2 | FRpsi _ _ _ => 3 | FFir _ => 4 end)
                   (12 + length (rfc_fci (fb_c_fci c)) + N.to_nat (fb_c_padding c)));
   ("padding", okPad (fb_c_padding c)); ("sender", okN (fb_c_sender c)); ("media", okN (fb_c_media c));
   ("fci", exp_fcis c)].

Definition exp_raw (count : N) (pt : N) (total : nat) : list kv :=
  [("hdr", exp_hdr pt count total); ("data", obs_range 0 total)].

(* the packet the generic parser must yield for the image of a (non-compound) member *)
Definition expected_packet (m : member) : obs :=
  match m with
  | MSr c => OL [OS "Sr"; obs_kvs (exp_sr c)]
  | MRr c => OL [OS "Rr"; obs_kvs (exp_rr c)]
  | MApp c => OL [OS "App"; obs_kvs (exp_app c)]
  | MBye c => OL [OS "Bye"; obs_kvs (exp_bye c)]
  | MSdes c => OL [OS "Sdes"; obs_kvs (exp_sdes c)]
  | MFb c => OL [OS (match fb_c_kind c with Transport => "Tfb" | Payload => "Pfb" end); obs_kvs (exp_fb c)]
  | MUnk c => OL [OS "Unknown"; obs_kvs (exp_raw (unk_c_count c) (unk_c_type c)
                                          (4 + length (unk_c_data c) + N.to_nat (unk_c_padding c)))]
  | MCustom c => OL [OS "Unknown"; obs_kvs (exp_raw (cu_count c) (cu_pt c)
                                             (4 + length (cu_payload c) + N.to_nat (cu_padding c)))]
  | MCompound _ => OS "compound"
  end.

(* ---------------------------------------------------------------- known-finding classes *)

(* the classes named in /verif/known_findings.json, decided on the configuration alone *)
Fixpoint m_total (m : member) : nat :=
  match m with MCompound ms => fold_right (fun x acc => m_total x + acc) 0 ms | _ => length (rfc_image m) end.
Fixpoint m_has_empty_fci (m : member) : bool :=
  match m with
  | MFb c => match fb_c_fci c with FFir [] => true | FSli [] => true | _ => false end
  | MCompound ms => existsb m_has_empty_fci ms
  | _ => false
  end.
(* some packet of the member is longer than 65536 32-bit words *)
Fixpoint m_oversize (m : member) : bool :=
  match m with
  | MCompound ms => existsb m_oversize ms
  | _ => (262144 <? N.of_nat (length (rfc_image m)))%N
  end.
Definition m_classes (m : member) : obs :=
  OL ((if m_oversize m then [OS "oversize"] else []) ++
      (if m_has_empty_fci m then [OS "empty-fir-sli"] else [])).

(* ---------------------------------------------------------------- spec observations *)

Definition spec_build (m : member) : list kv :=
  [("spec.image", OB (rfc_image m)); ("spec.view", okO (expected_packet m)); ("spec.class", m_classes m)].

Definition entry_framing (e : entry) (l : bytes) : option (nat * N) :=
  match e with
  | ETyped VApp => Some (12, 204%N) | ETyped VBye => Some (4, 203%N) | ETyped VRr => Some (8, 201%N)
  | ETyped VSdes => Some (4, 202%N) | ETyped VSr => Some (28, 200%N) | ETyped VTfb => Some (12, 205%N)
  | ETyped VPfb => Some (12, 206%N) | ECustom pt min => Some (min, pt)
  | EPacket =>
      (* the generic parser: the framing of whichever type the packet-type octet names *)
      match nth_error l 1 with
      | Some 204%N => Some (12, 204%N) | Some 203%N => Some (4, 203%N) | Some 201%N => Some (8, 201%N)
      | Some 202%N => Some (4, 202%N) | Some 200%N => Some (28, 200%N) | Some 205%N => Some (12, 205%N)
      | Some 206%N => Some (12, 206%N)
      | _ => None
      end
  | _ => None
  end.

Definition obs_bool (b : bool) : obs := if b then OS "true" else OS "false".

Definition spec_parse (e : entry) (l : bytes) : list kv :=
  match entry_framing e l with
  | Some (min, pt) => [("spec.framed", obs_bool (well_framed min pt l))]
  | None => []
  end ++ [("spec.raw_framed", obs_bool (raw_framed l))].
