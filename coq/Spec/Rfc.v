(* The RFC layer: an independent description of the wire format (RFC 3550 section 6, RFC 4585
   section 6, RFC 5104 section 4.3) written as plain concatenations of big-endian fields.  It shares
   nothing with the model's writers or parsers (only the configuration records and be16/be32/be64).
   Definitions only. *)
From RtcpV Require Export Model.Compound.

(* ---------------------------------------------------------------- common header and trailer *)

(* V=2, P, 5-bit count | PT | length in 32-bit words minus one *)
Definition rfc_header (pt padding count : N) (total : nat) : bytes :=
  [(128 + (if (0 <? padding)%N then 32 else 0) + count)%N; pt] ++ be16 (N.of_nat (total / 4 - 1)).

(* padding: zero octets, the last one holding the count *)
Definition rfc_trailer (padding : N) : bytes :=
  if (0 <? padding)%N then zeros (N.to_nat padding - 1) ++ [padding] else [].

(* ---------------------------------------------------------------- SR / RR (RFC 3550 6.4) *)

Definition rfc_rb (b : rb_cfg) : bytes :=
  be32 (rb_c_ssrc b) ++ [rb_c_fraction b] ++
  [(rb_c_cumulative b / 65536) mod 256; (rb_c_cumulative b / 256) mod 256; rb_c_cumulative b mod 256]%N ++
  be32 (rb_c_ext_seq b) ++ be32 (rb_c_jitter b) ++ be32 (rb_c_lsr b) ++ be32 (rb_c_dlsr b).

Definition rfc_sr (c : sr_cfg) : bytes :=
  let total := 28 + 24 * length (sr_c_blocks c) + N.to_nat (sr_c_padding c) in
  rfc_header 200 (sr_c_padding c) (N.of_nat (length (sr_c_blocks c))) total ++
  be32 (sr_c_ssrc c) ++ be64 (sr_c_ntp c) ++ be32 (sr_c_rtp c) ++ be32 (sr_c_pc c) ++ be32 (sr_c_oc c) ++
  concat (map rfc_rb (sr_c_blocks c)) ++ rfc_trailer (sr_c_padding c).

Definition rfc_rr (c : rr_cfg) : bytes :=
  let total := 8 + 24 * length (rr_c_blocks c) + N.to_nat (rr_c_padding c) in
  rfc_header 201 (rr_c_padding c) (N.of_nat (length (rr_c_blocks c))) total ++
  be32 (rr_c_ssrc c) ++ concat (map rfc_rb (rr_c_blocks c)) ++ rfc_trailer (rr_c_padding c).

(* ---------------------------------------------------------------- APP (6.7), BYE (6.6) *)

Definition rfc_app (c : app_cfg) : bytes :=
  let total := 12 + length (app_c_data c) + N.to_nat (app_c_padding c) in
  rfc_header 204 (app_c_padding c) (app_c_subtype c) total ++
  be32 (app_c_ssrc c) ++ app_c_name c ++ zeros (4 - length (app_c_name c)) ++ app_c_data c ++
  rfc_trailer (app_c_padding c).

(* optional reason: length octet, text, zero fill to the next 32-bit boundary *)
Definition rfc_reason (r : bytes) : bytes :=
  match r with
  | [] => []
  | _ => N.of_nat (length r) :: r ++ zeros ((4 - (1 + length r) mod 4) mod 4)
  end.

Definition rfc_bye (c : bye_cfg) : bytes :=
  let body := concat (map be32 (bye_c_sources c)) ++ rfc_reason (bye_c_reason c) in
  let total := 4 + length body + N.to_nat (bye_c_padding c) in
  rfc_header 203 (bye_c_padding c) (N.of_nat (length (bye_c_sources c))) total ++ body ++
  rfc_trailer (bye_c_padding c).

(* ---------------------------------------------------------------- SDES (6.5) *)

Definition rfc_item (i : item_cfg) : bytes :=
  if (it_c_type i =? 8)%N then
    [it_c_type i; N.of_nat (1 + length (it_c_prefix i) + length (it_c_value i));
     N.of_nat (length (it_c_prefix i))] ++ it_c_prefix i ++ it_c_value i
  else [it_c_type i; N.of_nat (length (it_c_value i))] ++ it_c_value i.

(* SSRC, items, then one to four null octets up to the next 32-bit boundary *)
Definition rfc_chunk (c : chunk_cfg) : bytes :=
  let items := concat (map rfc_item (ch_c_items c)) in
  be32 (ch_c_ssrc c) ++ items ++ zeros (4 - (length items) mod 4).

Definition rfc_sdes (c : sdes_cfg) : bytes :=
  let body := concat (map rfc_chunk (sdes_c_chunks c)) in
  let total := 4 + length body + N.to_nat (sdes_c_padding c) in
  rfc_header 202 (sdes_c_padding c) (N.of_nat (length (sdes_c_chunks c))) total ++ body ++
  rfc_trailer (sdes_c_padding c).

(* ---------------------------------------------------------------- feedback (RFC 4585 6.1) *)

(* Generic NACK (RFC 4585 6.2.1): declarative grouping of an ascending list into (PID, BLP) words:
   the first remaining number is the PID, every later number within PID+1..PID+16 sets a BLP bit *)
Fixpoint nack_take (pid : N) (l : list N) : N * list N :=
  match l with
  | [] => (0%N, [])
  | x :: r =>
      if (x <=? pid + 16)%N then
        let '(blp, rest) := nack_take pid r in ((2 ^ (x - pid - 1) + blp)%N, rest)
      else (0%N, l)
  end.
Fixpoint rfc_nack_words (fuel : nat) (l : list N) : list (N * N) :=
  match fuel, l with
  | S f, pid :: r => let '(blp, rest) := nack_take pid r in (pid, blp) :: rfc_nack_words f rest
  | _, _ => []
  end.

(* sorted, duplicate-free set of the requested sequence numbers *)
Fixpoint insert_sorted (x : N) (l : list N) : list N :=
  match l with
  | [] => [x]
  | y :: r => if (x <? y)%N then x :: l else if (x =? y)%N then l else y :: insert_sorted x r
  end.
Definition rfc_set (adds : list N) : list N := fold_right insert_sorted [] adds.

(* the FIR map: last sequence number per SSRC, keys in first-appearance order *)
Definition rfc_fir_lookup (adds : list (N * N)) (k : N) : option N :=
  fold_left (fun acc kv => if (fst kv =? k)%N then Some (snd kv) else acc) adds None.
Fixpoint rfc_nodup_keys (seen : list N) (adds : list (N * N)) : list N :=
  match adds with
  | [] => []
  | (k, _) :: r =>
      if existsb (N.eqb k) seen then rfc_nodup_keys seen r else k :: rfc_nodup_keys (k :: seen) r
  end.
Definition rfc_fir_map (adds : list (N * N)) : list (N * N) :=
  map (fun k => (k, match rfc_fir_lookup adds k with Some v => v | None => 0%N end))
      (rfc_nodup_keys [] adds).

(* SLI (RFC 4585 6.3.2): First 13 bits | Number 13 bits | PictureID 6 bits *)
Definition rfc_sli_word (e : N * N * N) : bytes :=
  let '(first, number, pid) := e in
  be32 ((first mod 8192) * 524288 + (number mod 8192) * 64 + pid mod 64)%N.

(* RPSI (RFC 4585 6.3.3): PB | 0 + 7-bit payload type | native bit string | zero padding to 32 bits.
   [overrun] trailing bits of the last byte of [bits] are not part of the string and are sent as 0. *)
Definition rfc_rpsi (pt : N) (bits : bytes) (overrun : N) : bytes :=
  let fill := (4 - (2 + length bits) mod 4) mod 4 in
  let body := match bits with
              | [] => []
              | _ => removelast bits ++ [(last bits 0 / 2 ^ overrun * 2 ^ overrun)%N]
              end in
  [(N.of_nat (8 * fill) + overrun)%N; pt] ++ body ++ zeros fill.

Definition rfc_fci (f : fci_cfg) : bytes :=
  match f with
  | FNack adds =>
      let s := rfc_set adds in
      concat (map (fun w => be16 (fst w) ++ be16 (snd w)) (rfc_nack_words (length s) s))
  | FFir adds => concat (map (fun kv => be32 (fst kv) ++ [snd kv; 0; 0; 0]%N) (rfc_fir_map adds))
  | FSli es => concat (map rfc_sli_word es)
  | FRpsi pt bits ov => rfc_rpsi pt bits ov
  | FPli => []
  end.

Definition rfc_fb (c : fb_cfg) : bytes :=
  let fci := rfc_fci (fb_c_fci c) in
  let total := 12 + length fci + N.to_nat (fb_c_padding c) in
  rfc_header (match fb_c_kind c with Transport => 205 | Payload => 206 end) (fb_c_padding c)
             (match fb_c_fci c with FNack _ => 1 | FPli => 1 | FSli _ => 2 | FRpsi _ _ _ => 3 | FFir _ => 4 end)
             total ++
  be32 (fb_c_sender c) ++ be32 (fb_c_media c) ++ fci ++ rfc_trailer (fb_c_padding c).

(* ---------------------------------------------------------------- raw / third-party packets *)

Definition rfc_raw (pt padding count : N) (payload : bytes) : bytes :=
  let total := 4 + length payload + N.to_nat padding in
  rfc_header pt padding count total ++ payload ++ rfc_trailer padding.

(* ---------------------------------------------------------------- any member *)

Fixpoint rfc_image (m : member) : bytes :=
  match m with
  | MSr c => rfc_sr c | MRr c => rfc_rr c | MApp c => rfc_app c | MBye c => rfc_bye c
  | MSdes c => rfc_sdes c | MFb c => rfc_fb c
  | MUnk c => rfc_raw (unk_c_type c) (unk_c_padding c) (unk_c_count c) (unk_c_data c)
  | MCustom c => rfc_raw (cu_pt c) (cu_padding c) (cu_count c) (cu_payload c)
  | MCompound ms => concat (map rfc_image ms)
  end.

(* ---------------------------------------------------------------- framing (C08 / C19) *)

(* the string is exactly one well-framed packet of type [pt] and at least [min] bytes *)
Definition well_framed (min : nat) (pt : N) (l : bytes) : bool :=
  match l with
  | b0 :: b1 :: b2 :: b3 :: _ =>
      (min <=? length l) && (b0 / 64 =? 2)%N && (b1 =? pt)%N &&
      (length l =? 4 * (N.to_nat (b2 * 256 + b3) + 1)) &&
      (if ((b0 / 32) mod 2 =? 1)%N
       then let p := N.to_nat (last l 0%N) in (0 <? p) && (min + p <=? length l)
       else true)
  | _ => false
  end.

(* the generic framing of Unknown::parse: size, version, length field *)
Definition raw_framed (l : bytes) : bool :=
  match l with
  | b0 :: b1 :: b2 :: b3 :: _ =>
      (b0 / 64 =? 2)%N && (length l =? 4 * (N.to_nat (b2 * 256 + b3) + 1))
  | _ => false
  end.
