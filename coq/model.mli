
val negb : bool -> bool

type nat =
| O
| S of nat

val option_map : ('a1 -> 'a2) -> 'a1 option -> 'a2 option

val fst : ('a1 * 'a2) -> 'a1

val snd : ('a1 * 'a2) -> 'a2

val length : 'a1 list -> nat

val app : 'a1 list -> 'a1 list -> 'a1 list

type comparison =
| Eq
| Lt
| Gt

val add : nat -> nat -> nat

val mul : nat -> nat -> nat

val sub : nat -> nat -> nat

module Nat :
 sig
  val sub : nat -> nat -> nat

  val eqb : nat -> nat -> bool

  val leb : nat -> nat -> bool

  val ltb : nat -> nat -> bool

  val divmod : nat -> nat -> nat -> nat -> nat * nat

  val div : nat -> nat -> nat

  val modulo : nat -> nat -> nat
 end

val nth : nat -> 'a1 list -> 'a1 -> 'a1

val nth_error : 'a1 list -> nat -> 'a1 option

val last : 'a1 list -> 'a1 -> 'a1

val removelast : 'a1 list -> 'a1 list

val concat : 'a1 list list -> 'a1 list

val map : ('a1 -> 'a2) -> 'a1 list -> 'a2 list

val flat_map : ('a1 -> 'a2 list) -> 'a1 list -> 'a2 list

val fold_left : ('a1 -> 'a2 -> 'a1) -> 'a2 list -> 'a1 -> 'a1

val fold_right : ('a2 -> 'a1 -> 'a1) -> 'a1 -> 'a2 list -> 'a1

val existsb : ('a1 -> bool) -> 'a1 list -> bool

val forallb : ('a1 -> bool) -> 'a1 list -> bool

val combine : 'a1 list -> 'a2 list -> ('a1 * 'a2) list

val firstn : nat -> 'a1 list -> 'a1 list

val skipn : nat -> 'a1 list -> 'a1 list

val seq : nat -> nat -> nat list

val repeat : 'a1 -> nat -> 'a1 list

type positive =
| XI of positive
| XO of positive
| XH

type n =
| N0
| Npos of positive

module Pos :
 sig
  type mask =
  | IsNul
  | IsPos of positive
  | IsNeg
 end

module Coq_Pos :
 sig
  val succ : positive -> positive

  val add : positive -> positive -> positive

  val add_carry : positive -> positive -> positive

  val pred_double : positive -> positive

  type mask = Pos.mask =
  | IsNul
  | IsPos of positive
  | IsNeg

  val succ_double_mask : mask -> mask

  val double_mask : mask -> mask

  val double_pred_mask : positive -> mask

  val sub_mask : positive -> positive -> mask

  val sub_mask_carry : positive -> positive -> mask

  val mul : positive -> positive -> positive

  val iter : ('a1 -> 'a1) -> 'a1 -> positive -> 'a1

  val pow : positive -> positive -> positive

  val compare_cont : comparison -> positive -> positive -> comparison

  val compare : positive -> positive -> comparison

  val eqb : positive -> positive -> bool

  val coq_lor : positive -> positive -> positive

  val iter_op : ('a1 -> 'a1 -> 'a1) -> positive -> 'a1 -> 'a1

  val to_nat : positive -> nat

  val of_succ_nat : nat -> positive
 end

module N :
 sig
  val succ_double : n -> n

  val double : n -> n

  val add : n -> n -> n

  val sub : n -> n -> n

  val mul : n -> n -> n

  val compare : n -> n -> comparison

  val eqb : n -> n -> bool

  val leb : n -> n -> bool

  val ltb : n -> n -> bool

  val pow : n -> n -> n

  val pos_div_eucl : positive -> n -> n * n

  val div_eucl : n -> n -> n * n

  val div : n -> n -> n

  val modulo : n -> n -> n

  val coq_lor : n -> n -> n

  val to_nat : n -> nat

  val of_nat : nat -> n
 end

type ascii =
| Ascii of bool * bool * bool * bool * bool * bool * bool * bool

type string =
| EmptyString
| String of ascii * string

val append : string -> string -> string

type ('e, 'a) res =
| Ok of 'a
| Err of 'e
| Panic
| Fuel

val bind : ('a1, 'a2) res -> ('a2 -> ('a1, 'a3) res) -> ('a1, 'a3) res

val is_ok : ('a1, 'a2) res -> bool

type perr =
| UnsupportedVersion of n
| Truncated of nat * nat
| TooLarge of nat * nat
| InvalidPaddingP
| SdesValueTooLargeP of nat * n
| SdesPrivContentTruncated of nat * n
| SdesPrivPrefixTooLargeP of nat * n
| WrongImplementation
| PacketTypeMismatch of n * n

type werr =
| OutputTooSmall of nat
| InvalidPadding of n
| AppSubtypeOutOfRange of n * n
| InvalidName
| DataLen32bitMultiple of nat
| TooManySources of nat * n
| ReasonLenTooLarge of nat * n
| CumulativeLostTooLarge of n * n
| TooManyReportBlocks of nat * n
| TooManySdesChunks of nat * n
| SdesValueTooLarge of nat * n
| SdesPrivPrefixTooLarge of nat * n
| CountOutOfRange of n * n
| NonLastCompoundPacketPadding
| MissingFci
| TooManyNack
| FciWrongFeedbackPacketType
| PayloadTypeInvalid
| PaddingBitsTooLarge
| TooManyFir

type 'a pres = (perr, 'a) res

type 'a wres = (werr, 'a) res

type bytes = n list

val zeros : nat -> bytes

val be16 : n -> bytes

val be32 : n -> bytes

val be64 : n -> bytes

val be_dec : bytes -> n

val pad4 : nat -> nat

val idx : bytes -> nat -> ('a1, n) res

val slice : bytes -> nat -> nat -> ('a1, bytes) res

val tail_from : bytes -> nat -> ('a1, bytes) res

val usub : nat -> nat -> ('a1, nat) res

val set_at : bytes -> nat -> n -> ('a1, bytes) res

val copy_into : bytes -> nat -> nat -> bytes -> ('a1, bytes) res

val fill_range : bytes -> nat -> nat -> n -> ('a1, bytes) res

val fill_if : bytes -> nat -> nat -> n -> ('a1, bytes) res

val with_sub :
  bytes -> nat -> nat -> (bytes -> ('a1, 'a2 * bytes) res) -> ('a1,
  'a2 * bytes) res

val with_tail :
  bytes -> nat -> (bytes -> ('a1, 'a2 * bytes) res) -> ('a1, 'a2 * bytes) res

val be_dec_exact : nat -> bytes -> ('a1, n) res

type obs =
| ON of n
| OI of nat
| OB of bytes
| OS of string
| OL of obs list

type kv = string * obs

val obs_opt : obs option -> obs

val obs_perr : perr -> obs

val obs_werr : werr -> obs

val obs_res : ('a1 -> obs) -> ('a2 -> obs) -> ('a1, 'a2) res -> obs

val obs_pres : ('a1 -> obs) -> (perr, 'a1) res -> obs

val obs_wres : ('a1 -> obs) -> (werr, 'a1) res -> obs

val obs_range : nat -> nat -> obs

val parse_version : bytes -> n pres

val parse_padding_bit : bytes -> bool pres

val parse_count : bytes -> n pres

val parse_packet_type : bytes -> n pres

val parse_length : bytes -> nat pres

val parse_padding : bytes -> n option pres

val parse_ssrc : bytes -> n pres

val vERSION : n

val check_packet : nat -> n -> bytes -> unit pres

val header_data : bytes -> bytes pres

val check_padding : n -> unit wres

val write_header_unchecked : n -> n -> n -> bytes -> (nat * bytes) wres

val write_padding_unchecked : n -> bytes -> (nat * bytes) wres

val get_padding_of : n -> n option

val write_into_gen :
  nat wres -> (bytes -> (nat * bytes) wres) -> bytes -> nat wres * bytes

val rB_SIZE : nat

val rb_parse : bytes -> bytes pres

val rb_ssrc : bytes -> n pres

val rb_fraction_lost : bytes -> n pres

val rb_cumulative_lost : bytes -> n pres

val rb_ext_seq : bytes -> n pres

val rb_jitter : bytes -> n pres

val rb_lsr : bytes -> n pres

val rb_dlsr : bytes -> n pres

val obs_rb_view : bytes -> obs

type rb_cfg = { rb_c_ssrc : n; rb_c_fraction : n; rb_c_cumulative : n;
                rb_c_ext_seq : n; rb_c_jitter : n; rb_c_lsr : n; rb_c_dlsr : 
                n }

val rb_calc : rb_cfg -> nat wres

val rb_write_unchecked : rb_cfg -> bytes -> (nat * bytes) wres

val rbs_calc : rb_cfg list -> nat wres

val rbs_write : rb_cfg list -> nat -> bytes -> (nat * bytes) wres

val chunks_exact : nat -> nat -> bytes -> bytes list

val report_blocks : nat -> bytes -> bytes list pres

val sR_MIN : nat

val sR_PT : n

val sr_parse : bytes -> bytes pres

val sr_ntp : bytes -> n pres

val sr_rtp : bytes -> n pres

val sr_packet_count : bytes -> n pres

val sr_octet_count : bytes -> n pres

type sr_cfg = { sr_c_ssrc : n; sr_c_padding : n; sr_c_ntp : n; sr_c_rtp : 
                n; sr_c_pc : n; sr_c_oc : n; sr_c_blocks : rb_cfg list }

val sr_calc : sr_cfg -> nat wres

val sr_write_unchecked : sr_cfg -> bytes -> (nat * bytes) wres

val rR_MIN : nat

val rR_PT : n

val rr_parse : bytes -> bytes pres

type rr_cfg = { rr_c_ssrc : n; rr_c_padding : n; rr_c_blocks : rb_cfg list }

val rr_calc : rr_cfg -> nat wres

val rr_write_unchecked : rr_cfg -> bytes -> (nat * bytes) wres

val aPP_MIN : nat

val aPP_PT : n

val app_parse : bytes -> bytes pres

val app_name : bytes -> bytes pres

val app_data : bytes -> (nat * nat) pres

type app_cfg = { app_c_ssrc : n; app_c_padding : n; app_c_subtype : n;
                 app_c_name : bytes; app_c_data : bytes }

val is_ascii : bytes -> bool

val app_calc : app_cfg -> nat wres

val app_write_unchecked : app_cfg -> bytes -> (nat * bytes) wres

val bYE_MIN : nat

val bYE_PT : n

val bye_parse : bytes -> bytes pres

val bye_ssrcs : bytes -> n list pres

val bye_reason : bytes -> (nat * nat) option pres

type bye_cfg = { bye_c_padding : n; bye_c_sources : n list;
                 bye_c_reason : bytes }

val bye_calc : bye_cfg -> nat wres

val bye_write_sources : n list -> nat -> bytes -> (nat * bytes) wres

val bye_write_reason : bytes -> nat -> bytes -> (nat * bytes) wres

val bye_write_unchecked : bye_cfg -> bytes -> (nat * bytes) wres

val sDES_MIN : nat

val sDES_PT : n

val pRIV : n

type item_view = { it_off : nat; it_data : bytes }

type chunk_view = { ch_ssrc : n; ch_items : item_view list }

val item_parse : bytes -> (bytes * nat) pres

val items_loop : nat -> nat -> bytes -> nat -> (item_view list * nat) pres

val zero_skip : nat -> bytes -> nat -> nat pres

val chunk_parse : nat -> bytes -> (chunk_view * nat) pres

val chunks_loop : nat -> bytes -> nat -> nat -> chunk_view list pres

val sdes_parse : bytes -> chunk_view list pres

val item_type : item_view -> n pres

val item_length : item_view -> nat pres

val item_priv_prefix_len : item_view -> n pres

val item_value : item_view -> (nat * nat) pres

val item_priv_prefix : item_view -> (nat * nat) pres

val items_len_sum : item_view list -> nat pres

val chunk_length : chunk_view -> nat pres

type item_cfg = { it_c_type : n; it_c_prefix : bytes; it_c_value : bytes }

type chunk_cfg = { ch_c_ssrc : n; ch_c_items : item_cfg list }

type sdes_cfg = { sdes_c_padding : n; sdes_c_chunks : chunk_cfg list }

val item_calc : item_cfg -> nat wres

val item_write_unchecked : item_cfg -> bytes -> (nat * bytes) wres

val items_calc : item_cfg list -> nat wres

val chunk_calc : chunk_cfg -> nat wres

val items_write : item_cfg list -> nat -> bytes -> (nat * bytes) wres

val chunk_write_unchecked : chunk_cfg -> bytes -> (nat * bytes) wres

val chunks_calc : chunk_cfg list -> nat wres

val sdes_calc : sdes_cfg -> nat wres

val chunks_write : chunk_cfg list -> nat -> bytes -> (nat * bytes) wres

val sdes_write_unchecked : sdes_cfg -> bytes -> (nat * bytes) wres

val fB_MIN : nat

val tFB_PT : n

val pFB_PT : n

type fb_kind =
| Transport
| Payload

val fb_kind_eqb : fb_kind -> fb_kind -> bool

val fb_pt : fb_kind -> n

type fci_type =
| TNack
| TFir
| TSli
| TRpsi
| TPli

val fci_kind : fci_type -> fb_kind

val fci_format : fci_type -> n

val fb_parse : fb_kind -> bytes -> bytes pres

val fb_sender_ssrc : bytes -> n pres

val fb_media_ssrc : bytes -> n pres

val nack_scan : nat -> n -> n -> nat -> n option * nat

val nack_next : nat -> bytes -> nat -> nat -> (n option * (nat * nat)) pres

val nack_run : nat -> bytes -> nat -> nat -> (n list * (nat * nat)) pres

val nack_entries : bytes -> n list pres

val nack_post : bytes -> bool pres

val fir_parse : bytes -> bytes pres

val fir_run : nat -> bytes -> nat -> (n * n) list pres

val fir_entries : bytes -> (n * n) list pres

val sli_parse : bytes -> bytes pres

val sli_decode : n -> n -> n -> n -> (n * n) * n

val sli_run : nat -> bytes -> nat -> ((n * n) * n) list pres

val sli_entries : bytes -> ((n * n) * n) list pres

val rpsi_padding_bytes : bytes -> nat pres

val rpsi_parse : bytes -> bytes pres

val rpsi_payload_type : bytes -> n pres

val rpsi_bit_string : bytes -> ((nat * nat) * nat) pres

val pli_parse : bytes -> bytes pres

val fci_slice : bytes -> bytes pres

val fci_parse_raw : fci_type -> bytes -> bytes pres

val parse_fci : fb_kind -> fci_type -> bytes -> bytes pres

type fci_cfg =
| FNack of n list
| FFir of (n * n) list
| FSli of ((n * n) * n) list
| FRpsi of n * bytes * n
| FPli

val fci_cfg_type : fci_cfg -> fci_type

val set_insert : n -> n list -> n list

val nack_set : n list -> n list

val nack_words : n option -> n -> n list -> (n * n) list

val nack_encode : (n * n) -> bytes

val fir_put : n -> n -> (n * n) list -> (n * n) list

val fir_map : (n * n) list -> (n * n) list

val sli_encode : ((n * n) * n) -> bytes

val fci_calc : fci_cfg -> nat wres

val write_words4 : bytes list -> nat -> bytes -> (nat * bytes) wres

val fir_write : (n * n) list -> nat -> bytes -> (nat * bytes) wres

val sli_write : ((n * n) * n) list -> nat -> bytes -> (nat * bytes) wres

val zero_fill_loop : nat -> nat -> nat -> bytes -> (nat * bytes) wres

val rpsi_write : n -> bytes -> n -> bytes -> (nat * bytes) wres

val fci_write : fci_cfg -> bytes -> (nat * bytes) wres

type fb_cfg = { fb_c_kind : fb_kind; fb_c_padding : n; fb_c_sender : 
                n; fb_c_media : n; fb_c_fci : fci_cfg }

val fb_calc : fb_cfg -> nat wres

val fb_write_unchecked : fb_cfg -> bytes -> (nat * bytes) wres

val uNK_MIN : nat

val unknown_parse : bytes -> bytes pres

type variant =
| VApp
| VBye
| VRr
| VSdes
| VSr
| VTfb
| VPfb
| VUnknown

val variant_eqb : variant -> variant -> bool

val variant_pt : variant -> n

type packet_view = { pk_variant : variant; pk_data : bytes;
                     pk_chunks : chunk_view list }

val typed_parse : variant -> bytes -> packet_view pres

val variant_of_pt : n -> variant

val packet_parse : bytes -> packet_view pres

val packet_try_as : packet_view -> variant -> packet_view pres

val compound_check : nat -> bytes -> nat -> unit pres

type compound_st = { c_data : bytes; c_offset : nat; c_is_over : bool }

val compound_parse : bytes -> compound_st pres

val compound_next :
  compound_st -> (packet_view pres option * compound_st) pres

type unk_cfg = { unk_c_padding : n; unk_c_type : n; unk_c_count : n;
                 unk_c_data : bytes }

val unk_calc : unk_cfg -> nat wres

val unk_write_unchecked : unk_cfg -> bytes -> (nat * bytes) wres

type custom_cfg = { cu_pt : n; cu_min : nat; cu_count : n; cu_padding : 
                    n; cu_payload : bytes }

val custom_parse : n -> nat -> bytes -> bytes pres

val custom_calc : custom_cfg -> nat wres

val custom_write_unchecked : custom_cfg -> bytes -> (nat * bytes) wres

type member =
| MSr of sr_cfg
| MRr of rr_cfg
| MApp of app_cfg
| MBye of bye_cfg
| MSdes of sdes_cfg
| MFb of fb_cfg
| MUnk of unk_cfg
| MCustom of custom_cfg
| MCompound of member list

val m_padding : member -> n option

val m_calc : member -> nat wres

val m_write_unchecked : member -> bytes -> (nat * bytes) wres

val m_write_into : member -> bytes -> nat wres * bytes

val chunk_write_into : chunk_cfg -> bytes -> nat wres * bytes

val item_write_into : item_cfg -> bytes -> nat wres * bytes

val obs_pair : ('a1 -> obs) -> ('a2 -> obs) -> ('a1 * 'a2) -> obs

val obs_list : ('a1 -> obs) -> 'a1 list -> obs

val obs_rng : (nat * nat) -> obs

val obs_optN : n option -> obs

val obs_hdr : bytes -> obs

val obs_rbs : nat -> bytes -> obs

val obs_item : item_view -> obs

val obs_chunk : chunk_view -> obs

val obs_fci_view : nat -> fci_type -> bytes -> obs

val all_fci : fci_type list

val obs_fcis : fb_kind -> bytes -> obs

val obs_view : packet_view -> kv list

val variant_name : variant -> string

val obs_kvs : kv list -> obs

val obs_packet : packet_view -> obs

val typed_variants : variant list

val bytes_eqb : bytes -> bytes -> bool

val packet_eqb : packet_view -> packet_view -> bool

val obs_conv : packet_view -> obs

val obs_next : packet_view pres option -> obs

val compound_run : nat -> nat -> compound_st -> obs list -> obs list

type entry =
| ECompound
| EPacket
| ETyped of variant
| ERb
| EFci of fci_type
| ECustom of n * nat

val run_parse : entry -> bytes -> kv list

val obs_write : (nat wres * bytes) -> obs

val mk_buf : (nat * n) -> bytes

val obs_roundtrip : member -> n -> kv list

val run_build : member -> (nat * n) list -> kv list

val run_build_chunk : chunk_cfg -> (nat * n) list -> kv list

val run_build_item : item_cfg -> (nat * n) list -> kv list

val obs_unchecked : (nat * bytes) wres -> obs

val run_helper_pad : n -> (nat * n) -> kv list

val run_helper_hdr : n -> n -> n -> (nat * n) -> kv list

val run_helper_chk : n -> kv list

val run_helper_phdr : bytes -> kv list

val run_build_unchecked : member -> nat -> n -> kv list

val fci_write_into : fci_cfg -> bytes -> nat wres * bytes

val run_build_fci : fci_cfg -> (nat * n) list -> kv list

type op =
| OPad of n
| ONtp of n
| ORtp of n
| OPc of n
| OOc of n
| ORb of rb_cfg
| OSubtype of n
| OData of bytes
| OSrc of n
| OReason of bytes
| OReasonOwned of bytes
| OChunk of chunk_cfg
| OCount of n
| OSender of n
| OMedia of n

type item_op =
| IPrefix of bytes
| IIntoOwned

type item_hist = { ih_type : n; ih_value : bytes; ih_ops : item_op list;
                   ih_add_owned : bool }

type chunk_hist = { chh_ssrc : n; chh_items : item_hist list }

val item_apply : item_cfg -> item_op -> item_cfg

val item_of_hist : item_hist -> item_cfg

val chunk_of_hist : chunk_hist -> chunk_cfg

type rpsi_op =
| RPt of n
| RData of bytes * n
| RDataOwned of bytes * n

type rpsi_st = { rp_pt : n; rp_bits : bytes; rp_ov : n }

val rpsi_apply : rpsi_st -> rpsi_op -> rpsi_st

type fci_hist =
| FHNack of n list
| FHFir of (n * n) list
| FHSli of ((n * n) * n) list
| FHRpsi of rpsi_op list
| FHPli

val fci_of_hist : fci_hist -> fci_cfg

val apply_op : member -> op -> member

type wrap =
| WDirect
| WPacketBuilder
| WCompound

type hist_init =
| HSr of n
| HRr of n
| HApp of n * bytes
| HBye
| HSdes
| HUnk of n * bytes
| HFb of fb_kind * fci_hist

val init_member : hist_init -> member

type hist = { h_init : hist_init; h_ops : op list; h_wrap : wrap }

val member_of_hist : hist -> member

val run_hist : hist -> kv list

val rfc_header : n -> n -> n -> nat -> bytes

val rfc_trailer : n -> bytes

val rfc_rb : rb_cfg -> bytes

val rfc_sr : sr_cfg -> bytes

val rfc_rr : rr_cfg -> bytes

val rfc_app : app_cfg -> bytes

val rfc_reason : bytes -> bytes

val rfc_bye : bye_cfg -> bytes

val rfc_item : item_cfg -> bytes

val rfc_chunk : chunk_cfg -> bytes

val rfc_sdes : sdes_cfg -> bytes

val nack_take : n -> n list -> n * n list

val rfc_nack_words : nat -> n list -> (n * n) list

val insert_sorted : n -> n list -> n list

val rfc_set : n list -> n list

val rfc_fir_lookup : (n * n) list -> n -> n option

val rfc_nodup_keys : n list -> (n * n) list -> n list

val rfc_fir_map : (n * n) list -> (n * n) list

val rfc_sli_word : ((n * n) * n) -> bytes

val rfc_rpsi : n -> bytes -> n -> bytes

val rfc_fci : fci_cfg -> bytes

val rfc_fb : fb_cfg -> bytes

val rfc_raw : n -> n -> n -> bytes -> bytes

val rfc_image : member -> bytes

val well_framed : nat -> n -> bytes -> bool

val raw_framed : bytes -> bool

val okO : obs -> obs

val okN : n -> obs

val okI : nat -> obs

val okPad : n -> obs

val exp_hdr : n -> n -> nat -> obs

val exp_rb : rb_cfg -> obs

val exp_sr : sr_cfg -> kv list

val exp_rr : rr_cfg -> kv list

val exp_app : app_cfg -> kv list

val exp_bye : bye_cfg -> kv list

val item_size : item_cfg -> nat

val exp_item : nat -> item_cfg -> obs

val exp_items : nat -> item_cfg list -> obs list

val chunk_size : chunk_cfg -> nat

val exp_chunk : nat -> chunk_cfg -> obs

val exp_chunks : nat -> chunk_cfg list -> obs list

val exp_sdes : sdes_cfg -> kv list

val errWI : obs

val exp_fci_entries : fci_cfg -> obs

val exp_fcis : fb_cfg -> obs

val exp_fb : fb_cfg -> kv list

val exp_raw : n -> n -> nat -> kv list

val expected_packet : member -> obs

val m_has_empty_fci : member -> bool

val m_oversize : member -> bool

val m_classes : member -> obs

val spec_build : member -> kv list

val entry_framing : entry -> bytes -> (nat * n) option

val obs_bool : bool -> obs

val spec_parse : entry -> bytes -> kv list

val sub0 : bytes -> nat -> nat -> bytes

val beN : bytes -> nat -> nat -> n

val byte_at : bytes -> nat -> n

val ref_hdr : bytes -> obs

val ref_padding : bytes -> obs

val ref_pad_len : bytes -> nat

val ref_rb : bytes -> nat -> obs

val ref_rbs : bytes -> nat -> obs

val ref_view : variant -> bytes -> kv list

val tiling : nat -> bytes -> nat -> (nat * nat) list option

val tiling_of : bytes -> (nat * nat) list option

val words : nat -> nat -> bytes -> bytes list

val nack_word_seqs : bytes -> n list

val fci_ref : fci_type -> nat -> bytes -> obs

val fb_fci_ref : fb_kind -> bytes -> obs

type ref_item =
| RItem of n * nat * nat * (nat * nat) option

type ref_chunk = { rc_ssrc : n; rc_len : nat; rc_items : ref_item list }

type verdict =
| MustAccept of ref_chunk list
| MustReject
| Either

type 'a scan =
| Done of 'a
| Reject
| Ambiguous

val ref_items : nat -> bytes -> nat -> nat -> (ref_item list * nat) scan

val ref_chunks : nat -> bytes -> nat -> nat -> ref_chunk list scan

val sdes_ref : bytes -> verdict

val obs_ref_item : ref_item -> obs

val obs_ref_chunk : ref_chunk -> obs

val obs_verdict : verdict -> obs

val rb_violations : rb_cfg -> werr list

val pad_violations : n -> werr list

val item_violations : item_cfg -> werr list

val fci_violations : fb_kind -> fci_cfg -> werr list

val violations : member -> werr list

val representable : member -> bool

val obs_tiles : (nat * nat) list option -> obs

val spec_parse2 : entry -> bytes -> kv list

val representable_full : member -> bool

val spec_build2 : member -> kv list

val spec_chunk : chunk_cfg -> kv list

val spec_item : item_cfg -> kv list

val last_of : (op -> 'a1 option) -> op list -> 'a1 -> 'a1

val all_of : (op -> 'a1 option) -> op list -> 'a1 list

val sel_pad : op -> n option

val sel_ntp : op -> n option

val sel_rtp : op -> n option

val sel_pc : op -> n option

val sel_oc : op -> n option

val sel_rb : op -> rb_cfg option

val sel_subtype : op -> n option

val sel_data : op -> bytes option

val sel_src : op -> n option

val sel_reason : op -> bytes option

val sel_chunk : op -> chunk_cfg option

val sel_count : op -> n option

val sel_sender : op -> n option

val sel_media : op -> n option

val final_rpsi : rpsi_op list -> fci_cfg

val final_fci : fci_hist -> fci_cfg

val final_member : hist_init -> op list -> member

val final_config : hist -> member
