(* C16 - Builders accept exactly the representable configurations.
   Property theorems only (generated from C16.in by bin/mkprop).
   [violations m] (coq/Spec/Ref.v) lists, as the error value that names it, every rule of the property
   the configuration violates: padding not a multiple of 4, count/subtype above 31, more than 31 report
   blocks / sources / chunks, cumulative loss above 24 bits, APP name longer than 4 bytes or non-ASCII,
   APP/unknown payload not a multiple of 4, reason or SDES value above 255 bytes, PRIV prefix + value
   above 254, RPSI payload type above 127, more than 8 ignored bits or any on an empty string, an FCI in
   the wrong feedback kind, FIR/NACK lists that cannot fit, padding on a non-last compound member.
   [representable m] = no violation.  The total-size rule (65536 words) is NOT enforced by the crate:
   known finding D13, stated below as C16_total_size_rule_is_missing; outside that class the full
   statement holds (C16_exactly_representable_outside_known_class). *)
From RtcpV Require Import Proofs.C16.

Theorem C16_accepts_iff_representable :
  forall m : member,
    member_wf m -> ((exists n, m_calc m = Ok n) <-> representable m = true).
Proof. exact accepts_iff_representable. Qed.
Check C16_accepts_iff_representable :
  forall m : member,
    member_wf m -> ((exists n, m_calc m = Ok n) <-> representable m = true).
Print Assumptions C16_accepts_iff_representable.

Theorem C16_error_names_a_violated_rule :
  forall (m : member) (e : werr),
    member_wf m -> m_calc m = Err e -> In e (violations m).
Proof. exact rejection_names_a_violated_rule. Qed.
Check C16_error_names_a_violated_rule :
  forall (m : member) (e : werr),
    member_wf m -> m_calc m = Err e -> In e (violations m).
Print Assumptions C16_error_names_a_violated_rule.

Theorem C16_exactly_representable_outside_known_class :
  forall m : member,
    member_wf m -> m_oversize m = false ->
    ((exists n, m_calc m = Ok n) <-> representable_full m = true).
Proof. exact accepts_iff_representable_full. Qed.
Check C16_exactly_representable_outside_known_class :
  forall m : member,
    member_wf m -> m_oversize m = false ->
    ((exists n, m_calc m = Ok n) <-> representable_full m = true).
Print Assumptions C16_exactly_representable_outside_known_class.

(* refutation of the full statement on the faithful model: an APP packet of more than 65536 words is
   accepted (known finding D13; the same witness fails on the implementation, corpus/known.cases) *)
Theorem C16_total_size_rule_is_missing :
  exists (m : member) (n : nat),
    member_wf m /\ m_calc m = Ok n /\ (262144 < N.of_nat n)%N /\ representable m = true.
Proof. exact oversize_is_accepted. Qed.
Check C16_total_size_rule_is_missing :
  exists (m : member) (n : nat),
    member_wf m /\ m_calc m = Ok n /\ (262144 < N.of_nat n)%N /\ representable m = true.
Print Assumptions C16_total_size_rule_is_missing.
