(* C02 - Sender/receiver reports survive a build-then-parse round trip.
   Property theorems only (generated from C02.in by bin/mkprop).
   [sr_wf]/[rr_wf]: the configured values fit their Rust types (u8, u32, u64) - true of every value a
   caller can pass.  [rfc_sr]/[rfc_rr]: the RFC 3550 image (coq/Spec/Rfc.v).  [exp_sr]/[exp_rr]: the
   observation tree listing every accessor's expected value, written from the configuration alone
   (coq/Spec/Views.v).  [m_write_into]: the model of write_into, result and final buffer. *)
From RtcpV Require Import Proofs.C02.

(* whatever the builder accepts is written as its RFC image, into any buffer that is large enough,
   and that image is accepted by the generic (hence the SR) parser with every accessor returning the
   configured value, blocks in order *)
Theorem C02_sender_report :
  forall (c : sr_cfg) (n : nat) (buf : bytes),
    sr_wf c -> m_calc (MSr c) = Ok n -> n <= length buf ->
    m_write_into (MSr c) buf = (Ok n, rfc_sr c ++ skipn n buf) /\
    packet_parse (rfc_sr c) = Ok (mk_pkt VSr (rfc_sr c) []) /\
    obs_view (mk_pkt VSr (rfc_sr c) []) = exp_sr c.
Proof. exact sr_build_then_parse. Qed.
Check C02_sender_report :
  forall (c : sr_cfg) (n : nat) (buf : bytes),
    sr_wf c -> m_calc (MSr c) = Ok n -> n <= length buf ->
    m_write_into (MSr c) buf = (Ok n, rfc_sr c ++ skipn n buf) /\
    packet_parse (rfc_sr c) = Ok (mk_pkt VSr (rfc_sr c) []) /\
    obs_view (mk_pkt VSr (rfc_sr c) []) = exp_sr c.
Print Assumptions C02_sender_report.

Theorem C02_receiver_report :
  forall (c : rr_cfg) (n : nat) (buf : bytes),
    rr_wf c -> m_calc (MRr c) = Ok n -> n <= length buf ->
    m_write_into (MRr c) buf = (Ok n, rfc_rr c ++ skipn n buf) /\
    packet_parse (rfc_rr c) = Ok (mk_pkt VRr (rfc_rr c) []) /\
    obs_view (mk_pkt VRr (rfc_rr c) []) = exp_rr c.
Proof. exact rr_build_then_parse. Qed.
Check C02_receiver_report :
  forall (c : rr_cfg) (n : nat) (buf : bytes),
    rr_wf c -> m_calc (MRr c) = Ok n -> n <= length buf ->
    m_write_into (MRr c) buf = (Ok n, rfc_rr c ++ skipn n buf) /\
    packet_parse (rfc_rr c) = Ok (mk_pkt VRr (rfc_rr c) []) /\
    obs_view (mk_pkt VRr (rfc_rr c) []) = exp_rr c.
Print Assumptions C02_receiver_report.

Theorem C02_sender_report_typed_parser :
  forall (c : sr_cfg) (n : nat),
    sr_wf c -> sr_calc c = Ok n ->
    typed_parse VSr (rfc_sr c) = Ok (mk_pkt VSr (rfc_sr c) []) /\
    obs_view (mk_pkt VSr (rfc_sr c) []) = exp_sr c.
Proof. exact sr_roundtrip. Qed.
Check C02_sender_report_typed_parser :
  forall (c : sr_cfg) (n : nat),
    sr_wf c -> sr_calc c = Ok n ->
    typed_parse VSr (rfc_sr c) = Ok (mk_pkt VSr (rfc_sr c) []) /\
    obs_view (mk_pkt VSr (rfc_sr c) []) = exp_sr c.
Print Assumptions C02_sender_report_typed_parser.

Theorem C02_receiver_report_typed_parser :
  forall (c : rr_cfg) (n : nat),
    rr_wf c -> rr_calc c = Ok n ->
    typed_parse VRr (rfc_rr c) = Ok (mk_pkt VRr (rfc_rr c) []) /\
    obs_view (mk_pkt VRr (rfc_rr c) []) = exp_rr c.
Proof. exact rr_roundtrip. Qed.
Check C02_receiver_report_typed_parser :
  forall (c : rr_cfg) (n : nat),
    rr_wf c -> rr_calc c = Ok n ->
    typed_parse VRr (rfc_rr c) = Ok (mk_pkt VRr (rfc_rr c) []) /\
    obs_view (mk_pkt VRr (rfc_rr c) []) = exp_rr c.
Print Assumptions C02_receiver_report_typed_parser.

(* the hypothesis "the builder accepts" is met by exactly the configurations the property names *)
Theorem C02_builder_accepts_exactly :
  forall c : sr_cfg,
    (exists n, sr_calc c = Ok n) <->
    length (sr_c_blocks c) <= 31 /\ (sr_c_padding c mod 4 = 0)%N /\
    Forall (fun b => (rb_c_cumulative b < 16777216)%N) (sr_c_blocks c).
Proof. exact sr_accepts_iff. Qed.
Check C02_builder_accepts_exactly :
  forall c : sr_cfg,
    (exists n, sr_calc c = Ok n) <->
    length (sr_c_blocks c) <= 31 /\ (sr_c_padding c mod 4 = 0)%N /\
    Forall (fun b => (rb_c_cumulative b < 16777216)%N) (sr_c_blocks c).
Print Assumptions C02_builder_accepts_exactly.
