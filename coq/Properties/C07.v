(* C07 - Written packets have the RFC 3550/4585/5104 wire layout.
   Property theorems only (generated from C07.in by bin/mkprop).
   [rfc_image] (coq/Spec/Rfc.v) is the independent encoder: header V=2 | P | count, PT, length in words
   minus one; big-endian fields; length-prefixed text; SDES chunks null-terminated and zero-filled;
   trailing padding of zeros ending in the count.  It shares nothing with the model's writers.
   [in_window p x]: x is one of p .. p+16, the numbers a word with PID p can name without wrapping past
   65535 (the property's "strictly increasing" words).
   [length_field img]: the big-endian value of bytes 2..3.  [rfc_header] writes be16 (total/4 - 1): the RFC
   value whenever the packet has at most 262144 bytes; builders without a total-size rule accept longer
   packets (known finding D13) and then the field is that value modulo 65536
   (C07_length_field_oversize_refuted). *)
From RtcpV Require Import Proofs.Members Proofs.NackMin Proofs.C07b.

(* the n bytes any accepted builder writes are exactly rfc_image, for packets, third-party writers and
   nested compounds *)
Theorem C07_written_bytes_are_the_rfc_image :
  forall m : member,
    member_wf m ->
    forall n : nat, m_calc m = Ok n ->
      length (rfc_image m) = n /\ n mod 4 = 0 /\
      forall s : bytes, length s = n -> m_write_unchecked m s = Ok (n, rfc_image m).
Proof. exact member_writes_image. Qed.
Check C07_written_bytes_are_the_rfc_image :
  forall m : member,
    member_wf m ->
    forall n : nat, m_calc m = Ok n ->
      length (rfc_image m) = n /\ n mod 4 = 0 /\
      forall s : bytes, length s = n -> m_write_unchecked m s = Ok (n, rfc_image m).
Print Assumptions C07_written_bytes_are_the_rfc_image.

(* the NACK words are computed from the ascending duplicate-free set of the requested numbers *)
Theorem C07_nack_set_is_sorted_set :
  forall adds : list N, nack_set adds = rfc_set adds.
Proof. exact nack_set_rfc. Qed.
Check C07_nack_set_is_sorted_set :
  forall adds : list N, nack_set adds = rfc_set adds.
Print Assumptions C07_nack_set_is_sorted_set.

(* the encoder's (PID, BLP) words are the declarative grouping: the first remaining number is the PID,
   every later number within PID+1..PID+16 sets its BLP bit *)
Theorem C07_nack_words_are_the_greedy_words :
  forall (l : list N) (fuel : nat),
    length l <= fuel -> asc l -> (forall x, In x l -> (x < 65536)%N) ->
    nack_words None 0%N l = rfc_nack_words fuel l.
Proof. exact nack_words_rfc. Qed.
Check C07_nack_words_are_the_greedy_words :
  forall (l : list N) (fuel : nat),
    length l <= fuel -> asc l -> (forall x, In x l -> (x < 65536)%N) ->
    nack_words None 0%N l = rfc_nack_words fuel l.
Print Assumptions C07_nack_words_are_the_greedy_words.

Theorem C07_fir_map_is_last_value_per_ssrc :
  forall adds : list (N * N), fir_map adds = rfc_fir_map adds.
Proof. exact fir_map_rfc. Qed.
Check C07_fir_map_is_last_value_per_ssrc :
  forall adds : list (N * N), fir_map adds = rfc_fir_map adds.
Print Assumptions C07_fir_map_is_last_value_per_ssrc.

Theorem C07_fir_map_meaning :
  forall adds : list (N * N),
    NoDup (keys (rfc_fir_map adds)) /\
    (forall k v, In (k, v) (rfc_fir_map adds) <-> rfc_fir_lookup adds k = Some v).
Proof. exact rfc_fir_map_spec. Qed.
Check C07_fir_map_meaning :
  forall adds : list (N * N),
    NoDup (keys (rfc_fir_map adds)) /\
    (forall k v, In (k, v) (rfc_fir_map adds) <-> rfc_fir_lookup adds k = Some v).
Print Assumptions C07_fir_map_meaning.

(* any list of words whose windows cover the requested set has at least as many words as the encoder writes *)
Theorem C07_nack_words_are_as_few_as_possible :
  forall (fuel : nat) (l : list N) (ws : list (N * N)),
    length l <= fuel -> asc l ->
    (forall x, In x l -> exists w, In w ws /\ in_window (fst w) x) ->
    length (rfc_nack_words fuel l) <= length ws.
Proof. exact nack_words_minimal. Qed.
Check C07_nack_words_are_as_few_as_possible :
  forall (fuel : nat) (l : list N) (ws : list (N * N)),
    length l <= fuel -> asc l ->
    (forall x, In x l -> exists w, In w ws /\ in_window (fst w) x) ->
    length (rfc_nack_words fuel l) <= length ws.
Print Assumptions C07_nack_words_are_as_few_as_possible.

(* the boundary of the previous theorem: if a word may wrap past 65535 (which the decoder does read), one
   word (65530, bit 5) covers {0, 65530} and decodes to it, while the encoder writes its two greedy words *)
Theorem C07_nack_minimality_with_wrapping_words_refuted :
  exists (l : list N) (ws : list (N * N)),
    asc l /\ (forall x, In x l -> exists w, In w ws /\ in_window_wrap (fst w) x) /\
    length ws < length (rfc_nack_words (length l) l) /\
    nack_words None 0%N l = rfc_nack_words (length l) l /\
    nack_entries (concat (map (fun w => be16 (fst w) ++ be16 (snd w)) ws)) = Ok [65530%N; 0%N].
Proof. exact nack_minimal_with_wrapping_refuted. Qed.
Check C07_nack_minimality_with_wrapping_words_refuted :
  exists (l : list N) (ws : list (N * N)),
    asc l /\ (forall x, In x l -> exists w, In w ws /\ in_window_wrap (fst w) x) /\
    length ws < length (rfc_nack_words (length l) l) /\
    nack_words None 0%N l = rfc_nack_words (length l) l /\
    nack_entries (concat (map (fun w => be16 (fst w) ++ be16 (snd w)) ws)) = Ok [65530%N; 0%N].
Print Assumptions C07_nack_minimality_with_wrapping_words_refuted.

(* every image starts with rfc_header: up to 262144 bytes its length field is size/4 - 1 *)
Theorem C07_length_field_is_size_div_4_minus_1 :
  forall (pt p c : N) (total : nat) (rest : bytes),
    4 <= total -> (N.of_nat total <= 262144)%N ->
    length_field (rfc_header pt p c total ++ rest) = N.of_nat (total / 4 - 1).
Proof. exact rfc_header_length_field. Qed.
Check C07_length_field_is_size_div_4_minus_1 :
  forall (pt p c : N) (total : nat) (rest : bytes),
    4 <= total -> (N.of_nat total <= 262144)%N ->
    length_field (rfc_header pt p c total ++ rest) = N.of_nat (total / 4 - 1).
Print Assumptions C07_length_field_is_size_div_4_minus_1.

(* known finding D13 seen from this property: an accepted APP configuration of more than 262144 bytes
   whose image cannot carry size/4 - 1 in its length field *)
Theorem C07_length_field_oversize_refuted :
  exists c n, app_wf c /\ app_calc c = Ok n /\ (262144 < N.of_nat n)%N /\
              length_field (rfc_app c) <> N.of_nat (n / 4 - 1).
Proof. exact length_field_oversize_refuted. Qed.
Check C07_length_field_oversize_refuted :
  exists c n, app_wf c /\ app_calc c = Ok n /\ (262144 < N.of_nat n)%N /\
              length_field (rfc_app c) <> N.of_nat (n / 4 - 1).
Print Assumptions C07_length_field_oversize_refuted.

(* the first 32-bit word of the image of any accepted single-packet configuration of at most 262144 bytes:
   128 (version 2) + 32 exactly when padding was requested + count / subtype / format; the packet type;
   the length in 32-bit words minus one.  [leaf_fields m] = (packet type, requested padding, count). *)
Theorem C07_first_word_of_every_packet_image :
  forall (m : member) (n : nat),
    is_leaf m = true -> member_wf m -> m_calc m = Ok n -> (N.of_nat n <= 262144)%N ->
    nth 0 (rfc_image m) 0%N =
      (128 + (if (0 <? snd (fst (leaf_fields m)))%N then 32 else 0) + snd (leaf_fields m))%N /\
    nth 1 (rfc_image m) 0%N = fst (fst (leaf_fields m)) /\
    length_field (rfc_image m) = N.of_nat (n / 4 - 1).
Proof. exact leaf_image_first_word. Qed.
Check C07_first_word_of_every_packet_image :
  forall (m : member) (n : nat),
    is_leaf m = true -> member_wf m -> m_calc m = Ok n -> (N.of_nat n <= 262144)%N ->
    nth 0 (rfc_image m) 0%N =
      (128 + (if (0 <? snd (fst (leaf_fields m)))%N then 32 else 0) + snd (leaf_fields m))%N /\
    nth 1 (rfc_image m) 0%N = fst (fst (leaf_fields m)) /\
    length_field (rfc_image m) = N.of_nat (n / 4 - 1).
Print Assumptions C07_first_word_of_every_packet_image.

Theorem C07_accepted_count_fits_5_bits :
  forall (m : member) (n : nat),
    is_leaf m = true -> member_wf m -> m_calc m = Ok n -> (snd (leaf_fields m) < 32)%N.
Proof. exact accepted_count_fits_5_bits. Qed.
Check C07_accepted_count_fits_5_bits :
  forall (m : member) (n : nat),
    is_leaf m = true -> member_wf m -> m_calc m = Ok n -> (snd (leaf_fields m) < 32)%N.
Print Assumptions C07_accepted_count_fits_5_bits.
