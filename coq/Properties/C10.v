(* C10 - SDES decoding follows RFC 3550 chunk and item tokenisation.
   Property theorems only (generated from C10.in by bin/mkprop).
   [sdes_ref l] (coq/Spec/Ref.v) is a three-valued reference tokeniser written from RFC 3550 6.5, reading
   the input by absolute offset only: MustAccept with the chunks (SSRC, encoded length, items as type,
   value range and - for PRIV - prefix range), MustReject (an item overruns the packet, a PRIV prefix
   overruns its item, a non-zero byte in a chunk's fill), Either (what the RFC leaves open: a chunk that
   ends without a terminator, a fill cut short by the end, a PRIV item without a prefix-length octet, fewer
   than four bytes left for an SSRC).  [wfb l]: the elements of l are bytes. *)
From RtcpV Require Import Proofs.C10 Proofs.C10b.

Theorem C10_parser_agrees_with_the_rfc_tokeniser :
  forall l : bytes,
    wfb l -> well_framed 4 202 l = true ->
    match sdes_ref l with
    | MustAccept rcs =>
        exists pv, typed_parse VSdes l = Ok pv /\ pk_data pv = l /\
                   obs_view pv = ref_view VSdes l ++ [("chunks", OL (map obs_ref_chunk rcs))]
    | MustReject => exists err, typed_parse VSdes l = Err err
    | Either => True
    end.
Proof. exact sdes_tokenisation. Qed.
Check C10_parser_agrees_with_the_rfc_tokeniser :
  forall l : bytes,
    wfb l -> well_framed 4 202 l = true ->
    match sdes_ref l with
    | MustAccept rcs =>
        exists pv, typed_parse VSdes l = Ok pv /\ pk_data pv = l /\
                   obs_view pv = ref_view VSdes l ++ [("chunks", OL (map obs_ref_chunk rcs))]
    | MustReject => exists err, typed_parse VSdes l = Err err
    | Either => True
    end.
Print Assumptions C10_parser_agrees_with_the_rfc_tokeniser.

(* from any aligned position, with any sufficient fuel on either side *)
Theorem C10_chunk_walk_agrees :
  forall (l : bytes) (e : nat),
    wfb l -> e <= length l ->
    forall fr fm p : nat,
      p mod 4 = 0 -> e - p < fm ->
      match ref_chunks fr l e p with
      | Done rcs => exists cs, chunks_loop fm l e p = Ok cs /\ map obs_chunk cs = map obs_ref_chunk rcs
      | Reject => exists err, chunks_loop fm l e p = Err err
      | Ambiguous => True
      end.
Proof. exact chunks_agree. Qed.
Check C10_chunk_walk_agrees :
  forall (l : bytes) (e : nat),
    wfb l -> e <= length l ->
    forall fr fm p : nat,
      p mod 4 = 0 -> e - p < fm ->
      match ref_chunks fr l e p with
      | Done rcs => exists cs, chunks_loop fm l e p = Ok cs /\ map obs_chunk cs = map obs_ref_chunk rcs
      | Reject => exists err, chunks_loop fm l e p = Err err
      | Ambiguous => True
      end.
Print Assumptions C10_chunk_walk_agrees.

(* for every accepted input, the ambiguous ones included *)
Theorem C10_accepted_items_are_tokens_of_the_input :
  forall (l : bytes) (cs : list chunk_view),
    sdes_parse l = Ok cs -> Forall (fun c => Forall (item_in_packet l) (ch_items c)) cs.
Proof. exact accepted_items_are_tokens. Qed.
Check C10_accepted_items_are_tokens_of_the_input :
  forall (l : bytes) (cs : list chunk_view),
    sdes_parse l = Ok cs -> Forall (fun c => Forall (item_in_packet l) (ch_items c)) cs.
Print Assumptions C10_accepted_items_are_tokens_of_the_input.

Theorem C10_verdicts_occur :
  let good := [162; 202; 0; 7; 18; 52; 86; 120; 1; 3; 97; 98; 99; 8; 4; 2; 112; 113; 118; 0;
               0; 0; 0; 7; 2; 0; 0; 0; 0; 0; 0; 4]%N in
  let overrun := [129; 202; 0; 2; 0; 0; 0; 9; 1; 9; 97; 0]%N in
  let fill := [129; 202; 0; 2; 0; 0; 0; 9; 1; 0; 0; 5]%N in
  let open := [129; 202; 0; 2; 0; 0; 0; 9; 1; 2; 97; 98]%N in
  (exists rcs, sdes_ref good = MustAccept rcs /\ length rcs = 2 /\ well_framed 4 202 good = true) /\
  sdes_ref overrun = MustReject /\ sdes_ref fill = MustReject /\ sdes_ref open = Either.
Proof. exact verdicts_occur. Qed.
Check C10_verdicts_occur :
  let good := [162; 202; 0; 7; 18; 52; 86; 120; 1; 3; 97; 98; 99; 8; 4; 2; 112; 113; 118; 0;
               0; 0; 0; 7; 2; 0; 0; 0; 0; 0; 0; 4]%N in
  let overrun := [129; 202; 0; 2; 0; 0; 0; 9; 1; 9; 97; 0]%N in
  let fill := [129; 202; 0; 2; 0; 0; 0; 9; 1; 0; 0; 5]%N in
  let open := [129; 202; 0; 2; 0; 0; 0; 9; 1; 2; 97; 98]%N in
  (exists rcs, sdes_ref good = MustAccept rcs /\ length rcs = 2 /\ well_framed 4 202 good = true) /\
  sdes_ref overrun = MustReject /\ sdes_ref fill = MustReject /\ sdes_ref open = Either.
Print Assumptions C10_verdicts_occur.

(* every SDES packet the independent RFC encoder can produce is judged well formed by the reference
   tokeniser, so the must-accept clause above applies to all of them *)
Theorem C10_every_encoder_image_is_must_accept :
  forall (c : sdes_cfg) (n : nat),
    sdes_wf c -> sdes_calc c = Ok n -> (N.of_nat n <= 262144)%N ->
    sdes_ref (rfc_sdes c) = MustAccept (ref_chunks_of 4 (sdes_c_chunks c)).
Proof. exact encoder_images_must_be_accepted. Qed.
Check C10_every_encoder_image_is_must_accept :
  forall (c : sdes_cfg) (n : nat),
    sdes_wf c -> sdes_calc c = Ok n -> (N.of_nat n <= 262144)%N ->
    sdes_ref (rfc_sdes c) = MustAccept (ref_chunks_of 4 (sdes_c_chunks c)).
Print Assumptions C10_every_encoder_image_is_must_accept.

Theorem C10_reference_tokens_of_an_image_are_its_configuration :
  forall (cs : list chunk_cfg) (p : nat),
    Forall (fun c => exists k, chunk_calc c = Ok k) cs ->
    map obs_ref_chunk (ref_chunks_of p cs) = exp_chunks p cs.
Proof. exact encoder_tokens_are_the_configuration. Qed.
Check C10_reference_tokens_of_an_image_are_its_configuration :
  forall (cs : list chunk_cfg) (p : nat),
    Forall (fun c => exists k, chunk_calc c = Ok k) cs ->
    map obs_ref_chunk (ref_chunks_of p cs) = exp_chunks p cs.
Print Assumptions C10_reference_tokens_of_an_image_are_its_configuration.
