(* C03 - SDES packets survive a build-then-parse round trip.
   Property theorems only (generated from C03.in by bin/mkprop).
   [sdes_wf]: values fit their Rust types and item types are non-zero (the property's "any non-zero item
   types"): u8 padding, u32 SSRCs, u8 item types.  Values and prefixes are arbitrary byte strings (UTF-8
   is not needed by the proof); the builder's own size rules (sdes_calc) bound their lengths.
   [exp_sdes c] (coq/Spec/Views.v): header, configured padding, and per chunk its SSRC, its encoded
   length, and per item the type, length byte, value range and (PRIV) prefix length and prefix range, each
   range an (offset, length) pair in the caller's buffer.  The size bound is known finding D13 (no
   total-size rule in the builders); its SDES witness is corpus/impl_only/K13c.case. *)
From RtcpV Require Import Proofs.C03.

Theorem C03_sdes_build_then_parse :
  forall (c : sdes_cfg) (n : nat) (buf : bytes),
    sdes_wf c -> m_calc (MSdes c) = Ok n -> (N.of_nat n <= 262144)%N -> n <= length buf ->
    m_write_into (MSdes c) buf = (Ok n, rfc_sdes c ++ skipn n buf) /\
    exists pv, packet_parse (rfc_sdes c) = Ok pv /\ pk_variant pv = VSdes /\ pk_data pv = rfc_sdes c /\
               obs_view pv = exp_sdes c.
Proof. exact sdes_build_then_parse. Qed.
Check C03_sdes_build_then_parse :
  forall (c : sdes_cfg) (n : nat) (buf : bytes),
    sdes_wf c -> m_calc (MSdes c) = Ok n -> (N.of_nat n <= 262144)%N -> n <= length buf ->
    m_write_into (MSdes c) buf = (Ok n, rfc_sdes c ++ skipn n buf) /\
    exists pv, packet_parse (rfc_sdes c) = Ok pv /\ pk_variant pv = VSdes /\ pk_data pv = rfc_sdes c /\
               obs_view pv = exp_sdes c.
Print Assumptions C03_sdes_build_then_parse.

(* the chunk list the parser yields is the list of configured chunks at their offsets *)
Theorem C03_sdes_typed_parser :
  forall (c : sdes_cfg) (n : nat),
    sdes_wf c -> sdes_calc c = Ok n -> (N.of_nat n <= 262144)%N ->
    typed_parse VSdes (rfc_sdes c) = Ok (mk_pkt VSdes (rfc_sdes c) (chunk_views 4 (sdes_c_chunks c))) /\
    obs_view (mk_pkt VSdes (rfc_sdes c) (chunk_views 4 (sdes_c_chunks c))) = exp_sdes c.
Proof. exact sdes_roundtrip. Qed.
Check C03_sdes_typed_parser :
  forall (c : sdes_cfg) (n : nat),
    sdes_wf c -> sdes_calc c = Ok n -> (N.of_nat n <= 262144)%N ->
    typed_parse VSdes (rfc_sdes c) = Ok (mk_pkt VSdes (rfc_sdes c) (chunk_views 4 (sdes_c_chunks c))) /\
    obs_view (mk_pkt VSdes (rfc_sdes c) (chunk_views 4 (sdes_c_chunks c))) = exp_sdes c.
Print Assumptions C03_sdes_typed_parser.

(* whatever bytes follow the chunk (a following SSRC starting with zero bytes included) *)
Theorem C03_chunk_parser_finds_the_chunk_boundary :
  forall (base : nat) (c : chunk_cfg) (n : nat) (tail : bytes),
    chunk_wf c -> chunk_calc c = Ok n ->
    chunk_parse base (rfc_chunk c ++ tail) = Ok (chunk_view_of base c, n).
Proof. exact chunk_parse_rfc. Qed.
Check C03_chunk_parser_finds_the_chunk_boundary :
  forall (base : nat) (c : chunk_cfg) (n : nat) (tail : bytes),
    chunk_wf c -> chunk_calc c = Ok n ->
    chunk_parse base (rfc_chunk c ++ tail) = Ok (chunk_view_of base c, n).
Print Assumptions C03_chunk_parser_finds_the_chunk_boundary.

Theorem C03_item_parser :
  forall (i : item_cfg) (k : nat) (tail : bytes),
    item_calc i = Ok k -> item_parse (rfc_item i ++ tail) = Ok (rfc_item i, k).
Proof. exact item_parse_rfc. Qed.
Check C03_item_parser :
  forall (i : item_cfg) (k : nat) (tail : bytes),
    item_calc i = Ok k -> item_parse (rfc_item i ++ tail) = Ok (rfc_item i, k).
Print Assumptions C03_item_parser.

Theorem C03_item_accessors :
  forall (off : nat) (i : item_cfg) (k : nat),
    item_calc i = Ok k ->
    obs_item (mk_item off (rfc_item i)) = exp_item off i /\
    item_length (mk_item off (rfc_item i)) = Ok (k - 2).
Proof. exact item_view_rfc. Qed.
Check C03_item_accessors :
  forall (off : nat) (i : item_cfg) (k : nat),
    item_calc i = Ok k ->
    obs_item (mk_item off (rfc_item i)) = exp_item off i /\
    item_length (mk_item off (rfc_item i)) = Ok (k - 2).
Print Assumptions C03_item_accessors.

Theorem C03_premises_are_satisfiable :
  let c := mk_sdes 4 [mk_ccfg 305419896 [mk_icfg 1 [] [97; 98; 99]; mk_icfg 8 [112; 113] [118]];
                      mk_ccfg 7 [mk_icfg 2 [] []]]%N in
  sdes_wf c /\ sdes_calc c = Ok 32 /\ (N.of_nat 32 <= 262144)%N.
Proof. exact sdes_premises_hold. Qed.
Check C03_premises_are_satisfiable :
  let c := mk_sdes 4 [mk_ccfg 305419896 [mk_icfg 1 [] [97; 98; 99]; mk_icfg 8 [112; 113] [118]];
                      mk_ccfg 7 [mk_icfg 2 [] []]]%N in
  sdes_wf c /\ sdes_calc c = Ok 32 /\ (N.of_nat 32 <= 262144)%N.
Print Assumptions C03_premises_are_satisfiable.

(* known finding D13: the size bound above is necessary for every configuration, not only for a witness *)
Theorem C03_oversize_configurations_do_not_parse_back :
  forall (c : sdes_cfg) (n : nat),
    sdes_wf c -> sdes_calc c = Ok n -> (262144 < N.of_nat n)%N ->
    exists e, typed_parse VSdes (rfc_sdes c) = Err e.
Proof. exact sdes_oversize_rejected. Qed.
Check C03_oversize_configurations_do_not_parse_back :
  forall (c : sdes_cfg) (n : nat),
    sdes_wf c -> sdes_calc c = Ok n -> (262144 < N.of_nat n)%N ->
    exists e, typed_parse VSdes (rfc_sdes c) = Err e.
Print Assumptions C03_oversize_configurations_do_not_parse_back.
