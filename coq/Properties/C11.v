(* C11 - Compound parsing tiles the datagram and iterates it faithfully.
   Property theorems only (generated from C11.in by bin/mkprop).
   [is_tiling l off ts]: ts are consecutive (offset, length) tiles from off to the end of l, each as
   long as its own length field says.  [nexts k c]: the results of the first k calls of next().
   [iter_spec l ts]: the generic parser on each tile, cut after the first failing tile (inclusive).
   [expected_nexts k items] = map Some (firstn k items) ++ repeat None (k - length items). *)
From RtcpV Require Import Proofs.ParseTotal.

(* accepted exactly when non-empty and partitioned by the chain of length fields *)
Theorem C11_accepted_iff_tiled :
  forall l : bytes,
    (exists c, compound_parse l = Ok c) <-> (l <> [] /\ exists ts, is_tiling l 0 ts).
Proof. exact compound_accepts_iff_tiled. Qed.
Check C11_accepted_iff_tiled :
  forall l : bytes,
    (exists c, compound_parse l = Ok c) <-> (l <> [] /\ exists ts, is_tiling l 0 ts).
Print Assumptions C11_accepted_iff_tiled.

(* the executable reference used by the correspondence run computes that partition *)
Theorem C11_tiling_reference :
  forall (l : bytes) (ts : list (nat * nat)),
    tiling_of l = Some ts <-> l <> [] /\ is_tiling l 0 ts.
Proof. exact tiling_of_iff. Qed.
Check C11_tiling_reference :
  forall (l : bytes) (ts : list (nat * nat)),
    tiling_of l = Some ts <-> l <> [] /\ is_tiling l 0 ts.
Print Assumptions C11_tiling_reference.

(* for every number k of next() calls (calls after exhaustion included) *)
Theorem C11_iteration :
  forall (l : bytes) (c : compound_st) (ts : list (nat * nat)),
    compound_parse l = Ok c -> tiling_of l = Some ts ->
    forall k : nat, nexts k c = Ok (expected_nexts k (iter_spec l ts)).
Proof. exact compound_iteration_total. Qed.
Check C11_iteration :
  forall (l : bytes) (c : compound_st) (ts : list (nat * nat)),
    compound_parse l = Ok c -> tiling_of l = Some ts ->
    forall k : nat, nexts k c = Ok (expected_nexts k (iter_spec l ts)).
Print Assumptions C11_iteration.

Theorem C11_never_more_items_than_tiles :
  forall (l : bytes) (ts : list (nat * nat)), length (iter_spec l ts) <= length ts.
Proof. exact iter_spec_length. Qed.
Check C11_never_more_items_than_tiles :
  forall (l : bytes) (ts : list (nat * nat)), length (iter_spec l ts) <= length ts.
Print Assumptions C11_never_more_items_than_tiles.

Theorem C11_stops_after_first_error :
  forall (l : bytes) (ts : list (nat * nat)) (i : nat) (r : pres packet_view),
    nth_error (iter_spec l ts) i = Some r -> is_ok r = false -> length (iter_spec l ts) = S i.
Proof. exact iter_spec_stops. Qed.
Check C11_stops_after_first_error :
  forall (l : bytes) (ts : list (nat * nat)) (i : nat) (r : pres packet_view),
    nth_error (iter_spec l ts) i = Some r -> is_ok r = false -> length (iter_spec l ts) = S i.
Print Assumptions C11_stops_after_first_error.
