(* C04 - BYE and APP packets survive a build-then-parse round trip.
   Property theorems only (generated from C04.in by bin/mkprop).
   [app_wf]/[bye_wf]: the configured values fit their Rust types (u8, u32).  A reason of length 0 is
   "no reason".  The APP statement carries the total-size bound of 65536 words: above it the crate's
   builder still accepts but its parser rejects the bytes (known finding D13, C04_app_oversize_refuted). *)
From RtcpV Require Import Proofs.C04.

Theorem C04_app :
  forall (c : app_cfg) (n : nat) (buf : bytes),
    app_wf c -> m_calc (MApp c) = Ok n -> (N.of_nat n <= 262144)%N -> n <= length buf ->
    m_write_into (MApp c) buf = (Ok n, rfc_app c ++ skipn n buf) /\
    packet_parse (rfc_app c) = Ok (mk_pkt VApp (rfc_app c) []) /\
    obs_view (mk_pkt VApp (rfc_app c) []) = exp_app c.
Proof. exact app_build_then_parse. Qed.
Check C04_app :
  forall (c : app_cfg) (n : nat) (buf : bytes),
    app_wf c -> m_calc (MApp c) = Ok n -> (N.of_nat n <= 262144)%N -> n <= length buf ->
    m_write_into (MApp c) buf = (Ok n, rfc_app c ++ skipn n buf) /\
    packet_parse (rfc_app c) = Ok (mk_pkt VApp (rfc_app c) []) /\
    obs_view (mk_pkt VApp (rfc_app c) []) = exp_app c.
Print Assumptions C04_app.

(* sources in order, reason bytes (absent when none was set), padding: for every source list up to 31,
   every reason length 0..255 and every legal padding *)
Theorem C04_bye :
  forall (c : bye_cfg) (n : nat) (buf : bytes),
    bye_wf c -> m_calc (MBye c) = Ok n -> n <= length buf ->
    m_write_into (MBye c) buf = (Ok n, rfc_bye c ++ skipn n buf) /\
    packet_parse (rfc_bye c) = Ok (mk_pkt VBye (rfc_bye c) []) /\
    obs_view (mk_pkt VBye (rfc_bye c) []) = exp_bye c.
Proof. exact bye_build_then_parse. Qed.
Check C04_bye :
  forall (c : bye_cfg) (n : nat) (buf : bytes),
    bye_wf c -> m_calc (MBye c) = Ok n -> n <= length buf ->
    m_write_into (MBye c) buf = (Ok n, rfc_bye c ++ skipn n buf) /\
    packet_parse (rfc_bye c) = Ok (mk_pkt VBye (rfc_bye c) []) /\
    obs_view (mk_pkt VBye (rfc_bye c) []) = exp_bye c.
Print Assumptions C04_bye.

Theorem C04_app_typed_parser :
  forall (c : app_cfg) (n : nat),
    app_wf c -> app_calc c = Ok n -> (N.of_nat n <= 262144)%N ->
    typed_parse VApp (rfc_app c) = Ok (mk_pkt VApp (rfc_app c) []) /\
    obs_view (mk_pkt VApp (rfc_app c) []) = exp_app c.
Proof. exact app_roundtrip. Qed.
Check C04_app_typed_parser :
  forall (c : app_cfg) (n : nat),
    app_wf c -> app_calc c = Ok n -> (N.of_nat n <= 262144)%N ->
    typed_parse VApp (rfc_app c) = Ok (mk_pkt VApp (rfc_app c) []) /\
    obs_view (mk_pkt VApp (rfc_app c) []) = exp_app c.
Print Assumptions C04_app_typed_parser.

Theorem C04_bye_typed_parser :
  forall (c : bye_cfg) (n : nat),
    bye_wf c -> bye_calc c = Ok n ->
    typed_parse VBye (rfc_bye c) = Ok (mk_pkt VBye (rfc_bye c) []) /\
    obs_view (mk_pkt VBye (rfc_bye c) []) = exp_bye c.
Proof. exact bye_roundtrip. Qed.
Check C04_bye_typed_parser :
  forall (c : bye_cfg) (n : nat),
    bye_wf c -> bye_calc c = Ok n ->
    typed_parse VBye (rfc_bye c) = Ok (mk_pkt VBye (rfc_bye c) []) /\
    obs_view (mk_pkt VBye (rfc_bye c) []) = exp_bye c.
Print Assumptions C04_bye_typed_parser.

(* known finding D13: an accepted APP packet above 65536 words is rejected by the APP parser *)
Theorem C04_app_oversize_refuted :
  exists (c : app_cfg) (n : nat),
    app_wf c /\ app_calc c = Ok n /\ (262144 < N.of_nat n)%N /\
    exists e, typed_parse VApp (rfc_app c) = Err e.
Proof. exact app_oversize_refuted. Qed.
Check C04_app_oversize_refuted :
  exists (c : app_cfg) (n : nat),
    app_wf c /\ app_calc c = Ok n /\ (262144 < N.of_nat n)%N /\
    exists e, typed_parse VApp (rfc_app c) = Err e.
Print Assumptions C04_app_oversize_refuted.
