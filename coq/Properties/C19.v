(* C19 - Third-party packet types built on the public helpers interoperate.
   Property theorems only (generated from C19.in by bin/mkprop).
   The third-party family is parameterised by type number, minimum length, count, payload and padding
   (harness: Custom<PT, MIN> / CustomBuilder<PT, MIN>; model: custom_cfg); embedding in compounds and the
   per-tile parse are C14's theorems, which quantify over MCustom / MUnk members as well. *)
From RtcpV Require Import Proofs.C19 Proofs.Members.

(* for every declared type number and minimum size *)
Theorem C19_check_packet_accepts_exactly_well_framed :
  forall (min : nat) (pt : N) (l : bytes),
    4 <= min -> (custom_parse pt min l = Ok l <-> well_framed min pt l = true).
Proof. exact check_packet_exactly_well_framed. Qed.
Check C19_check_packet_accepts_exactly_well_framed :
  forall (min : nat) (pt : N) (l : bytes),
    4 <= min -> (custom_parse pt min l = Ok l <-> well_framed min pt l = true).
Print Assumptions C19_check_packet_accepts_exactly_well_framed.

Theorem C19_header_writer :
  forall (pt padding count : N) (buf : bytes),
    4 <= length buf -> (count < 32)%N ->
    write_header_unchecked pt padding count buf =
      Ok (4, rfc_header pt padding count (length buf) ++ skipn 4 buf).
Proof. exact write_header_spec. Qed.
Check C19_header_writer :
  forall (pt padding count : N) (buf : bytes),
    4 <= length buf -> (count < 32)%N ->
    write_header_unchecked pt padding count buf =
      Ok (4, rfc_header pt padding count (length buf) ++ skipn 4 buf).
Print Assumptions C19_header_writer.

Theorem C19_header_writer_needs_four_bytes :
  forall (pt padding count : N) (buf : bytes),
    length buf < 4 -> write_header_unchecked pt padding count buf = Panic.
Proof. exact write_header_short. Qed.
Check C19_header_writer_needs_four_bytes :
  forall (pt padding count : N) (buf : bytes),
    length buf < 4 -> write_header_unchecked pt padding count buf = Panic.
Print Assumptions C19_header_writer_needs_four_bytes.

Theorem C19_padding_writer :
  forall (padding : N) (buf : bytes),
    N.to_nat padding <= length buf ->
    write_padding_unchecked padding buf =
      Ok (N.to_nat padding, rfc_trailer padding ++ skipn (N.to_nat padding) buf).
Proof. exact write_padding_spec. Qed.
Check C19_padding_writer :
  forall (padding : N) (buf : bytes),
    N.to_nat padding <= length buf ->
    write_padding_unchecked padding buf =
      Ok (N.to_nat padding, rfc_trailer padding ++ skipn (N.to_nat padding) buf).
Print Assumptions C19_padding_writer.

(* UnknownBuilder and third-party writers (MUnk, MCustom) write header ++ payload ++ trailer *)
Theorem C19_unknown_builder_and_third_party_images :
  forall m : member,
    member_wf m ->
    forall n : nat, m_calc m = Ok n ->
      length (rfc_image m) = n /\ n mod 4 = 0 /\
      forall s : bytes, length s = n -> m_write_unchecked m s = Ok (n, rfc_image m).
Proof. exact member_writes_image. Qed.
Check C19_unknown_builder_and_third_party_images :
  forall m : member,
    member_wf m ->
    forall n : nat, m_calc m = Ok n ->
      length (rfc_image m) = n /\ n mod 4 = 0 /\
      forall s : bytes, length s = n -> m_write_unchecked m s = Ok (n, rfc_image m).
Print Assumptions C19_unknown_builder_and_third_party_images.

Theorem C19_raw_packets_come_back_as_unknown :
  forall (pt pad cnt : N) (payload : bytes) (n : nat),
    ~ In pt [200; 201; 202; 203; 204; 205; 206]%N ->
    image_ok 4 pad cnt n payload -> n = 4 + length payload + N.to_nat pad ->
    packet_parse (rfc_raw pt pad cnt payload) = Ok (mk_pkt VUnknown (rfc_raw pt pad cnt payload) []) /\
    obs_view (mk_pkt VUnknown (rfc_raw pt pad cnt payload) []) = exp_raw cnt pt n.
Proof. exact raw_roundtrip. Qed.
Check C19_raw_packets_come_back_as_unknown :
  forall (pt pad cnt : N) (payload : bytes) (n : nat),
    ~ In pt [200; 201; 202; 203; 204; 205; 206]%N ->
    image_ok 4 pad cnt n payload -> n = 4 + length payload + N.to_nat pad ->
    packet_parse (rfc_raw pt pad cnt payload) = Ok (mk_pkt VUnknown (rfc_raw pt pad cnt payload) []) /\
    obs_view (mk_pkt VUnknown (rfc_raw pt pad cnt payload) []) = exp_raw cnt pt n.
Print Assumptions C19_raw_packets_come_back_as_unknown.

Theorem C19_third_party_parser_accepts_its_own_packets :
  forall (c : custom_cfg) (n : nat),
    custom_calc c = Ok n -> (cu_count c < 32)%N -> (cu_padding c < 256)%N -> length (cu_payload c) mod 4 = 0 ->
    4 <= cu_min c -> cu_min c + N.to_nat (cu_padding c) <= n -> (N.of_nat n <= 262144)%N ->
    custom_parse (cu_pt c) (cu_min c) (rfc_image (MCustom c)) = Ok (rfc_image (MCustom c)).
Proof. exact custom_roundtrip. Qed.
Check C19_third_party_parser_accepts_its_own_packets :
  forall (c : custom_cfg) (n : nat),
    custom_calc c = Ok n -> (cu_count c < 32)%N -> (cu_padding c < 256)%N -> length (cu_payload c) mod 4 = 0 ->
    4 <= cu_min c -> cu_min c + N.to_nat (cu_padding c) <= n -> (N.of_nat n <= 262144)%N ->
    custom_parse (cu_pt c) (cu_min c) (rfc_image (MCustom c)) = Ok (rfc_image (MCustom c)).
Print Assumptions C19_third_party_parser_accepts_its_own_packets.
