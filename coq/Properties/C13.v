(* C13 - Trailing padding is transparent to packet contents.
   Property theorems only (generated from C13.in by bin/mkprop).
   [pad_packet l p] (coq/Spec/Ref.v) is RFC 3550 padding of a packet: the padding bit set, the length
   field enlarged, p - 1 zero bytes and the count byte p appended.  [legal_pad p] is p in {4, 8, ..., 252}.
   [pbit_clear l] says l is the unpadded packet; the bound says the padded packet is still representable
   in the 16-bit length field.  [content pv] is everything the view's accessors report except the header
   fields and padding() itself: report blocks, SDES chunks and items (with their ranges in the caller's
   buffer), BYE sources and reason, APP name and payload range, feedback SSRCs and the entries of every
   FCI parser. *)
From RtcpV Require Import Proofs.C13.

Theorem C13_padding_is_transparent :
  forall (v : variant) (l : bytes) (p : nat) (pv : packet_view),
    v <> VUnknown -> legal_pad p -> (N.of_nat (length l + p) <= 262144)%N -> pbit_clear l ->
    typed_parse v l = Ok pv ->
    exists pv', typed_parse v (pad_packet l p) = Ok pv' /\
                pk_data pv' = pad_packet l p /\
                parse_padding (pk_data pv') = Ok (Some (N.of_nat p)) /\
                content pv' = content pv.
Proof. exact padding_transparent. Qed.
Check C13_padding_is_transparent :
  forall (v : variant) (l : bytes) (p : nat) (pv : packet_view),
    v <> VUnknown -> legal_pad p -> (N.of_nat (length l + p) <= 262144)%N -> pbit_clear l ->
    typed_parse v l = Ok pv ->
    exists pv', typed_parse v (pad_packet l p) = Ok pv' /\
                pk_data pv' = pad_packet l p /\
                parse_padding (pk_data pv') = Ok (Some (N.of_nat p)) /\
                content pv' = content pv.
Print Assumptions C13_padding_is_transparent.

(* for SDES the eagerly parsed chunk list itself is unchanged, offsets included *)
Theorem C13_sdes_chunks_are_the_same_list :
  forall (l : bytes) (p : nat),
    legal_pad p -> (N.of_nat (length l + p) <= 262144)%N -> pbit_clear l ->
    forall v : packet_view, typed_parse VSdes l = Ok v ->
    typed_parse VSdes (pad_packet l p) = Ok (mk_pkt VSdes (pad_packet l p) (pk_chunks v)) /\
    parse_padding (pad_packet l p) = Ok (Some (N.of_nat p)) /\
    content (mk_pkt VSdes (pad_packet l p) (pk_chunks v)) = content v.
Proof. exact sdes_padding_transparent. Qed.
Check C13_sdes_chunks_are_the_same_list :
  forall (l : bytes) (p : nat),
    legal_pad p -> (N.of_nat (length l + p) <= 262144)%N -> pbit_clear l ->
    forall v : packet_view, typed_parse VSdes l = Ok v ->
    typed_parse VSdes (pad_packet l p) = Ok (mk_pkt VSdes (pad_packet l p) (pk_chunks v)) /\
    parse_padding (pad_packet l p) = Ok (Some (N.of_nat p)) /\
    content (mk_pkt VSdes (pad_packet l p) (pk_chunks v)) = content v.
Print Assumptions C13_sdes_chunks_are_the_same_list.

Theorem C13_chunk_walk_reads_only_up_to_the_end_position :
  forall (f1 f2 : nat) (d1 d2 : bytes) (e off : nat),
    (forall o, off <= o -> o <= e -> @slice perr d1 o e = slice d2 o e) ->
    e - off < f1 -> e - off < f2 ->
    chunks_loop f1 d1 e off = chunks_loop f2 d2 e off.
Proof. exact chunks_loop_ext. Qed.
Check C13_chunk_walk_reads_only_up_to_the_end_position :
  forall (f1 f2 : nat) (d1 d2 : bytes) (e off : nat),
    (forall o, off <= o -> o <= e -> @slice perr d1 o e = slice d2 o e) ->
    e - off < f1 -> e - off < f2 ->
    chunks_loop f1 d1 e off = chunks_loop f2 d2 e off.
Print Assumptions C13_chunk_walk_reads_only_up_to_the_end_position.

Theorem C13_premises_are_satisfiable :
  let sdes := [129; 202; 0; 2; 0; 0; 0; 9; 1; 2; 97; 98]%N in
  let bye := [129; 203; 0; 2; 0; 0; 0; 9; 2; 104; 105; 0]%N in
  let nack := [129; 205; 0; 3; 0; 0; 0; 1; 0; 0; 0; 2; 0; 7; 0; 5]%N in
  legal_pad 8 /\
  (pbit_clear sdes /\ exists pv, typed_parse VSdes sdes = Ok pv /\ pk_chunks pv <> []) /\
  (pbit_clear bye /\ exists pv, typed_parse VBye bye = Ok pv) /\
  (pbit_clear nack /\ exists pv, typed_parse VTfb nack = Ok pv).
Proof. exact padding_premises_hold. Qed.
Check C13_premises_are_satisfiable :
  let sdes := [129; 202; 0; 2; 0; 0; 0; 9; 1; 2; 97; 98]%N in
  let bye := [129; 203; 0; 2; 0; 0; 0; 9; 2; 104; 105; 0]%N in
  let nack := [129; 205; 0; 3; 0; 0; 0; 1; 0; 0; 0; 2; 0; 7; 0; 5]%N in
  legal_pad 8 /\
  (pbit_clear sdes /\ exists pv, typed_parse VSdes sdes = Ok pv /\ pk_chunks pv <> []) /\
  (pbit_clear bye /\ exists pv, typed_parse VBye bye = Ok pv) /\
  (pbit_clear nack /\ exists pv, typed_parse VTfb nack = Ok pv).
Print Assumptions C13_premises_are_satisfiable.

(* pad_packet on an unpadded encoder image is the encoder's image with that padding *)
Theorem C13_padding_an_image_gives_the_padded_image :
  forall (pt cnt : N) (n : nat) (body : bytes) (p : nat),
    4 + length body = n -> legal_pad p ->
    pad_packet (image pt 0 cnt n body) p = image pt (N.of_nat p) cnt (n + p) body.
Proof. exact pad_packet_image. Qed.
Check C13_padding_an_image_gives_the_padded_image :
  forall (pt cnt : N) (n : nat) (body : bytes) (p : nat),
    4 + length body = n -> legal_pad p ->
    pad_packet (image pt 0 cnt n body) p = image pt (N.of_nat p) cnt (n + p) body.
Print Assumptions C13_padding_an_image_gives_the_padded_image.
