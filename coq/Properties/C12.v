(* C12 - Generic dispatch and conversions agree with the typed parsers.
   Property theorems only (generated from C12.in by bin/mkprop). *)
From RtcpV Require Import Proofs.C12.

(* for every string of at least header size the generic parser's outcome (value or error) is that of
   the typed parser named by the packet-type octet *)
Theorem C12_dispatch :
  forall l : bytes,
    4 <= length l ->
    exists b, nth_error l 1 = Some b /\ packet_parse l = typed_parse (variant_of_pt b) l.
Proof. exact generic_is_typed. Qed.
Check C12_dispatch :
  forall l : bytes,
    4 <= length l ->
    exists b, nth_error l 1 = Some b /\ packet_parse l = typed_parse (variant_of_pt b) l.
Print Assumptions C12_dispatch.

Theorem C12_type_octet_names_variant :
  forall pt : N,
    match variant_of_pt pt with
    | VUnknown => ~ In pt [200; 201; 202; 203; 204; 205; 206]%N
    | v => variant_pt v = pt
    end.
Proof. exact variant_of_pt_spec. Qed.
Check C12_type_octet_names_variant :
  forall pt : N,
    match variant_of_pt pt with
    | VUnknown => ~ In pt [200; 201; 202; 203; 204; 205; 206]%N
    | v => variant_pt v = pt
    end.
Print Assumptions C12_type_octet_names_variant.

Theorem C12_unknown_exposes_input :
  forall (l : bytes) (p : packet_view),
    typed_parse VUnknown l = Ok p -> pk_data p = l /\ pk_variant p = VUnknown.
Proof. exact unknown_exposes_input. Qed.
Check C12_unknown_exposes_input :
  forall (l : bytes) (p : packet_view),
    typed_parse VUnknown l = Ok p -> pk_data p = l /\ pk_variant p = VUnknown.
Print Assumptions C12_unknown_exposes_input.

(* same variant: the parsed value; unknown: what the typed parser returns on the same bytes;
   another known variant: a mismatch naming both types *)
Theorem C12_conversion_matrix :
  forall (l : bytes) (p : packet_view) (t : variant),
    packet_parse l = Ok p -> t <> VUnknown ->
    packet_try_as p t =
      if variant_eqb (pk_variant p) t then Ok p
      else if variant_eqb (pk_variant p) VUnknown then typed_parse t l
      else Err (PacketTypeMismatch (nth 1 l 0%N) (variant_pt t)).
Proof. exact conversion_matrix. Qed.
Check C12_conversion_matrix :
  forall (l : bytes) (p : packet_view) (t : variant),
    packet_parse l = Ok p -> t <> VUnknown ->
    packet_try_as p t =
      if variant_eqb (pk_variant p) t then Ok p
      else if variant_eqb (pk_variant p) VUnknown then typed_parse t l
      else Err (PacketTypeMismatch (nth 1 l 0%N) (variant_pt t)).
Print Assumptions C12_conversion_matrix.
