(* C01 - Parsing untrusted bytes never panics and always terminates.
   Property theorems only (generated from C01.in by bin/mkprop).
   [returns_normally r]: r is a value or an error - neither a Rust panic (an index, slice, copy or
   subtraction out of range in the model's panic-capable primitives) nor exhaustion of the model's
   fuel.  [view_clean kvs]: no observation in the accessor view is the PANIC or FUEL token, i.e. every
   accessor and iterator the view is made of (header fields, padding, SSRCs, report blocks and their
   fields, APP name / data, BYE sources / reason, SDES chunks, their length and items with type, length,
   value, PRIV prefix, feedback SSRCs and all five parse_fci::<F>() results with their entry iterators)
   returned normally.  [wfb l]: the elements of l are bytes. *)
From RtcpV Require Import Proofs.C01.

(* APP, BYE, RR, SDES, SR, transport/payload feedback and unknown parsers, for every byte string *)
Theorem C01_typed_parsers_total :
  forall (v : variant) (l : bytes), returns_normally (typed_parse v l).
Proof. exact typed_parse_total. Qed.
Check C01_typed_parsers_total :
  forall (v : variant) (l : bytes), returns_normally (typed_parse v l).
Print Assumptions C01_typed_parsers_total.

Theorem C01_generic_parser_total :
  forall l : bytes, returns_normally (packet_parse l).
Proof. exact packet_parse_total. Qed.
Check C01_generic_parser_total :
  forall l : bytes, returns_normally (packet_parse l).
Print Assumptions C01_generic_parser_total.

Theorem C01_compound_parser_total :
  forall l : bytes, returns_normally (compound_parse l).
Proof. exact compound_parse_total. Qed.
Check C01_compound_parser_total :
  forall l : bytes, returns_normally (compound_parse l).
Print Assumptions C01_compound_parser_total.

Theorem C01_report_block_parser_total :
  forall l : bytes, returns_normally (rb_parse l).
Proof. exact rb_parse_total. Qed.
Check C01_report_block_parser_total :
  forall l : bytes, returns_normally (rb_parse l).
Print Assumptions C01_report_block_parser_total.

Theorem C01_fci_parsers_total :
  forall (t : fci_type) (l : bytes), returns_normally (fci_parse_raw t l).
Proof. exact fci_parse_raw_total. Qed.
Check C01_fci_parsers_total :
  forall (t : fci_type) (l : bytes), returns_normally (fci_parse_raw t l).
Print Assumptions C01_fci_parsers_total.

(* every call of next() on an accepted compound returns normally, yields at most one item per tile and
   None for ever after *)
Theorem C01_compound_iterator_terminates :
  forall (l : bytes) (c : compound_st) (ts : list (nat * nat)),
    compound_parse l = Ok c -> tiling_of l = Some ts ->
    forall k : nat, nexts k c = Ok (expected_nexts k (iter_spec l ts)).
Proof. exact compound_iteration_total. Qed.
Check C01_compound_iterator_terminates :
  forall (l : bytes) (c : compound_st) (ts : list (nat * nat)),
    compound_parse l = Ok c -> tiling_of l = Some ts ->
    forall k : nat, nexts k c = Ok (expected_nexts k (iter_spec l ts)).
Print Assumptions C01_compound_iterator_terminates.

(* every item of an accepted SDES packet lies inside the packet and is long enough for its accessors
   (type, length, value, and for PRIV the prefix length and prefix) *)
Theorem C01_sdes_items_inside_packet :
  forall d : bytes,
    post (sdes_parse d)
         (fun cs => framed 4 d /\ Forall (fun c => Forall (item_in_packet d) (ch_items c)) cs).
Proof. exact sdes_parse_post. Qed.
Check C01_sdes_items_inside_packet :
  forall d : bytes,
    post (sdes_parse d)
         (fun cs => framed 4 d /\ Forall (fun c => Forall (item_in_packet d) (ch_items c)) cs).
Print Assumptions C01_sdes_items_inside_packet.

(* every accessor of every view any typed parser accepts, for every byte string *)
Theorem C01_accessors_of_accepted_typed_views :
  forall (v : variant) (l : bytes) (pv : packet_view),
    wfb l -> typed_parse v l = Ok pv -> view_clean (obs_view pv) = true.
Proof. exact accepted_views_clean. Qed.
Check C01_accessors_of_accepted_typed_views :
  forall (v : variant) (l : bytes) (pv : packet_view),
    wfb l -> typed_parse v l = Ok pv -> view_clean (obs_view pv) = true.
Print Assumptions C01_accessors_of_accepted_typed_views.

Theorem C01_accessors_through_the_generic_parser :
  forall (l : bytes) (pv : packet_view),
    wfb l -> packet_parse l = Ok pv -> view_clean (obs_view pv) = true.
Proof. exact generic_views_clean. Qed.
Check C01_accessors_through_the_generic_parser :
  forall (l : bytes) (pv : packet_view),
    wfb l -> packet_parse l = Ok pv -> view_clean (obs_view pv) = true.
Print Assumptions C01_accessors_through_the_generic_parser.
