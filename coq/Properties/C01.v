(* C01 - Parsing untrusted bytes never panics and always terminates.
   Property theorems only (generated from C01.in by bin/mkprop).
   [returns_normally r]: r is a value or an error - neither a Rust panic (an index, slice, copy or
   subtraction out of range in the model's panic-capable primitives) nor exhaustion of the model's
   fuel.  Status: the parsing entry points are covered for every byte string; the accessors of
   accepted values are covered in Proofs/Accessors.v as far as listed below (see DESIGN.md, C01). *)
From RtcpV Require Import Proofs.ParseTotal.

(* APP, BYE, RR, SDES, SR, transport/payload feedback and unknown parsers, for every byte string *)
Theorem C01_typed_parsers_total :
  forall (v : variant) (l : bytes), returns_normally (typed_parse v l).
Proof. exact typed_parse_total. Qed.
Check C01_typed_parsers_total :
  forall (v : variant) (l : bytes), returns_normally (typed_parse v l).
Print Assumptions C01_typed_parsers_total.

Theorem C01_generic_parser_total :
  forall l : bytes, returns_normally (packet_parse l).
Proof. exact packet_parse_total. Qed.
Check C01_generic_parser_total :
  forall l : bytes, returns_normally (packet_parse l).
Print Assumptions C01_generic_parser_total.

Theorem C01_compound_parser_total :
  forall l : bytes, returns_normally (compound_parse l).
Proof. exact compound_parse_total. Qed.
Check C01_compound_parser_total :
  forall l : bytes, returns_normally (compound_parse l).
Print Assumptions C01_compound_parser_total.

Theorem C01_report_block_parser_total :
  forall l : bytes, returns_normally (rb_parse l).
Proof. exact rb_parse_total. Qed.
Check C01_report_block_parser_total :
  forall l : bytes, returns_normally (rb_parse l).
Print Assumptions C01_report_block_parser_total.

Theorem C01_fci_parsers_total :
  forall (t : fci_type) (l : bytes), returns_normally (fci_parse_raw t l).
Proof. exact fci_parse_raw_total. Qed.
Check C01_fci_parsers_total :
  forall (t : fci_type) (l : bytes), returns_normally (fci_parse_raw t l).
Print Assumptions C01_fci_parsers_total.

(* every call of next() on an accepted compound returns normally, yields at most one item per tile and
   None for ever after *)
Theorem C01_compound_iterator_terminates :
  forall (l : bytes) (c : compound_st) (ts : list (nat * nat)),
    compound_parse l = Ok c -> tiling_of l = Some ts ->
    forall k : nat, nexts k c = Ok (expected_nexts k (iter_spec l ts)).
Proof. exact compound_iteration_total. Qed.
Check C01_compound_iterator_terminates :
  forall (l : bytes) (c : compound_st) (ts : list (nat * nat)),
    compound_parse l = Ok c -> tiling_of l = Some ts ->
    forall k : nat, nexts k c = Ok (expected_nexts k (iter_spec l ts)).
Print Assumptions C01_compound_iterator_terminates.

(* every item of an accepted SDES packet lies inside the packet and is long enough for its accessors
   (type, length, value, and for PRIV the prefix length and prefix) *)
Theorem C01_sdes_items_inside_packet :
  forall d : bytes,
    post (sdes_parse d)
         (fun cs => framed 4 d /\ Forall (fun c => Forall (item_in_packet d) (ch_items c)) cs).
Proof. exact sdes_parse_post. Qed.
Check C01_sdes_items_inside_packet :
  forall d : bytes,
    post (sdes_parse d)
         (fun cs => framed 4 d /\ Forall (fun c => Forall (item_in_packet d) (ch_items c)) cs).
Print Assumptions C01_sdes_items_inside_packet.
