(* C15 - FCI decoding follows RFC 4585/5104 for arbitrary control information.
   Property theorems only (generated from C15.in by bin/mkprop).
   [fci_ref t base fci] / [fb_fci_ref k d] (coq/Spec/Ref.v) are the reference decoders written from the
   RFCs: per 32-bit NACK word the PID followed by PID+k mod 2^16 for each set bit k-1 of the BLP in
   increasing k; (SSRC, sequence) per 64-bit FIR entry; 13/13/6-bit fields per SLI word; 7-bit RPSI payload
   type and bit string without its padding bits; PLI only when empty.  The left-hand sides run the model of
   the crate's parsers and iterators (to exhaustion, plus three further next() calls for NACK). *)
From RtcpV Require Import Proofs.NackDecode.

(* decoding succeeds only if the packet's kind and format number are those of the requested FCI type *)
Theorem C15_kind_and_format_gating :
  forall (k : fb_kind) (t : fci_type) (d x : bytes),
    parse_fci k t d = Ok x -> fci_kind t = k /\ parse_count d = Ok (fci_format t).
Proof. exact parse_fci_gating. Qed.
Check C15_kind_and_format_gating :
  forall (k : fb_kind) (t : fci_type) (d x : bytes),
    parse_fci k t d = Ok x -> fci_kind t = k /\ parse_count d = Ok (fci_format t).
Print Assumptions C15_kind_and_format_gating.

(* raw FCI strings of any length, trailing partial words included *)
Theorem C15_every_fci_type_on_every_string :
  forall (t : fci_type) (fci : bytes) (base : nat),
    wfb fci -> obs_pres (obs_fci_view base t) (fci_parse_raw t fci) = fci_ref t base fci.
Proof. exact fci_decoding. Qed.
Check C15_every_fci_type_on_every_string :
  forall (t : fci_type) (fci : bytes) (base : nat),
    wfb fci -> obs_pres (obs_fci_view base t) (fci_parse_raw t fci) = fci_ref t base fci.
Print Assumptions C15_every_fci_type_on_every_string.

(* all five parse_fci::<F>() calls on any accepted feedback packet of either kind, any format 0..31,
   padded or not *)
Theorem C15_parse_fci_on_accepted_feedback_packets :
  forall (k : fb_kind) (d : bytes),
    framed 12 d -> wfb d -> obs_fcis k d = fb_fci_ref k d.
Proof. exact fb_fci_decoding. Qed.
Check C15_parse_fci_on_accepted_feedback_packets :
  forall (k : fb_kind) (d : bytes),
    framed 12 d -> wfb d -> obs_fcis k d = fb_fci_ref k d.
Print Assumptions C15_parse_fci_on_accepted_feedback_packets.

Theorem C15_accepted_feedback_packets_are_framed :
  forall (k : fb_kind) (d x : bytes), fb_parse k d = Ok x -> framed 12 d /\ x = d.
Proof. exact fb_accept_framed. Qed.
Check C15_accepted_feedback_packets_are_framed :
  forall (k : fb_kind) (d x : bytes), fb_parse k d = Ok x -> framed 12 d /\ x = d.
Print Assumptions C15_accepted_feedback_packets_are_framed.

Theorem C15_nack_iterator :
  forall (fci : bytes) (base : nat),
    obs_pres (obs_fci_view base TNack) (fci_parse_raw TNack fci) = fci_ref TNack base fci.
Proof. exact nack_decoding. Qed.
Check C15_nack_iterator :
  forall (fci : bytes) (base : nat),
    obs_pres (obs_fci_view base TNack) (fci_parse_raw TNack fci) = fci_ref TNack base fci.
Print Assumptions C15_nack_iterator.
