(* C14 - A compound is the concatenation of its members and parses back to them.
   Property theorems only (generated from C14.in by bin/mkprop).
   [compound_calc ms] = calculate_size of CompoundBuilder with members ms (any member kind, third-party
   writers and nested compounds included).  [leaves m]: the non-compound members in order (nested
   compounds flattened).  [members_parsed imgs]: the generic parser applied to each image in order, cut
   after the first image it rejects (C11's iteration rule). *)
From RtcpV Require Import Proofs.C14 Proofs.C14b.

Theorem C14_accepted_iff_members_valid_and_only_last_padded :
  forall ms : list member,
    (exists n, compound_calc ms = Ok n) <->
    (Forall (fun m => exists k, m_calc m = Ok k) ms /\ only_last_padded ms).
Proof. exact compound_accepts_iff. Qed.
Check C14_accepted_iff_members_valid_and_only_last_padded :
  forall ms : list member,
    (exists n, compound_calc ms = Ok n) <->
    (Forall (fun m => exists k, m_calc m = Ok k) ms /\ only_last_padded ms).
Print Assumptions C14_accepted_iff_members_valid_and_only_last_padded.

Theorem C14_size_is_sum_and_bytes_are_concatenation :
  forall (ms : list member) (n : nat) (buf : bytes),
    Forall member_wf ms -> compound_calc ms = Ok n -> n <= length buf ->
    n = list_sum (map (fun m => length (rfc_image m)) ms) /\
    Forall (fun m => m_calc m = Ok (length (rfc_image m))) ms /\
    m_write_into (MCompound ms) buf = (Ok n, concat (map rfc_image ms) ++ skipn n buf).
Proof. exact compound_size_and_bytes. Qed.
Check C14_size_is_sum_and_bytes_are_concatenation :
  forall (ms : list member) (n : nat) (buf : bytes),
    Forall member_wf ms -> compound_calc ms = Ok n -> n <= length buf ->
    n = list_sum (map (fun m => length (rfc_image m)) ms) /\
    Forall (fun m => m_calc m = Ok (length (rfc_image m))) ms /\
    m_write_into (MCompound ms) buf = (Ok n, concat (map rfc_image ms) ++ skipn n buf).
Print Assumptions C14_size_is_sum_and_bytes_are_concatenation.

(* the written compound is accepted and iterating it yields, call by call, the generic parser's result
   on each member's own image *)
Theorem C14_parses_back_to_its_members :
  forall m : member,
    leaves m <> [] -> Forall (fun x => self_framed (rfc_image x)) (leaves m) ->
    exists c, compound_parse (rfc_image m) = Ok c /\
              forall k, nexts k c = Ok (expected_nexts k (members_parsed (map rfc_image (leaves m)))).
Proof. exact compound_parses_back. Qed.
Check C14_parses_back_to_its_members :
  forall m : member,
    leaves m <> [] -> Forall (fun x => self_framed (rfc_image x)) (leaves m) ->
    exists c, compound_parse (rfc_image m) = Ok c /\
              forall k, nexts k c = Ok (expected_nexts k (members_parsed (map rfc_image (leaves m)))).
Print Assumptions C14_parses_back_to_its_members.

(* the hypothesis of the previous theorem holds for whatever the crate's builders and the third-party
   family write, below 65536 words (above: known finding D13) *)
Theorem C14_builder_output_is_self_framed :
  forall (m : member) (n : nat),
    (match m with MCompound _ => False | _ => True end) -> member_wf m -> m_calc m = Ok n ->
    (N.of_nat n <= 262144)%N -> self_framed (rfc_image m).
Proof. exact leaf_self_framed. Qed.
Check C14_builder_output_is_self_framed :
  forall (m : member) (n : nat),
    (match m with MCompound _ => False | _ => True end) -> member_wf m -> m_calc m = Ok n ->
    (N.of_nat n <= 262144)%N -> self_framed (rfc_image m).
Print Assumptions C14_builder_output_is_self_framed.

(* write_into_unchecked of a compound called directly on a buffer longer than its size: the members still get
   exact sub-slices, so the bytes are the same concatenation, the count returned is the size and the rest of
   the buffer is untouched *)
Theorem C14_unchecked_write_into_a_longer_buffer :
  forall (ms : list member) (n : nat) (buf : bytes),
    Forall member_wf ms -> m_calc (MCompound ms) = Ok n -> n <= length buf ->
    m_write_unchecked (MCompound ms) buf = Ok (n, rfc_image (MCompound ms) ++ skipn n buf).
Proof. exact compound_unchecked_on_any_buffer. Qed.
Check C14_unchecked_write_into_a_longer_buffer :
  forall (ms : list member) (n : nat) (buf : bytes),
    Forall member_wf ms -> m_calc (MCompound ms) = Ok n -> n <= length buf ->
    m_write_unchecked (MCompound ms) buf = Ok (n, rfc_image (MCompound ms) ++ skipn n buf).
Print Assumptions C14_unchecked_write_into_a_longer_buffer.
