(* C08 - A packet is accepted only if it is exactly and consistently framed.
   Property theorems only: statements, [exact lemma], a [Check] pin and [Print Assumptions]. *)
From RtcpV Require Import Proofs.C08.

(* every typed parser (APP, BYE, RR, SDES, SR, transport/payload feedback) *)
Theorem C08_typed_parsers :
  forall (v : variant) (l : bytes) (p : packet_view),
    v <> VUnknown -> typed_parse v l = Ok p ->
    well_framed (variant_min v) (variant_pt v) l = true /\ body_ok v l /\ pk_data p = l /\ pk_variant p = v.
Proof. exact typed_accept_framed. Qed.
Check C08_typed_parsers :
  forall (v : variant) (l : bytes) (p : packet_view),
    v <> VUnknown -> typed_parse v l = Ok p ->
    well_framed (variant_min v) (variant_pt v) l = true /\ body_ok v l /\ pk_data p = l /\ pk_variant p = v.
Print Assumptions C08_typed_parsers.

(* the generic parser gives the same guarantees for whichever type it dispatches to *)
Theorem C08_generic_parser :
  forall (l : bytes) (p : packet_view),
    packet_parse l = Ok p ->
    pk_data p = l /\
    (pk_variant p <> VUnknown ->
       well_framed (variant_min (pk_variant p)) (variant_pt (pk_variant p)) l = true /\
       body_ok (pk_variant p) l /\ nth_error l 1 = Some (variant_pt (pk_variant p))) /\
    (pk_variant p = VUnknown -> raw_framed l = true).
Proof. exact generic_accept_framed. Qed.
Check C08_generic_parser :
  forall (l : bytes) (p : packet_view),
    packet_parse l = Ok p ->
    pk_data p = l /\
    (pk_variant p <> VUnknown ->
       well_framed (variant_min (pk_variant p)) (variant_pt (pk_variant p)) l = true /\
       body_ok (pk_variant p) l /\ nth_error l 1 = Some (variant_pt (pk_variant p))) /\
    (pk_variant p = VUnknown -> raw_framed l = true).
Print Assumptions C08_generic_parser.

(* the unknown-packet parser guarantees size, version and length field *)
Theorem C08_unknown_parser :
  forall (l d : bytes), unknown_parse l = Ok d -> raw_framed l = true /\ d = l.
Proof. exact unknown_accept_framed. Qed.
Check C08_unknown_parser :
  forall (l d : bytes), unknown_parse l = Ok d -> raw_framed l = true /\ d = l.
Print Assumptions C08_unknown_parser.

(* [well_framed] is the property's list of conditions *)
Theorem C08_well_framed_means :
  forall (min : nat) (pt : N) (l : bytes),
    well_framed min pt l = true ->
    exists a b c d r, l = a :: b :: c :: d :: r /\
      min <= length l /\ (a / 64 = 2)%N /\ b = pt /\ length l = 4 * (N.to_nat (c * 256 + d) + 1) /\
      (((a / 32) mod 2 = 1)%N -> (0 < last l 0)%N /\ min + N.to_nat (last l 0%N) <= length l).
Proof. exact well_framed_conditions. Qed.
Check C08_well_framed_means :
  forall (min : nat) (pt : N) (l : bytes),
    well_framed min pt l = true ->
    exists a b c d r, l = a :: b :: c :: d :: r /\
      min <= length l /\ (a / 64 = 2)%N /\ b = pt /\ length l = 4 * (N.to_nat (c * 256 + d) + 1) /\
      (((a / 32) mod 2 = 1)%N -> (0 < last l 0)%N /\ min + N.to_nat (last l 0%N) <= length l).
Print Assumptions C08_well_framed_means.

(* the header accessors return exactly the header bytes *)
Theorem C08_header_accessors :
  forall (a b c d : N) (r : bytes),
    obs_hdr (a :: b :: c :: d :: r) =
    OL [OS "ok"; OL [OL [OS "ok"; ON (a / 64)]; OL [OS "ok"; ON b]; OL [OS "ok"; ON (a mod 32)];
                     OL [OS "ok"; ON (a mod 32)]; OL [OS "ok"; OI (4 * (N.to_nat (c * 256 + d) + 1))]]].
Proof. exact header_accessors. Qed.
Check C08_header_accessors :
  forall (a b c d : N) (r : bytes),
    obs_hdr (a :: b :: c :: d :: r) =
    OL [OS "ok"; OL [OL [OS "ok"; ON (a / 64)]; OL [OS "ok"; ON b]; OL [OS "ok"; ON (a mod 32)];
                     OL [OS "ok"; ON (a mod 32)]; OL [OS "ok"; OI (4 * (N.to_nat (c * 256 + d) + 1))]]].
Print Assumptions C08_header_accessors.
