(* C09 - Decoded fields are exactly the bytes on the wire (zero-copy views).
   Property theorems only (generated from C09.in by bin/mkprop).
   [ref_view v l] (coq/Spec/Ref.v) reads each field of a fixed-layout packet at the offset the RFC gives
   it: [beN l off k] is the big-endian value of the k bytes at off, [byte_at l off] one byte, [sub l off k]
   a byte range.  Slices the accessors return are observed as (offset, length) ranges of the caller's
   input, so "is a sub-slice of the input" is part of what is compared; the bounds theorems say each
   range lies inside the input.  [wfb l]: the elements of l are bytes (below 256); it is needed only for
   the 24-bit cumulative-lost mask.  The acceptance theorems state the RFC's conditions directly
   ([well_framed], [rfc_body]); acceptance of the images of an independent RFC encoder over the full
   field ranges is C02 / C04 / C05 / C19's round-trip theorems. *)
From RtcpV Require Import Proofs.C09.

Theorem C09_sender_report :
  forall (l : bytes) (pv : packet_view),
    wfb l -> typed_parse VSr l = Ok pv -> obs_view pv = ref_view VSr l.
Proof. exact sr_accessors. Qed.
Check C09_sender_report :
  forall (l : bytes) (pv : packet_view),
    wfb l -> typed_parse VSr l = Ok pv -> obs_view pv = ref_view VSr l.
Print Assumptions C09_sender_report.

Theorem C09_receiver_report :
  forall (l : bytes) (pv : packet_view),
    wfb l -> typed_parse VRr l = Ok pv -> obs_view pv = ref_view VRr l.
Proof. exact rr_accessors. Qed.
Check C09_receiver_report :
  forall (l : bytes) (pv : packet_view),
    wfb l -> typed_parse VRr l = Ok pv -> obs_view pv = ref_view VRr l.
Print Assumptions C09_receiver_report.

Theorem C09_report_block :
  forall l : bytes, wfb l -> rb_parse l = Ok l -> OL [OS "ok"; obs_rb_view l] = okO (ref_rb l 0).
Proof. exact rb_accessors. Qed.
Check C09_report_block :
  forall l : bytes, wfb l -> rb_parse l = Ok l -> OL [OS "ok"; obs_rb_view l] = okO (ref_rb l 0).
Print Assumptions C09_report_block.

(* name and payload range; the payload range lies inside the input *)
Theorem C09_app :
  forall (l : bytes) (pv : packet_view),
    typed_parse VApp l = Ok pv ->
    obs_view pv = ref_view VApp l /\ 12 + (length l - ref_pad_len l - 12) <= length l.
Proof. exact app_accessors. Qed.
Check C09_app :
  forall (l : bytes) (pv : packet_view),
    typed_parse VApp l = Ok pv ->
    obs_view pv = ref_view VApp l /\ 12 + (length l - ref_pad_len l - 12) <= length l.
Print Assumptions C09_app.

(* sources and reason; the reason range lies inside the input *)
Theorem C09_bye :
  forall (l : bytes) (pv : packet_view),
    typed_parse VBye l = Ok pv ->
    obs_view pv = ref_view VBye l /\
    (let off := 4 + 4 * N.to_nat (byte_at l 0 mod 32) in
     off + 1 + ref_pad_len l < length l -> off + 1 + N.to_nat (byte_at l off) <= length l).
Proof. exact bye_accessors. Qed.
Check C09_bye :
  forall (l : bytes) (pv : packet_view),
    typed_parse VBye l = Ok pv ->
    obs_view pv = ref_view VBye l /\
    (let off := 4 + 4 * N.to_nat (byte_at l 0 mod 32) in
     off + 1 + ref_pad_len l < length l -> off + 1 + N.to_nat (byte_at l off) <= length l).
Print Assumptions C09_bye.

(* both feedback kinds: everything but the FCI entries, which are C15's *)
Theorem C09_feedback_header :
  forall (k : fb_kind) (l : bytes) (pv : packet_view),
    let v := match k with Transport => VTfb | Payload => VPfb end in
    typed_parse v l = Ok pv ->
    obs_view pv = ref_view v l ++ [("fci", obs_fcis k l)].
Proof. exact fb_accessors. Qed.
Check C09_feedback_header :
  forall (k : fb_kind) (l : bytes) (pv : packet_view),
    let v := match k with Transport => VTfb | Payload => VPfb end in
    typed_parse v l = Ok pv ->
    obs_view pv = ref_view v l ++ [("fci", obs_fcis k l)].
Print Assumptions C09_feedback_header.

Theorem C09_unknown :
  forall (l : bytes) (pv : packet_view),
    typed_parse VUnknown l = Ok pv -> obs_view pv = ref_view VUnknown l.
Proof. exact unknown_accessors. Qed.
Check C09_unknown :
  forall (l : bytes) (pv : packet_view),
    typed_parse VUnknown l = Ok pv -> obs_view pv = ref_view VUnknown l.
Print Assumptions C09_unknown.

(* the k-th report block of an SR / RR is the 24 bytes at its offset *)
Theorem C09_report_block_inside_a_report :
  forall (l : bytes) (off : nat),
    wfb l -> off + 24 <= length l -> obs_rb_view (firstn 24 (skipn off l)) = ref_rb l off.
Proof. exact rb_view_ref. Qed.
Check C09_report_block_inside_a_report :
  forall (l : bytes) (off : nat),
    wfb l -> off + 24 <= length l -> obs_rb_view (firstn 24 (skipn off l)) = ref_rb l off.
Print Assumptions C09_report_block_inside_a_report.

Theorem C09_well_formed_packets_are_accepted :
  forall (v : variant) (l : bytes),
    v <> VUnknown -> v <> VSdes ->
    well_framed (variant_min v) (variant_pt v) l = true -> rfc_body v l ->
    typed_parse v l = Ok (mk_pkt v l []).
Proof. exact well_formed_accepted. Qed.
Check C09_well_formed_packets_are_accepted :
  forall (v : variant) (l : bytes),
    v <> VUnknown -> v <> VSdes ->
    well_framed (variant_min v) (variant_pt v) l = true -> rfc_body v l ->
    typed_parse v l = Ok (mk_pkt v l []).
Print Assumptions C09_well_formed_packets_are_accepted.

Theorem C09_well_formed_unknown_packets_are_accepted :
  forall l : bytes, raw_framed l = true -> typed_parse VUnknown l = Ok (mk_pkt VUnknown l []).
Proof. exact raw_well_formed_accepted. Qed.
Check C09_well_formed_unknown_packets_are_accepted :
  forall l : bytes, raw_framed l = true -> typed_parse VUnknown l = Ok (mk_pkt VUnknown l []).
Print Assumptions C09_well_formed_unknown_packets_are_accepted.

Theorem C09_premises_are_satisfiable :
  let sr := [129; 200; 0; 12; 1; 2; 3; 4; 5; 6; 7; 8; 9; 10; 11; 12; 13; 14; 15; 16; 17; 18; 19; 20; 21; 22; 23; 24;
             31; 32; 33; 34; 35; 36; 37; 38; 39; 40; 41; 42; 43; 44; 45; 46; 47; 48; 49; 50; 51; 52; 53; 54]%N in
  let bye := [161; 203; 0; 4; 0; 0; 0; 9; 2; 104; 105; 0; 0; 0; 0; 0; 0; 0; 0; 8]%N in
  (wfb sr /\ exists pv, typed_parse VSr sr = Ok pv) /\ (exists pv, typed_parse VBye bye = Ok pv) /\
  well_framed 28 SR_PT sr = true /\ rfc_body VSr sr.
Proof. exact accessors_premises_hold. Qed.
Check C09_premises_are_satisfiable :
  let sr := [129; 200; 0; 12; 1; 2; 3; 4; 5; 6; 7; 8; 9; 10; 11; 12; 13; 14; 15; 16; 17; 18; 19; 20; 21; 22; 23; 24;
             31; 32; 33; 34; 35; 36; 37; 38; 39; 40; 41; 42; 43; 44; 45; 46; 47; 48; 49; 50; 51; 52; 53; 54]%N in
  let bye := [161; 203; 0; 4; 0; 0; 0; 9; 2; 104; 105; 0; 0; 0; 0; 0; 0; 0; 0; 8]%N in
  (wfb sr /\ exists pv, typed_parse VSr sr = Ok pv) /\ (exists pv, typed_parse VBye bye = Ok pv) /\
  well_framed 28 SR_PT sr = true /\ rfc_body VSr sr.
Print Assumptions C09_premises_are_satisfiable.
