(* C20 - Builder output depends on what was configured, not on how.
   Property theorems only (generated from C20.in by bin/mkprop).
   [hist]: a constructor call, a sequence of builder method calls (setters in any order and repeated,
   list adds, reason / reason_owned, SDES items with prefix() / into_owned() / add_item(_owned), RPSI
   native_data(_owned), FCI histories) and a wrapper (direct, PacketBuilder::from, one-member compound).
   [member_of_hist] executes the calls the way the code does; [final_config] (coq/Spec/Final.v) is the
   declarative reading: last value per scalar, adds in call order. *)
From RtcpV Require Import Proofs.C20 Proofs.C20b.

Theorem C20_history_is_its_final_configuration :
  forall h : hist, member_of_hist h = final_config h.
Proof. exact history_is_final_config. Qed.
Check C20_history_is_its_final_configuration :
  forall h : hist, member_of_hist h = final_config h.
Print Assumptions C20_history_is_its_final_configuration.

(* hence any two call sequences reaching the same final configuration give the same size and bytes *)
Theorem C20_same_final_configuration_same_output :
  forall (h1 h2 : hist) (buf : bytes),
    final_config h1 = final_config h2 ->
    m_calc (member_of_hist h1) = m_calc (member_of_hist h2) /\
    m_write_into (member_of_hist h1) buf = m_write_into (member_of_hist h2) buf.
Proof. exact same_final_same_output. Qed.
Check C20_same_final_configuration_same_output :
  forall (h1 h2 : hist) (buf : bytes),
    final_config h1 = final_config h2 ->
    m_calc (member_of_hist h1) = m_calc (member_of_hist h2) /\
    m_write_into (member_of_hist h1) buf = m_write_into (member_of_hist h2) buf.
Print Assumptions C20_same_final_configuration_same_output.

Theorem C20_one_member_compound_is_transparent :
  forall (m : member) (buf : bytes) (n : nat),
    member_wf m -> m_calc m = Ok n -> n <= length buf ->
    m_calc (MCompound [m]) = Ok n /\ m_write_into (MCompound [m]) buf = m_write_into m buf.
Proof. exact one_member_compound. Qed.
Check C20_one_member_compound_is_transparent :
  forall (m : member) (buf : bytes) (n : nat),
    member_wf m -> m_calc m = Ok n -> n <= length buf ->
    m_calc (MCompound [m]) = Ok n /\ m_write_into (MCompound [m]) buf = m_write_into m buf.
Print Assumptions C20_one_member_compound_is_transparent.

Theorem C20_nack_readd_is_idempotent :
  forall (adds : list N) (x : N), In x adds -> rfc_set (adds ++ [x]) = rfc_set adds.
Proof. exact nack_readd_idempotent. Qed.
Check C20_nack_readd_is_idempotent :
  forall (adds : list N) (x : N), In x adds -> rfc_set (adds ++ [x]) = rfc_set adds.
Print Assumptions C20_nack_readd_is_idempotent.

Theorem C20_fir_readd_keeps_last :
  forall (adds : list (N * N)) (k v : N),
    rfc_fir_lookup (adds ++ [(k, v)]) k = Some v /\
    (forall k', k' <> k -> rfc_fir_lookup (adds ++ [(k, v)]) k' = rfc_fir_lookup adds k').
Proof. exact fir_readd_keeps_last. Qed.
Check C20_fir_readd_keeps_last :
  forall (adds : list (N * N)) (k v : N),
    rfc_fir_lookup (adds ++ [(k, v)]) k = Some v /\
    (forall k', k' <> k -> rfc_fir_lookup (adds ++ [(k, v)]) k' = rfc_fir_lookup adds k').
Print Assumptions C20_fir_readd_keeps_last.

(* the report-block builder: any order and repetition of its six setters gives the block holding the last value
   of each field ([rb_of_hist] executes the calls, [final_rb] is the declarative reading) *)
Theorem C20_report_block_setters_last_value_wins :
  forall (ssrc : N) (ops : list rb_op), rb_of_hist ssrc ops = final_rb ssrc ops.
Proof. exact rb_history_is_final. Qed.
Check C20_report_block_setters_last_value_wins :
  forall (ssrc : N) (ops : list rb_op), rb_of_hist ssrc ops = final_rb ssrc ops.
Print Assumptions C20_report_block_setters_last_value_wins.

Theorem C20_report_block_setter_order_is_irrelevant :
  forall (ssrc : N) (ops1 ops2 : list rb_op),
    final_rb ssrc ops1 = final_rb ssrc ops2 -> rb_of_hist ssrc ops1 = rb_of_hist ssrc ops2.
Proof. exact rb_setter_order_irrelevant. Qed.
Check C20_report_block_setter_order_is_irrelevant :
  forall (ssrc : N) (ops1 ops2 : list rb_op),
    final_rb ssrc ops1 = final_rb ssrc ops2 -> rb_of_hist ssrc ops1 = rb_of_hist ssrc ops2.
Print Assumptions C20_report_block_setter_order_is_irrelevant.
