(* C05 - Feedback packets and their FCI survive a build-then-parse round trip.
   Property theorems only (generated from C05.in by bin/mkprop).
   [fb_wf]: values fit their Rust types (u8 padding, u32 SSRCs, u16 NACK numbers, u8 FIR sequence,
   byte strings).  [exp_fb c] (coq/Spec/Views.v): sender/media SSRC, format, padding, and for the five
   parse_fci::<F>() calls WrongImplementation except for the configured FCI type, which must decode to:
   NACK - the ascending duplicate-free set; FIR - the last sequence per SSRC; SLI - the entries in order
   (fields taken modulo 13/13/6 bits); RPSI - payload type and the bit string range with its padding-bit
   count; PLI - an empty body.  Exclusions, each a recorded known finding: total size above 65536 words
   (D13), empty FIR / SLI lists (D15: C05_empty_fir_refuted, C05_empty_sli_refuted). *)
From RtcpV Require Import Proofs.C05.

Theorem C05_feedback_build_then_parse :
  forall (c : fb_cfg) (n : nat) (buf : bytes),
    fb_wf c -> m_calc (MFb c) = Ok n -> (N.of_nat n <= 262144)%N -> n <= length buf ->
    (match fb_c_fci c with FFir adds => rfc_fir_map adds <> [] | FSli es => es <> [] | _ => True end) ->
    let v := match fb_c_kind c with Transport => VTfb | Payload => VPfb end in
    m_write_into (MFb c) buf = (Ok n, rfc_fb c ++ skipn n buf) /\
    packet_parse (rfc_fb c) = Ok (mk_pkt v (rfc_fb c) []) /\
    obs_view (mk_pkt v (rfc_fb c) []) = exp_fb c.
Proof. exact fb_build_then_parse. Qed.
Check C05_feedback_build_then_parse :
  forall (c : fb_cfg) (n : nat) (buf : bytes),
    fb_wf c -> m_calc (MFb c) = Ok n -> (N.of_nat n <= 262144)%N -> n <= length buf ->
    (match fb_c_fci c with FFir adds => rfc_fir_map adds <> [] | FSli es => es <> [] | _ => True end) ->
    let v := match fb_c_kind c with Transport => VTfb | Payload => VPfb end in
    m_write_into (MFb c) buf = (Ok n, rfc_fb c ++ skipn n buf) /\
    packet_parse (rfc_fb c) = Ok (mk_pkt v (rfc_fb c) []) /\
    obs_view (mk_pkt v (rfc_fb c) []) = exp_fb c.
Print Assumptions C05_feedback_build_then_parse.

(* the reference decoding of the FCI image is the configuration, per FCI type *)
Theorem C05_fci_decodes_to_what_was_put_in :
  forall (f : fci_cfg) (k : nat),
    fci_values_wf f -> fci_calc f = Ok k ->
    (match f with FFir adds => rfc_fir_map adds <> [] | FSli es => es <> [] | _ => True end) ->
    fci_ref (fci_cfg_type f) 12 (rfc_fci f) = exp_fci_entries f.
Proof. exact fci_roundtrip. Qed.
Check C05_fci_decodes_to_what_was_put_in :
  forall (f : fci_cfg) (k : nat),
    fci_values_wf f -> fci_calc f = Ok k ->
    (match f with FFir adds => rfc_fir_map adds <> [] | FSli es => es <> [] | _ => True end) ->
    fci_ref (fci_cfg_type f) 12 (rfc_fci f) = exp_fci_entries f.
Print Assumptions C05_fci_decodes_to_what_was_put_in.

(* every ascending list of 16-bit numbers (dense, sparse, spanning the 17-value window, touching 0 and
   65535) is recovered from its (PID, BLP) words *)
Theorem C05_nack_words_decode_to_the_set :
  forall (l : list N) (fuel : nat),
    length l <= fuel -> asc l -> (forall x, In x l -> (x < 65536)%N) ->
    flat_map nack_word_seqs (map (fun w => be16 (fst w) ++ be16 (snd w)) (rfc_nack_words fuel l)) = l.
Proof. exact nack_roundtrip. Qed.
Check C05_nack_words_decode_to_the_set :
  forall (l : list N) (fuel : nat),
    length l <= fuel -> asc l -> (forall x, In x l -> (x < 65536)%N) ->
    flat_map nack_word_seqs (map (fun w => be16 (fst w) ++ be16 (snd w)) (rfc_nack_words fuel l)) = l.
Print Assumptions C05_nack_words_decode_to_the_set.

Theorem C05_empty_fir_refuted :
  exists (c : fb_cfg) (n : nat) (e : perr),
    fb_wf c /\ fb_calc c = Ok n /\ parse_fci Payload TFir (rfc_fb c) = Err e.
Proof. exact empty_fir_refuted. Qed.
Check C05_empty_fir_refuted :
  exists (c : fb_cfg) (n : nat) (e : perr),
    fb_wf c /\ fb_calc c = Ok n /\ parse_fci Payload TFir (rfc_fb c) = Err e.
Print Assumptions C05_empty_fir_refuted.

Theorem C05_empty_sli_refuted :
  exists (c : fb_cfg) (n : nat) (e : perr),
    fb_wf c /\ fb_calc c = Ok n /\ parse_fci Payload TSli (rfc_fb c) = Err e.
Proof. exact empty_sli_refuted. Qed.
Check C05_empty_sli_refuted :
  exists (c : fb_cfg) (n : nat) (e : perr),
    fb_wf c /\ fb_calc c = Ok n /\ parse_fci Payload TSli (rfc_fb c) = Err e.
Print Assumptions C05_empty_sli_refuted.
