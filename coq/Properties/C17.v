(* C17 - Writers define every byte they claim and touch nothing else.
   Property theorems only (generated from C17.in by bin/mkprop).
   The final buffer of write_into is [rfc_image m ++ skipn n buf]: its first n bytes are a function of
   the configuration alone (not of buf), the bytes beyond n are those of buf, and a failing write
   returns buf itself. *)
From RtcpV Require Import Proofs.Members Proofs.C06b.

Theorem C17_packets_and_compounds :
  forall (m : member) (buf : bytes),
    member_wf m ->
    match m_calc m with
    | Ok n =>
        n mod 4 = 0 /\ length (rfc_image m) = n /\
        (n <= length buf -> m_write_into m buf = (Ok n, rfc_image m ++ skipn n buf)) /\
        (length buf < n -> m_write_into m buf = (Err (OutputTooSmall n), buf))
    | Err e => m_write_into m buf = (Err e, buf)
    | Panic => False
    | Fuel => False
    end.
Proof. exact write_into_spec. Qed.
Check C17_packets_and_compounds :
  forall (m : member) (buf : bytes),
    member_wf m ->
    match m_calc m with
    | Ok n =>
        n mod 4 = 0 /\ length (rfc_image m) = n /\
        (n <= length buf -> m_write_into m buf = (Ok n, rfc_image m ++ skipn n buf)) /\
        (length buf < n -> m_write_into m buf = (Err (OutputTooSmall n), buf))
    | Err e => m_write_into m buf = (Err e, buf)
    | Panic => False
    | Fuel => False
    end.
Print Assumptions C17_packets_and_compounds.

Theorem C17_sdes_chunk_builder :
  forall (c : chunk_cfg) (buf : bytes),
    match chunk_calc c with
    | Ok n =>
        n mod 4 = 0 /\ length (rfc_chunk c) = n /\
        (n <= length buf -> chunk_write_into c buf = (Ok n, rfc_chunk c ++ skipn n buf)) /\
        (length buf < n -> chunk_write_into c buf = (Err (OutputTooSmall n), buf))
    | Err e => chunk_write_into c buf = (Err e, buf)
    | Panic => False
    | Fuel => False
    end.
Proof. exact chunk_write_into_spec. Qed.
Check C17_sdes_chunk_builder :
  forall (c : chunk_cfg) (buf : bytes),
    match chunk_calc c with
    | Ok n =>
        n mod 4 = 0 /\ length (rfc_chunk c) = n /\
        (n <= length buf -> chunk_write_into c buf = (Ok n, rfc_chunk c ++ skipn n buf)) /\
        (length buf < n -> chunk_write_into c buf = (Err (OutputTooSmall n), buf))
    | Err e => chunk_write_into c buf = (Err e, buf)
    | Panic => False
    | Fuel => False
    end.
Print Assumptions C17_sdes_chunk_builder.

Theorem C17_sdes_item_builder :
  forall (it : item_cfg) (buf : bytes),
    match item_calc it with
    | Ok n =>
        length (rfc_item it) = n /\
        (n <= length buf -> item_write_into it buf = (Ok n, rfc_item it ++ skipn n buf)) /\
        (length buf < n -> item_write_into it buf = (Err (OutputTooSmall n), buf))
    | Err e => item_write_into it buf = (Err e, buf)
    | Panic => False
    | Fuel => False
    end.
Proof. exact item_write_into_spec. Qed.
Check C17_sdes_item_builder :
  forall (it : item_cfg) (buf : bytes),
    match item_calc it with
    | Ok n =>
        length (rfc_item it) = n /\
        (n <= length buf -> item_write_into it buf = (Ok n, rfc_item it ++ skipn n buf)) /\
        (length buf < n -> item_write_into it buf = (Err (OutputTooSmall n), buf))
    | Err e => item_write_into it buf = (Err e, buf)
    | Panic => False
    | Fuel => False
    end.
Print Assumptions C17_sdes_item_builder.

(* the five FCI builders implement the public writer trait themselves: the same statement for a bare FCI
   builder ([fci_write_into] = write_into over its own calculate_size / write_into_unchecked) *)
Theorem C17_fci_builder_as_a_writer :
  forall (f : fci_cfg) (buf : bytes),
    fci_wf f ->
    match fci_calc f with
    | Ok n =>
        n mod 4 = 0 /\ length (rfc_fci f) = n /\
        (n <= length buf -> fci_write_into f buf = (Ok n, rfc_fci f ++ skipn n buf)) /\
        (length buf < n -> fci_write_into f buf = (Err (OutputTooSmall n), buf))
    | Err e => fci_write_into f buf = (Err e, buf)
    | Panic => False
    | Fuel => False
    end.
Proof. exact fci_write_into_spec. Qed.
Check C17_fci_builder_as_a_writer :
  forall (f : fci_cfg) (buf : bytes),
    fci_wf f ->
    match fci_calc f with
    | Ok n =>
        n mod 4 = 0 /\ length (rfc_fci f) = n /\
        (n <= length buf -> fci_write_into f buf = (Ok n, rfc_fci f ++ skipn n buf)) /\
        (length buf < n -> fci_write_into f buf = (Err (OutputTooSmall n), buf))
    | Err e => fci_write_into f buf = (Err e, buf)
    | Panic => False
    | Fuel => False
    end.
Print Assumptions C17_fci_builder_as_a_writer.
