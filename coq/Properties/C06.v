(* C06 - The size a writer announces is exactly the size it writes.
   Property theorems only (generated from C06.in by bin/mkprop).
   [member]: every packet builder, the third-party writer family and nested compounds.
   [member_wf]: values a caller can pass (NACK numbers are u16; third-party writers use a 5-bit count
   and a word-aligned payload).  [m_write_into m buf]: (result, final buffer) of write_into.
   A model [Ok n] means that no panic-capable primitive failed anywhere in write_into_unchecked. *)
From RtcpV Require Import Proofs.Members Proofs.C06b.

(* for every configuration and every buffer *)
Theorem C06_packets_and_compounds :
  forall (m : member) (buf : bytes),
    member_wf m ->
    match m_calc m with
    | Ok n =>
        n mod 4 = 0 /\ length (rfc_image m) = n /\
        (n <= length buf -> m_write_into m buf = (Ok n, rfc_image m ++ skipn n buf)) /\
        (length buf < n -> m_write_into m buf = (Err (OutputTooSmall n), buf))
    | Err e => m_write_into m buf = (Err e, buf)
    | Panic => False
    | Fuel => False
    end.
Proof. exact write_into_spec. Qed.
Check C06_packets_and_compounds :
  forall (m : member) (buf : bytes),
    member_wf m ->
    match m_calc m with
    | Ok n =>
        n mod 4 = 0 /\ length (rfc_image m) = n /\
        (n <= length buf -> m_write_into m buf = (Ok n, rfc_image m ++ skipn n buf)) /\
        (length buf < n -> m_write_into m buf = (Err (OutputTooSmall n), buf))
    | Err e => m_write_into m buf = (Err e, buf)
    | Panic => False
    | Fuel => False
    end.
Print Assumptions C06_packets_and_compounds.

Theorem C06_sdes_chunk_builder :
  forall (c : chunk_cfg) (buf : bytes),
    match chunk_calc c with
    | Ok n =>
        n mod 4 = 0 /\ length (rfc_chunk c) = n /\
        (n <= length buf -> chunk_write_into c buf = (Ok n, rfc_chunk c ++ skipn n buf)) /\
        (length buf < n -> chunk_write_into c buf = (Err (OutputTooSmall n), buf))
    | Err e => chunk_write_into c buf = (Err e, buf)
    | Panic => False
    | Fuel => False
    end.
Proof. exact chunk_write_into_spec. Qed.
Check C06_sdes_chunk_builder :
  forall (c : chunk_cfg) (buf : bytes),
    match chunk_calc c with
    | Ok n =>
        n mod 4 = 0 /\ length (rfc_chunk c) = n /\
        (n <= length buf -> chunk_write_into c buf = (Ok n, rfc_chunk c ++ skipn n buf)) /\
        (length buf < n -> chunk_write_into c buf = (Err (OutputTooSmall n), buf))
    | Err e => chunk_write_into c buf = (Err e, buf)
    | Panic => False
    | Fuel => False
    end.
Print Assumptions C06_sdes_chunk_builder.

Theorem C06_sdes_item_builder :
  forall (it : item_cfg) (buf : bytes),
    match item_calc it with
    | Ok n =>
        length (rfc_item it) = n /\
        (n <= length buf -> item_write_into it buf = (Ok n, rfc_item it ++ skipn n buf)) /\
        (length buf < n -> item_write_into it buf = (Err (OutputTooSmall n), buf))
    | Err e => item_write_into it buf = (Err e, buf)
    | Panic => False
    | Fuel => False
    end.
Proof. exact item_write_into_spec. Qed.
Check C06_sdes_item_builder :
  forall (it : item_cfg) (buf : bytes),
    match item_calc it with
    | Ok n =>
        length (rfc_item it) = n /\
        (n <= length buf -> item_write_into it buf = (Ok n, rfc_item it ++ skipn n buf)) /\
        (length buf < n -> item_write_into it buf = (Err (OutputTooSmall n), buf))
    | Err e => item_write_into it buf = (Err e, buf)
    | Panic => False
    | Fuel => False
    end.
Print Assumptions C06_sdes_item_builder.

(* the five FCI builders implement the public writer trait themselves: the same statement for a bare FCI
   builder ([fci_write_into] = write_into over its own calculate_size / write_into_unchecked) *)
Theorem C06_fci_builder_as_a_writer :
  forall (f : fci_cfg) (buf : bytes),
    fci_wf f ->
    match fci_calc f with
    | Ok n =>
        n mod 4 = 0 /\ length (rfc_fci f) = n /\
        (n <= length buf -> fci_write_into f buf = (Ok n, rfc_fci f ++ skipn n buf)) /\
        (length buf < n -> fci_write_into f buf = (Err (OutputTooSmall n), buf))
    | Err e => fci_write_into f buf = (Err e, buf)
    | Panic => False
    | Fuel => False
    end.
Proof. exact fci_write_into_spec. Qed.
Check C06_fci_builder_as_a_writer :
  forall (f : fci_cfg) (buf : bytes),
    fci_wf f ->
    match fci_calc f with
    | Ok n =>
        n mod 4 = 0 /\ length (rfc_fci f) = n /\
        (n <= length buf -> fci_write_into f buf = (Ok n, rfc_fci f ++ skipn n buf)) /\
        (length buf < n -> fci_write_into f buf = (Err (OutputTooSmall n), buf))
    | Err e => fci_write_into f buf = (Err e, buf)
    | Panic => False
    | Fuel => False
    end.
Print Assumptions C06_fci_builder_as_a_writer.
