(* C18 - Parse errors tell the truth about the input.
   Property theorems only (generated from C18.in by bin/mkprop): statements, [exact lemma], a [Check]
   pin and [Print Assumptions].  [truthful min pt l e] (Proofs/C18.v) is the property's list:
   accuracy of the version / type-mismatch / truncated / too-large payloads, exactness for inputs
   shorter than the minimum, exactness for a length field that disagrees with the input length. *)
From RtcpV Require Import Proofs.C18 Proofs.C18b.

(* every typed parser: APP, BYE, RR, SDES, SR, transport and payload feedback *)
Theorem C18_typed_parsers :
  forall (v : variant) (l : bytes) (e : perr),
    v <> VUnknown -> typed_parse v l = Err e -> truthful (variant_min v) (Some (variant_pt v)) l e.
Proof. exact typed_errors_truthful. Qed.
Check C18_typed_parsers :
  forall (v : variant) (l : bytes) (e : perr),
    v <> VUnknown -> typed_parse v l = Err e -> truthful (variant_min v) (Some (variant_pt v)) l e.
Print Assumptions C18_typed_parsers.

Theorem C18_unknown_parser :
  forall (l : bytes) (e : perr), unknown_parse l = Err e -> truthful 4 None l e.
Proof. exact unknown_errors_truthful. Qed.
Check C18_unknown_parser :
  forall (l : bytes) (e : perr), unknown_parse l = Err e -> truthful 4 None l e.
Print Assumptions C18_unknown_parser.

(* the generic parser reports what the parser of the named type reports *)
Theorem C18_generic_parser :
  forall (l : bytes) (e : perr),
    packet_parse l = Err e ->
    (length l < 4 /\ e = Truncated 4 (length l)) \/
    (exists b, nth_error l 1 = Some b /\
       if variant_eqb (variant_of_pt b) VUnknown then truthful 4 None l e
       else truthful (variant_min (variant_of_pt b)) (Some b) l e).
Proof. exact generic_errors_truthful. Qed.
Check C18_generic_parser :
  forall (l : bytes) (e : perr),
    packet_parse l = Err e ->
    (length l < 4 /\ e = Truncated 4 (length l)) \/
    (exists b, nth_error l 1 = Some b /\
       if variant_eqb (variant_of_pt b) VUnknown then truthful 4 None l e
       else truthful (variant_min (variant_of_pt b)) (Some b) l e).
Print Assumptions C18_generic_parser.

Theorem C18_compound :
  forall (l : bytes) (e : perr),
    compound_parse l = Err e -> exists ex ac, e = Truncated ex ac /\ ex > ac.
Proof. exact compound_errors_truthful. Qed.
Check C18_compound :
  forall (l : bytes) (e : perr),
    compound_parse l = Err e -> exists ex ac, e = Truncated ex ac /\ ex > ac.
Print Assumptions C18_compound.

(* the compound parser's error carries the real length of the input, and an input shorter than one common
   header is reported with exactly the minimum 4 *)
Theorem C18_compound_exact :
  forall (l : bytes) (e : perr),
    compound_parse l = Err e ->
    (exists ex, e = Truncated ex (length l) /\ ex > length l) /\
    (length l < 4 -> e = Truncated 4 (length l)).
Proof. exact compound_errors_exact. Qed.
Check C18_compound_exact :
  forall (l : bytes) (e : perr),
    compound_parse l = Err e ->
    (exists ex, e = Truncated ex (length l) /\ ex > length l) /\
    (length l < 4 -> e = Truncated 4 (length l)).
Print Assumptions C18_compound_exact.

Theorem C18_report_block :
  forall (l : bytes) (e : perr),
    rb_parse l = Err e -> body_err_ok e /\ (length l < 24 -> e = Truncated 24 (length l)).
Proof. exact rb_errors_truthful. Qed.
Check C18_report_block :
  forall (l : bytes) (e : perr),
    rb_parse l = Err e -> body_err_ok e /\ (length l < 24 -> e = Truncated 24 (length l)).
Print Assumptions C18_report_block.

Theorem C18_fci_parsers :
  forall (t : fci_type) (l : bytes) (e : perr), fci_parse_raw t l = Err e -> body_err_ok e.
Proof. exact fci_errors_truthful. Qed.
Check C18_fci_parsers :
  forall (t : fci_type) (l : bytes) (e : perr), fci_parse_raw t l = Err e -> body_err_ok e.
Print Assumptions C18_fci_parsers.

Theorem C18_parse_fci :
  forall (k : fb_kind) (t : fci_type) (d : bytes) (e : perr),
    parse_fci k t d = Err e -> e = WrongImplementation \/ body_err_ok e.
Proof. exact parse_fci_errors_truthful. Qed.
Check C18_parse_fci :
  forall (k : fb_kind) (t : fci_type) (d : bytes) (e : perr),
    parse_fci k t d = Err e -> e = WrongImplementation \/ body_err_ok e.
Print Assumptions C18_parse_fci.
