(* Extraction of the executable model (and, later, the spec oracles) to OCaml for the correspondence
   check.  Only ExtrOcamlBasic is used: bool, option, unit, list, prod, sumbool map to OCaml's own;
   nat, N, positive, ascii and string stay as the extracted inductive datatypes. *)
From Coq Require Import Extraction ExtrOcamlBasic.
From RtcpV Require Import Model.Run Model.RunHelper Model.Hist Spec.Views Spec.Ref Spec.Final.

Extraction Language OCaml.
Set Extraction KeepSingleton.

Extraction "model.ml"
  run_parse run_build run_build_chunk run_build_item m_calc chunk_calc item_calc
  spec_build2 spec_parse2 spec_chunk spec_item run_hist chunk_of_hist final_config
  run_helper_pad run_helper_hdr run_helper_chk run_helper_phdr run_build_unchecked run_build_fci fci_calc
  N.of_nat N.to_nat N.add N.mul.
