
(** val negb : bool -> bool **)

let negb = function
| true -> false
| false -> true

type nat =
| O
| S of nat

(** val option_map : ('a1 -> 'a2) -> 'a1 option -> 'a2 option **)

let option_map f = function
| Some a -> Some (f a)
| None -> None

(** val fst : ('a1 * 'a2) -> 'a1 **)

let fst = function
| (x, _) -> x

(** val snd : ('a1 * 'a2) -> 'a2 **)

let snd = function
| (_, y) -> y

(** val length : 'a1 list -> nat **)

let rec length = function
| [] -> O
| _ :: l' -> S (length l')

(** val app : 'a1 list -> 'a1 list -> 'a1 list **)

let rec app l m =
  match l with
  | [] -> m
  | a :: l1 -> a :: (app l1 m)

type comparison =
| Eq
| Lt
| Gt

module Coq__1 = struct
 (** val add : nat -> nat -> nat **)
 let rec add n0 m =
   match n0 with
   | O -> m
   | S p -> S (add p m)
end
include Coq__1

(** val mul : nat -> nat -> nat **)

let rec mul n0 m =
  match n0 with
  | O -> O
  | S p -> add m (mul p m)

(** val sub : nat -> nat -> nat **)

let rec sub n0 m =
  match n0 with
  | O -> n0
  | S k -> (match m with
            | O -> n0
            | S l -> sub k l)

module Nat =
 struct
  (** val sub : nat -> nat -> nat **)

  let rec sub n0 m =
    match n0 with
    | O -> n0
    | S k -> (match m with
              | O -> n0
              | S l -> sub k l)

  (** val eqb : nat -> nat -> bool **)

  let rec eqb n0 m =
    match n0 with
    | O -> (match m with
            | O -> true
            | S _ -> false)
    | S n' -> (match m with
               | O -> false
               | S m' -> eqb n' m')

  (** val leb : nat -> nat -> bool **)

  let rec leb n0 m =
    match n0 with
    | O -> true
    | S n' -> (match m with
               | O -> false
               | S m' -> leb n' m')

  (** val ltb : nat -> nat -> bool **)

  let ltb n0 m =
    leb (S n0) m

  (** val divmod : nat -> nat -> nat -> nat -> nat * nat **)

  let rec divmod x y q u =
    match x with
    | O -> (q, u)
    | S x' ->
      (match u with
       | O -> divmod x' y (S q) y
       | S u' -> divmod x' y q u')

  (** val div : nat -> nat -> nat **)

  let div x y = match y with
  | O -> y
  | S y' -> fst (divmod x y' O y')

  (** val modulo : nat -> nat -> nat **)

  let modulo x = function
  | O -> x
  | S y' -> sub y' (snd (divmod x y' O y'))
 end

(** val nth : nat -> 'a1 list -> 'a1 -> 'a1 **)

let rec nth n0 l default =
  match n0 with
  | O -> (match l with
          | [] -> default
          | x :: _ -> x)
  | S m -> (match l with
            | [] -> default
            | _ :: t -> nth m t default)

(** val nth_error : 'a1 list -> nat -> 'a1 option **)

let rec nth_error l = function
| O -> (match l with
        | [] -> None
        | x :: _ -> Some x)
| S n1 -> (match l with
           | [] -> None
           | _ :: l0 -> nth_error l0 n1)

(** val last : 'a1 list -> 'a1 -> 'a1 **)

let rec last l d =
  match l with
  | [] -> d
  | a :: l0 -> (match l0 with
                | [] -> a
                | _ :: _ -> last l0 d)

(** val removelast : 'a1 list -> 'a1 list **)

let rec removelast = function
| [] -> []
| a :: l0 -> (match l0 with
              | [] -> []
              | _ :: _ -> a :: (removelast l0))

(** val concat : 'a1 list list -> 'a1 list **)

let rec concat = function
| [] -> []
| x :: l0 -> app x (concat l0)

(** val map : ('a1 -> 'a2) -> 'a1 list -> 'a2 list **)

let rec map f = function
| [] -> []
| a :: t -> (f a) :: (map f t)

(** val flat_map : ('a1 -> 'a2 list) -> 'a1 list -> 'a2 list **)

let rec flat_map f = function
| [] -> []
| x :: t -> app (f x) (flat_map f t)

(** val fold_left : ('a1 -> 'a2 -> 'a1) -> 'a2 list -> 'a1 -> 'a1 **)

let rec fold_left f l a0 =
  match l with
  | [] -> a0
  | b :: t -> fold_left f t (f a0 b)

(** val fold_right : ('a2 -> 'a1 -> 'a1) -> 'a1 -> 'a2 list -> 'a1 **)

let rec fold_right f a0 = function
| [] -> a0
| b :: t -> f b (fold_right f a0 t)

(** val existsb : ('a1 -> bool) -> 'a1 list -> bool **)

let rec existsb f = function
| [] -> false
| a :: l0 -> (||) (f a) (existsb f l0)

(** val forallb : ('a1 -> bool) -> 'a1 list -> bool **)

let rec forallb f = function
| [] -> true
| a :: l0 -> (&&) (f a) (forallb f l0)

(** val combine : 'a1 list -> 'a2 list -> ('a1 * 'a2) list **)

let rec combine l l' =
  match l with
  | [] -> []
  | x :: tl ->
    (match l' with
     | [] -> []
     | y :: tl' -> (x, y) :: (combine tl tl'))

(** val firstn : nat -> 'a1 list -> 'a1 list **)

let rec firstn n0 l =
  match n0 with
  | O -> []
  | S n1 -> (match l with
             | [] -> []
             | a :: l0 -> a :: (firstn n1 l0))

(** val skipn : nat -> 'a1 list -> 'a1 list **)

let rec skipn n0 l =
  match n0 with
  | O -> l
  | S n1 -> (match l with
             | [] -> []
             | _ :: l0 -> skipn n1 l0)

(** val seq : nat -> nat -> nat list **)

let rec seq start = function
| O -> []
| S len0 -> start :: (seq (S start) len0)

(** val repeat : 'a1 -> nat -> 'a1 list **)

let rec repeat x = function
| O -> []
| S k -> x :: (repeat x k)

type positive =
| XI of positive
| XO of positive
| XH

type n =
| N0
| Npos of positive

module Pos =
 struct
  type mask =
  | IsNul
  | IsPos of positive
  | IsNeg
 end

module Coq_Pos =
 struct
  (** val succ : positive -> positive **)

  let rec succ = function
  | XI p -> XO (succ p)
  | XO p -> XI p
  | XH -> XO XH

  (** val add : positive -> positive -> positive **)

  let rec add x y =
    match x with
    | XI p ->
      (match y with
       | XI q -> XO (add_carry p q)
       | XO q -> XI (add p q)
       | XH -> XO (succ p))
    | XO p ->
      (match y with
       | XI q -> XI (add p q)
       | XO q -> XO (add p q)
       | XH -> XI p)
    | XH -> (match y with
             | XI q -> XO (succ q)
             | XO q -> XI q
             | XH -> XO XH)

  (** val add_carry : positive -> positive -> positive **)

  and add_carry x y =
    match x with
    | XI p ->
      (match y with
       | XI q -> XI (add_carry p q)
       | XO q -> XO (add_carry p q)
       | XH -> XI (succ p))
    | XO p ->
      (match y with
       | XI q -> XO (add_carry p q)
       | XO q -> XI (add p q)
       | XH -> XO (succ p))
    | XH ->
      (match y with
       | XI q -> XI (succ q)
       | XO q -> XO (succ q)
       | XH -> XI XH)

  (** val pred_double : positive -> positive **)

  let rec pred_double = function
  | XI p -> XI (XO p)
  | XO p -> XI (pred_double p)
  | XH -> XH

  type mask = Pos.mask =
  | IsNul
  | IsPos of positive
  | IsNeg

  (** val succ_double_mask : mask -> mask **)

  let succ_double_mask = function
  | IsNul -> IsPos XH
  | IsPos p -> IsPos (XI p)
  | IsNeg -> IsNeg

  (** val double_mask : mask -> mask **)

  let double_mask = function
  | IsPos p -> IsPos (XO p)
  | x0 -> x0

  (** val double_pred_mask : positive -> mask **)

  let double_pred_mask = function
  | XI p -> IsPos (XO (XO p))
  | XO p -> IsPos (XO (pred_double p))
  | XH -> IsNul

  (** val sub_mask : positive -> positive -> mask **)

  let rec sub_mask x y =
    match x with
    | XI p ->
      (match y with
       | XI q -> double_mask (sub_mask p q)
       | XO q -> succ_double_mask (sub_mask p q)
       | XH -> IsPos (XO p))
    | XO p ->
      (match y with
       | XI q -> succ_double_mask (sub_mask_carry p q)
       | XO q -> double_mask (sub_mask p q)
       | XH -> IsPos (pred_double p))
    | XH -> (match y with
             | XH -> IsNul
             | _ -> IsNeg)

  (** val sub_mask_carry : positive -> positive -> mask **)

  and sub_mask_carry x y =
    match x with
    | XI p ->
      (match y with
       | XI q -> succ_double_mask (sub_mask_carry p q)
       | XO q -> double_mask (sub_mask p q)
       | XH -> IsPos (pred_double p))
    | XO p ->
      (match y with
       | XI q -> double_mask (sub_mask_carry p q)
       | XO q -> succ_double_mask (sub_mask_carry p q)
       | XH -> double_pred_mask p)
    | XH -> IsNeg

  (** val mul : positive -> positive -> positive **)

  let rec mul x y =
    match x with
    | XI p -> add y (XO (mul p y))
    | XO p -> XO (mul p y)
    | XH -> y

  (** val iter : ('a1 -> 'a1) -> 'a1 -> positive -> 'a1 **)

  let rec iter f x = function
  | XI n' -> f (iter f (iter f x n') n')
  | XO n' -> iter f (iter f x n') n'
  | XH -> f x

  (** val pow : positive -> positive -> positive **)

  let pow x =
    iter (mul x) XH

  (** val compare_cont : comparison -> positive -> positive -> comparison **)

  let rec compare_cont r x y =
    match x with
    | XI p ->
      (match y with
       | XI q -> compare_cont r p q
       | XO q -> compare_cont Gt p q
       | XH -> Gt)
    | XO p ->
      (match y with
       | XI q -> compare_cont Lt p q
       | XO q -> compare_cont r p q
       | XH -> Gt)
    | XH -> (match y with
             | XH -> r
             | _ -> Lt)

  (** val compare : positive -> positive -> comparison **)

  let compare =
    compare_cont Eq

  (** val eqb : positive -> positive -> bool **)

  let rec eqb p q =
    match p with
    | XI p0 -> (match q with
                | XI q0 -> eqb p0 q0
                | _ -> false)
    | XO p0 -> (match q with
                | XO q0 -> eqb p0 q0
                | _ -> false)
    | XH -> (match q with
             | XH -> true
             | _ -> false)

  (** val coq_lor : positive -> positive -> positive **)

  let rec coq_lor p q =
    match p with
    | XI p0 ->
      (match q with
       | XI q0 -> XI (coq_lor p0 q0)
       | XO q0 -> XI (coq_lor p0 q0)
       | XH -> p)
    | XO p0 ->
      (match q with
       | XI q0 -> XI (coq_lor p0 q0)
       | XO q0 -> XO (coq_lor p0 q0)
       | XH -> XI p0)
    | XH -> (match q with
             | XO q0 -> XI q0
             | _ -> q)

  (** val iter_op : ('a1 -> 'a1 -> 'a1) -> positive -> 'a1 -> 'a1 **)

  let rec iter_op op0 p a =
    match p with
    | XI p0 -> op0 a (iter_op op0 p0 (op0 a a))
    | XO p0 -> iter_op op0 p0 (op0 a a)
    | XH -> a

  (** val to_nat : positive -> nat **)

  let to_nat x =
    iter_op Coq__1.add x (S O)

  (** val of_succ_nat : nat -> positive **)

  let rec of_succ_nat = function
  | O -> XH
  | S x -> succ (of_succ_nat x)
 end

module N =
 struct
  (** val succ_double : n -> n **)

  let succ_double = function
  | N0 -> Npos XH
  | Npos p -> Npos (XI p)

  (** val double : n -> n **)

  let double = function
  | N0 -> N0
  | Npos p -> Npos (XO p)

  (** val add : n -> n -> n **)

  let add n0 m =
    match n0 with
    | N0 -> m
    | Npos p -> (match m with
                 | N0 -> n0
                 | Npos q -> Npos (Coq_Pos.add p q))

  (** val sub : n -> n -> n **)

  let sub n0 m =
    match n0 with
    | N0 -> N0
    | Npos n' ->
      (match m with
       | N0 -> n0
       | Npos m' ->
         (match Coq_Pos.sub_mask n' m' with
          | Coq_Pos.IsPos p -> Npos p
          | _ -> N0))

  (** val mul : n -> n -> n **)

  let mul n0 m =
    match n0 with
    | N0 -> N0
    | Npos p -> (match m with
                 | N0 -> N0
                 | Npos q -> Npos (Coq_Pos.mul p q))

  (** val compare : n -> n -> comparison **)

  let compare n0 m =
    match n0 with
    | N0 -> (match m with
             | N0 -> Eq
             | Npos _ -> Lt)
    | Npos n' -> (match m with
                  | N0 -> Gt
                  | Npos m' -> Coq_Pos.compare n' m')

  (** val eqb : n -> n -> bool **)

  let eqb n0 m =
    match n0 with
    | N0 -> (match m with
             | N0 -> true
             | Npos _ -> false)
    | Npos p -> (match m with
                 | N0 -> false
                 | Npos q -> Coq_Pos.eqb p q)

  (** val leb : n -> n -> bool **)

  let leb x y =
    match compare x y with
    | Gt -> false
    | _ -> true

  (** val ltb : n -> n -> bool **)

  let ltb x y =
    match compare x y with
    | Lt -> true
    | _ -> false

  (** val pow : n -> n -> n **)

  let pow n0 = function
  | N0 -> Npos XH
  | Npos p0 -> (match n0 with
                | N0 -> N0
                | Npos q -> Npos (Coq_Pos.pow q p0))

  (** val pos_div_eucl : positive -> n -> n * n **)

  let rec pos_div_eucl a b =
    match a with
    | XI a' ->
      let (q, r) = pos_div_eucl a' b in
      let r' = succ_double r in
      if leb b r' then ((succ_double q), (sub r' b)) else ((double q), r')
    | XO a' ->
      let (q, r) = pos_div_eucl a' b in
      let r' = double r in
      if leb b r' then ((succ_double q), (sub r' b)) else ((double q), r')
    | XH ->
      (match b with
       | N0 -> (N0, (Npos XH))
       | Npos p -> (match p with
                    | XH -> ((Npos XH), N0)
                    | _ -> (N0, (Npos XH))))

  (** val div_eucl : n -> n -> n * n **)

  let div_eucl a b =
    match a with
    | N0 -> (N0, N0)
    | Npos na -> (match b with
                  | N0 -> (N0, a)
                  | Npos _ -> pos_div_eucl na b)

  (** val div : n -> n -> n **)

  let div a b =
    fst (div_eucl a b)

  (** val modulo : n -> n -> n **)

  let modulo a b =
    snd (div_eucl a b)

  (** val coq_lor : n -> n -> n **)

  let coq_lor n0 m =
    match n0 with
    | N0 -> m
    | Npos p -> (match m with
                 | N0 -> n0
                 | Npos q -> Npos (Coq_Pos.coq_lor p q))

  (** val to_nat : n -> nat **)

  let to_nat = function
  | N0 -> O
  | Npos p -> Coq_Pos.to_nat p

  (** val of_nat : nat -> n **)

  let of_nat = function
  | O -> N0
  | S n' -> Npos (Coq_Pos.of_succ_nat n')
 end

type ascii =
| Ascii of bool * bool * bool * bool * bool * bool * bool * bool

type string =
| EmptyString
| String of ascii * string

(** val append : string -> string -> string **)

let rec append s1 s2 =
  match s1 with
  | EmptyString -> s2
  | String (c, s1') -> String (c, (append s1' s2))

type ('e, 'a) res =
| Ok of 'a
| Err of 'e
| Panic
| Fuel

(** val bind : ('a1, 'a2) res -> ('a2 -> ('a1, 'a3) res) -> ('a1, 'a3) res **)

let bind r f =
  match r with
  | Ok a -> f a
  | Err e -> Err e
  | Panic -> Panic
  | Fuel -> Fuel

(** val is_ok : ('a1, 'a2) res -> bool **)

let is_ok = function
| Ok _ -> true
| _ -> false

type perr =
| UnsupportedVersion of n
| Truncated of nat * nat
| TooLarge of nat * nat
| InvalidPaddingP
| SdesValueTooLargeP of nat * n
| SdesPrivContentTruncated of nat * n
| SdesPrivPrefixTooLargeP of nat * n
| WrongImplementation
| PacketTypeMismatch of n * n

type werr =
| OutputTooSmall of nat
| InvalidPadding of n
| AppSubtypeOutOfRange of n * n
| InvalidName
| DataLen32bitMultiple of nat
| TooManySources of nat * n
| ReasonLenTooLarge of nat * n
| CumulativeLostTooLarge of n * n
| TooManyReportBlocks of nat * n
| TooManySdesChunks of nat * n
| SdesValueTooLarge of nat * n
| SdesPrivPrefixTooLarge of nat * n
| CountOutOfRange of n * n
| NonLastCompoundPacketPadding
| MissingFci
| TooManyNack
| FciWrongFeedbackPacketType
| PayloadTypeInvalid
| PaddingBitsTooLarge
| TooManyFir

type 'a pres = (perr, 'a) res

type 'a wres = (werr, 'a) res

type bytes = n list

(** val zeros : nat -> bytes **)

let zeros n0 =
  repeat N0 n0

(** val be16 : n -> bytes **)

let be16 x =
  (N.modulo (N.div x (Npos (XO (XO (XO (XO (XO (XO (XO (XO XH)))))))))) (Npos
    (XO (XO (XO (XO (XO (XO (XO (XO XH)))))))))) :: ((N.modulo x (Npos (XO
                                                       (XO (XO (XO (XO (XO
                                                       (XO (XO XH)))))))))) :: [])

(** val be32 : n -> bytes **)

let be32 x =
  (N.modulo
    (N.div x (Npos (XO (XO (XO (XO (XO (XO (XO (XO (XO (XO (XO (XO (XO (XO
      (XO (XO (XO (XO (XO (XO (XO (XO (XO (XO XH))))))))))))))))))))))))))
    (Npos (XO (XO (XO (XO (XO (XO (XO (XO XH)))))))))) :: ((N.modulo
                                                             (N.div x (Npos
                                                               (XO (XO (XO
                                                               (XO (XO (XO
                                                               (XO (XO (XO
                                                               (XO (XO (XO
                                                               (XO (XO (XO
                                                               (XO
                                                               XH))))))))))))))))))
                                                             (Npos (XO (XO
                                                             (XO (XO (XO (XO
                                                             (XO (XO
                                                             XH)))))))))) :: (
    (N.modulo (N.div x (Npos (XO (XO (XO (XO (XO (XO (XO (XO XH))))))))))
      (Npos (XO (XO (XO (XO (XO (XO (XO (XO XH)))))))))) :: ((N.modulo x
                                                               (Npos (XO (XO
                                                               (XO (XO (XO
                                                               (XO (XO (XO
                                                               XH)))))))))) :: [])))

(** val be64 : n -> bytes **)

let be64 x =
  app
    (be32
      (N.div x (Npos (XO (XO (XO (XO (XO (XO (XO (XO (XO (XO (XO (XO (XO (XO
        (XO (XO (XO (XO (XO (XO (XO (XO (XO (XO (XO (XO (XO (XO (XO (XO (XO
        (XO XH)))))))))))))))))))))))))))))))))))
    (be32
      (N.modulo x (Npos (XO (XO (XO (XO (XO (XO (XO (XO (XO (XO (XO (XO (XO
        (XO (XO (XO (XO (XO (XO (XO (XO (XO (XO (XO (XO (XO (XO (XO (XO (XO
        (XO (XO XH)))))))))))))))))))))))))))))))))))

(** val be_dec : bytes -> n **)

let be_dec l =
  fold_left (fun acc b ->
    N.add (N.mul acc (Npos (XO (XO (XO (XO (XO (XO (XO (XO XH)))))))))) b) l
    N0

(** val pad4 : nat -> nat **)

let pad4 n0 =
  mul (Nat.div (add n0 (S (S (S O)))) (S (S (S (S O))))) (S (S (S (S O))))

(** val idx : bytes -> nat -> ('a1, n) res **)

let idx l i =
  match nth_error l i with
  | Some b -> Ok b
  | None -> Panic

(** val slice : bytes -> nat -> nat -> ('a1, bytes) res **)

let slice l lo hi =
  if Nat.ltb hi lo
  then Panic
  else if Nat.ltb (length l) hi
       then Panic
       else Ok (firstn (sub hi lo) (skipn lo l))

(** val tail_from : bytes -> nat -> ('a1, bytes) res **)

let tail_from l lo =
  if Nat.ltb (length l) lo then Panic else Ok (skipn lo l)

(** val usub : nat -> nat -> ('a1, nat) res **)

let usub a b =
  if Nat.ltb a b then Panic else Ok (sub a b)

(** val set_at : bytes -> nat -> n -> ('a1, bytes) res **)

let set_at buf i v =
  if Nat.ltb i (length buf)
  then Ok (app (firstn i buf) (v :: (skipn (S i) buf)))
  else Panic

(** val copy_into : bytes -> nat -> nat -> bytes -> ('a1, bytes) res **)

let copy_into buf lo hi src =
  if Nat.ltb hi lo
  then Panic
  else if Nat.ltb (length buf) hi
       then Panic
       else if negb (Nat.eqb (length src) (sub hi lo))
            then Panic
            else Ok (app (firstn lo buf) (app src (skipn hi buf)))

(** val fill_range : bytes -> nat -> nat -> n -> ('a1, bytes) res **)

let fill_range buf lo hi v =
  if Nat.ltb hi lo
  then Panic
  else if Nat.ltb (length buf) hi
       then Panic
       else Ok
              (app (firstn lo buf)
                (app (repeat v (sub hi lo)) (skipn hi buf)))

(** val fill_if : bytes -> nat -> nat -> n -> ('a1, bytes) res **)

let fill_if buf lo hi v =
  if Nat.ltb lo hi then fill_range buf lo hi v else Ok buf

(** val with_sub :
    bytes -> nat -> nat -> (bytes -> ('a1, 'a2 * bytes) res) -> ('a1,
    'a2 * bytes) res **)

let with_sub buf lo hi f =
  bind (slice buf lo hi) (fun s ->
    bind (f s) (fun pat ->
      let (a, s') = pat in
      Ok (a, (app (firstn lo buf) (app s' (skipn hi buf))))))

(** val with_tail :
    bytes -> nat -> (bytes -> ('a1, 'a2 * bytes) res) -> ('a1, 'a2 * bytes)
    res **)

let with_tail buf lo f =
  bind (tail_from buf lo) (fun s ->
    bind (f s) (fun pat ->
      let (a, s') = pat in Ok (a, (app (firstn lo buf) s'))))

(** val be_dec_exact : nat -> bytes -> ('a1, n) res **)

let be_dec_exact n0 l =
  if Nat.eqb (length l) n0 then Ok (be_dec l) else Panic

type obs =
| ON of n
| OI of nat
| OB of bytes
| OS of string
| OL of obs list

type kv = string * obs

(** val obs_opt : obs option -> obs **)

let obs_opt = function
| Some x ->
  OL ((OS (String ((Ascii (true, true, false, false, true, true, true,
    false)), (String ((Ascii (true, true, true, true, false, true, true,
    false)), (String ((Ascii (true, false, true, true, false, true, true,
    false)), (String ((Ascii (true, false, true, false, false, true, true,
    false)), EmptyString))))))))) :: (x :: []))
| None ->
  OS (String ((Ascii (false, true, true, true, false, true, true, false)),
    (String ((Ascii (true, true, true, true, false, true, true, false)),
    (String ((Ascii (false, true, true, true, false, true, true, false)),
    (String ((Ascii (true, false, true, false, false, true, true, false)),
    EmptyString))))))))

(** val obs_perr : perr -> obs **)

let obs_perr = function
| UnsupportedVersion v ->
  OL ((OS (String ((Ascii (true, false, true, false, true, false, true,
    false)), (String ((Ascii (false, true, true, true, false, true, true,
    false)), (String ((Ascii (true, true, false, false, true, true, true,
    false)), (String ((Ascii (true, false, true, false, true, true, true,
    false)), (String ((Ascii (false, false, false, false, true, true, true,
    false)), (String ((Ascii (false, false, false, false, true, true, true,
    false)), (String ((Ascii (true, true, true, true, false, true, true,
    false)), (String ((Ascii (false, true, false, false, true, true, true,
    false)), (String ((Ascii (false, false, true, false, true, true, true,
    false)), (String ((Ascii (true, false, true, false, false, true, true,
    false)), (String ((Ascii (false, false, true, false, false, true, true,
    false)), (String ((Ascii (false, true, true, false, true, false, true,
    false)), (String ((Ascii (true, false, true, false, false, true, true,
    false)), (String ((Ascii (false, true, false, false, true, true, true,
    false)), (String ((Ascii (true, true, false, false, true, true, true,
    false)), (String ((Ascii (true, false, false, true, false, true, true,
    false)), (String ((Ascii (true, true, true, true, false, true, true,
    false)), (String ((Ascii (false, true, true, true, false, true, true,
    false)), EmptyString))))))))))))))))))))))))))))))))))))) :: ((ON
    v) :: []))
| Truncated (e0, a) ->
  OL ((OS (String ((Ascii (false, false, true, false, true, false, true,
    false)), (String ((Ascii (false, true, false, false, true, true, true,
    false)), (String ((Ascii (true, false, true, false, true, true, true,
    false)), (String ((Ascii (false, true, true, true, false, true, true,
    false)), (String ((Ascii (true, true, false, false, false, true, true,
    false)), (String ((Ascii (true, false, false, false, false, true, true,
    false)), (String ((Ascii (false, false, true, false, true, true, true,
    false)), (String ((Ascii (true, false, true, false, false, true, true,
    false)), (String ((Ascii (false, false, true, false, false, true, true,
    false)), EmptyString))))))))))))))))))) :: ((OI e0) :: ((OI a) :: [])))
| TooLarge (e0, a) ->
  OL ((OS (String ((Ascii (false, false, true, false, true, false, true,
    false)), (String ((Ascii (true, true, true, true, false, true, true,
    false)), (String ((Ascii (true, true, true, true, false, true, true,
    false)), (String ((Ascii (false, false, true, true, false, false, true,
    false)), (String ((Ascii (true, false, false, false, false, true, true,
    false)), (String ((Ascii (false, true, false, false, true, true, true,
    false)), (String ((Ascii (true, true, true, false, false, true, true,
    false)), (String ((Ascii (true, false, true, false, false, true, true,
    false)), EmptyString))))))))))))))))) :: ((OI e0) :: ((OI a) :: [])))
| InvalidPaddingP ->
  OL ((OS (String ((Ascii (true, false, false, true, false, false, true,
    false)), (String ((Ascii (false, true, true, true, false, true, true,
    false)), (String ((Ascii (false, true, true, false, true, true, true,
    false)), (String ((Ascii (true, false, false, false, false, true, true,
    false)), (String ((Ascii (false, false, true, true, false, true, true,
    false)), (String ((Ascii (true, false, false, true, false, true, true,
    false)), (String ((Ascii (false, false, true, false, false, true, true,
    false)), (String ((Ascii (false, false, false, false, true, false, true,
    false)), (String ((Ascii (true, false, false, false, false, true, true,
    false)), (String ((Ascii (false, false, true, false, false, true, true,
    false)), (String ((Ascii (false, false, true, false, false, true, true,
    false)), (String ((Ascii (true, false, false, true, false, true, true,
    false)), (String ((Ascii (false, true, true, true, false, true, true,
    false)), (String ((Ascii (true, true, true, false, false, true, true,
    false)), EmptyString))))))))))))))))))))))))))))) :: [])
| SdesValueTooLargeP (l, m) ->
  OL ((OS (String ((Ascii (true, true, false, false, true, false, true,
    false)), (String ((Ascii (false, false, true, false, false, true, true,
    false)), (String ((Ascii (true, false, true, false, false, true, true,
    false)), (String ((Ascii (true, true, false, false, true, true, true,
    false)), (String ((Ascii (false, true, true, false, true, false, true,
    false)), (String ((Ascii (true, false, false, false, false, true, true,
    false)), (String ((Ascii (false, false, true, true, false, true, true,
    false)), (String ((Ascii (true, false, true, false, true, true, true,
    false)), (String ((Ascii (true, false, true, false, false, true, true,
    false)), (String ((Ascii (false, false, true, false, true, false, true,
    false)), (String ((Ascii (true, true, true, true, false, true, true,
    false)), (String ((Ascii (true, true, true, true, false, true, true,
    false)), (String ((Ascii (false, false, true, true, false, false, true,
    false)), (String ((Ascii (true, false, false, false, false, true, true,
    false)), (String ((Ascii (false, true, false, false, true, true, true,
    false)), (String ((Ascii (true, true, true, false, false, true, true,
    false)), (String ((Ascii (true, false, true, false, false, true, true,
    false)), EmptyString))))))))))))))))))))))))))))))))))) :: ((OI
    l) :: ((ON m) :: [])))
| SdesPrivContentTruncated (l, m) ->
  OL ((OS (String ((Ascii (true, true, false, false, true, false, true,
    false)), (String ((Ascii (false, false, true, false, false, true, true,
    false)), (String ((Ascii (true, false, true, false, false, true, true,
    false)), (String ((Ascii (true, true, false, false, true, true, true,
    false)), (String ((Ascii (false, false, false, false, true, false, true,
    false)), (String ((Ascii (false, true, false, false, true, true, true,
    false)), (String ((Ascii (true, false, false, true, false, true, true,
    false)), (String ((Ascii (false, true, true, false, true, true, true,
    false)), (String ((Ascii (true, true, false, false, false, false, true,
    false)), (String ((Ascii (true, true, true, true, false, true, true,
    false)), (String ((Ascii (false, true, true, true, false, true, true,
    false)), (String ((Ascii (false, false, true, false, true, true, true,
    false)), (String ((Ascii (true, false, true, false, false, true, true,
    false)), (String ((Ascii (false, true, true, true, false, true, true,
    false)), (String ((Ascii (false, false, true, false, true, true, true,
    false)), (String ((Ascii (false, false, true, false, true, false, true,
    false)), (String ((Ascii (false, true, false, false, true, true, true,
    false)), (String ((Ascii (true, false, true, false, true, true, true,
    false)), (String ((Ascii (false, true, true, true, false, true, true,
    false)), (String ((Ascii (true, true, false, false, false, true, true,
    false)), (String ((Ascii (true, false, false, false, false, true, true,
    false)), (String ((Ascii (false, false, true, false, true, true, true,
    false)), (String ((Ascii (true, false, true, false, false, true, true,
    false)), (String ((Ascii (false, false, true, false, false, true, true,
    false)),
    EmptyString))))))))))))))))))))))))))))))))))))))))))))))))) :: ((OI
    l) :: ((ON m) :: [])))
| SdesPrivPrefixTooLargeP (l, a) ->
  OL ((OS (String ((Ascii (true, true, false, false, true, false, true,
    false)), (String ((Ascii (false, false, true, false, false, true, true,
    false)), (String ((Ascii (true, false, true, false, false, true, true,
    false)), (String ((Ascii (true, true, false, false, true, true, true,
    false)), (String ((Ascii (false, false, false, false, true, false, true,
    false)), (String ((Ascii (false, true, false, false, true, true, true,
    false)), (String ((Ascii (true, false, false, true, false, true, true,
    false)), (String ((Ascii (false, true, true, false, true, true, true,
    false)), (String ((Ascii (false, false, false, false, true, false, true,
    false)), (String ((Ascii (false, true, false, false, true, true, true,
    false)), (String ((Ascii (true, false, true, false, false, true, true,
    false)), (String ((Ascii (false, true, true, false, false, true, true,
    false)), (String ((Ascii (true, false, false, true, false, true, true,
    false)), (String ((Ascii (false, false, false, true, true, true, true,
    false)), (String ((Ascii (false, false, true, false, true, false, true,
    false)), (String ((Ascii (true, true, true, true, false, true, true,
    false)), (String ((Ascii (true, true, true, true, false, true, true,
    false)), (String ((Ascii (false, false, true, true, false, false, true,
    false)), (String ((Ascii (true, false, false, false, false, true, true,
    false)), (String ((Ascii (false, true, false, false, true, true, true,
    false)), (String ((Ascii (true, true, true, false, false, true, true,
    false)), (String ((Ascii (true, false, true, false, false, true, true,
    false)), EmptyString))))))))))))))))))))))))))))))))))))))))))))) :: ((OI
    l) :: ((ON a) :: [])))
| WrongImplementation ->
  OL ((OS (String ((Ascii (true, true, true, false, true, false, true,
    false)), (String ((Ascii (false, true, false, false, true, true, true,
    false)), (String ((Ascii (true, true, true, true, false, true, true,
    false)), (String ((Ascii (false, true, true, true, false, true, true,
    false)), (String ((Ascii (true, true, true, false, false, true, true,
    false)), (String ((Ascii (true, false, false, true, false, false, true,
    false)), (String ((Ascii (true, false, true, true, false, true, true,
    false)), (String ((Ascii (false, false, false, false, true, true, true,
    false)), (String ((Ascii (false, false, true, true, false, true, true,
    false)), (String ((Ascii (true, false, true, false, false, true, true,
    false)), (String ((Ascii (true, false, true, true, false, true, true,
    false)), (String ((Ascii (true, false, true, false, false, true, true,
    false)), (String ((Ascii (false, true, true, true, false, true, true,
    false)), (String ((Ascii (false, false, true, false, true, true, true,
    false)), (String ((Ascii (true, false, false, false, false, true, true,
    false)), (String ((Ascii (false, false, true, false, true, true, true,
    false)), (String ((Ascii (true, false, false, true, false, true, true,
    false)), (String ((Ascii (true, true, true, true, false, true, true,
    false)), (String ((Ascii (false, true, true, true, false, true, true,
    false)), EmptyString))))))))))))))))))))))))))))))))))))))) :: [])
| PacketTypeMismatch (a, r) ->
  OL ((OS (String ((Ascii (false, false, false, false, true, false, true,
    false)), (String ((Ascii (true, false, false, false, false, true, true,
    false)), (String ((Ascii (true, true, false, false, false, true, true,
    false)), (String ((Ascii (true, true, false, true, false, true, true,
    false)), (String ((Ascii (true, false, true, false, false, true, true,
    false)), (String ((Ascii (false, false, true, false, true, true, true,
    false)), (String ((Ascii (false, false, true, false, true, false, true,
    false)), (String ((Ascii (true, false, false, true, true, true, true,
    false)), (String ((Ascii (false, false, false, false, true, true, true,
    false)), (String ((Ascii (true, false, true, false, false, true, true,
    false)), (String ((Ascii (true, false, true, true, false, false, true,
    false)), (String ((Ascii (true, false, false, true, false, true, true,
    false)), (String ((Ascii (true, true, false, false, true, true, true,
    false)), (String ((Ascii (true, false, true, true, false, true, true,
    false)), (String ((Ascii (true, false, false, false, false, true, true,
    false)), (String ((Ascii (false, false, true, false, true, true, true,
    false)), (String ((Ascii (true, true, false, false, false, true, true,
    false)), (String ((Ascii (false, false, false, true, false, true, true,
    false)), EmptyString))))))))))))))))))))))))))))))))))))) :: ((ON
    a) :: ((ON r) :: [])))

(** val obs_werr : werr -> obs **)

let obs_werr = function
| OutputTooSmall n0 ->
  OL ((OS (String ((Ascii (true, true, true, true, false, false, true,
    false)), (String ((Ascii (true, false, true, false, true, true, true,
    false)), (String ((Ascii (false, false, true, false, true, true, true,
    false)), (String ((Ascii (false, false, false, false, true, true, true,
    false)), (String ((Ascii (true, false, true, false, true, true, true,
    false)), (String ((Ascii (false, false, true, false, true, true, true,
    false)), (String ((Ascii (false, false, true, false, true, false, true,
    false)), (String ((Ascii (true, true, true, true, false, true, true,
    false)), (String ((Ascii (true, true, true, true, false, true, true,
    false)), (String ((Ascii (true, true, false, false, true, false, true,
    false)), (String ((Ascii (true, false, true, true, false, true, true,
    false)), (String ((Ascii (true, false, false, false, false, true, true,
    false)), (String ((Ascii (false, false, true, true, false, true, true,
    false)), (String ((Ascii (false, false, true, true, false, true, true,
    false)), EmptyString))))))))))))))))))))))))))))) :: ((OI n0) :: []))
| InvalidPadding p ->
  OL ((OS (String ((Ascii (true, false, false, true, false, false, true,
    false)), (String ((Ascii (false, true, true, true, false, true, true,
    false)), (String ((Ascii (false, true, true, false, true, true, true,
    false)), (String ((Ascii (true, false, false, false, false, true, true,
    false)), (String ((Ascii (false, false, true, true, false, true, true,
    false)), (String ((Ascii (true, false, false, true, false, true, true,
    false)), (String ((Ascii (false, false, true, false, false, true, true,
    false)), (String ((Ascii (false, false, false, false, true, false, true,
    false)), (String ((Ascii (true, false, false, false, false, true, true,
    false)), (String ((Ascii (false, false, true, false, false, true, true,
    false)), (String ((Ascii (false, false, true, false, false, true, true,
    false)), (String ((Ascii (true, false, false, true, false, true, true,
    false)), (String ((Ascii (false, true, true, true, false, true, true,
    false)), (String ((Ascii (true, true, true, false, false, true, true,
    false)), EmptyString))))))))))))))))))))))))))))) :: ((ON p) :: []))
| AppSubtypeOutOfRange (s, m) ->
  OL ((OS (String ((Ascii (true, false, false, false, false, false, true,
    false)), (String ((Ascii (false, false, false, false, true, true, true,
    false)), (String ((Ascii (false, false, false, false, true, true, true,
    false)), (String ((Ascii (true, true, false, false, true, false, true,
    false)), (String ((Ascii (true, false, true, false, true, true, true,
    false)), (String ((Ascii (false, true, false, false, false, true, true,
    false)), (String ((Ascii (false, false, true, false, true, true, true,
    false)), (String ((Ascii (true, false, false, true, true, true, true,
    false)), (String ((Ascii (false, false, false, false, true, true, true,
    false)), (String ((Ascii (true, false, true, false, false, true, true,
    false)), (String ((Ascii (true, true, true, true, false, false, true,
    false)), (String ((Ascii (true, false, true, false, true, true, true,
    false)), (String ((Ascii (false, false, true, false, true, true, true,
    false)), (String ((Ascii (true, true, true, true, false, false, true,
    false)), (String ((Ascii (false, true, true, false, false, true, true,
    false)), (String ((Ascii (false, true, false, false, true, false, true,
    false)), (String ((Ascii (true, false, false, false, false, true, true,
    false)), (String ((Ascii (false, true, true, true, false, true, true,
    false)), (String ((Ascii (true, true, true, false, false, true, true,
    false)), (String ((Ascii (true, false, true, false, false, true, true,
    false)), EmptyString))))))))))))))))))))))))))))))))))))))))) :: ((ON
    s) :: ((ON m) :: [])))
| InvalidName ->
  OL ((OS (String ((Ascii (true, false, false, true, false, false, true,
    false)), (String ((Ascii (false, true, true, true, false, true, true,
    false)), (String ((Ascii (false, true, true, false, true, true, true,
    false)), (String ((Ascii (true, false, false, false, false, true, true,
    false)), (String ((Ascii (false, false, true, true, false, true, true,
    false)), (String ((Ascii (true, false, false, true, false, true, true,
    false)), (String ((Ascii (false, false, true, false, false, true, true,
    false)), (String ((Ascii (false, true, true, true, false, false, true,
    false)), (String ((Ascii (true, false, false, false, false, true, true,
    false)), (String ((Ascii (true, false, true, true, false, true, true,
    false)), (String ((Ascii (true, false, true, false, false, true, true,
    false)), EmptyString))))))))))))))))))))))) :: [])
| DataLen32bitMultiple n0 ->
  OL ((OS (String ((Ascii (false, false, true, false, false, false, true,
    false)), (String ((Ascii (true, false, false, false, false, true, true,
    false)), (String ((Ascii (false, false, true, false, true, true, true,
    false)), (String ((Ascii (true, false, false, false, false, true, true,
    false)), (String ((Ascii (false, false, true, true, false, false, true,
    false)), (String ((Ascii (true, false, true, false, false, true, true,
    false)), (String ((Ascii (false, true, true, true, false, true, true,
    false)), (String ((Ascii (true, true, false, false, true, true, false,
    false)), (String ((Ascii (false, true, false, false, true, true, false,
    false)), (String ((Ascii (false, true, false, false, false, true, true,
    false)), (String ((Ascii (true, false, false, true, false, true, true,
    false)), (String ((Ascii (false, false, true, false, true, true, true,
    false)), (String ((Ascii (true, false, true, true, false, false, true,
    false)), (String ((Ascii (true, false, true, false, true, true, true,
    false)), (String ((Ascii (false, false, true, true, false, true, true,
    false)), (String ((Ascii (false, false, true, false, true, true, true,
    false)), (String ((Ascii (true, false, false, true, false, true, true,
    false)), (String ((Ascii (false, false, false, false, true, true, true,
    false)), (String ((Ascii (false, false, true, true, false, true, true,
    false)), (String ((Ascii (true, false, true, false, false, true, true,
    false)), EmptyString))))))))))))))))))))))))))))))))))))))))) :: ((OI
    n0) :: []))
| TooManySources (c, m) ->
  OL ((OS (String ((Ascii (false, false, true, false, true, false, true,
    false)), (String ((Ascii (true, true, true, true, false, true, true,
    false)), (String ((Ascii (true, true, true, true, false, true, true,
    false)), (String ((Ascii (true, false, true, true, false, false, true,
    false)), (String ((Ascii (true, false, false, false, false, true, true,
    false)), (String ((Ascii (false, true, true, true, false, true, true,
    false)), (String ((Ascii (true, false, false, true, true, true, true,
    false)), (String ((Ascii (true, true, false, false, true, false, true,
    false)), (String ((Ascii (true, true, true, true, false, true, true,
    false)), (String ((Ascii (true, false, true, false, true, true, true,
    false)), (String ((Ascii (false, true, false, false, true, true, true,
    false)), (String ((Ascii (true, true, false, false, false, true, true,
    false)), (String ((Ascii (true, false, true, false, false, true, true,
    false)), (String ((Ascii (true, true, false, false, true, true, true,
    false)), EmptyString))))))))))))))))))))))))))))) :: ((OI c) :: ((ON
    m) :: [])))
| ReasonLenTooLarge (l, m) ->
  OL ((OS (String ((Ascii (false, true, false, false, true, false, true,
    false)), (String ((Ascii (true, false, true, false, false, true, true,
    false)), (String ((Ascii (true, false, false, false, false, true, true,
    false)), (String ((Ascii (true, true, false, false, true, true, true,
    false)), (String ((Ascii (true, true, true, true, false, true, true,
    false)), (String ((Ascii (false, true, true, true, false, true, true,
    false)), (String ((Ascii (false, false, true, true, false, false, true,
    false)), (String ((Ascii (true, false, true, false, false, true, true,
    false)), (String ((Ascii (false, true, true, true, false, true, true,
    false)), (String ((Ascii (false, false, true, false, true, false, true,
    false)), (String ((Ascii (true, true, true, true, false, true, true,
    false)), (String ((Ascii (true, true, true, true, false, true, true,
    false)), (String ((Ascii (false, false, true, true, false, false, true,
    false)), (String ((Ascii (true, false, false, false, false, true, true,
    false)), (String ((Ascii (false, true, false, false, true, true, true,
    false)), (String ((Ascii (true, true, true, false, false, true, true,
    false)), (String ((Ascii (true, false, true, false, false, true, true,
    false)), EmptyString))))))))))))))))))))))))))))))))))) :: ((OI
    l) :: ((ON m) :: [])))
| CumulativeLostTooLarge (v, m) ->
  OL ((OS (String ((Ascii (true, true, false, false, false, false, true,
    false)), (String ((Ascii (true, false, true, false, true, true, true,
    false)), (String ((Ascii (true, false, true, true, false, true, true,
    false)), (String ((Ascii (true, false, true, false, true, true, true,
    false)), (String ((Ascii (false, false, true, true, false, true, true,
    false)), (String ((Ascii (true, false, false, false, false, true, true,
    false)), (String ((Ascii (false, false, true, false, true, true, true,
    false)), (String ((Ascii (true, false, false, true, false, true, true,
    false)), (String ((Ascii (false, true, true, false, true, true, true,
    false)), (String ((Ascii (true, false, true, false, false, true, true,
    false)), (String ((Ascii (false, false, true, true, false, false, true,
    false)), (String ((Ascii (true, true, true, true, false, true, true,
    false)), (String ((Ascii (true, true, false, false, true, true, true,
    false)), (String ((Ascii (false, false, true, false, true, true, true,
    false)), (String ((Ascii (false, false, true, false, true, false, true,
    false)), (String ((Ascii (true, true, true, true, false, true, true,
    false)), (String ((Ascii (true, true, true, true, false, true, true,
    false)), (String ((Ascii (false, false, true, true, false, false, true,
    false)), (String ((Ascii (true, false, false, false, false, true, true,
    false)), (String ((Ascii (false, true, false, false, true, true, true,
    false)), (String ((Ascii (true, true, true, false, false, true, true,
    false)), (String ((Ascii (true, false, true, false, false, true, true,
    false)), EmptyString))))))))))))))))))))))))))))))))))))))))))))) :: ((ON
    v) :: ((ON m) :: [])))
| TooManyReportBlocks (c, m) ->
  OL ((OS (String ((Ascii (false, false, true, false, true, false, true,
    false)), (String ((Ascii (true, true, true, true, false, true, true,
    false)), (String ((Ascii (true, true, true, true, false, true, true,
    false)), (String ((Ascii (true, false, true, true, false, false, true,
    false)), (String ((Ascii (true, false, false, false, false, true, true,
    false)), (String ((Ascii (false, true, true, true, false, true, true,
    false)), (String ((Ascii (true, false, false, true, true, true, true,
    false)), (String ((Ascii (false, true, false, false, true, false, true,
    false)), (String ((Ascii (true, false, true, false, false, true, true,
    false)), (String ((Ascii (false, false, false, false, true, true, true,
    false)), (String ((Ascii (true, true, true, true, false, true, true,
    false)), (String ((Ascii (false, true, false, false, true, true, true,
    false)), (String ((Ascii (false, false, true, false, true, true, true,
    false)), (String ((Ascii (false, true, false, false, false, false, true,
    false)), (String ((Ascii (false, false, true, true, false, true, true,
    false)), (String ((Ascii (true, true, true, true, false, true, true,
    false)), (String ((Ascii (true, true, false, false, false, true, true,
    false)), (String ((Ascii (true, true, false, true, false, true, true,
    false)), (String ((Ascii (true, true, false, false, true, true, true,
    false)), EmptyString))))))))))))))))))))))))))))))))))))))) :: ((OI
    c) :: ((ON m) :: [])))
| TooManySdesChunks (c, m) ->
  OL ((OS (String ((Ascii (false, false, true, false, true, false, true,
    false)), (String ((Ascii (true, true, true, true, false, true, true,
    false)), (String ((Ascii (true, true, true, true, false, true, true,
    false)), (String ((Ascii (true, false, true, true, false, false, true,
    false)), (String ((Ascii (true, false, false, false, false, true, true,
    false)), (String ((Ascii (false, true, true, true, false, true, true,
    false)), (String ((Ascii (true, false, false, true, true, true, true,
    false)), (String ((Ascii (true, true, false, false, true, false, true,
    false)), (String ((Ascii (false, false, true, false, false, true, true,
    false)), (String ((Ascii (true, false, true, false, false, true, true,
    false)), (String ((Ascii (true, true, false, false, true, true, true,
    false)), (String ((Ascii (true, true, false, false, false, false, true,
    false)), (String ((Ascii (false, false, false, true, false, true, true,
    false)), (String ((Ascii (true, false, true, false, true, true, true,
    false)), (String ((Ascii (false, true, true, true, false, true, true,
    false)), (String ((Ascii (true, true, false, true, false, true, true,
    false)), (String ((Ascii (true, true, false, false, true, true, true,
    false)), EmptyString))))))))))))))))))))))))))))))))))) :: ((OI
    c) :: ((ON m) :: [])))
| SdesValueTooLarge (l, m) ->
  OL ((OS (String ((Ascii (true, true, false, false, true, false, true,
    false)), (String ((Ascii (false, false, true, false, false, true, true,
    false)), (String ((Ascii (true, false, true, false, false, true, true,
    false)), (String ((Ascii (true, true, false, false, true, true, true,
    false)), (String ((Ascii (false, true, true, false, true, false, true,
    false)), (String ((Ascii (true, false, false, false, false, true, true,
    false)), (String ((Ascii (false, false, true, true, false, true, true,
    false)), (String ((Ascii (true, false, true, false, true, true, true,
    false)), (String ((Ascii (true, false, true, false, false, true, true,
    false)), (String ((Ascii (false, false, true, false, true, false, true,
    false)), (String ((Ascii (true, true, true, true, false, true, true,
    false)), (String ((Ascii (true, true, true, true, false, true, true,
    false)), (String ((Ascii (false, false, true, true, false, false, true,
    false)), (String ((Ascii (true, false, false, false, false, true, true,
    false)), (String ((Ascii (false, true, false, false, true, true, true,
    false)), (String ((Ascii (true, true, true, false, false, true, true,
    false)), (String ((Ascii (true, false, true, false, false, true, true,
    false)), EmptyString))))))))))))))))))))))))))))))))))) :: ((OI
    l) :: ((ON m) :: [])))
| SdesPrivPrefixTooLarge (l, m) ->
  OL ((OS (String ((Ascii (true, true, false, false, true, false, true,
    false)), (String ((Ascii (false, false, true, false, false, true, true,
    false)), (String ((Ascii (true, false, true, false, false, true, true,
    false)), (String ((Ascii (true, true, false, false, true, true, true,
    false)), (String ((Ascii (false, false, false, false, true, false, true,
    false)), (String ((Ascii (false, true, false, false, true, true, true,
    false)), (String ((Ascii (true, false, false, true, false, true, true,
    false)), (String ((Ascii (false, true, true, false, true, true, true,
    false)), (String ((Ascii (false, false, false, false, true, false, true,
    false)), (String ((Ascii (false, true, false, false, true, true, true,
    false)), (String ((Ascii (true, false, true, false, false, true, true,
    false)), (String ((Ascii (false, true, true, false, false, true, true,
    false)), (String ((Ascii (true, false, false, true, false, true, true,
    false)), (String ((Ascii (false, false, false, true, true, true, true,
    false)), (String ((Ascii (false, false, true, false, true, false, true,
    false)), (String ((Ascii (true, true, true, true, false, true, true,
    false)), (String ((Ascii (true, true, true, true, false, true, true,
    false)), (String ((Ascii (false, false, true, true, false, false, true,
    false)), (String ((Ascii (true, false, false, false, false, true, true,
    false)), (String ((Ascii (false, true, false, false, true, true, true,
    false)), (String ((Ascii (true, true, true, false, false, true, true,
    false)), (String ((Ascii (true, false, true, false, false, true, true,
    false)), EmptyString))))))))))))))))))))))))))))))))))))))))))))) :: ((OI
    l) :: ((ON m) :: [])))
| CountOutOfRange (c, m) ->
  OL ((OS (String ((Ascii (true, true, false, false, false, false, true,
    false)), (String ((Ascii (true, true, true, true, false, true, true,
    false)), (String ((Ascii (true, false, true, false, true, true, true,
    false)), (String ((Ascii (false, true, true, true, false, true, true,
    false)), (String ((Ascii (false, false, true, false, true, true, true,
    false)), (String ((Ascii (true, true, true, true, false, false, true,
    false)), (String ((Ascii (true, false, true, false, true, true, true,
    false)), (String ((Ascii (false, false, true, false, true, true, true,
    false)), (String ((Ascii (true, true, true, true, false, false, true,
    false)), (String ((Ascii (false, true, true, false, false, true, true,
    false)), (String ((Ascii (false, true, false, false, true, false, true,
    false)), (String ((Ascii (true, false, false, false, false, true, true,
    false)), (String ((Ascii (false, true, true, true, false, true, true,
    false)), (String ((Ascii (true, true, true, false, false, true, true,
    false)), (String ((Ascii (true, false, true, false, false, true, true,
    false)), EmptyString))))))))))))))))))))))))))))))) :: ((ON c) :: ((ON
    m) :: [])))
| NonLastCompoundPacketPadding ->
  OL ((OS (String ((Ascii (false, true, true, true, false, false, true,
    false)), (String ((Ascii (true, true, true, true, false, true, true,
    false)), (String ((Ascii (false, true, true, true, false, true, true,
    false)), (String ((Ascii (false, false, true, true, false, false, true,
    false)), (String ((Ascii (true, false, false, false, false, true, true,
    false)), (String ((Ascii (true, true, false, false, true, true, true,
    false)), (String ((Ascii (false, false, true, false, true, true, true,
    false)), (String ((Ascii (true, true, false, false, false, false, true,
    false)), (String ((Ascii (true, true, true, true, false, true, true,
    false)), (String ((Ascii (true, false, true, true, false, true, true,
    false)), (String ((Ascii (false, false, false, false, true, true, true,
    false)), (String ((Ascii (true, true, true, true, false, true, true,
    false)), (String ((Ascii (true, false, true, false, true, true, true,
    false)), (String ((Ascii (false, true, true, true, false, true, true,
    false)), (String ((Ascii (false, false, true, false, false, true, true,
    false)), (String ((Ascii (false, false, false, false, true, false, true,
    false)), (String ((Ascii (true, false, false, false, false, true, true,
    false)), (String ((Ascii (true, true, false, false, false, true, true,
    false)), (String ((Ascii (true, true, false, true, false, true, true,
    false)), (String ((Ascii (true, false, true, false, false, true, true,
    false)), (String ((Ascii (false, false, true, false, true, true, true,
    false)), (String ((Ascii (false, false, false, false, true, false, true,
    false)), (String ((Ascii (true, false, false, false, false, true, true,
    false)), (String ((Ascii (false, false, true, false, false, true, true,
    false)), (String ((Ascii (false, false, true, false, false, true, true,
    false)), (String ((Ascii (true, false, false, true, false, true, true,
    false)), (String ((Ascii (false, true, true, true, false, true, true,
    false)), (String ((Ascii (true, true, true, false, false, true, true,
    false)),
    EmptyString))))))))))))))))))))))))))))))))))))))))))))))))))))))))) :: [])
| MissingFci ->
  OL ((OS (String ((Ascii (true, false, true, true, false, false, true,
    false)), (String ((Ascii (true, false, false, true, false, true, true,
    false)), (String ((Ascii (true, true, false, false, true, true, true,
    false)), (String ((Ascii (true, true, false, false, true, true, true,
    false)), (String ((Ascii (true, false, false, true, false, true, true,
    false)), (String ((Ascii (false, true, true, true, false, true, true,
    false)), (String ((Ascii (true, true, true, false, false, true, true,
    false)), (String ((Ascii (false, true, true, false, false, false, true,
    false)), (String ((Ascii (true, true, false, false, false, true, true,
    false)), (String ((Ascii (true, false, false, true, false, true, true,
    false)), EmptyString))))))))))))))))))))) :: [])
| TooManyNack ->
  OL ((OS (String ((Ascii (false, false, true, false, true, false, true,
    false)), (String ((Ascii (true, true, true, true, false, true, true,
    false)), (String ((Ascii (true, true, true, true, false, true, true,
    false)), (String ((Ascii (true, false, true, true, false, false, true,
    false)), (String ((Ascii (true, false, false, false, false, true, true,
    false)), (String ((Ascii (false, true, true, true, false, true, true,
    false)), (String ((Ascii (true, false, false, true, true, true, true,
    false)), (String ((Ascii (false, true, true, true, false, false, true,
    false)), (String ((Ascii (true, false, false, false, false, true, true,
    false)), (String ((Ascii (true, true, false, false, false, true, true,
    false)), (String ((Ascii (true, true, false, true, false, true, true,
    false)), EmptyString))))))))))))))))))))))) :: [])
| FciWrongFeedbackPacketType ->
  OL ((OS (String ((Ascii (false, true, true, false, false, false, true,
    false)), (String ((Ascii (true, true, false, false, false, true, true,
    false)), (String ((Ascii (true, false, false, true, false, true, true,
    false)), (String ((Ascii (true, true, true, false, true, false, true,
    false)), (String ((Ascii (false, true, false, false, true, true, true,
    false)), (String ((Ascii (true, true, true, true, false, true, true,
    false)), (String ((Ascii (false, true, true, true, false, true, true,
    false)), (String ((Ascii (true, true, true, false, false, true, true,
    false)), (String ((Ascii (false, true, true, false, false, false, true,
    false)), (String ((Ascii (true, false, true, false, false, true, true,
    false)), (String ((Ascii (true, false, true, false, false, true, true,
    false)), (String ((Ascii (false, false, true, false, false, true, true,
    false)), (String ((Ascii (false, true, false, false, false, true, true,
    false)), (String ((Ascii (true, false, false, false, false, true, true,
    false)), (String ((Ascii (true, true, false, false, false, true, true,
    false)), (String ((Ascii (true, true, false, true, false, true, true,
    false)), (String ((Ascii (false, false, false, false, true, false, true,
    false)), (String ((Ascii (true, false, false, false, false, true, true,
    false)), (String ((Ascii (true, true, false, false, false, true, true,
    false)), (String ((Ascii (true, true, false, true, false, true, true,
    false)), (String ((Ascii (true, false, true, false, false, true, true,
    false)), (String ((Ascii (false, false, true, false, true, true, true,
    false)), (String ((Ascii (false, false, true, false, true, false, true,
    false)), (String ((Ascii (true, false, false, true, true, true, true,
    false)), (String ((Ascii (false, false, false, false, true, true, true,
    false)), (String ((Ascii (true, false, true, false, false, true, true,
    false)),
    EmptyString))))))))))))))))))))))))))))))))))))))))))))))))))))) :: [])
| PayloadTypeInvalid ->
  OL ((OS (String ((Ascii (false, false, false, false, true, false, true,
    false)), (String ((Ascii (true, false, false, false, false, true, true,
    false)), (String ((Ascii (true, false, false, true, true, true, true,
    false)), (String ((Ascii (false, false, true, true, false, true, true,
    false)), (String ((Ascii (true, true, true, true, false, true, true,
    false)), (String ((Ascii (true, false, false, false, false, true, true,
    false)), (String ((Ascii (false, false, true, false, false, true, true,
    false)), (String ((Ascii (false, false, true, false, true, false, true,
    false)), (String ((Ascii (true, false, false, true, true, true, true,
    false)), (String ((Ascii (false, false, false, false, true, true, true,
    false)), (String ((Ascii (true, false, true, false, false, true, true,
    false)), (String ((Ascii (true, false, false, true, false, false, true,
    false)), (String ((Ascii (false, true, true, true, false, true, true,
    false)), (String ((Ascii (false, true, true, false, true, true, true,
    false)), (String ((Ascii (true, false, false, false, false, true, true,
    false)), (String ((Ascii (false, false, true, true, false, true, true,
    false)), (String ((Ascii (true, false, false, true, false, true, true,
    false)), (String ((Ascii (false, false, true, false, false, true, true,
    false)), EmptyString))))))))))))))))))))))))))))))))))))) :: [])
| PaddingBitsTooLarge ->
  OL ((OS (String ((Ascii (false, false, false, false, true, false, true,
    false)), (String ((Ascii (true, false, false, false, false, true, true,
    false)), (String ((Ascii (false, false, true, false, false, true, true,
    false)), (String ((Ascii (false, false, true, false, false, true, true,
    false)), (String ((Ascii (true, false, false, true, false, true, true,
    false)), (String ((Ascii (false, true, true, true, false, true, true,
    false)), (String ((Ascii (true, true, true, false, false, true, true,
    false)), (String ((Ascii (false, true, false, false, false, false, true,
    false)), (String ((Ascii (true, false, false, true, false, true, true,
    false)), (String ((Ascii (false, false, true, false, true, true, true,
    false)), (String ((Ascii (true, true, false, false, true, true, true,
    false)), (String ((Ascii (false, false, true, false, true, false, true,
    false)), (String ((Ascii (true, true, true, true, false, true, true,
    false)), (String ((Ascii (true, true, true, true, false, true, true,
    false)), (String ((Ascii (false, false, true, true, false, false, true,
    false)), (String ((Ascii (true, false, false, false, false, true, true,
    false)), (String ((Ascii (false, true, false, false, true, true, true,
    false)), (String ((Ascii (true, true, true, false, false, true, true,
    false)), (String ((Ascii (true, false, true, false, false, true, true,
    false)), EmptyString))))))))))))))))))))))))))))))))))))))) :: [])
| TooManyFir ->
  OL ((OS (String ((Ascii (false, false, true, false, true, false, true,
    false)), (String ((Ascii (true, true, true, true, false, true, true,
    false)), (String ((Ascii (true, true, true, true, false, true, true,
    false)), (String ((Ascii (true, false, true, true, false, false, true,
    false)), (String ((Ascii (true, false, false, false, false, true, true,
    false)), (String ((Ascii (false, true, true, true, false, true, true,
    false)), (String ((Ascii (true, false, false, true, true, true, true,
    false)), (String ((Ascii (false, true, true, false, false, false, true,
    false)), (String ((Ascii (true, false, false, true, false, true, true,
    false)), (String ((Ascii (false, true, false, false, true, true, true,
    false)), EmptyString))))))))))))))))))))) :: [])

(** val obs_res : ('a1 -> obs) -> ('a2 -> obs) -> ('a1, 'a2) res -> obs **)

let obs_res fe fa = function
| Ok a ->
  OL ((OS (String ((Ascii (true, true, true, true, false, true, true,
    false)), (String ((Ascii (true, true, false, true, false, true, true,
    false)), EmptyString))))) :: ((fa a) :: []))
| Err e ->
  OL ((OS (String ((Ascii (true, false, true, false, false, true, true,
    false)), (String ((Ascii (false, true, false, false, true, true, true,
    false)), (String ((Ascii (false, true, false, false, true, true, true,
    false)), EmptyString))))))) :: ((fe e) :: []))
| Panic ->
  OS (String ((Ascii (false, false, false, false, true, false, true, false)),
    (String ((Ascii (true, false, false, false, false, false, true, false)),
    (String ((Ascii (false, true, true, true, false, false, true, false)),
    (String ((Ascii (true, false, false, true, false, false, true, false)),
    (String ((Ascii (true, true, false, false, false, false, true, false)),
    EmptyString))))))))))
| Fuel ->
  OS (String ((Ascii (false, true, true, false, false, false, true, false)),
    (String ((Ascii (true, false, true, false, true, false, true, false)),
    (String ((Ascii (true, false, true, false, false, false, true, false)),
    (String ((Ascii (false, false, true, true, false, false, true, false)),
    EmptyString))))))))

(** val obs_pres : ('a1 -> obs) -> (perr, 'a1) res -> obs **)

let obs_pres fa =
  obs_res obs_perr fa

(** val obs_wres : ('a1 -> obs) -> (werr, 'a1) res -> obs **)

let obs_wres fa =
  obs_res obs_werr fa

(** val obs_range : nat -> nat -> obs **)

let obs_range off len =
  OL ((OS (String ((Ascii (false, false, false, false, false, false, true,
    false)), EmptyString))) :: ((OI off) :: ((OI len) :: [])))

(** val parse_version : bytes -> n pres **)

let parse_version p =
  bind (idx p O) (fun b -> Ok
    (N.div b (Npos (XO (XO (XO (XO (XO (XO XH)))))))))

(** val parse_padding_bit : bytes -> bool pres **)

let parse_padding_bit p =
  bind (idx p O) (fun b -> Ok
    (negb
      (N.eqb
        (N.modulo (N.div b (Npos (XO (XO (XO (XO (XO XH))))))) (Npos (XO XH)))
        N0)))

(** val parse_count : bytes -> n pres **)

let parse_count p =
  bind (idx p O) (fun b -> Ok (N.modulo b (Npos (XO (XO (XO (XO (XO XH))))))))

(** val parse_packet_type : bytes -> n pres **)

let parse_packet_type p =
  idx p (S O)

(** val parse_length : bytes -> nat pres **)

let parse_length p =
  bind (slice p (S (S O)) (S (S (S (S O))))) (fun s ->
    bind (be_dec_exact (S (S O)) s) (fun v -> Ok
      (mul (S (S (S (S O)))) (add (N.to_nat v) (S O)))))

(** val parse_padding : bytes -> n option pres **)

let parse_padding p =
  bind (parse_padding_bit p) (fun pb ->
    if pb
    then bind (parse_length p) (fun len ->
           bind (idx p (sub len (S O))) (fun b -> Ok (Some b)))
    else Ok None)

(** val parse_ssrc : bytes -> n pres **)

let parse_ssrc p =
  bind (slice p (S (S (S (S O)))) (S (S (S (S (S (S (S (S O)))))))))
    (fun s -> be_dec_exact (S (S (S (S O)))) s)

(** val vERSION : n **)

let vERSION =
  Npos (XO XH)

(** val check_packet : nat -> n -> bytes -> unit pres **)

let check_packet min pt p =
  if Nat.ltb (length p) min
  then Err (Truncated (min, (length p)))
  else bind (parse_version p) (fun version ->
         if negb (N.eqb version vERSION)
         then Err (UnsupportedVersion version)
         else bind (parse_packet_type p) (fun ty ->
                if negb (N.eqb ty pt)
                then Err (PacketTypeMismatch (ty, pt))
                else bind (parse_length p) (fun len ->
                       if Nat.ltb (length p) len
                       then Err (Truncated (len, (length p)))
                       else if Nat.ltb len (length p)
                            then Err (TooLarge (len, (length p)))
                            else bind (parse_padding p) (fun pad ->
                                   match pad with
                                   | Some pd ->
                                     if N.eqb pd N0
                                     then Err InvalidPaddingP
                                     else if Nat.ltb (length p)
                                               (add min (N.to_nat pd))
                                          then Err (Truncated
                                                 ((add min (N.to_nat pd)),
                                                 (length p)))
                                          else Ok ()
                                   | None -> Ok ()))))

(** val header_data : bytes -> bytes pres **)

let header_data p =
  slice p O (S (S (S (S O))))

(** val check_padding : n -> unit wres **)

let check_padding padding =
  if negb (N.eqb (N.modulo padding (Npos (XO (XO XH)))) N0)
  then Err (InvalidPadding padding)
  else Ok ()

(** val write_header_unchecked :
    n -> n -> n -> bytes -> (nat * bytes) wres **)

let write_header_unchecked pt padding count buf =
  bind (Ok
    (if N.ltb N0 padding
     then Npos (XO (XO (XO (XO (XO (XI (XO XH)))))))
     else Npos (XO (XO (XO (XO (XO (XO (XO XH))))))))) (fun b0 ->
    bind (set_at buf O (N.coq_lor b0 count)) (fun buf0 ->
      bind (set_at buf0 (S O) pt) (fun buf1 ->
        bind (usub (Nat.div (length buf1) (S (S (S (S O))))) (S O))
          (fun words0 ->
          bind
            (copy_into buf1 (S (S O)) (S (S (S (S O))))
              (be16
                (N.modulo (N.of_nat words0) (Npos (XO (XO (XO (XO (XO (XO (XO
                  (XO (XO (XO (XO (XO (XO (XO (XO (XO XH))))))))))))))))))))
            (fun buf2 -> Ok ((S (S (S (S O)))), buf2))))))

(** val write_padding_unchecked : n -> bytes -> (nat * bytes) wres **)

let write_padding_unchecked padding buf =
  if N.ltb N0 padding
  then let e = N.to_nat padding in
       bind (fill_range buf O (sub e (S O)) N0) (fun buf0 ->
         bind (set_at buf0 (sub e (S O)) padding) (fun buf1 -> Ok (e, buf1)))
  else Ok (O, buf)

(** val get_padding_of : n -> n option **)

let get_padding_of padding =
  if N.eqb padding N0 then None else Some padding

(** val write_into_gen :
    nat wres -> (bytes -> (nat * bytes) wres) -> bytes -> nat wres * bytes **)

let write_into_gen calc wu buf =
  match calc with
  | Ok n0 ->
    if Nat.ltb (length buf) n0
    then ((Err (OutputTooSmall n0)), buf)
    else (match with_sub buf O n0 wu with
          | Ok a -> let (w, buf') = a in ((Ok w), buf')
          | Err e -> ((Err e), buf)
          | Panic -> (Panic, buf)
          | Fuel -> (Fuel, buf))
  | x -> (x, buf)

(** val rB_SIZE : nat **)

let rB_SIZE =
  S (S (S (S (S (S (S (S (S (S (S (S (S (S (S (S (S (S (S (S (S (S (S (S
    O)))))))))))))))))))))))

(** val rb_parse : bytes -> bytes pres **)

let rb_parse d =
  if Nat.ltb (length d) rB_SIZE
  then Err (Truncated (rB_SIZE, (length d)))
  else if Nat.ltb rB_SIZE (length d)
       then Err (TooLarge (rB_SIZE, (length d)))
       else Ok d

(** val rb_ssrc : bytes -> n pres **)

let rb_ssrc d =
  bind (slice d O (S (S (S (S O))))) (fun s ->
    be_dec_exact (S (S (S (S O)))) s)

(** val rb_fraction_lost : bytes -> n pres **)

let rb_fraction_lost d =
  idx d (S (S (S (S O))))

(** val rb_cumulative_lost : bytes -> n pres **)

let rb_cumulative_lost d =
  bind (slice d (S (S (S (S O)))) (S (S (S (S (S (S (S (S O)))))))))
    (fun s ->
    bind (be_dec_exact (S (S (S (S O)))) s) (fun v -> Ok
      (N.modulo v (Npos (XO (XO (XO (XO (XO (XO (XO (XO (XO (XO (XO (XO (XO
        (XO (XO (XO (XO (XO (XO (XO (XO (XO (XO (XO
        XH))))))))))))))))))))))))))))

(** val rb_ext_seq : bytes -> n pres **)

let rb_ext_seq d =
  bind
    (slice d (S (S (S (S (S (S (S (S O)))))))) (S (S (S (S (S (S (S (S (S (S
      (S (S O))))))))))))) (fun s -> be_dec_exact (S (S (S (S O)))) s)

(** val rb_jitter : bytes -> n pres **)

let rb_jitter d =
  bind
    (slice d (S (S (S (S (S (S (S (S (S (S (S (S O)))))))))))) (S (S (S (S (S
      (S (S (S (S (S (S (S (S (S (S (S O))))))))))))))))) (fun s ->
    be_dec_exact (S (S (S (S O)))) s)

(** val rb_lsr : bytes -> n pres **)

let rb_lsr d =
  bind
    (slice d (S (S (S (S (S (S (S (S (S (S (S (S (S (S (S (S
      O)))))))))))))))) (S (S (S (S (S (S (S (S (S (S (S (S (S (S (S (S (S (S
      (S (S O))))))))))))))))))))) (fun s -> be_dec_exact (S (S (S (S O)))) s)

(** val rb_dlsr : bytes -> n pres **)

let rb_dlsr d =
  bind
    (slice d (S (S (S (S (S (S (S (S (S (S (S (S (S (S (S (S (S (S (S (S
      O)))))))))))))))))))) (S (S (S (S (S (S (S (S (S (S (S (S (S (S (S (S
      (S (S (S (S (S (S (S (S O))))))))))))))))))))))))) (fun s ->
    be_dec_exact (S (S (S (S O)))) s)

(** val obs_rb_view : bytes -> obs **)

let obs_rb_view d =
  OL
    ((obs_pres (fun x -> ON x) (rb_ssrc d)) :: ((obs_pres (fun x -> ON x)
                                                  (rb_fraction_lost d)) :: (
    (obs_pres (fun x -> ON x) (rb_cumulative_lost d)) :: ((obs_pres (fun x ->
                                                            ON x)
                                                            (rb_ext_seq d)) :: (
    (obs_pres (fun x -> ON x) (rb_jitter d)) :: ((obs_pres (fun x -> ON x)
                                                   (rb_lsr d)) :: ((obs_pres
                                                                    (fun x ->
                                                                    ON x)
                                                                    (rb_dlsr
                                                                    d)) :: [])))))))

type rb_cfg = { rb_c_ssrc : n; rb_c_fraction : n; rb_c_cumulative : n;
                rb_c_ext_seq : n; rb_c_jitter : n; rb_c_lsr : n; rb_c_dlsr : 
                n }

(** val rb_calc : rb_cfg -> nat wres **)

let rb_calc c =
  if negb
       (N.eqb
         (N.div c.rb_c_cumulative (Npos (XO (XO (XO (XO (XO (XO (XO (XO (XO
           (XO (XO (XO (XO (XO (XO (XO (XO (XO (XO (XO (XO (XO (XO (XO
           XH)))))))))))))))))))))))))) N0)
  then Err (CumulativeLostTooLarge (c.rb_c_cumulative, (Npos (XI (XI (XI (XI
         (XI (XI (XI (XI (XI (XI (XI (XI (XI (XI (XI (XI (XI (XI (XI (XI (XI
         (XI (XI XH))))))))))))))))))))))))))
  else Ok rB_SIZE

(** val rb_write_unchecked : rb_cfg -> bytes -> (nat * bytes) wres **)

let rb_write_unchecked c buf =
  bind (copy_into buf O (S (S (S (S O)))) (be32 c.rb_c_ssrc)) (fun buf0 ->
    bind
      (copy_into buf0 (S (S (S (S O)))) (S (S (S (S (S (S (S (S O))))))))
        (be32 c.rb_c_cumulative)) (fun buf1 ->
      bind (set_at buf1 (S (S (S (S O)))) c.rb_c_fraction) (fun buf2 ->
        bind
          (copy_into buf2 (S (S (S (S (S (S (S (S O)))))))) (S (S (S (S (S (S
            (S (S (S (S (S (S O)))))))))))) (be32 c.rb_c_ext_seq))
          (fun buf3 ->
          bind
            (copy_into buf3 (S (S (S (S (S (S (S (S (S (S (S (S O))))))))))))
              (S (S (S (S (S (S (S (S (S (S (S (S (S (S (S (S
              O)))))))))))))))) (be32 c.rb_c_jitter)) (fun buf4 ->
            bind
              (copy_into buf4 (S (S (S (S (S (S (S (S (S (S (S (S (S (S (S (S
                O)))))))))))))))) (S (S (S (S (S (S (S (S (S (S (S (S (S (S
                (S (S (S (S (S (S O)))))))))))))))))))) (be32 c.rb_c_lsr))
              (fun buf5 ->
              bind
                (copy_into buf5 (S (S (S (S (S (S (S (S (S (S (S (S (S (S (S
                  (S (S (S (S (S O)))))))))))))))))))) (length buf5)
                  (be32 c.rb_c_dlsr)) (fun buf6 -> Ok (rB_SIZE, buf6))))))))

(** val rbs_calc : rb_cfg list -> nat wres **)

let rec rbs_calc = function
| [] -> Ok O
| b :: bs' ->
  bind (rb_calc b) (fun n0 -> bind (rbs_calc bs') (fun m -> Ok (add n0 m)))

(** val rbs_write : rb_cfg list -> nat -> bytes -> (nat * bytes) wres **)

let rec rbs_write bs i buf =
  match bs with
  | [] -> Ok (i, buf)
  | b :: bs' ->
    bind (with_sub buf i (add i rB_SIZE) (rb_write_unchecked b)) (fun pat ->
      let (_, buf0) = pat in rbs_write bs' (add i rB_SIZE) buf0)

(** val chunks_exact : nat -> nat -> bytes -> bytes list **)

let rec chunks_exact k fuel d =
  match fuel with
  | O -> []
  | S f ->
    if Nat.ltb (length d) k
    then []
    else (firstn k d) :: (chunks_exact k f (skipn k d))

(** val report_blocks : nat -> bytes -> bytes list pres **)

let report_blocks min d =
  bind (parse_count d) (fun n0 ->
    bind
      (slice d min
        (add min
          (mul (N.to_nat n0) (S (S (S (S (S (S (S (S (S (S (S (S (S (S (S (S
            (S (S (S (S (S (S (S (S O))))))))))))))))))))))))))) (fun s -> Ok
      (chunks_exact (S (S (S (S (S (S (S (S (S (S (S (S (S (S (S (S (S (S (S
        (S (S (S (S (S O)))))))))))))))))))))))) (length s) s)))

(** val sR_MIN : nat **)

let sR_MIN =
  S (S (S (S (S (S (S (S (S (S (S (S (S (S (S (S (S (S (S (S (S (S (S (S (S
    (S (S (S O)))))))))))))))))))))))))))

(** val sR_PT : n **)

let sR_PT =
  Npos (XO (XO (XO (XI (XO (XO (XI XH)))))))

(** val sr_parse : bytes -> bytes pres **)

let sr_parse d =
  bind (check_packet sR_MIN sR_PT d) (fun _ ->
    bind (parse_count d) (fun n0 ->
      let req = add sR_MIN (mul (N.to_nat n0) rB_SIZE) in
      if Nat.ltb (length d) req
      then Err (Truncated (req, (length d)))
      else Ok d))

(** val sr_ntp : bytes -> n pres **)

let sr_ntp d =
  bind
    (slice d (S (S (S (S (S (S (S (S O)))))))) (S (S (S (S (S (S (S (S (S (S
      (S (S (S (S (S (S O))))))))))))))))) (fun s ->
    be_dec_exact (S (S (S (S (S (S (S (S O)))))))) s)

(** val sr_rtp : bytes -> n pres **)

let sr_rtp d =
  bind
    (slice d (S (S (S (S (S (S (S (S (S (S (S (S (S (S (S (S
      O)))))))))))))))) (S (S (S (S (S (S (S (S (S (S (S (S (S (S (S (S (S (S
      (S (S O))))))))))))))))))))) (fun s -> be_dec_exact (S (S (S (S O)))) s)

(** val sr_packet_count : bytes -> n pres **)

let sr_packet_count d =
  bind
    (slice d (S (S (S (S (S (S (S (S (S (S (S (S (S (S (S (S (S (S (S (S
      O)))))))))))))))))))) (S (S (S (S (S (S (S (S (S (S (S (S (S (S (S (S
      (S (S (S (S (S (S (S (S O))))))))))))))))))))))))) (fun s ->
    be_dec_exact (S (S (S (S O)))) s)

(** val sr_octet_count : bytes -> n pres **)

let sr_octet_count d =
  bind
    (slice d (S (S (S (S (S (S (S (S (S (S (S (S (S (S (S (S (S (S (S (S (S
      (S (S (S O)))))))))))))))))))))))) (S (S (S (S (S (S (S (S (S (S (S (S
      (S (S (S (S (S (S (S (S (S (S (S (S (S (S (S (S
      O))))))))))))))))))))))))))))) (fun s ->
    be_dec_exact (S (S (S (S O)))) s)

type sr_cfg = { sr_c_ssrc : n; sr_c_padding : n; sr_c_ntp : n; sr_c_rtp : 
                n; sr_c_pc : n; sr_c_oc : n; sr_c_blocks : rb_cfg list }

(** val sr_calc : sr_cfg -> nat wres **)

let sr_calc c =
  if Nat.ltb (S (S (S (S (S (S (S (S (S (S (S (S (S (S (S (S (S (S (S (S (S
       (S (S (S (S (S (S (S (S (S (S O)))))))))))))))))))))))))))))))
       (length c.sr_c_blocks)
  then Err (TooManyReportBlocks ((length c.sr_c_blocks), (Npos (XI (XI (XI
         (XI XH)))))))
  else bind (check_padding c.sr_c_padding) (fun _ ->
         bind (rbs_calc c.sr_c_blocks) (fun rbs -> Ok
           (add (add sR_MIN rbs) (N.to_nat c.sr_c_padding))))

(** val sr_write_unchecked : sr_cfg -> bytes -> (nat * bytes) wres **)

let sr_write_unchecked c buf =
  bind
    (write_header_unchecked sR_PT c.sr_c_padding
      (N.modulo (N.of_nat (length c.sr_c_blocks)) (Npos (XO (XO (XO (XO (XO
        (XO (XO (XO XH)))))))))) buf) (fun pat ->
    let (_, buf0) = pat in
    bind
      (copy_into buf0 (S (S (S (S O)))) (S (S (S (S (S (S (S (S O))))))))
        (be32 c.sr_c_ssrc)) (fun buf1 ->
      bind
        (copy_into buf1 (S (S (S (S (S (S (S (S O)))))))) (S (S (S (S (S (S
          (S (S (S (S (S (S (S (S (S (S O)))))))))))))))) (be64 c.sr_c_ntp))
        (fun buf2 ->
        bind
          (copy_into buf2 (S (S (S (S (S (S (S (S (S (S (S (S (S (S (S (S
            O)))))))))))))))) (S (S (S (S (S (S (S (S (S (S (S (S (S (S (S (S
            (S (S (S (S O)))))))))))))))))))) (be32 c.sr_c_rtp)) (fun buf3 ->
          bind
            (copy_into buf3 (S (S (S (S (S (S (S (S (S (S (S (S (S (S (S (S
              (S (S (S (S O)))))))))))))))))))) (S (S (S (S (S (S (S (S (S (S
              (S (S (S (S (S (S (S (S (S (S (S (S (S (S
              O)))))))))))))))))))))))) (be32 c.sr_c_pc)) (fun buf4 ->
            bind
              (copy_into buf4 (S (S (S (S (S (S (S (S (S (S (S (S (S (S (S (S
                (S (S (S (S (S (S (S (S O)))))))))))))))))))))))) (S (S (S (S
                (S (S (S (S (S (S (S (S (S (S (S (S (S (S (S (S (S (S (S (S
                (S (S (S (S O)))))))))))))))))))))))))))) (be32 c.sr_c_oc))
              (fun buf5 ->
              bind
                (rbs_write c.sr_c_blocks (S (S (S (S (S (S (S (S (S (S (S (S
                  (S (S (S (S (S (S (S (S (S (S (S (S (S (S (S (S
                  O)))))))))))))))))))))))))))) buf5) (fun pat0 ->
                let (i, buf6) = pat0 in
                bind
                  (with_tail buf6 i (write_padding_unchecked c.sr_c_padding))
                  (fun pat1 -> let (p, buf7) = pat1 in Ok ((add i p), buf7)))))))))

(** val rR_MIN : nat **)

let rR_MIN =
  S (S (S (S (S (S (S (S O)))))))

(** val rR_PT : n **)

let rR_PT =
  Npos (XI (XO (XO (XI (XO (XO (XI XH)))))))

(** val rr_parse : bytes -> bytes pres **)

let rr_parse d =
  bind (check_packet rR_MIN rR_PT d) (fun _ ->
    bind (parse_count d) (fun n0 ->
      let req = add rR_MIN (mul (N.to_nat n0) rB_SIZE) in
      if Nat.ltb (length d) req
      then Err (Truncated (req, (length d)))
      else Ok d))

type rr_cfg = { rr_c_ssrc : n; rr_c_padding : n; rr_c_blocks : rb_cfg list }

(** val rr_calc : rr_cfg -> nat wres **)

let rr_calc c =
  if Nat.ltb (S (S (S (S (S (S (S (S (S (S (S (S (S (S (S (S (S (S (S (S (S
       (S (S (S (S (S (S (S (S (S (S O)))))))))))))))))))))))))))))))
       (length c.rr_c_blocks)
  then Err (TooManyReportBlocks ((length c.rr_c_blocks), (Npos (XI (XI (XI
         (XI XH)))))))
  else bind (check_padding c.rr_c_padding) (fun _ ->
         bind (rbs_calc c.rr_c_blocks) (fun rbs -> Ok
           (add (add rR_MIN rbs) (N.to_nat c.rr_c_padding))))

(** val rr_write_unchecked : rr_cfg -> bytes -> (nat * bytes) wres **)

let rr_write_unchecked c buf =
  bind
    (write_header_unchecked rR_PT c.rr_c_padding
      (N.modulo (N.of_nat (length c.rr_c_blocks)) (Npos (XO (XO (XO (XO (XO
        (XO (XO (XO XH)))))))))) buf) (fun pat ->
    let (_, buf0) = pat in
    bind
      (copy_into buf0 (S (S (S (S O)))) (S (S (S (S (S (S (S (S O))))))))
        (be32 c.rr_c_ssrc)) (fun buf1 ->
      bind (rbs_write c.rr_c_blocks (S (S (S (S (S (S (S (S O)))))))) buf1)
        (fun pat0 ->
        let (i, buf2) = pat0 in
        bind (with_tail buf2 i (write_padding_unchecked c.rr_c_padding))
          (fun pat1 -> let (p, buf3) = pat1 in Ok ((add i p), buf3)))))

(** val aPP_MIN : nat **)

let aPP_MIN =
  S (S (S (S (S (S (S (S (S (S (S (S O)))))))))))

(** val aPP_PT : n **)

let aPP_PT =
  Npos (XO (XO (XI (XI (XO (XO (XI XH)))))))

(** val app_parse : bytes -> bytes pres **)

let app_parse d =
  bind (check_packet aPP_MIN aPP_PT d) (fun _ -> Ok d)

(** val app_name : bytes -> bytes pres **)

let app_name d =
  slice d (S (S (S (S (S (S (S (S O)))))))) (S (S (S (S (S (S (S (S (S (S (S
    (S O))))))))))))

(** val app_data : bytes -> (nat * nat) pres **)

let app_data d =
  bind (parse_padding d) (fun pad ->
    bind
      (usub (length d) (N.to_nat (match pad with
                                  | Some p -> p
                                  | None -> N0))) (fun e ->
      bind (slice d (S (S (S (S (S (S (S (S (S (S (S (S O)))))))))))) e)
        (fun s -> Ok ((S (S (S (S (S (S (S (S (S (S (S (S O)))))))))))),
        (length s)))))

type app_cfg = { app_c_ssrc : n; app_c_padding : n; app_c_subtype : n;
                 app_c_name : bytes; app_c_data : bytes }

(** val is_ascii : bytes -> bool **)

let is_ascii l =
  forallb (fun b -> N.ltb b (Npos (XO (XO (XO (XO (XO (XO (XO XH))))))))) l

(** val app_calc : app_cfg -> nat wres **)

let app_calc c =
  if N.ltb (Npos (XI (XI (XI (XI XH))))) c.app_c_subtype
  then Err (AppSubtypeOutOfRange (c.app_c_subtype, (Npos (XI (XI (XI (XI
         XH)))))))
  else if (||) (Nat.ltb (S (S (S (S O)))) (length c.app_c_name))
            (negb (is_ascii c.app_c_name))
       then Err InvalidName
       else if negb
                 (Nat.eqb
                   (Nat.modulo (length c.app_c_data) (S (S (S (S O))))) O)
            then Err (DataLen32bitMultiple (length c.app_c_data))
            else bind (check_padding c.app_c_padding) (fun _ -> Ok
                   (add (add aPP_MIN (N.to_nat c.app_c_padding))
                     (length c.app_c_data)))

(** val app_write_unchecked : app_cfg -> bytes -> (nat * bytes) wres **)

let app_write_unchecked c buf =
  bind (write_header_unchecked aPP_PT c.app_c_padding c.app_c_subtype buf)
    (fun pat ->
    let (_, buf0) = pat in
    bind
      (copy_into buf0 (S (S (S (S O)))) (S (S (S (S (S (S (S (S O))))))))
        (be32 c.app_c_ssrc)) (fun buf1 ->
      let e = add (S (S (S (S (S (S (S (S O)))))))) (length c.app_c_name) in
      bind (copy_into buf1 (S (S (S (S (S (S (S (S O)))))))) e c.app_c_name)
        (fun buf2 ->
        bind
          (fill_if buf2 e (S (S (S (S (S (S (S (S (S (S (S (S O))))))))))))
            N0) (fun buf3 ->
          let e0 =
            add (S (S (S (S (S (S (S (S (S (S (S (S O))))))))))))
              (length c.app_c_data)
          in
          bind
            (copy_into buf3 (S (S (S (S (S (S (S (S (S (S (S (S O))))))))))))
              e0 c.app_c_data) (fun buf4 ->
            bind
              (with_tail buf4 e0 (write_padding_unchecked c.app_c_padding))
              (fun pat0 -> let (p, buf5) = pat0 in Ok ((add e0 p), buf5)))))))

(** val bYE_MIN : nat **)

let bYE_MIN =
  S (S (S (S O)))

(** val bYE_PT : n **)

let bYE_PT =
  Npos (XI (XI (XO (XI (XO (XO (XI XH)))))))

(** val bye_parse : bytes -> bytes pres **)

let bye_parse d =
  bind (check_packet bYE_MIN bYE_PT d) (fun _ ->
    bind (parse_count d) (fun n0 ->
      let off = add bYE_MIN (mul (S (S (S (S O)))) (N.to_nat n0)) in
      if Nat.ltb (length d) off
      then Err (Truncated (off, (length d)))
      else if Nat.ltb off (length d)
           then bind (idx d off) (fun rl ->
                  if Nat.ltb (length d) (add (add off (S O)) (N.to_nat rl))
                  then Err (Truncated ((add (add off (S O)) (N.to_nat rl)),
                         (length d)))
                  else Ok d)
           else Ok d))

(** val bye_ssrcs : bytes -> n list pres **)

let bye_ssrcs d =
  bind (parse_count d) (fun n0 ->
    bind
      (slice d (S (S (S (S O))))
        (add (S (S (S (S O)))) (mul (N.to_nat n0) (S (S (S (S O)))))))
      (fun s -> Ok (map be_dec (chunks_exact (S (S (S (S O)))) (length s) s))))

(** val bye_reason : bytes -> (nat * nat) option pres **)

let bye_reason d =
  bind (parse_count d) (fun n0 ->
    bind (header_data d) (fun h ->
      bind (parse_length h) (fun len ->
        bind (parse_padding d) (fun pad ->
          let off =
            add (mul (N.to_nat n0) (S (S (S (S O))))) (S (S (S (S O))))
          in
          let sub1 =
            add (add off (S O))
              (N.to_nat (match pad with
                         | Some p -> p
                         | None -> N0))
          in
          if Nat.ltb len sub1
          then Ok None
          else if Nat.eqb (sub len sub1) O
               then Ok None
               else bind (idx d off) (fun rl ->
                      let e = add (add off (S O)) (N.to_nat rl) in
                      bind (slice d (add off (S O)) e) (fun s -> Ok (Some
                        ((add off (S O)), (length s)))))))))

type bye_cfg = { bye_c_padding : n; bye_c_sources : n list;
                 bye_c_reason : bytes }

(** val bye_calc : bye_cfg -> nat wres **)

let bye_calc c =
  if Nat.ltb (S (S (S (S (S (S (S (S (S (S (S (S (S (S (S (S (S (S (S (S (S
       (S (S (S (S (S (S (S (S (S (S O)))))))))))))))))))))))))))))))
       (length c.bye_c_sources)
  then Err (TooManySources ((length c.bye_c_sources), (Npos (XI (XI (XI (XI
         XH)))))))
  else bind (check_padding c.bye_c_padding) (fun _ ->
         let size =
           add (add bYE_MIN (mul (S (S (S (S O)))) (length c.bye_c_sources)))
             (N.to_nat c.bye_c_padding)
         in
         (match c.bye_c_reason with
          | [] -> Ok size
          | _ :: _ ->
            let rl = length c.bye_c_reason in
            if Nat.ltb (S (S (S (S (S (S (S (S (S (S (S (S (S (S (S (S (S (S
                 (S (S (S (S (S (S (S (S (S (S (S (S (S (S (S (S (S (S (S (S
                 (S (S (S (S (S (S (S (S (S (S (S (S (S (S (S (S (S (S (S (S
                 (S (S (S (S (S (S (S (S (S (S (S (S (S (S (S (S (S (S (S (S
                 (S (S (S (S (S (S (S (S (S (S (S (S (S (S (S (S (S (S (S (S
                 (S (S (S (S (S (S (S (S (S (S (S (S (S (S (S (S (S (S (S (S
                 (S (S (S (S (S (S (S (S (S (S (S (S (S (S (S (S (S (S (S (S
                 (S (S (S (S (S (S (S (S (S (S (S (S (S (S (S (S (S (S (S (S
                 (S (S (S (S (S (S (S (S (S (S (S (S (S (S (S (S (S (S (S (S
                 (S (S (S (S (S (S (S (S (S (S (S (S (S (S (S (S (S (S (S (S
                 (S (S (S (S (S (S (S (S (S (S (S (S (S (S (S (S (S (S (S (S
                 (S (S (S (S (S (S (S (S (S (S (S (S (S (S (S (S (S (S (S (S
                 (S (S (S (S (S (S (S (S (S (S (S (S (S (S (S (S (S
                 O)))))))))))))))))))))))))))))))))))))))))))))))))))))))))))))))))))))))))))))))))))))))))))))))))))))))))))))))))))))))))))))))))))))))))))))))))))))))))))))))))))))))))))))))))))))))))))))))))))))))))))))))))))))))))))))))))))))))))))))))))))))))))))))))
                 rl
            then Err (ReasonLenTooLarge (rl, (Npos (XI (XI (XI (XI (XI (XI
                   (XI XH))))))))))
            else Ok (pad4 (add (add size (S O)) rl))))

(** val bye_write_sources : n list -> nat -> bytes -> (nat * bytes) wres **)

let rec bye_write_sources ss i buf =
  match ss with
  | [] -> Ok (i, buf)
  | s :: ss' ->
    bind (copy_into buf i (add i (S (S (S (S O))))) (be32 s)) (fun buf0 ->
      bye_write_sources ss' (add i (S (S (S (S O))))) buf0)

(** val bye_write_reason : bytes -> nat -> bytes -> (nat * bytes) wres **)

let bye_write_reason r i buf =
  match r with
  | [] -> Ok (i, buf)
  | _ :: _ ->
    let rl = length r in
    bind
      (set_at buf i
        (N.modulo (N.of_nat rl) (Npos (XO (XO (XO (XO (XO (XO (XO (XO
          XH))))))))))) (fun buf0 ->
      let i0 = add i (S O) in
      let e = add i0 rl in
      bind (copy_into buf0 i0 e r) (fun buf1 ->
        let e0 = pad4 e in
        bind (fill_if buf1 e e0 N0) (fun buf2 -> Ok (e0, buf2))))

(** val bye_write_unchecked : bye_cfg -> bytes -> (nat * bytes) wres **)

let bye_write_unchecked c buf =
  bind
    (write_header_unchecked bYE_PT c.bye_c_padding
      (N.modulo (N.of_nat (length c.bye_c_sources)) (Npos (XO (XO (XO (XO (XO
        (XO (XO (XO XH)))))))))) buf) (fun pat ->
    let (i0, buf0) = pat in
    bind (bye_write_sources c.bye_c_sources i0 buf0) (fun pat0 ->
      let (i, buf1) = pat0 in
      bind (bye_write_reason c.bye_c_reason i buf1) (fun pat1 ->
        let (e, buf2) = pat1 in
        bind (with_tail buf2 e (write_padding_unchecked c.bye_c_padding))
          (fun pat2 -> let (p, buf3) = pat2 in Ok ((add e p), buf3)))))

(** val sDES_MIN : nat **)

let sDES_MIN =
  S (S (S (S O)))

(** val sDES_PT : n **)

let sDES_PT =
  Npos (XO (XI (XO (XI (XO (XO (XI XH)))))))

(** val pRIV : n **)

let pRIV =
  Npos (XO (XO (XO XH)))

type item_view = { it_off : nat; it_data : bytes }

type chunk_view = { ch_ssrc : n; ch_items : item_view list }

(** val item_parse : bytes -> (bytes * nat) pres **)

let item_parse data =
  if Nat.ltb (length data) (S (S O))
  then Err (Truncated ((S (S O)), (length data)))
  else bind (idx data (S O)) (fun lenb ->
         let vlen = N.to_nat lenb in
         let e = add (S (S O)) vlen in
         if Nat.ltb (length data) e
         then Err (Truncated (e, (length data)))
         else if Nat.ltb (S (S (S (S (S (S (S (S (S (S (S (S (S (S (S (S (S
                   (S (S (S (S (S (S (S (S (S (S (S (S (S (S (S (S (S (S (S
                   (S (S (S (S (S (S (S (S (S (S (S (S (S (S (S (S (S (S (S
                   (S (S (S (S (S (S (S (S (S (S (S (S (S (S (S (S (S (S (S
                   (S (S (S (S (S (S (S (S (S (S (S (S (S (S (S (S (S (S (S
                   (S (S (S (S (S (S (S (S (S (S (S (S (S (S (S (S (S (S (S
                   (S (S (S (S (S (S (S (S (S (S (S (S (S (S (S (S (S (S (S
                   (S (S (S (S (S (S (S (S (S (S (S (S (S (S (S (S (S (S (S
                   (S (S (S (S (S (S (S (S (S (S (S (S (S (S (S (S (S (S (S
                   (S (S (S (S (S (S (S (S (S (S (S (S (S (S (S (S (S (S (S
                   (S (S (S (S (S (S (S (S (S (S (S (S (S (S (S (S (S (S (S
                   (S (S (S (S (S (S (S (S (S (S (S (S (S (S (S (S (S (S (S
                   (S (S (S (S (S (S (S (S (S (S (S (S (S (S (S (S (S (S (S
                   (S (S (S (S (S (S (S (S (S (S
                   O)))))))))))))))))))))))))))))))))))))))))))))))))))))))))))))))))))))))))))))))))))))))))))))))))))))))))))))))))))))))))))))))))))))))))))))))))))))))))))))))))))))))))))))))))))))))))))))))))))))))))))))))))))))))))))))))))))))))))))))))))))))))))))))))
                   vlen
              then Err (SdesValueTooLargeP (vlen, (Npos (XI (XI (XI (XI (XI
                     (XI (XI XH))))))))))
              else bind (slice data O e) (fun it ->
                     bind (idx it O) (fun ty ->
                       if N.eqb ty pRIV
                       then if Nat.ltb (length it) (S (S (S O)))
                            then Err (Truncated ((S (S (S O))), (length it)))
                            else bind (idx it (S (S O))) (fun pl ->
                                   let voff = add (N.to_nat pl) (S (S (S O)))
                                   in
                                   if Nat.ltb e voff
                                   then Err (SdesPrivPrefixTooLargeP
                                          ((N.to_nat pl),
                                          (N.sub
                                            (N.modulo lenb (Npos (XO (XO (XO
                                              (XO (XO (XO (XO (XO XH))))))))))
                                            (Npos XH))))
                                   else Ok (it, e))
                       else Ok (it, e))))

(** val items_loop :
    nat -> nat -> bytes -> nat -> (item_view list * nat) pres **)

let rec items_loop fuel base data offset =
  match fuel with
  | O -> Fuel
  | S f ->
    if Nat.ltb offset (length data)
    then bind (idx data offset) (fun b ->
           if N.eqb b N0
           then Ok ([], (add offset (S O)))
           else bind (tail_from data offset) (fun t ->
                  bind (item_parse t) (fun pat ->
                    let (it, e) = pat in
                    bind (items_loop f base data (add offset e)) (fun pat0 ->
                      let (its, off') = pat0 in
                      Ok (({ it_off = (add base offset); it_data =
                      it } :: its), off')))))
    else Ok ([], offset)

(** val zero_skip : nat -> bytes -> nat -> nat pres **)

let rec zero_skip fuel data offset =
  match fuel with
  | O -> Fuel
  | S f ->
    if (&&) (negb (Nat.eqb (Nat.modulo offset (S (S (S (S O))))) O))
         (Nat.ltb offset (length data))
    then bind (idx data offset) (fun b ->
           if N.eqb b N0
           then zero_skip f data (add offset (S O))
           else Ok offset)
    else Ok offset

(** val chunk_parse : nat -> bytes -> (chunk_view * nat) pres **)

let chunk_parse base data =
  if Nat.ltb (length data) (S (S (S (S O))))
  then Err (Truncated ((S (S (S (S O)))), (length data)))
  else bind (slice data O (S (S (S (S O))))) (fun s ->
         bind (be_dec_exact (S (S (S (S O)))) s) (fun ssrc ->
           bind
             (if Nat.ltb (S (S (S (S O)))) (length data)
              then bind
                     (items_loop (S (length data)) base data (S (S (S (S
                       O))))) (fun pat ->
                     let (items, offset) = pat in
                     bind (zero_skip (S (S (S (S O)))) data offset)
                       (fun offset0 -> Ok (items, offset0)))
              else Ok ([], (S (S (S (S O)))))) (fun pat ->
             let (items, offset) = pat in
             if negb (Nat.eqb (pad4 offset) offset)
             then Err (Truncated ((pad4 offset), offset))
             else Ok ({ ch_ssrc = ssrc; ch_items = items }, offset))))

(** val chunks_loop : nat -> bytes -> nat -> nat -> chunk_view list pres **)

let rec chunks_loop fuel d endp offset =
  match fuel with
  | O -> Fuel
  | S f ->
    if Nat.ltb offset endp
    then bind (slice d offset endp) (fun s ->
           bind (chunk_parse offset s) (fun pat ->
             let (c, sz) = pat in
             bind (chunks_loop f d endp (add offset sz)) (fun r -> Ok
               (c :: r))))
    else Ok []

(** val sdes_parse : bytes -> chunk_view list pres **)

let sdes_parse d =
  bind (check_packet sDES_MIN sDES_PT d) (fun _ ->
    bind (parse_padding d) (fun pad ->
      bind
        (usub (length d) (N.to_nat (match pad with
                                    | Some p -> p
                                    | None -> N0))) (fun endp ->
        if Nat.ltb sDES_MIN (length d)
        then chunks_loop (S (length d)) d endp sDES_MIN
        else Ok [])))

(** val item_type : item_view -> n pres **)

let item_type it =
  idx it.it_data O

(** val item_length : item_view -> nat pres **)

let item_length it =
  bind (idx it.it_data (S O)) (fun b -> Ok (N.to_nat b))

(** val item_priv_prefix_len : item_view -> n pres **)

let item_priv_prefix_len it =
  bind (item_type it) (fun ty ->
    if negb (N.eqb ty pRIV) then Panic else idx it.it_data (S (S O)))

(** val item_value : item_view -> (nat * nat) pres **)

let item_value it =
  bind (item_type it) (fun ty ->
    if N.eqb ty pRIV
    then bind (item_priv_prefix_len it) (fun pl ->
           let off = add (N.to_nat pl) (S (S (S O))) in
           bind (tail_from it.it_data off) (fun s -> Ok ((add it.it_off off),
             (length s))))
    else bind (tail_from it.it_data (S (S O))) (fun s -> Ok
           ((add it.it_off (S (S O))), (length s))))

(** val item_priv_prefix : item_view -> (nat * nat) pres **)

let item_priv_prefix it =
  bind (item_type it) (fun ty ->
    if negb (N.eqb ty pRIV)
    then Panic
    else bind (item_priv_prefix_len it) (fun pl ->
           bind
             (slice it.it_data (S (S (S O)))
               (add (S (S (S O))) (N.to_nat pl))) (fun s -> Ok
             ((add it.it_off (S (S (S O)))), (length s)))))

(** val items_len_sum : item_view list -> nat pres **)

let rec items_len_sum = function
| [] -> Ok O
| it :: r ->
  bind (item_length it) (fun l ->
    bind (items_len_sum r) (fun s -> Ok (add (add (S (S O)) l) s)))

(** val chunk_length : chunk_view -> nat pres **)

let chunk_length c =
  bind (items_len_sum c.ch_items) (fun s -> Ok
    (pad4 (add (add (S (S (S (S O)))) s) (S O))))

type item_cfg = { it_c_type : n; it_c_prefix : bytes; it_c_value : bytes }

type chunk_cfg = { ch_c_ssrc : n; ch_c_items : item_cfg list }

type sdes_cfg = { sdes_c_padding : n; sdes_c_chunks : chunk_cfg list }

(** val item_calc : item_cfg -> nat wres **)

let item_calc c =
  let vl = length c.it_c_value in
  if N.eqb c.it_c_type pRIV
  then let pl = length c.it_c_prefix in
       if Nat.ltb (S (S (S (S (S (S (S (S (S (S (S (S (S (S (S (S (S (S (S (S
            (S (S (S (S (S (S (S (S (S (S (S (S (S (S (S (S (S (S (S (S (S (S
            (S (S (S (S (S (S (S (S (S (S (S (S (S (S (S (S (S (S (S (S (S (S
            (S (S (S (S (S (S (S (S (S (S (S (S (S (S (S (S (S (S (S (S (S (S
            (S (S (S (S (S (S (S (S (S (S (S (S (S (S (S (S (S (S (S (S (S (S
            (S (S (S (S (S (S (S (S (S (S (S (S (S (S (S (S (S (S (S (S (S (S
            (S (S (S (S (S (S (S (S (S (S (S (S (S (S (S (S (S (S (S (S (S (S
            (S (S (S (S (S (S (S (S (S (S (S (S (S (S (S (S (S (S (S (S (S (S
            (S (S (S (S (S (S (S (S (S (S (S (S (S (S (S (S (S (S (S (S (S (S
            (S (S (S (S (S (S (S (S (S (S (S (S (S (S (S (S (S (S (S (S (S (S
            (S (S (S (S (S (S (S (S (S (S (S (S (S (S (S (S (S (S (S (S (S (S
            (S (S (S (S (S (S (S (S (S (S (S (S (S (S (S
            O)))))))))))))))))))))))))))))))))))))))))))))))))))))))))))))))))))))))))))))))))))))))))))))))))))))))))))))))))))))))))))))))))))))))))))))))))))))))))))))))))))))))))))))))))))))))))))))))))))))))))))))))))))))))))))))))))))))))))))))))))))))))))))))))
            (add pl (S O))
       then Err (SdesPrivPrefixTooLarge (pl, (Npos (XO (XI (XI (XI (XI (XI
              (XI XH))))))))))
       else if Nat.ltb (S (S (S (S (S (S (S (S (S (S (S (S (S (S (S (S (S (S
                 (S (S (S (S (S (S (S (S (S (S (S (S (S (S (S (S (S (S (S (S
                 (S (S (S (S (S (S (S (S (S (S (S (S (S (S (S (S (S (S (S (S
                 (S (S (S (S (S (S (S (S (S (S (S (S (S (S (S (S (S (S (S (S
                 (S (S (S (S (S (S (S (S (S (S (S (S (S (S (S (S (S (S (S (S
                 (S (S (S (S (S (S (S (S (S (S (S (S (S (S (S (S (S (S (S (S
                 (S (S (S (S (S (S (S (S (S (S (S (S (S (S (S (S (S (S (S (S
                 (S (S (S (S (S (S (S (S (S (S (S (S (S (S (S (S (S (S (S (S
                 (S (S (S (S (S (S (S (S (S (S (S (S (S (S (S (S (S (S (S (S
                 (S (S (S (S (S (S (S (S (S (S (S (S (S (S (S (S (S (S (S (S
                 (S (S (S (S (S (S (S (S (S (S (S (S (S (S (S (S (S (S (S (S
                 (S (S (S (S (S (S (S (S (S (S (S (S (S (S (S (S (S (S (S (S
                 (S (S (S (S (S (S (S (S (S (S (S (S (S (S (S (S (S
                 O)))))))))))))))))))))))))))))))))))))))))))))))))))))))))))))))))))))))))))))))))))))))))))))))))))))))))))))))))))))))))))))))))))))))))))))))))))))))))))))))))))))))))))))))))))))))))))))))))))))))))))))))))))))))))))))))))))))))))))))))))))))))))))))))
                 (add (add pl (S O)) vl)
            then Err (SdesValueTooLarge (vl,
                   (N.sub (Npos (XO (XI (XI (XI (XI (XI (XI XH))))))))
                     (N.modulo (N.of_nat pl) (Npos (XO (XO (XO (XO (XO (XO
                       (XO (XO XH)))))))))))))
            else Ok (add (add (S (S (S O))) pl) vl)
  else if Nat.ltb (S (S (S (S (S (S (S (S (S (S (S (S (S (S (S (S (S (S (S (S
            (S (S (S (S (S (S (S (S (S (S (S (S (S (S (S (S (S (S (S (S (S (S
            (S (S (S (S (S (S (S (S (S (S (S (S (S (S (S (S (S (S (S (S (S (S
            (S (S (S (S (S (S (S (S (S (S (S (S (S (S (S (S (S (S (S (S (S (S
            (S (S (S (S (S (S (S (S (S (S (S (S (S (S (S (S (S (S (S (S (S (S
            (S (S (S (S (S (S (S (S (S (S (S (S (S (S (S (S (S (S (S (S (S (S
            (S (S (S (S (S (S (S (S (S (S (S (S (S (S (S (S (S (S (S (S (S (S
            (S (S (S (S (S (S (S (S (S (S (S (S (S (S (S (S (S (S (S (S (S (S
            (S (S (S (S (S (S (S (S (S (S (S (S (S (S (S (S (S (S (S (S (S (S
            (S (S (S (S (S (S (S (S (S (S (S (S (S (S (S (S (S (S (S (S (S (S
            (S (S (S (S (S (S (S (S (S (S (S (S (S (S (S (S (S (S (S (S (S (S
            (S (S (S (S (S (S (S (S (S (S (S (S (S (S (S
            O)))))))))))))))))))))))))))))))))))))))))))))))))))))))))))))))))))))))))))))))))))))))))))))))))))))))))))))))))))))))))))))))))))))))))))))))))))))))))))))))))))))))))))))))))))))))))))))))))))))))))))))))))))))))))))))))))))))))))))))))))))))))))))))))
            vl
       then Err (SdesValueTooLarge (vl, (Npos (XI (XI (XI (XI (XI (XI (XI
              XH))))))))))
       else Ok (add (S (S O)) vl)

(** val item_write_unchecked : item_cfg -> bytes -> (nat * bytes) wres **)

let item_write_unchecked c buf =
  let vl = length c.it_c_value in
  bind (set_at buf O c.it_c_type) (fun buf0 ->
    if N.eqb c.it_c_type pRIV
    then let pl = length c.it_c_prefix in
         bind
           (set_at buf0 (S O)
             (N.modulo (N.of_nat (add (add pl (S O)) vl)) (Npos (XO (XO (XO
               (XO (XO (XO (XO (XO XH))))))))))) (fun buf1 ->
           bind
             (set_at buf1 (S (S O))
               (N.modulo (N.of_nat pl) (Npos (XO (XO (XO (XO (XO (XO (XO (XO
                 XH))))))))))) (fun buf2 ->
             let e = add pl (S (S (S O))) in
             bind (copy_into buf2 (S (S (S O))) e c.it_c_prefix) (fun buf3 ->
               bind (copy_into buf3 e (add e vl) c.it_c_value) (fun buf4 ->
                 Ok ((add e vl), buf4)))))
    else bind
           (set_at buf0 (S O)
             (N.modulo (N.of_nat vl) (Npos (XO (XO (XO (XO (XO (XO (XO (XO
               XH))))))))))) (fun buf1 ->
           bind (copy_into buf1 (S (S O)) (add vl (S (S O))) c.it_c_value)
             (fun buf2 -> Ok ((add vl (S (S O))), buf2))))

(** val items_calc : item_cfg list -> nat wres **)

let rec items_calc = function
| [] -> Ok O
| i :: r ->
  bind (item_calc i) (fun n0 -> bind (items_calc r) (fun m -> Ok (add n0 m)))

(** val chunk_calc : chunk_cfg -> nat wres **)

let chunk_calc c =
  bind (items_calc c.ch_c_items) (fun n0 -> Ok
    (pad4 (add (add (S (S (S (S O)))) n0) (S O))))

(** val items_write : item_cfg list -> nat -> bytes -> (nat * bytes) wres **)

let rec items_write its i buf =
  match its with
  | [] -> Ok (i, buf)
  | it :: r ->
    bind (with_tail buf i (item_write_unchecked it)) (fun pat ->
      let (n0, buf0) = pat in items_write r (add i n0) buf0)

(** val chunk_write_unchecked : chunk_cfg -> bytes -> (nat * bytes) wres **)

let chunk_write_unchecked c buf =
  bind (copy_into buf O (S (S (S (S O)))) (be32 c.ch_c_ssrc)) (fun buf0 ->
    bind (items_write c.ch_c_items (S (S (S (S O)))) buf0) (fun pat ->
      let (i, buf1) = pat in
      let e = pad4 (add i (S O)) in
      bind (fill_if buf1 i e N0) (fun buf2 -> Ok (e, buf2))))

(** val chunks_calc : chunk_cfg list -> nat wres **)

let rec chunks_calc = function
| [] -> Ok O
| c :: r ->
  bind (chunk_calc c) (fun n0 ->
    bind (chunks_calc r) (fun m -> Ok (add n0 m)))

(** val sdes_calc : sdes_cfg -> nat wres **)

let sdes_calc c =
  if Nat.ltb (S (S (S (S (S (S (S (S (S (S (S (S (S (S (S (S (S (S (S (S (S
       (S (S (S (S (S (S (S (S (S (S O)))))))))))))))))))))))))))))))
       (length c.sdes_c_chunks)
  then Err (TooManySdesChunks ((length c.sdes_c_chunks), (Npos (XI (XI (XI
         (XI XH)))))))
  else bind (check_padding c.sdes_c_padding) (fun _ ->
         bind (chunks_calc c.sdes_c_chunks) (fun n0 -> Ok
           (add (add sDES_MIN n0) (N.to_nat c.sdes_c_padding))))

(** val chunks_write :
    chunk_cfg list -> nat -> bytes -> (nat * bytes) wres **)

let rec chunks_write cs i buf =
  match cs with
  | [] -> Ok (i, buf)
  | c :: r ->
    bind (with_tail buf i (chunk_write_unchecked c)) (fun pat ->
      let (n0, buf0) = pat in chunks_write r (add i n0) buf0)

(** val sdes_write_unchecked : sdes_cfg -> bytes -> (nat * bytes) wres **)

let sdes_write_unchecked c buf =
  bind
    (write_header_unchecked sDES_PT c.sdes_c_padding
      (N.modulo (N.of_nat (length c.sdes_c_chunks)) (Npos (XO (XO (XO (XO (XO
        (XO (XO (XO XH)))))))))) buf) (fun pat ->
    let (i0, buf0) = pat in
    bind (chunks_write c.sdes_c_chunks i0 buf0) (fun pat0 ->
      let (i, buf1) = pat0 in
      bind (with_tail buf1 i (write_padding_unchecked c.sdes_c_padding))
        (fun pat1 -> let (p, buf2) = pat1 in Ok ((add i p), buf2))))

(** val fB_MIN : nat **)

let fB_MIN =
  S (S (S (S (S (S (S (S (S (S (S (S O)))))))))))

(** val tFB_PT : n **)

let tFB_PT =
  Npos (XI (XO (XI (XI (XO (XO (XI XH)))))))

(** val pFB_PT : n **)

let pFB_PT =
  Npos (XO (XI (XI (XI (XO (XO (XI XH)))))))

type fb_kind =
| Transport
| Payload

(** val fb_kind_eqb : fb_kind -> fb_kind -> bool **)

let fb_kind_eqb a b =
  match a with
  | Transport -> (match b with
                  | Transport -> true
                  | Payload -> false)
  | Payload -> (match b with
                | Transport -> false
                | Payload -> true)

(** val fb_pt : fb_kind -> n **)

let fb_pt = function
| Transport -> tFB_PT
| Payload -> pFB_PT

type fci_type =
| TNack
| TFir
| TSli
| TRpsi
| TPli

(** val fci_kind : fci_type -> fb_kind **)

let fci_kind = function
| TNack -> Transport
| _ -> Payload

(** val fci_format : fci_type -> n **)

let fci_format = function
| TFir -> Npos (XO (XO XH))
| TSli -> Npos (XO XH)
| TRpsi -> Npos (XI XH)
| _ -> Npos XH

(** val fb_parse : fb_kind -> bytes -> bytes pres **)

let fb_parse k d =
  bind (check_packet fB_MIN (fb_pt k) d) (fun _ -> Ok d)

(** val fb_sender_ssrc : bytes -> n pres **)

let fb_sender_ssrc =
  parse_ssrc

(** val fb_media_ssrc : bytes -> n pres **)

let fb_media_ssrc d =
  bind (tail_from d (S (S (S (S O))))) parse_ssrc

(** val nack_scan : nat -> n -> n -> nat -> n option * nat **)

let rec nack_scan fuel base mask0 mask_i =
  match fuel with
  | O -> (None, mask_i)
  | S f ->
    if negb
         (N.eqb
           (N.modulo
             (N.div mask0
               (N.pow (Npos (XO XH)) (N.of_nat (sub mask_i (S O))))) (Npos
             (XO XH))) N0)
    then ((Some
           (N.modulo (N.add base (N.of_nat mask_i)) (Npos (XO (XO (XO (XO (XO
             (XO (XO (XO (XO (XO (XO (XO (XO (XO (XO (XO XH))))))))))))))))))),
           (add mask_i (S O)))
    else if Nat.ltb (S (S (S (S (S (S (S (S (S (S (S (S (S (S (S (S
              O)))))))))))))))) (add mask_i (S O))
         then (None, (add mask_i (S O)))
         else nack_scan f base mask0 (add mask_i (S O))

(** val nack_next :
    nat -> bytes -> nat -> nat -> (n option * (nat * nat)) pres **)

let rec nack_next fuel data i mask_i =
  match fuel with
  | O -> Fuel
  | S f ->
    if Nat.ltb (S (S (S (S (S (S (S (S (S (S (S (S (S (S (S (S
         O)))))))))))))))) mask_i
    then let i0 = add i (S O) in
         let mask_i0 = O in
         let ix = mul i0 (S (S (S (S O)))) in
         if Nat.leb (length data) (add ix (S (S (S O))))
         then Ok (None, (i0, mask_i0))
         else bind (tail_from data ix) (fun e ->
                bind (slice e O (S (S O))) (fun sb ->
                  bind (be_dec_exact (S (S O)) sb) (fun base ->
                    bind (slice e (S (S O)) (S (S (S (S O))))) (fun sm ->
                      bind (be_dec_exact (S (S O)) sm) (fun mask0 ->
                        if Nat.eqb mask_i0 O
                        then Ok ((Some base), (i0, (S O)))
                        else let (o, mi) =
                               nack_scan (S (S (S (S (S (S (S (S (S (S (S (S
                                 (S (S (S (S (S O))))))))))))))))) base mask0
                                 mask_i0
                             in
                             (match o with
                              | Some v -> Ok ((Some v), (i0, mi))
                              | None -> nack_next f data i0 mi))))))
    else let ix = mul i (S (S (S (S O)))) in
         if Nat.leb (length data) (add ix (S (S (S O))))
         then Ok (None, (i, mask_i))
         else bind (tail_from data ix) (fun e ->
                bind (slice e O (S (S O))) (fun sb ->
                  bind (be_dec_exact (S (S O)) sb) (fun base ->
                    bind (slice e (S (S O)) (S (S (S (S O))))) (fun sm ->
                      bind (be_dec_exact (S (S O)) sm) (fun mask0 ->
                        if Nat.eqb mask_i O
                        then Ok ((Some base), (i, (S O)))
                        else let (o, mi) =
                               nack_scan (S (S (S (S (S (S (S (S (S (S (S (S
                                 (S (S (S (S (S O))))))))))))))))) base mask0
                                 mask_i
                             in
                             (match o with
                              | Some v -> Ok ((Some v), (i, mi))
                              | None -> nack_next f data i mi))))))

(** val nack_run :
    nat -> bytes -> nat -> nat -> (n list * (nat * nat)) pres **)

let rec nack_run fuel data i mask_i =
  match fuel with
  | O -> Fuel
  | S f ->
    bind (nack_next (S (length data)) data i mask_i) (fun r ->
      let (o, st) = r in
      (match o with
       | Some v ->
         let (i', mi') = st in
         bind (nack_run f data i' mi') (fun pat ->
           let (vs, st0) = pat in Ok ((v :: vs), st0))
       | None -> Ok ([], st)))

(** val nack_entries : bytes -> n list pres **)

let nack_entries data =
  bind (nack_run (S (mul (S (S (S (S (S O))))) (length data))) data O O)
    (fun pat -> let (vs, _) = pat in Ok vs)

(** val nack_post : bytes -> bool pres **)

let nack_post data =
  bind (nack_run (S (mul (S (S (S (S (S O))))) (length data))) data O O)
    (fun pat ->
    let (_, p) = pat in
    let (i, mi) = p in
    bind (nack_next (S (length data)) data i mi) (fun pat0 ->
      let (a, p0) = pat0 in
      let (i0, mi0) = p0 in
      bind (nack_next (S (length data)) data i0 mi0) (fun pat1 ->
        let (b, p1) = pat1 in
        let (i1, mi1) = p1 in
        bind (nack_next (S (length data)) data i1 mi1) (fun pat2 ->
          let (c, _) = pat2 in
          Ok
          (match a with
           | Some _ -> false
           | None ->
             (match b with
              | Some _ -> false
              | None -> (match c with
                         | Some _ -> false
                         | None -> true)))))))

(** val fir_parse : bytes -> bytes pres **)

let fir_parse data =
  if Nat.ltb (length data) (S (S (S (S (S (S (S (S O))))))))
  then Err (Truncated ((S (S (S (S (S (S (S (S O)))))))), (length data)))
  else Ok data

(** val fir_run : nat -> bytes -> nat -> (n * n) list pres **)

let rec fir_run fuel data i =
  match fuel with
  | O -> Fuel
  | S f ->
    let ix = mul i (S (S (S (S (S (S (S (S O)))))))) in
    if Nat.leb (length data) (add ix (S (S (S (S (S (S (S O))))))))
    then Ok []
    else bind (tail_from data ix) (fun e ->
           bind (slice e O (S (S (S (S O))))) (fun s ->
             bind (be_dec_exact (S (S (S (S O)))) s) (fun ssrc ->
               bind (idx e (S (S (S (S O))))) (fun sq ->
                 bind (fir_run f data (add i (S O))) (fun r -> Ok ((ssrc,
                   sq) :: r))))))

(** val fir_entries : bytes -> (n * n) list pres **)

let fir_entries data =
  fir_run (S (length data)) data O

(** val sli_parse : bytes -> bytes pres **)

let sli_parse data =
  if Nat.ltb (length data) (S (S (S (S O))))
  then Err (Truncated ((S (S (S (S O)))), (length data)))
  else Ok data

(** val sli_decode : n -> n -> n -> n -> (n * n) * n **)

let sli_decode d0 d1 d2 d3 =
  (((N.modulo
      (N.add (N.mul d0 (Npos (XO (XO (XO (XO (XO XH)))))))
        (N.div d1 (Npos (XO (XO (XO XH)))))) (Npos (XO (XO (XO (XO (XO (XO
      (XO (XO (XO (XO (XO (XO (XO (XO (XO (XO XH)))))))))))))))))),
    (N.modulo
      (N.add
        (N.add
          (N.mul (N.modulo d1 (Npos (XO (XO (XO XH))))) (Npos (XO (XO (XO (XO
            (XO (XO (XO (XO (XO (XO XH))))))))))))
          (N.mul d2 (Npos (XO (XO XH)))))
        (N.div d3 (Npos (XO (XO (XO (XO (XO (XO XH))))))))) (Npos (XO (XO (XO
      (XO (XO (XO (XO (XO (XO (XO (XO (XO (XO (XO (XO (XO XH))))))))))))))))))),
    (N.modulo d3 (Npos (XO (XO (XO (XO (XO (XO XH)))))))))

(** val sli_run : nat -> bytes -> nat -> ((n * n) * n) list pres **)

let rec sli_run fuel data i =
  match fuel with
  | O -> Fuel
  | S f ->
    if Nat.leb (length data) (add i (S (S (S O))))
    then Ok []
    else bind (idx data i) (fun d0 ->
           bind (idx data (add i (S O))) (fun d1 ->
             bind (idx data (add i (S (S O)))) (fun d2 ->
               bind (idx data (add i (S (S (S O))))) (fun d3 ->
                 bind (sli_run f data (add i (S (S (S (S O)))))) (fun r -> Ok
                   ((sli_decode d0 d1 d2 d3) :: r))))))

(** val sli_entries : bytes -> ((n * n) * n) list pres **)

let sli_entries data =
  sli_run (S (length data)) data O

(** val rpsi_padding_bytes : bytes -> nat pres **)

let rpsi_padding_bytes data =
  bind (idx data O) (fun b -> Ok
    (N.to_nat (N.div b (Npos (XO (XO (XO XH)))))))

(** val rpsi_parse : bytes -> bytes pres **)

let rpsi_parse data =
  if Nat.ltb (length data) (S (S (S (S O))))
  then Err (Truncated ((S (S (S (S O)))), (length data)))
  else bind (rpsi_padding_bytes data) (fun pb ->
         if Nat.ltb (sub (length data) (S (S O))) pb
         then Err (Truncated ((add pb (S (S O))), (length data)))
         else Ok data)

(** val rpsi_payload_type : bytes -> n pres **)

let rpsi_payload_type data =
  bind (idx data (S O)) (fun b -> Ok
    (N.modulo b (Npos (XO (XO (XO (XO (XO (XO (XO XH))))))))))

(** val rpsi_bit_string : bytes -> ((nat * nat) * nat) pres **)

let rpsi_bit_string data =
  bind (rpsi_padding_bytes data) (fun pb ->
    bind (idx data O) (fun b0 ->
      bind (usub (N.to_nat b0) (mul pb (S (S (S (S (S (S (S (S O))))))))))
        (fun bits ->
        bind (usub (length data) pb) (fun e ->
          bind (slice data (S (S O)) e) (fun s -> Ok (((S (S O)),
            (length s)), bits))))))

(** val pli_parse : bytes -> bytes pres **)

let pli_parse data =
  if negb (Nat.eqb (length data) O)
  then Err (TooLarge (O, (length data)))
  else Ok data

(** val fci_slice : bytes -> bytes pres **)

let fci_slice d =
  bind (parse_padding d) (fun pad ->
    bind
      (usub (length d) (N.to_nat (match pad with
                                  | Some p -> p
                                  | None -> N0))) (fun e ->
      slice d (S (S (S (S (S (S (S (S (S (S (S (S O)))))))))))) e))

(** val fci_parse_raw : fci_type -> bytes -> bytes pres **)

let fci_parse_raw t data =
  match t with
  | TNack -> Ok data
  | TFir -> fir_parse data
  | TSli -> sli_parse data
  | TRpsi -> rpsi_parse data
  | TPli -> pli_parse data

(** val parse_fci : fb_kind -> fci_type -> bytes -> bytes pres **)

let parse_fci k t d =
  if negb (fb_kind_eqb (fci_kind t) k)
  then Err WrongImplementation
  else bind (parse_count d) (fun c ->
         if negb (N.eqb c (fci_format t))
         then Err WrongImplementation
         else bind (fci_slice d) (fun s -> fci_parse_raw t s))

type fci_cfg =
| FNack of n list
| FFir of (n * n) list
| FSli of ((n * n) * n) list
| FRpsi of n * bytes * n
| FPli

(** val fci_cfg_type : fci_cfg -> fci_type **)

let fci_cfg_type = function
| FNack _ -> TNack
| FFir _ -> TFir
| FSli _ -> TSli
| FRpsi (_, _, _) -> TRpsi
| FPli -> TPli

(** val set_insert : n -> n list -> n list **)

let rec set_insert x l = match l with
| [] -> x :: []
| y :: r ->
  if N.ltb x y then x :: l else if N.eqb x y then l else y :: (set_insert x r)

(** val nack_set : n list -> n list **)

let nack_set adds =
  fold_left (fun s x -> set_insert x s) adds []

(** val nack_words : n option -> n -> n list -> (n * n) list **)

let rec nack_words base mask0 = function
| [] -> (match base with
         | Some b -> (b, mask0) :: []
         | None -> [])
| e :: r ->
  (match base with
   | Some b ->
     let diff =
       N.modulo
         (N.sub
           (N.add e (Npos (XO (XO (XO (XO (XO (XO (XO (XO (XO (XO (XO (XO (XO
             (XO (XO (XO XH)))))))))))))))))) b) (Npos (XO (XO (XO (XO (XO
         (XO (XO (XO (XO (XO (XO (XO (XO (XO (XO (XO XH)))))))))))))))))
     in
     if N.ltb (Npos (XO (XO (XO (XO XH))))) diff
     then (b, mask0) :: (nack_words (Some e) N0 r)
     else nack_words (Some b)
            (if N.ltb N0 diff
             then N.coq_lor mask0
                    (N.pow (Npos (XO XH)) (N.sub diff (Npos XH)))
             else mask0) r
   | None -> nack_words (Some e) N0 r)

(** val nack_encode : (n * n) -> bytes **)

let nack_encode w =
  app (be16 (fst w)) (be16 (snd w))

(** val fir_put : n -> n -> (n * n) list -> (n * n) list **)

let rec fir_put k v = function
| [] -> (k, v) :: []
| p :: r ->
  let (k', v') = p in
  if N.eqb k k' then (k, v) :: r else (k', v') :: (fir_put k v r)

(** val fir_map : (n * n) list -> (n * n) list **)

let fir_map adds =
  fold_left (fun m kv0 -> fir_put (fst kv0) (snd kv0) m) adds []

(** val sli_encode : ((n * n) * n) -> bytes **)

let sli_encode = function
| (p, pid) ->
  let (start, count) = p in
  (N.div
    (N.modulo start (Npos (XO (XO (XO (XO (XO (XO (XO (XO (XO (XO (XO (XO (XO
      XH))))))))))))))) (Npos (XO (XO (XO (XO (XO XH))))))) :: ((N.add
                                                                  (N.mul
                                                                    (N.modulo
                                                                    start
                                                                    (Npos (XO
                                                                    (XO (XO
                                                                    (XO (XO
                                                                    XH)))))))
                                                                    (Npos (XO
                                                                    (XO (XO
                                                                    XH)))))
                                                                  (N.div
                                                                    (N.modulo
                                                                    count
                                                                    (Npos (XO
                                                                    (XO (XO
                                                                    (XO (XO
                                                                    (XO (XO
                                                                    (XO (XO
                                                                    (XO (XO
                                                                    (XO (XO
                                                                    XH)))))))))))))))
                                                                    (Npos (XO
                                                                    (XO (XO
                                                                    (XO (XO
                                                                    (XO (XO
                                                                    (XO (XO
                                                                    (XO
                                                                    XH))))))))))))) :: (
  (N.div
    (N.modulo count (Npos (XO (XO (XO (XO (XO (XO (XO (XO (XO (XO
      XH)))))))))))) (Npos (XO (XO XH)))) :: ((N.add
                                                (N.mul
                                                  (N.modulo count (Npos (XO
                                                    (XO XH)))) (Npos (XO (XO
                                                  (XO (XO (XO (XO XH))))))))
                                                (N.modulo pid (Npos (XO (XO
                                                  (XO (XO (XO (XO XH))))))))) :: [])))

(** val fci_calc : fci_cfg -> nat wres **)

let fci_calc = function
| FNack adds ->
  let n0 = length (nack_words None N0 (nack_set adds)) in
  if N.ltb (Npos (XI (XO (XI (XI (XI (XI (XI (XI (XI (XI (XI (XI (XI (XI (XI
       XH)))))))))))))))) (N.of_nat n0)
  then Err TooManyNack
  else Ok (mul n0 (S (S (S (S O)))))
| FFir adds ->
  let n0 = length (fir_map adds) in
  if N.ltb (Npos (XO (XI (XI (XI (XI (XI (XI (XI (XI (XI (XI (XI (XI (XI
       XH))))))))))))))) (N.of_nat n0)
  then Err TooManyFir
  else Ok (mul (mul n0 (S (S O))) (S (S (S (S O)))))
| FSli es -> Ok (mul (S (S (S (S O)))) (length es))
| FRpsi (pt, bits, ov) ->
  if N.ltb (Npos (XI (XI (XI (XI (XI (XI XH))))))) pt
  then Err PayloadTypeInvalid
  else if (||) (N.ltb (Npos (XO (XO (XO XH)))) ov)
            ((&&) (match bits with
                   | [] -> true
                   | _ :: _ -> false) (N.ltb N0 ov))
       then Err PaddingBitsTooLarge
       else Ok (pad4 (add (S (S O)) (length bits)))
| FPli -> Ok O

(** val write_words4 : bytes list -> nat -> bytes -> (nat * bytes) wres **)

let rec write_words4 ws i buf =
  match ws with
  | [] -> Ok (i, buf)
  | w :: r ->
    bind (copy_into buf i (add i (S (S (S (S O))))) w) (fun buf0 ->
      write_words4 r (add i (S (S (S (S O))))) buf0)

(** val fir_write : (n * n) list -> nat -> bytes -> (nat * bytes) wres **)

let rec fir_write m i buf =
  match m with
  | [] -> Ok (i, buf)
  | p :: r ->
    let (ssrc, sq) = p in
    bind (copy_into buf i (add i (S (S (S (S O))))) (be32 ssrc)) (fun buf0 ->
      bind
        (copy_into buf0 (add i (S (S (S (S O)))))
          (add i (S (S (S (S (S (S (S (S O)))))))))
          (sq :: (N0 :: (N0 :: (N0 :: []))))) (fun buf1 ->
        fir_write r (add i (S (S (S (S (S (S (S (S O))))))))) buf1))

(** val sli_write :
    ((n * n) * n) list -> nat -> bytes -> (nat * bytes) wres **)

let rec sli_write es i buf =
  match es with
  | [] -> Ok (i, buf)
  | e :: r ->
    (match sli_encode e with
     | [] -> Panic
     | e0 :: l ->
       (match l with
        | [] -> Panic
        | e1 :: l0 ->
          (match l0 with
           | [] -> Panic
           | e2 :: l1 ->
             (match l1 with
              | [] -> Panic
              | e3 :: l2 ->
                (match l2 with
                 | [] ->
                   bind (set_at buf i e0) (fun buf0 ->
                     bind (set_at buf0 (add i (S O)) e1) (fun buf1 ->
                       bind (set_at buf1 (add i (S (S O))) e2) (fun buf2 ->
                         bind (set_at buf2 (add i (S (S (S O)))) e3)
                           (fun buf3 ->
                           sli_write r (add i (S (S (S (S O))))) buf3))))
                 | _ :: _ -> Panic)))))

(** val zero_fill_loop : nat -> nat -> nat -> bytes -> (nat * bytes) wres **)

let rec zero_fill_loop fuel i e buf =
  match fuel with
  | O -> Fuel
  | S f ->
    if Nat.ltb i e
    then bind (set_at buf i N0) (fun buf0 ->
           zero_fill_loop f (add i (S O)) e buf0)
    else Ok (i, buf)

(** val rpsi_write : n -> bytes -> n -> bytes -> (nat * bytes) wres **)

let rpsi_write pt bits ov buf =
  let e = pad4 (add (S (S O)) (length bits)) in
  bind (usub e (length bits)) (fun t ->
    bind (usub t (S (S O))) (fun t0 ->
      let trailing =
        add (mul (S (S (S (S (S (S (S (S O)))))))) t0) (N.to_nat ov)
      in
      bind
        (set_at buf O
          (N.modulo (N.of_nat trailing) (Npos (XO (XO (XO (XO (XO (XO (XO (XO
            XH))))))))))) (fun buf0 ->
        bind (set_at buf0 (S O) pt) (fun buf1 ->
          let i = add (S (S O)) (length bits) in
          bind (copy_into buf1 (S (S O)) i bits) (fun buf2 ->
            bind
              (match bits with
               | [] -> Ok buf2
               | _ :: _ ->
                 bind (idx buf2 (sub i (S O))) (fun b ->
                   set_at buf2 (sub i (S O))
                     (N.mul (N.div b (N.pow (Npos (XO XH)) ov))
                       (N.pow (Npos (XO XH)) ov)))) (fun buf3 ->
              zero_fill_loop (S (S (S (S O)))) i e buf3))))))

(** val fci_write : fci_cfg -> bytes -> (nat * bytes) wres **)

let fci_write f buf =
  match f with
  | FNack adds ->
    write_words4 (map nack_encode (nack_words None N0 (nack_set adds))) O buf
  | FFir adds -> fir_write (fir_map adds) O buf
  | FSli es -> sli_write es O buf
  | FRpsi (pt, bits, ov) -> rpsi_write pt bits ov buf
  | FPli -> Ok (O, buf)

type fb_cfg = { fb_c_kind : fb_kind; fb_c_padding : n; fb_c_sender : 
                n; fb_c_media : n; fb_c_fci : fci_cfg }

(** val fb_calc : fb_cfg -> nat wres **)

let fb_calc c =
  bind (check_padding c.fb_c_padding) (fun _ ->
    if negb (fb_kind_eqb (fci_kind (fci_cfg_type c.fb_c_fci)) c.fb_c_kind)
    then Err FciWrongFeedbackPacketType
    else bind (fci_calc c.fb_c_fci) (fun n0 -> Ok
           (add (add fB_MIN (pad4 n0)) (N.to_nat c.fb_c_padding))))

(** val fb_write_unchecked : fb_cfg -> bytes -> (nat * bytes) wres **)

let fb_write_unchecked c buf =
  if negb (fb_kind_eqb (fci_kind (fci_cfg_type c.fb_c_fci)) c.fb_c_kind)
  then Ok (O, buf)
  else let fmt = fci_format (fci_cfg_type c.fb_c_fci) in
       bind
         (write_header_unchecked (fb_pt c.fb_c_kind) c.fb_c_padding fmt buf)
         (fun pat ->
         let (_, buf0) = pat in
         bind
           (copy_into buf0 (S (S (S (S O)))) (S (S (S (S (S (S (S (S
             O)))))))) (be32 c.fb_c_sender)) (fun buf1 ->
           bind
             (copy_into buf1 (S (S (S (S (S (S (S (S O)))))))) (S (S (S (S (S
               (S (S (S (S (S (S (S O)))))))))))) (be32 c.fb_c_media))
             (fun buf2 ->
             bind
               (with_tail buf2 (S (S (S (S (S (S (S (S (S (S (S (S
                 O)))))))))))) (fci_write c.fb_c_fci)) (fun pat0 ->
               let (n0, buf3) = pat0 in
               let e =
                 add (S (S (S (S (S (S (S (S (S (S (S (S O)))))))))))) n0
               in
               bind
                 (with_tail buf3 e (write_padding_unchecked c.fb_c_padding))
                 (fun pat1 -> let (p, buf4) = pat1 in Ok ((add e p), buf4))))))

(** val uNK_MIN : nat **)

let uNK_MIN =
  S (S (S (S O)))

(** val unknown_parse : bytes -> bytes pres **)

let unknown_parse d =
  if Nat.ltb (length d) uNK_MIN
  then Err (Truncated (uNK_MIN, (length d)))
  else bind (parse_version d) (fun version ->
         if negb (N.eqb version vERSION)
         then Err (UnsupportedVersion version)
         else bind (parse_length d) (fun len ->
                if Nat.ltb (length d) len
                then Err (Truncated (len, (length d)))
                else if Nat.ltb len (length d)
                     then Err (TooLarge (len, (length d)))
                     else Ok d))

type variant =
| VApp
| VBye
| VRr
| VSdes
| VSr
| VTfb
| VPfb
| VUnknown

(** val variant_eqb : variant -> variant -> bool **)

let variant_eqb a b =
  match a with
  | VApp -> (match b with
             | VApp -> true
             | _ -> false)
  | VBye -> (match b with
             | VBye -> true
             | _ -> false)
  | VRr -> (match b with
            | VRr -> true
            | _ -> false)
  | VSdes -> (match b with
              | VSdes -> true
              | _ -> false)
  | VSr -> (match b with
            | VSr -> true
            | _ -> false)
  | VTfb -> (match b with
             | VTfb -> true
             | _ -> false)
  | VPfb -> (match b with
             | VPfb -> true
             | _ -> false)
  | VUnknown -> (match b with
                 | VUnknown -> true
                 | _ -> false)

(** val variant_pt : variant -> n **)

let variant_pt = function
| VApp -> aPP_PT
| VBye -> bYE_PT
| VRr -> rR_PT
| VSdes -> sDES_PT
| VSr -> sR_PT
| VTfb -> tFB_PT
| VPfb -> pFB_PT
| VUnknown -> Npos (XI (XI (XI (XI (XI (XI (XI XH)))))))

type packet_view = { pk_variant : variant; pk_data : bytes;
                     pk_chunks : chunk_view list }

(** val typed_parse : variant -> bytes -> packet_view pres **)

let typed_parse v d =
  match v with
  | VApp ->
    bind (app_parse d) (fun x -> Ok { pk_variant = VApp; pk_data = x;
      pk_chunks = [] })
  | VBye ->
    bind (bye_parse d) (fun x -> Ok { pk_variant = VBye; pk_data = x;
      pk_chunks = [] })
  | VRr ->
    bind (rr_parse d) (fun x -> Ok { pk_variant = VRr; pk_data = x;
      pk_chunks = [] })
  | VSdes ->
    bind (sdes_parse d) (fun cs -> Ok { pk_variant = VSdes; pk_data = d;
      pk_chunks = cs })
  | VSr ->
    bind (sr_parse d) (fun x -> Ok { pk_variant = VSr; pk_data = x;
      pk_chunks = [] })
  | VTfb ->
    bind (fb_parse Transport d) (fun x -> Ok { pk_variant = VTfb; pk_data =
      x; pk_chunks = [] })
  | VPfb ->
    bind (fb_parse Payload d) (fun x -> Ok { pk_variant = VPfb; pk_data = x;
      pk_chunks = [] })
  | VUnknown ->
    bind (unknown_parse d) (fun x -> Ok { pk_variant = VUnknown; pk_data = x;
      pk_chunks = [] })

(** val variant_of_pt : n -> variant **)

let variant_of_pt pt =
  if N.eqb pt aPP_PT
  then VApp
  else if N.eqb pt bYE_PT
       then VBye
       else if N.eqb pt rR_PT
            then VRr
            else if N.eqb pt sDES_PT
                 then VSdes
                 else if N.eqb pt sR_PT
                      then VSr
                      else if N.eqb pt pFB_PT
                           then VPfb
                           else if N.eqb pt tFB_PT then VTfb else VUnknown

(** val packet_parse : bytes -> packet_view pres **)

let packet_parse d =
  if Nat.ltb (length d) (S (S (S (S O))))
  then Err (Truncated ((S (S (S (S O)))), (length d)))
  else bind (parse_packet_type d) (fun pt -> typed_parse (variant_of_pt pt) d)

(** val packet_try_as : packet_view -> variant -> packet_view pres **)

let packet_try_as p target =
  if variant_eqb p.pk_variant target
  then Ok p
  else (match p.pk_variant with
        | VUnknown -> typed_parse target p.pk_data
        | _ ->
          bind (header_data p.pk_data) (fun h ->
            bind (parse_packet_type h) (fun ty -> Err (PacketTypeMismatch
              (ty, (variant_pt target))))))

(** val compound_check : nat -> bytes -> nat -> unit pres **)

let rec compound_check fuel d offset =
  match fuel with
  | O -> Fuel
  | S f ->
    if Nat.ltb offset (length d)
    then if Nat.ltb (length d) (add offset uNK_MIN)
         then Err (Truncated ((add offset uNK_MIN), (length d)))
         else bind (tail_from d offset) (fun t ->
                bind (parse_length t) (fun pl ->
                  if Nat.ltb (length d) (add offset pl)
                  then Err (Truncated ((add offset pl), (length d)))
                  else compound_check f d (add offset pl)))
    else Ok ()

type compound_st = { c_data : bytes; c_offset : nat; c_is_over : bool }

(** val compound_parse : bytes -> compound_st pres **)

let compound_parse d = match d with
| [] -> Err (Truncated ((S (S (S (S O)))), O))
| _ :: _ ->
  bind (compound_check (S (length d)) d O) (fun _ -> Ok { c_data = d;
    c_offset = O; c_is_over = false })

(** val compound_next :
    compound_st -> (packet_view pres option * compound_st) pres **)

let compound_next s =
  if s.c_is_over
  then Ok (None, s)
  else bind (tail_from s.c_data s.c_offset) (fun t ->
         bind (parse_length t) (fun pl ->
           bind (slice s.c_data s.c_offset (add s.c_offset pl)) (fun tile ->
             let r = packet_parse tile in
             (match r with
              | Panic -> Panic
              | Fuel -> Fuel
              | _ ->
                let over = negb (is_ok r) in
                let off = add s.c_offset pl in
                let over0 =
                  if Nat.leb (length s.c_data) off then true else over
                in
                Ok ((Some r), { c_data = s.c_data; c_offset = off;
                c_is_over = over0 })))))

type unk_cfg = { unk_c_padding : n; unk_c_type : n; unk_c_count : n;
                 unk_c_data : bytes }

(** val unk_calc : unk_cfg -> nat wres **)

let unk_calc c =
  if N.ltb (Npos (XI (XI (XI (XI XH))))) c.unk_c_count
  then Err (CountOutOfRange (c.unk_c_count, (Npos (XI (XI (XI (XI XH)))))))
  else bind (check_padding c.unk_c_padding) (fun _ ->
         if negb
              (Nat.eqb (Nat.modulo (length c.unk_c_data) (S (S (S (S O))))) O)
         then Err (DataLen32bitMultiple (length c.unk_c_data))
         else Ok
                (add (add uNK_MIN (length c.unk_c_data))
                  (N.to_nat c.unk_c_padding)))

(** val unk_write_unchecked : unk_cfg -> bytes -> (nat * bytes) wres **)

let unk_write_unchecked c buf =
  bind
    (write_header_unchecked (Npos (XI (XI (XI (XI (XI (XI (XI XH))))))))
      c.unk_c_padding c.unk_c_count buf) (fun pat ->
    let (_, buf0) = pat in
    bind (set_at buf0 (S O) c.unk_c_type) (fun buf1 ->
      let e = add (S (S (S (S O)))) (length c.unk_c_data) in
      bind (copy_into buf1 (S (S (S (S O)))) e c.unk_c_data) (fun buf2 ->
        bind (with_tail buf2 e (write_padding_unchecked c.unk_c_padding))
          (fun pat0 -> let (p, buf3) = pat0 in Ok ((add e p), buf3)))))

type custom_cfg = { cu_pt : n; cu_min : nat; cu_count : n; cu_padding : 
                    n; cu_payload : bytes }

(** val custom_parse : n -> nat -> bytes -> bytes pres **)

let custom_parse pt min d =
  bind (check_packet min pt d) (fun _ -> Ok d)

(** val custom_calc : custom_cfg -> nat wres **)

let custom_calc c =
  bind (check_padding c.cu_padding) (fun _ -> Ok
    (add (add (S (S (S (S O)))) (length c.cu_payload))
      (N.to_nat c.cu_padding)))

(** val custom_write_unchecked : custom_cfg -> bytes -> (nat * bytes) wres **)

let custom_write_unchecked c buf =
  bind (write_header_unchecked c.cu_pt c.cu_padding c.cu_count buf)
    (fun pat ->
    let (_, buf0) = pat in
    let e = add (S (S (S (S O)))) (length c.cu_payload) in
    bind (copy_into buf0 (S (S (S (S O)))) e c.cu_payload) (fun buf1 ->
      bind (with_tail buf1 e (write_padding_unchecked c.cu_padding))
        (fun pat0 -> let (p, buf2) = pat0 in Ok ((add e p), buf2))))

type member =
| MSr of sr_cfg
| MRr of rr_cfg
| MApp of app_cfg
| MBye of bye_cfg
| MSdes of sdes_cfg
| MFb of fb_cfg
| MUnk of unk_cfg
| MCustom of custom_cfg
| MCompound of member list

(** val m_padding : member -> n option **)

let rec m_padding = function
| MSr c -> get_padding_of c.sr_c_padding
| MRr c -> get_padding_of c.rr_c_padding
| MApp c -> get_padding_of c.app_c_padding
| MBye c -> get_padding_of c.bye_c_padding
| MSdes c -> get_padding_of c.sdes_c_padding
| MFb c -> get_padding_of c.fb_c_padding
| MUnk c -> get_padding_of c.unk_c_padding
| MCustom c -> get_padding_of c.cu_padding
| MCompound ms ->
  let rec last0 = function
  | [] -> None
  | m0 :: r -> (match r with
                | [] -> m_padding m0
                | _ :: _ -> last0 r)
  in last0 ms

(** val m_calc : member -> nat wres **)

let rec m_calc = function
| MSr c -> sr_calc c
| MRr c -> rr_calc c
| MApp c -> app_calc c
| MBye c -> bye_calc c
| MSdes c -> sdes_calc c
| MFb c -> fb_calc c
| MUnk c -> unk_calc c
| MCustom c -> custom_calc c
| MCompound ms ->
  let rec go = function
  | [] -> Ok O
  | m0 :: r ->
    bind (m_calc m0) (fun n0 ->
      if (&&) (match r with
               | [] -> false
               | _ :: _ -> true)
           (N.ltb N0 (match m_padding m0 with
                      | Some p -> p
                      | None -> N0))
      then Err NonLastCompoundPacketPadding
      else bind (go r) (fun k -> Ok (add n0 k)))
  in go ms

(** val m_write_unchecked : member -> bytes -> (nat * bytes) wres **)

let rec m_write_unchecked m buf =
  match m with
  | MSr c -> sr_write_unchecked c buf
  | MRr c -> rr_write_unchecked c buf
  | MApp c -> app_write_unchecked c buf
  | MBye c -> bye_write_unchecked c buf
  | MSdes c -> sdes_write_unchecked c buf
  | MFb c -> fb_write_unchecked c buf
  | MUnk c -> unk_write_unchecked c buf
  | MCustom c -> custom_write_unchecked c buf
  | MCompound ms ->
    let rec go ms0 offset buf0 =
      match ms0 with
      | [] -> Ok (offset, buf0)
      | m0 :: r ->
        (match m_calc m0 with
         | Ok req ->
           bind
             (with_sub buf0 offset (add offset req) (m_write_unchecked m0))
             (fun pat -> let (w, buf1) = pat in go r (add offset w) buf1)
         | Fuel -> Fuel
         | _ -> Panic)
    in go ms O buf

(** val m_write_into : member -> bytes -> nat wres * bytes **)

let m_write_into m buf =
  write_into_gen (m_calc m) (m_write_unchecked m) buf

(** val chunk_write_into : chunk_cfg -> bytes -> nat wres * bytes **)

let chunk_write_into c buf =
  write_into_gen (chunk_calc c) (chunk_write_unchecked c) buf

(** val item_write_into : item_cfg -> bytes -> nat wres * bytes **)

let item_write_into c buf =
  write_into_gen (item_calc c) (item_write_unchecked c) buf

(** val obs_pair : ('a1 -> obs) -> ('a2 -> obs) -> ('a1 * 'a2) -> obs **)

let obs_pair fa fb p =
  OL ((fa (fst p)) :: ((fb (snd p)) :: []))

(** val obs_list : ('a1 -> obs) -> 'a1 list -> obs **)

let obs_list f l =
  OL (map f l)

(** val obs_rng : (nat * nat) -> obs **)

let obs_rng r =
  obs_range (fst r) (snd r)

(** val obs_optN : n option -> obs **)

let obs_optN o =
  obs_opt (option_map (fun x -> ON x) o)

(** val obs_hdr : bytes -> obs **)

let obs_hdr d =
  obs_pres (fun h -> OL
    ((obs_pres (fun x -> ON x) (parse_version h)) :: ((obs_pres (fun x -> ON
                                                        x)
                                                        (parse_packet_type h)) :: (
    (obs_pres (fun x -> ON x) (parse_count h)) :: ((obs_pres (fun x -> ON x)
                                                     (parse_count h)) :: (
    (obs_pres (fun x -> OI x) (parse_length h)) :: [])))))) (header_data d)

(** val obs_rbs : nat -> bytes -> obs **)

let obs_rbs min d =
  obs_pres (obs_list obs_rb_view) (report_blocks min d)

(** val obs_item : item_view -> obs **)

let obs_item it =
  OL
    (app
      ((obs_pres (fun x -> ON x) (item_type it)) :: ((obs_pres (fun x -> OI
                                                       x) (item_length it)) :: (
      (obs_pres obs_rng (item_value it)) :: [])))
      (match item_type it with
       | Ok ty ->
         if N.eqb ty pRIV
         then (obs_pres (fun x -> ON x) (item_priv_prefix_len it)) :: (
                (obs_pres obs_rng (item_priv_prefix it)) :: [])
         else []
       | _ -> []))

(** val obs_chunk : chunk_view -> obs **)

let obs_chunk c =
  OL ((ON
    c.ch_ssrc) :: ((obs_pres (fun x -> OI x) (chunk_length c)) :: ((obs_list
                                                                    obs_item
                                                                    c.ch_items) :: [])))

(** val obs_fci_view : nat -> fci_type -> bytes -> obs **)

let obs_fci_view base t data =
  match t with
  | TNack ->
    OL
      ((obs_pres (obs_list (fun x -> ON x)) (nack_entries data)) :: (
      (obs_pres (fun b ->
        if b
        then OS (String ((Ascii (false, true, true, false, false, true, true,
               false)), (String ((Ascii (true, false, true, false, true,
               true, true, false)), (String ((Ascii (true, true, false,
               false, true, true, true, false)), (String ((Ascii (true,
               false, true, false, false, true, true, false)), (String
               ((Ascii (false, false, true, false, false, true, true,
               false)), EmptyString))))))))))
        else OS (String ((Ascii (false, true, false, false, true, false,
               true, false)), (String ((Ascii (true, false, true, false,
               false, false, true, false)), (String ((Ascii (true, true,
               false, false, true, false, true, false)), (String ((Ascii
               (true, false, true, false, true, false, true, false)), (String
               ((Ascii (true, false, true, true, false, false, true, false)),
               (String ((Ascii (true, false, true, false, false, false, true,
               false)), (String ((Ascii (false, false, true, false, false,
               false, true, false)), EmptyString)))))))))))))))
        (nack_post data)) :: []))
  | TFir ->
    obs_pres (obs_list (obs_pair (fun x -> ON x) (fun x -> ON x)))
      (fir_entries data)
  | TSli ->
    obs_pres
      (obs_list (fun e -> OL ((ON (fst (fst e))) :: ((ON
        (snd (fst e))) :: ((ON (snd e)) :: []))))) (sli_entries data)
  | TRpsi ->
    OL
      ((obs_pres (fun x -> ON x) (rpsi_payload_type data)) :: ((obs_pres
                                                                 (fun x -> OL
                                                                 ((obs_range
                                                                    (add base
                                                                    (fst
                                                                    (fst x)))
                                                                    (snd
                                                                    (fst x))) :: ((OI
                                                                 (snd x)) :: [])))
                                                                 (rpsi_bit_string
                                                                   data)) :: []))
  | TPli ->
    OS (String ((Ascii (false, false, false, false, true, true, true,
      false)), (String ((Ascii (false, false, true, true, false, true, true,
      false)), (String ((Ascii (true, false, false, true, false, true, true,
      false)), EmptyString))))))

(** val all_fci : fci_type list **)

let all_fci =
  TNack :: (TFir :: (TSli :: (TRpsi :: (TPli :: []))))

(** val obs_fcis : fb_kind -> bytes -> obs **)

let obs_fcis k d =
  OL
    (map (fun t ->
      obs_pres
        (obs_fci_view (S (S (S (S (S (S (S (S (S (S (S (S O)))))))))))) t)
        (parse_fci k t d)) all_fci)

(** val obs_view : packet_view -> kv list **)

let obs_view p =
  let d = p.pk_data in
  ((String ((Ascii (false, false, false, true, false, true, true, false)),
  (String ((Ascii (false, false, true, false, false, true, true, false)),
  (String ((Ascii (false, true, false, false, true, true, true, false)),
  EmptyString)))))),
  (obs_hdr d)) :: (match p.pk_variant with
                   | VApp ->
                     ((String ((Ascii (false, false, false, false, true,
                       true, true, false)), (String ((Ascii (true, false,
                       false, false, false, true, true, false)), (String
                       ((Ascii (false, false, true, false, false, true, true,
                       false)), (String ((Ascii (false, false, true, false,
                       false, true, true, false)), (String ((Ascii (true,
                       false, false, true, false, true, true, false)),
                       (String ((Ascii (false, true, true, true, false, true,
                       true, false)), (String ((Ascii (true, true, true,
                       false, false, true, true, false)),
                       EmptyString)))))))))))))),
                       (obs_pres obs_optN (parse_padding d))) :: (((String
                       ((Ascii (true, true, false, false, true, true, true,
                       false)), (String ((Ascii (true, true, false, false,
                       true, true, true, false)), (String ((Ascii (false,
                       true, false, false, true, true, true, false)), (String
                       ((Ascii (true, true, false, false, false, true, true,
                       false)), EmptyString)))))))),
                       (obs_pres (fun x -> ON x) (parse_ssrc d))) :: (((String
                       ((Ascii (false, true, true, true, false, true, true,
                       false)), (String ((Ascii (true, false, false, false,
                       false, true, true, false)), (String ((Ascii (true,
                       false, true, true, false, true, true, false)), (String
                       ((Ascii (true, false, true, false, false, true, true,
                       false)), EmptyString)))))))),
                       (obs_pres (fun x -> OB x) (app_name d))) :: (((String
                       ((Ascii (false, false, true, false, false, true, true,
                       false)), (String ((Ascii (true, false, false, false,
                       false, true, true, false)), (String ((Ascii (false,
                       false, true, false, true, true, true, false)), (String
                       ((Ascii (true, false, false, false, false, true, true,
                       false)), EmptyString)))))))),
                       (obs_pres obs_rng (app_data d))) :: [])))
                   | VBye ->
                     ((String ((Ascii (false, false, false, false, true,
                       true, true, false)), (String ((Ascii (true, false,
                       false, false, false, true, true, false)), (String
                       ((Ascii (false, false, true, false, false, true, true,
                       false)), (String ((Ascii (false, false, true, false,
                       false, true, true, false)), (String ((Ascii (true,
                       false, false, true, false, true, true, false)),
                       (String ((Ascii (false, true, true, true, false, true,
                       true, false)), (String ((Ascii (true, true, true,
                       false, false, true, true, false)),
                       EmptyString)))))))))))))),
                       (obs_pres obs_optN (parse_padding d))) :: (((String
                       ((Ascii (true, true, false, false, true, true, true,
                       false)), (String ((Ascii (true, true, false, false,
                       true, true, true, false)), (String ((Ascii (false,
                       true, false, false, true, true, true, false)), (String
                       ((Ascii (true, true, false, false, false, true, true,
                       false)), (String ((Ascii (true, true, false, false,
                       true, true, true, false)), EmptyString)))))))))),
                       (obs_pres (obs_list (fun x -> ON x)) (bye_ssrcs d))) :: (((String
                       ((Ascii (false, true, false, false, true, true, true,
                       false)), (String ((Ascii (true, false, true, false,
                       false, true, true, false)), (String ((Ascii (true,
                       false, false, false, false, true, true, false)),
                       (String ((Ascii (true, true, false, false, true, true,
                       true, false)), (String ((Ascii (true, true, true,
                       true, false, true, true, false)), (String ((Ascii
                       (false, true, true, true, false, true, true, false)),
                       EmptyString)))))))))))),
                       (obs_pres (fun o -> obs_opt (option_map obs_rng o))
                         (bye_reason d))) :: []))
                   | VRr ->
                     ((String ((Ascii (false, false, false, false, true,
                       true, true, false)), (String ((Ascii (true, false,
                       false, false, false, true, true, false)), (String
                       ((Ascii (false, false, true, false, false, true, true,
                       false)), (String ((Ascii (false, false, true, false,
                       false, true, true, false)), (String ((Ascii (true,
                       false, false, true, false, true, true, false)),
                       (String ((Ascii (false, true, true, true, false, true,
                       true, false)), (String ((Ascii (true, true, true,
                       false, false, true, true, false)),
                       EmptyString)))))))))))))),
                       (obs_pres obs_optN (parse_padding d))) :: (((String
                       ((Ascii (false, true, true, true, false, true, true,
                       false)), (String ((Ascii (true, true, true, true,
                       true, false, true, false)), (String ((Ascii (false,
                       true, false, false, true, true, true, false)), (String
                       ((Ascii (true, false, true, false, false, true, true,
                       false)), (String ((Ascii (false, false, false, false,
                       true, true, true, false)), (String ((Ascii (true,
                       true, true, true, false, true, true, false)), (String
                       ((Ascii (false, true, false, false, true, true, true,
                       false)), (String ((Ascii (false, false, true, false,
                       true, true, true, false)), (String ((Ascii (true,
                       true, false, false, true, true, true, false)),
                       EmptyString)))))))))))))))))),
                       (obs_pres (fun x -> ON x) (parse_count d))) :: (((String
                       ((Ascii (true, true, false, false, true, true, true,
                       false)), (String ((Ascii (true, true, false, false,
                       true, true, true, false)), (String ((Ascii (false,
                       true, false, false, true, true, true, false)), (String
                       ((Ascii (true, true, false, false, false, true, true,
                       false)), EmptyString)))))))),
                       (obs_pres (fun x -> ON x) (parse_ssrc d))) :: (((String
                       ((Ascii (false, true, false, false, true, true, true,
                       false)), (String ((Ascii (false, true, false, false,
                       false, true, true, false)), (String ((Ascii (true,
                       true, false, false, true, true, true, false)),
                       EmptyString)))))), (obs_rbs rR_MIN d)) :: [])))
                   | VSdes ->
                     ((String ((Ascii (false, false, false, false, true,
                       true, true, false)), (String ((Ascii (true, false,
                       false, false, false, true, true, false)), (String
                       ((Ascii (false, false, true, false, false, true, true,
                       false)), (String ((Ascii (false, false, true, false,
                       false, true, true, false)), (String ((Ascii (true,
                       false, false, true, false, true, true, false)),
                       (String ((Ascii (false, true, true, true, false, true,
                       true, false)), (String ((Ascii (true, true, true,
                       false, false, true, true, false)),
                       EmptyString)))))))))))))),
                       (obs_pres obs_optN (parse_padding d))) :: (((String
                       ((Ascii (true, true, false, false, false, true, true,
                       false)), (String ((Ascii (false, false, false, true,
                       false, true, true, false)), (String ((Ascii (true,
                       false, true, false, true, true, true, false)), (String
                       ((Ascii (false, true, true, true, false, true, true,
                       false)), (String ((Ascii (true, true, false, true,
                       false, true, true, false)), (String ((Ascii (true,
                       true, false, false, true, true, true, false)),
                       EmptyString)))))))))))),
                       (obs_list obs_chunk p.pk_chunks)) :: [])
                   | VSr ->
                     ((String ((Ascii (false, false, false, false, true,
                       true, true, false)), (String ((Ascii (true, false,
                       false, false, false, true, true, false)), (String
                       ((Ascii (false, false, true, false, false, true, true,
                       false)), (String ((Ascii (false, false, true, false,
                       false, true, true, false)), (String ((Ascii (true,
                       false, false, true, false, true, true, false)),
                       (String ((Ascii (false, true, true, true, false, true,
                       true, false)), (String ((Ascii (true, true, true,
                       false, false, true, true, false)),
                       EmptyString)))))))))))))),
                       (obs_pres obs_optN (parse_padding d))) :: (((String
                       ((Ascii (false, true, true, true, false, true, true,
                       false)), (String ((Ascii (true, true, true, true,
                       true, false, true, false)), (String ((Ascii (false,
                       true, false, false, true, true, true, false)), (String
                       ((Ascii (true, false, true, false, false, true, true,
                       false)), (String ((Ascii (false, false, false, false,
                       true, true, true, false)), (String ((Ascii (true,
                       true, true, true, false, true, true, false)), (String
                       ((Ascii (false, true, false, false, true, true, true,
                       false)), (String ((Ascii (false, false, true, false,
                       true, true, true, false)), (String ((Ascii (true,
                       true, false, false, true, true, true, false)),
                       EmptyString)))))))))))))))))),
                       (obs_pres (fun x -> ON x) (parse_count d))) :: (((String
                       ((Ascii (true, true, false, false, true, true, true,
                       false)), (String ((Ascii (true, true, false, false,
                       true, true, true, false)), (String ((Ascii (false,
                       true, false, false, true, true, true, false)), (String
                       ((Ascii (true, true, false, false, false, true, true,
                       false)), EmptyString)))))))),
                       (obs_pres (fun x -> ON x) (parse_ssrc d))) :: (((String
                       ((Ascii (false, true, true, true, false, true, true,
                       false)), (String ((Ascii (false, false, true, false,
                       true, true, true, false)), (String ((Ascii (false,
                       false, false, false, true, true, true, false)),
                       EmptyString)))))),
                       (obs_pres (fun x -> ON x) (sr_ntp d))) :: (((String
                       ((Ascii (false, true, false, false, true, true, true,
                       false)), (String ((Ascii (false, false, true, false,
                       true, true, true, false)), (String ((Ascii (false,
                       false, false, false, true, true, true, false)),
                       EmptyString)))))),
                       (obs_pres (fun x -> ON x) (sr_rtp d))) :: (((String
                       ((Ascii (false, false, false, false, true, true, true,
                       false)), (String ((Ascii (true, true, false, false,
                       false, true, true, false)), EmptyString)))),
                       (obs_pres (fun x -> ON x) (sr_packet_count d))) :: (((String
                       ((Ascii (true, true, true, true, false, true, true,
                       false)), (String ((Ascii (true, true, false, false,
                       false, true, true, false)), EmptyString)))),
                       (obs_pres (fun x -> ON x) (sr_octet_count d))) :: (((String
                       ((Ascii (false, true, false, false, true, true, true,
                       false)), (String ((Ascii (false, true, false, false,
                       false, true, true, false)), (String ((Ascii (true,
                       true, false, false, true, true, true, false)),
                       EmptyString)))))), (obs_rbs sR_MIN d)) :: [])))))))
                   | VTfb ->
                     ((String ((Ascii (false, false, false, false, true,
                       true, true, false)), (String ((Ascii (true, false,
                       false, false, false, true, true, false)), (String
                       ((Ascii (false, false, true, false, false, true, true,
                       false)), (String ((Ascii (false, false, true, false,
                       false, true, true, false)), (String ((Ascii (true,
                       false, false, true, false, true, true, false)),
                       (String ((Ascii (false, true, true, true, false, true,
                       true, false)), (String ((Ascii (true, true, true,
                       false, false, true, true, false)),
                       EmptyString)))))))))))))),
                       (obs_pres obs_optN (parse_padding d))) :: (((String
                       ((Ascii (true, true, false, false, true, true, true,
                       false)), (String ((Ascii (true, false, true, false,
                       false, true, true, false)), (String ((Ascii (false,
                       true, true, true, false, true, true, false)), (String
                       ((Ascii (false, false, true, false, false, true, true,
                       false)), (String ((Ascii (true, false, true, false,
                       false, true, true, false)), (String ((Ascii (false,
                       true, false, false, true, true, true, false)),
                       EmptyString)))))))))))),
                       (obs_pres (fun x -> ON x) (fb_sender_ssrc d))) :: (((String
                       ((Ascii (true, false, true, true, false, true, true,
                       false)), (String ((Ascii (true, false, true, false,
                       false, true, true, false)), (String ((Ascii (false,
                       false, true, false, false, true, true, false)),
                       (String ((Ascii (true, false, false, true, false,
                       true, true, false)), (String ((Ascii (true, false,
                       false, false, false, true, true, false)),
                       EmptyString)))))))))),
                       (obs_pres (fun x -> ON x) (fb_media_ssrc d))) :: (((String
                       ((Ascii (false, true, true, false, false, true, true,
                       false)), (String ((Ascii (true, true, false, false,
                       false, true, true, false)), (String ((Ascii (true,
                       false, false, true, false, true, true, false)),
                       EmptyString)))))), (obs_fcis Transport d)) :: [])))
                   | VPfb ->
                     ((String ((Ascii (false, false, false, false, true,
                       true, true, false)), (String ((Ascii (true, false,
                       false, false, false, true, true, false)), (String
                       ((Ascii (false, false, true, false, false, true, true,
                       false)), (String ((Ascii (false, false, true, false,
                       false, true, true, false)), (String ((Ascii (true,
                       false, false, true, false, true, true, false)),
                       (String ((Ascii (false, true, true, true, false, true,
                       true, false)), (String ((Ascii (true, true, true,
                       false, false, true, true, false)),
                       EmptyString)))))))))))))),
                       (obs_pres obs_optN (parse_padding d))) :: (((String
                       ((Ascii (true, true, false, false, true, true, true,
                       false)), (String ((Ascii (true, false, true, false,
                       false, true, true, false)), (String ((Ascii (false,
                       true, true, true, false, true, true, false)), (String
                       ((Ascii (false, false, true, false, false, true, true,
                       false)), (String ((Ascii (true, false, true, false,
                       false, true, true, false)), (String ((Ascii (false,
                       true, false, false, true, true, true, false)),
                       EmptyString)))))))))))),
                       (obs_pres (fun x -> ON x) (fb_sender_ssrc d))) :: (((String
                       ((Ascii (true, false, true, true, false, true, true,
                       false)), (String ((Ascii (true, false, true, false,
                       false, true, true, false)), (String ((Ascii (false,
                       false, true, false, false, true, true, false)),
                       (String ((Ascii (true, false, false, true, false,
                       true, true, false)), (String ((Ascii (true, false,
                       false, false, false, true, true, false)),
                       EmptyString)))))))))),
                       (obs_pres (fun x -> ON x) (fb_media_ssrc d))) :: (((String
                       ((Ascii (false, true, true, false, false, true, true,
                       false)), (String ((Ascii (true, true, false, false,
                       false, true, true, false)), (String ((Ascii (true,
                       false, false, true, false, true, true, false)),
                       EmptyString)))))), (obs_fcis Payload d)) :: [])))
                   | VUnknown ->
                     ((String ((Ascii (false, false, true, false, false,
                       true, true, false)), (String ((Ascii (true, false,
                       false, false, false, true, true, false)), (String
                       ((Ascii (false, false, true, false, true, true, true,
                       false)), (String ((Ascii (true, false, false, false,
                       false, true, true, false)), EmptyString)))))))),
                       (obs_range O (length d))) :: [])

(** val variant_name : variant -> string **)

let variant_name = function
| VApp ->
  String ((Ascii (true, false, false, false, false, false, true, false)),
    (String ((Ascii (false, false, false, false, true, true, true, false)),
    (String ((Ascii (false, false, false, false, true, true, true, false)),
    EmptyString)))))
| VBye ->
  String ((Ascii (false, true, false, false, false, false, true, false)),
    (String ((Ascii (true, false, false, true, true, true, true, false)),
    (String ((Ascii (true, false, true, false, false, true, true, false)),
    EmptyString)))))
| VRr ->
  String ((Ascii (false, true, false, false, true, false, true, false)),
    (String ((Ascii (false, true, false, false, true, true, true, false)),
    EmptyString)))
| VSdes ->
  String ((Ascii (true, true, false, false, true, false, true, false)),
    (String ((Ascii (false, false, true, false, false, true, true, false)),
    (String ((Ascii (true, false, true, false, false, true, true, false)),
    (String ((Ascii (true, true, false, false, true, true, true, false)),
    EmptyString)))))))
| VSr ->
  String ((Ascii (true, true, false, false, true, false, true, false)),
    (String ((Ascii (false, true, false, false, true, true, true, false)),
    EmptyString)))
| VTfb ->
  String ((Ascii (false, false, true, false, true, false, true, false)),
    (String ((Ascii (false, true, true, false, false, true, true, false)),
    (String ((Ascii (false, true, false, false, false, true, true, false)),
    EmptyString)))))
| VPfb ->
  String ((Ascii (false, false, false, false, true, false, true, false)),
    (String ((Ascii (false, true, true, false, false, true, true, false)),
    (String ((Ascii (false, true, false, false, false, true, true, false)),
    EmptyString)))))
| VUnknown ->
  String ((Ascii (true, false, true, false, true, false, true, false)),
    (String ((Ascii (false, true, true, true, false, true, true, false)),
    (String ((Ascii (true, true, false, true, false, true, true, false)),
    (String ((Ascii (false, true, true, true, false, true, true, false)),
    (String ((Ascii (true, true, true, true, false, true, true, false)),
    (String ((Ascii (true, true, true, false, true, true, true, false)),
    (String ((Ascii (false, true, true, true, false, true, true, false)),
    EmptyString)))))))))))))

(** val obs_kvs : kv list -> obs **)

let obs_kvs l =
  OL (map (fun p -> OL ((OS (fst p)) :: ((snd p) :: []))) l)

(** val obs_packet : packet_view -> obs **)

let obs_packet p =
  OL ((OS (variant_name p.pk_variant)) :: ((obs_kvs (obs_view p)) :: []))

(** val typed_variants : variant list **)

let typed_variants =
  VApp :: (VBye :: (VRr :: (VSdes :: (VSr :: (VTfb :: (VPfb :: []))))))

(** val bytes_eqb : bytes -> bytes -> bool **)

let bytes_eqb a b =
  (&&) (Nat.eqb (length a) (length b))
    (forallb (fun p -> N.eqb (fst p) (snd p)) (combine a b))

(** val packet_eqb : packet_view -> packet_view -> bool **)

let packet_eqb a b =
  (&&) (variant_eqb a.pk_variant b.pk_variant) (bytes_eqb a.pk_data b.pk_data)

(** val obs_conv : packet_view -> obs **)

let obs_conv p =
  OL
    (map (fun t ->
      obs_pres (fun q ->
        if packet_eqb q p
        then OS (String ((Ascii (true, true, false, false, true, true, true,
               false)), (String ((Ascii (true, false, false, false, false,
               true, true, false)), (String ((Ascii (true, false, true, true,
               false, true, true, false)), (String ((Ascii (true, false,
               true, false, false, true, true, false)), EmptyString))))))))
        else obs_packet q) (packet_try_as p t)) typed_variants)

(** val obs_next : packet_view pres option -> obs **)

let obs_next = function
| Some r ->
  OL ((OS (String ((Ascii (true, true, false, false, true, true, true,
    false)), (String ((Ascii (true, true, true, true, false, true, true,
    false)), (String ((Ascii (true, false, true, true, false, true, true,
    false)), (String ((Ascii (true, false, true, false, false, true, true,
    false)), EmptyString))))))))) :: ((obs_pres obs_packet r) :: []))
| None ->
  OS (String ((Ascii (false, true, true, true, false, true, true, false)),
    (String ((Ascii (true, true, true, true, false, true, true, false)),
    (String ((Ascii (false, true, true, true, false, true, true, false)),
    (String ((Ascii (true, false, true, false, false, true, true, false)),
    EmptyString))))))))

(** val compound_run : nat -> nat -> compound_st -> obs list -> obs list **)

let rec compound_run fuel extra s acc =
  match fuel with
  | O ->
    app acc ((OS (String ((Ascii (false, true, true, false, false, false,
      true, false)), (String ((Ascii (true, false, true, false, true, false,
      true, false)), (String ((Ascii (true, false, true, false, false, false,
      true, false)), (String ((Ascii (false, false, true, true, false, false,
      true, false)), EmptyString))))))))) :: [])
  | S f ->
    (match compound_next s with
     | Ok a ->
       let (o, s') = a in
       (match o with
        | Some r ->
          compound_run f extra s' (app acc ((obs_next (Some r)) :: []))
        | None ->
          let rec more k s0 acc0 =
            match k with
            | O -> acc0
            | S k' ->
              (match compound_next s0 with
               | Ok a0 ->
                 let (o0, s'0) = a0 in
                 more k' s'0 (app acc0 ((obs_next o0) :: []))
               | Fuel ->
                 app acc0 ((OS (String ((Ascii (false, true, true, false,
                   false, false, true, false)), (String ((Ascii (true, false,
                   true, false, true, false, true, false)), (String ((Ascii
                   (true, false, true, false, false, false, true, false)),
                   (String ((Ascii (false, false, true, true, false, false,
                   true, false)), EmptyString))))))))) :: [])
               | _ ->
                 app acc0 ((OS (String ((Ascii (false, false, false, false,
                   true, false, true, false)), (String ((Ascii (true, false,
                   false, false, false, false, true, false)), (String ((Ascii
                   (false, true, true, true, false, false, true, false)),
                   (String ((Ascii (true, false, false, true, false, false,
                   true, false)), (String ((Ascii (true, true, false, false,
                   false, false, true, false)), EmptyString))))))))))) :: []))
          in more extra s'
               (app acc ((OS (String ((Ascii (false, true, true, true, false,
                 true, true, false)), (String ((Ascii (true, true, true,
                 true, false, true, true, false)), (String ((Ascii (false,
                 true, true, true, false, true, true, false)), (String
                 ((Ascii (true, false, true, false, false, true, true,
                 false)), EmptyString))))))))) :: [])))
     | Fuel ->
       app acc ((OS (String ((Ascii (false, true, true, false, false, false,
         true, false)), (String ((Ascii (true, false, true, false, true,
         false, true, false)), (String ((Ascii (true, false, true, false,
         false, false, true, false)), (String ((Ascii (false, false, true,
         true, false, false, true, false)), EmptyString))))))))) :: [])
     | _ ->
       app acc ((OS (String ((Ascii (false, false, false, false, true, false,
         true, false)), (String ((Ascii (true, false, false, false, false,
         false, true, false)), (String ((Ascii (false, true, true, true,
         false, false, true, false)), (String ((Ascii (true, false, false,
         true, false, false, true, false)), (String ((Ascii (true, true,
         false, false, false, false, true, false)),
         EmptyString))))))))))) :: []))

type entry =
| ECompound
| EPacket
| ETyped of variant
| ERb
| EFci of fci_type
| ECustom of n * nat

(** val run_parse : entry -> bytes -> kv list **)

let run_parse e l =
  match e with
  | ECompound ->
    let r = compound_parse l in
    ((String ((Ascii (false, true, false, false, true, true, true, false)),
    EmptyString)),
    (obs_pres (fun _ -> OS (String ((Ascii (true, true, false, false, false,
      true, true, false)), (String ((Ascii (true, true, true, true, false,
      true, true, false)), (String ((Ascii (true, false, true, true, false,
      true, true, false)), (String ((Ascii (false, false, false, false, true,
      true, true, false)), (String ((Ascii (true, true, true, true, false,
      true, true, false)), (String ((Ascii (true, false, true, false, true,
      true, true, false)), (String ((Ascii (false, true, true, true, false,
      true, true, false)), (String ((Ascii (false, false, true, false, false,
      true, true, false)), EmptyString))))))))))))))))) r)) :: (match r with
                                                                | Ok s ->
                                                                  ((String
                                                                    ((Ascii
                                                                    (true,
                                                                    false,
                                                                    false,
                                                                    true,
                                                                    false,
                                                                    true,
                                                                    true,
                                                                    false)),
                                                                    (String
                                                                    ((Ascii
                                                                    (false,
                                                                    false,
                                                                    true,
                                                                    false,
                                                                    true,
                                                                    true,
                                                                    true,
                                                                    false)),
                                                                    (String
                                                                    ((Ascii
                                                                    (true,
                                                                    false,
                                                                    true,
                                                                    false,
                                                                    false,
                                                                    true,
                                                                    true,
                                                                    false)),
                                                                    (String
                                                                    ((Ascii
                                                                    (true,
                                                                    false,
                                                                    true,
                                                                    true,
                                                                    false,
                                                                    true,
                                                                    true,
                                                                    false)),
                                                                    (String
                                                                    ((Ascii
                                                                    (true,
                                                                    true,
                                                                    false,
                                                                    false,
                                                                    true,
                                                                    true,
                                                                    true,
                                                                    false)),
                                                                    EmptyString)))))))))),
                                                                    (OL
                                                                    (compound_run
                                                                    (S
                                                                    (Nat.div
                                                                    (length l)
                                                                    (S (S (S
                                                                    (S O))))))
                                                                    (S (S (S
                                                                    O))) s []))) :: []
                                                                | _ -> [])
  | EPacket ->
    let r = packet_parse l in
    ((String ((Ascii (false, true, false, false, true, true, true, false)),
    EmptyString)),
    (obs_pres obs_packet r)) :: (match r with
                                 | Ok p ->
                                   ((String ((Ascii (true, true, false,
                                     false, false, true, true, false)),
                                     (String ((Ascii (true, true, true, true,
                                     false, true, true, false)), (String
                                     ((Ascii (false, true, true, true, false,
                                     true, true, false)), (String ((Ascii
                                     (false, true, true, false, true, true,
                                     true, false)), EmptyString)))))))),
                                     (obs_conv p)) :: (((String ((Ascii
                                     (true, true, false, false, false, true,
                                     true, false)), (String ((Ascii (true,
                                     true, true, true, false, true, true,
                                     false)), (String ((Ascii (false, true,
                                     true, true, false, true, true, false)),
                                     (String ((Ascii (false, true, true,
                                     false, true, true, true, false)),
                                     (String ((Ascii (false, true, true,
                                     false, true, true, true, false)),
                                     EmptyString)))))))))),
                                     (obs_conv p)) :: [])
                                 | _ -> [])
  | ETyped v ->
    let r = typed_parse v l in
    ((String ((Ascii (false, true, false, false, true, true, true, false)),
    EmptyString)),
    (obs_pres obs_packet r)) :: (match r with
                                 | Ok p ->
                                   (match v with
                                    | VUnknown ->
                                      ((String ((Ascii (true, true, false,
                                        false, false, true, true, false)),
                                        (String ((Ascii (true, true, true,
                                        true, false, true, true, false)),
                                        (String ((Ascii (false, true, true,
                                        true, false, true, true, false)),
                                        (String ((Ascii (false, true, true,
                                        false, true, true, true, false)),
                                        EmptyString)))))))),
                                        (obs_conv p)) :: (((String ((Ascii
                                        (true, true, false, false, false,
                                        true, true, false)), (String ((Ascii
                                        (true, true, true, true, false, true,
                                        true, false)), (String ((Ascii
                                        (false, true, true, true, false,
                                        true, true, false)), (String ((Ascii
                                        (false, true, true, false, true,
                                        true, true, false)), (String ((Ascii
                                        (false, true, true, false, true,
                                        true, true, false)),
                                        EmptyString)))))))))),
                                        (obs_conv p)) :: (((String ((Ascii
                                        (false, false, false, false, true,
                                        true, true, false)), (String ((Ascii
                                        (true, true, false, false, false,
                                        true, true, false)), (String ((Ascii
                                        (true, true, true, true, false, true,
                                        true, false)), (String ((Ascii
                                        (false, true, true, true, false,
                                        true, true, false)), (String ((Ascii
                                        (false, true, true, false, true,
                                        true, true, false)),
                                        EmptyString)))))))))),
                                        (obs_conv p)) :: (((String ((Ascii
                                        (false, false, false, false, true,
                                        true, true, false)), (String ((Ascii
                                        (true, true, false, false, false,
                                        true, true, false)), (String ((Ascii
                                        (true, true, true, true, false, true,
                                        true, false)), (String ((Ascii
                                        (false, true, true, true, false,
                                        true, true, false)), (String ((Ascii
                                        (false, true, true, false, true,
                                        true, true, false)), (String ((Ascii
                                        (false, true, true, false, true,
                                        true, true, false)),
                                        EmptyString)))))))))))),
                                        (obs_conv p)) :: [])))
                                    | _ -> [])
                                 | _ -> [])
  | ERb ->
    ((String ((Ascii (false, true, false, false, true, true, true, false)),
      EmptyString)), (obs_pres obs_rb_view (rb_parse l))) :: []
  | EFci t ->
    ((String ((Ascii (false, true, false, false, true, true, true, false)),
      EmptyString)), (obs_pres (obs_fci_view O t) (fci_parse_raw t l))) :: []
  | ECustom (pt, min) ->
    let r = custom_parse pt min l in
    ((String ((Ascii (false, true, false, false, true, true, true, false)),
    EmptyString)),
    (obs_pres (fun d -> OL
      ((obs_hdr d) :: ((obs_pres obs_optN (parse_padding d)) :: []))) r)) :: (((String
    ((Ascii (false, true, true, false, true, true, true, false)), (String
    ((Ascii (true, false, false, true, false, true, true, false)), (String
    ((Ascii (true, false, false, false, false, true, true, false)), (String
    ((Ascii (true, true, true, true, true, false, true, false)), (String
    ((Ascii (false, false, false, false, true, true, true, false)), (String
    ((Ascii (true, false, false, false, false, true, true, false)), (String
    ((Ascii (true, true, false, false, false, true, true, false)), (String
    ((Ascii (true, true, false, true, false, true, true, false)), (String
    ((Ascii (true, false, true, false, false, true, true, false)), (String
    ((Ascii (false, false, true, false, true, true, true, false)),
    EmptyString)))))))))))))))))))),
    (obs_pres (fun p -> OL ((OS
      (variant_name p.pk_variant)) :: ((match p.pk_variant with
                                        | VUnknown ->
                                          obs_pres (fun _ -> OS (String
                                            ((Ascii (true, true, false,
                                            false, false, true, true,
                                            false)), (String ((Ascii (true,
                                            false, true, false, true, true,
                                            true, false)), (String ((Ascii
                                            (true, true, false, false, true,
                                            true, true, false)), (String
                                            ((Ascii (false, false, true,
                                            false, true, true, true, false)),
                                            (String ((Ascii (true, true,
                                            true, true, false, true, true,
                                            false)), (String ((Ascii (true,
                                            false, true, true, false, true,
                                            true, false)),
                                            EmptyString)))))))))))))
                                            (custom_parse pt min p.pk_data)
                                        | _ ->
                                          OS (String ((Ascii (true, true,
                                            false, true, false, true, true,
                                            false)), (String ((Ascii (false,
                                            true, true, true, false, true,
                                            true, false)), (String ((Ascii
                                            (true, true, true, true, false,
                                            true, true, false)), (String
                                            ((Ascii (true, true, true, false,
                                            true, true, true, false)),
                                            (String ((Ascii (false, true,
                                            true, true, false, true, true,
                                            false)), EmptyString))))))))))) :: [])))
      (packet_parse l))) :: [])

(** val obs_write : (nat wres * bytes) -> obs **)

let obs_write r =
  OL ((obs_wres (fun x -> OI x) (fst r)) :: ((OB (snd r)) :: []))

(** val mk_buf : (nat * n) -> bytes **)

let mk_buf spec =
  repeat (snd spec) (fst spec)

(** val obs_roundtrip : member -> n -> kv list **)

let obs_roundtrip m fill =
  match m_calc m with
  | Ok n0 ->
    let (w0, img) = m_write_into m (repeat fill n0) in
    (match w0 with
     | Ok w ->
       (match m with
        | MCustom c ->
          map (fun p ->
            ((append (String ((Ascii (false, true, false, false, true, true,
               true, false)), (String ((Ascii (false, false, true, false,
               true, true, true, false)), (String ((Ascii (false, true, true,
               true, false, true, false, false)), EmptyString)))))) (fst p)),
            (snd p))) (run_parse (ECustom (c.cu_pt, c.cu_min)) (firstn w img))
        | MCompound _ ->
          map (fun p ->
            ((append (String ((Ascii (false, true, false, false, true, true,
               true, false)), (String ((Ascii (false, false, true, false,
               true, true, true, false)), (String ((Ascii (false, true, true,
               true, false, true, false, false)), EmptyString)))))) (fst p)),
            (snd p))) (run_parse ECompound (firstn w img))
        | _ ->
          map (fun p ->
            ((append (String ((Ascii (false, true, false, false, true, true,
               true, false)), (String ((Ascii (false, false, true, false,
               true, true, true, false)), (String ((Ascii (false, true, true,
               true, false, true, false, false)), EmptyString)))))) (fst p)),
            (snd p))) (run_parse EPacket (firstn w img)))
     | _ -> [])
  | _ -> []

(** val run_build : member -> (nat * n) list -> kv list **)

let run_build m bufs =
  app (((String ((Ascii (true, true, false, false, true, true, true, false)),
    (String ((Ascii (true, false, false, true, false, true, true, false)),
    (String ((Ascii (false, true, false, true, true, true, true, false)),
    (String ((Ascii (true, false, true, false, false, true, true, false)),
    EmptyString)))))))), (obs_wres (fun x -> OI x) (m_calc m))) :: (((String
    ((Ascii (true, true, true, false, false, true, true, false)), (String
    ((Ascii (true, false, true, false, false, true, true, false)), (String
    ((Ascii (false, false, true, false, true, true, true, false)), (String
    ((Ascii (true, true, true, true, true, false, true, false)), (String
    ((Ascii (false, false, false, false, true, true, true, false)), (String
    ((Ascii (true, false, false, false, false, true, true, false)), (String
    ((Ascii (false, false, true, false, false, true, true, false)), (String
    ((Ascii (false, false, true, false, false, true, true, false)), (String
    ((Ascii (true, false, false, true, false, true, true, false)), (String
    ((Ascii (false, true, true, true, false, true, true, false)), (String
    ((Ascii (true, true, true, false, false, true, true, false)),
    EmptyString)))))))))))))))))))))), (obs_optN (m_padding m))) :: (((String
    ((Ascii (true, true, true, false, true, true, true, false)), (String
    ((Ascii (false, true, false, false, true, true, true, false)), (String
    ((Ascii (true, false, false, true, false, true, true, false)), (String
    ((Ascii (false, false, true, false, true, true, true, false)), (String
    ((Ascii (true, false, true, false, false, true, true, false)), (String
    ((Ascii (true, true, false, false, true, true, true, false)),
    EmptyString)))))))))))), (OL
    (map (fun b -> obs_write (m_write_into m (mk_buf b))) bufs))) :: [])))
    (obs_roundtrip m (match bufs with
                      | [] -> N0
                      | b :: _ -> snd b))

(** val run_build_chunk : chunk_cfg -> (nat * n) list -> kv list **)

let run_build_chunk c bufs =
  ((String ((Ascii (true, true, true, false, true, true, true, false)),
    (String ((Ascii (false, true, false, false, true, true, true, false)),
    (String ((Ascii (true, false, false, true, false, true, true, false)),
    (String ((Ascii (false, false, true, false, true, true, true, false)),
    (String ((Ascii (true, false, true, false, false, true, true, false)),
    (String ((Ascii (true, true, false, false, true, true, true, false)),
    EmptyString)))))))))))), (OL
    (map (fun b -> obs_write (chunk_write_into c (mk_buf b))) bufs))) :: []

(** val run_build_item : item_cfg -> (nat * n) list -> kv list **)

let run_build_item c bufs =
  ((String ((Ascii (true, true, true, false, true, true, true, false)),
    (String ((Ascii (false, true, false, false, true, true, true, false)),
    (String ((Ascii (true, false, false, true, false, true, true, false)),
    (String ((Ascii (false, false, true, false, true, true, true, false)),
    (String ((Ascii (true, false, true, false, false, true, true, false)),
    (String ((Ascii (true, true, false, false, true, true, true, false)),
    EmptyString)))))))))))), (OL
    (map (fun b -> obs_write (item_write_into c (mk_buf b))) bufs))) :: []

(** val obs_unchecked : (nat * bytes) wres -> obs **)

let obs_unchecked = function
| Ok a -> let (n0, b) = a in obs_write ((Ok n0), b)
| Err e -> obs_write ((Err e), [])
| Panic -> obs_write (Panic, [])
| Fuel -> obs_write (Fuel, [])

(** val run_helper_pad : n -> (nat * n) -> kv list **)

let run_helper_pad padding buf =
  ((String ((Ascii (true, true, true, false, true, true, true, false)),
    EmptyString)),
    (obs_unchecked (write_padding_unchecked padding (mk_buf buf)))) :: []

(** val run_helper_hdr : n -> n -> n -> (nat * n) -> kv list **)

let run_helper_hdr pt padding count buf =
  ((String ((Ascii (true, true, true, false, true, true, true, false)),
    EmptyString)),
    (obs_unchecked (write_header_unchecked pt padding count (mk_buf buf)))) :: []

(** val run_helper_chk : n -> kv list **)

let run_helper_chk padding =
  ((String ((Ascii (true, true, true, false, true, true, true, false)),
    EmptyString)),
    (obs_wres (fun _ -> OS (String ((Ascii (true, false, true, false, true,
      true, true, false)), (String ((Ascii (false, true, true, true, false,
      true, true, false)), (String ((Ascii (true, false, false, true, false,
      true, true, false)), (String ((Ascii (false, false, true, false, true,
      true, true, false)), EmptyString))))))))) (check_padding padding))) :: []

(** val run_helper_phdr : bytes -> kv list **)

let run_helper_phdr d =
  ((String ((Ascii (true, true, true, false, true, true, true, false)),
    EmptyString)), (OL
    ((obs_pres (fun x -> ON x) (parse_version d)) :: ((obs_pres (fun b -> OS
                                                        (if b
                                                         then String ((Ascii
                                                                (false,
                                                                false, true,
                                                                false, true,
                                                                true, true,
                                                                false)),
                                                                (String
                                                                ((Ascii
                                                                (false, true,
                                                                false, false,
                                                                true, true,
                                                                true,
                                                                false)),
                                                                (String
                                                                ((Ascii
                                                                (true, false,
                                                                true, false,
                                                                true, true,
                                                                true,
                                                                false)),
                                                                (String
                                                                ((Ascii
                                                                (true, false,
                                                                true, false,
                                                                false, true,
                                                                true,
                                                                false)),
                                                                EmptyString)))))))
                                                         else String ((Ascii
                                                                (false, true,
                                                                true, false,
                                                                false, true,
                                                                true,
                                                                false)),
                                                                (String
                                                                ((Ascii
                                                                (true, false,
                                                                false, false,
                                                                false, true,
                                                                true,
                                                                false)),
                                                                (String
                                                                ((Ascii
                                                                (false,
                                                                false, true,
                                                                true, false,
                                                                true, true,
                                                                false)),
                                                                (String
                                                                ((Ascii
                                                                (true, true,
                                                                false, false,
                                                                true, true,
                                                                true,
                                                                false)),
                                                                (String
                                                                ((Ascii
                                                                (true, false,
                                                                true, false,
                                                                false, true,
                                                                true,
                                                                false)),
                                                                EmptyString)))))))))))
                                                        (parse_padding_bit d)) :: (
    (obs_pres obs_optN (parse_padding d)) :: ((obs_pres (fun x -> ON x)
                                                (parse_count d)) :: (
    (obs_pres (fun x -> ON x) (parse_packet_type d)) :: ((obs_pres (fun x ->
                                                           OI x)
                                                           (parse_length d)) :: (
    (obs_pres (fun x -> ON x) (parse_ssrc d)) :: []))))))))) :: []

(** val run_build_unchecked : member -> nat -> n -> kv list **)

let run_build_unchecked m extra fill =
  match m_calc m with
  | Ok n0 ->
    ((String ((Ascii (true, false, true, false, true, true, true, false)),
      (String ((Ascii (true, true, true, false, true, true, true, false)),
      EmptyString)))),
      (obs_unchecked (m_write_unchecked m (repeat fill (add n0 extra))))) :: []
  | Err e ->
    (match e with
     | FciWrongFeedbackPacketType ->
       (match m with
        | MFb _ ->
          ((String ((Ascii (true, false, true, false, true, true, true,
            false)), (String ((Ascii (true, true, true, false, true, true,
            true, false)), EmptyString)))),
            (obs_unchecked
              (m_write_unchecked m
                (repeat fill
                  (add (S (S (S (S (S (S (S (S (S (S (S (S (S (S (S (S
                    O)))))))))))))))) extra))))) :: []
        | _ -> [])
     | _ -> [])
  | _ -> []

(** val fci_write_into : fci_cfg -> bytes -> nat wres * bytes **)

let fci_write_into f buf =
  write_into_gen (fci_calc f) (fci_write f) buf

(** val run_build_fci : fci_cfg -> (nat * n) list -> kv list **)

let run_build_fci f bufs =
  ((String ((Ascii (true, true, false, false, true, true, true, false)),
    (String ((Ascii (true, false, false, true, false, true, true, false)),
    (String ((Ascii (false, true, false, true, true, true, true, false)),
    (String ((Ascii (true, false, true, false, false, true, true, false)),
    EmptyString)))))))),
    (obs_wres (fun x -> OI x) (fci_calc f))) :: (((String ((Ascii (true,
    true, true, false, true, true, true, false)), (String ((Ascii (false,
    true, false, false, true, true, true, false)), (String ((Ascii (true,
    false, false, true, false, true, true, false)), (String ((Ascii (false,
    false, true, false, true, true, true, false)), (String ((Ascii (true,
    false, true, false, false, true, true, false)), (String ((Ascii (true,
    true, false, false, true, true, true, false)), EmptyString)))))))))))),
    (OL (map (fun b -> obs_write (fci_write_into f (mk_buf b))) bufs))) :: [])

type op =
| OPad of n
| ONtp of n
| ORtp of n
| OPc of n
| OOc of n
| ORb of rb_cfg
| OSubtype of n
| OData of bytes
| OSrc of n
| OReason of bytes
| OReasonOwned of bytes
| OChunk of chunk_cfg
| OCount of n
| OSender of n
| OMedia of n

type item_op =
| IPrefix of bytes
| IIntoOwned

type item_hist = { ih_type : n; ih_value : bytes; ih_ops : item_op list;
                   ih_add_owned : bool }

type chunk_hist = { chh_ssrc : n; chh_items : item_hist list }

(** val item_apply : item_cfg -> item_op -> item_cfg **)

let item_apply c = function
| IPrefix p ->
  { it_c_type = c.it_c_type; it_c_prefix = p; it_c_value = c.it_c_value }
| IIntoOwned ->
  { it_c_type = c.it_c_type; it_c_prefix = c.it_c_prefix; it_c_value =
    c.it_c_value }

(** val item_of_hist : item_hist -> item_cfg **)

let item_of_hist h =
  let c =
    fold_left item_apply h.ih_ops { it_c_type = h.ih_type; it_c_prefix = [];
      it_c_value = h.ih_value }
  in
  if h.ih_add_owned then item_apply c IIntoOwned else c

(** val chunk_of_hist : chunk_hist -> chunk_cfg **)

let chunk_of_hist h =
  { ch_c_ssrc = h.chh_ssrc; ch_c_items = (map item_of_hist h.chh_items) }

type rpsi_op =
| RPt of n
| RData of bytes * n
| RDataOwned of bytes * n

type rpsi_st = { rp_pt : n; rp_bits : bytes; rp_ov : n }

(** val rpsi_apply : rpsi_st -> rpsi_op -> rpsi_st **)

let rpsi_apply s = function
| RPt v -> { rp_pt = v; rp_bits = s.rp_bits; rp_ov = s.rp_ov }
| RData (d, ov) -> { rp_pt = s.rp_pt; rp_bits = d; rp_ov = ov }
| RDataOwned (d, ov) -> { rp_pt = s.rp_pt; rp_bits = d; rp_ov = ov }

type fci_hist =
| FHNack of n list
| FHFir of (n * n) list
| FHSli of ((n * n) * n) list
| FHRpsi of rpsi_op list
| FHPli

(** val fci_of_hist : fci_hist -> fci_cfg **)

let fci_of_hist = function
| FHNack a -> FNack a
| FHFir a -> FFir a
| FHSli a -> FSli a
| FHRpsi ops ->
  let s = fold_left rpsi_apply ops { rp_pt = N0; rp_bits = []; rp_ov = N0 } in
  FRpsi (s.rp_pt, s.rp_bits, s.rp_ov)
| FHPli -> FPli

(** val apply_op : member -> op -> member **)

let apply_op m o =
  match m with
  | MSr c ->
    (match o with
     | OPad p ->
       MSr { sr_c_ssrc = c.sr_c_ssrc; sr_c_padding = p; sr_c_ntp =
         c.sr_c_ntp; sr_c_rtp = c.sr_c_rtp; sr_c_pc = c.sr_c_pc; sr_c_oc =
         c.sr_c_oc; sr_c_blocks = c.sr_c_blocks }
     | ONtp v ->
       MSr { sr_c_ssrc = c.sr_c_ssrc; sr_c_padding = c.sr_c_padding;
         sr_c_ntp = v; sr_c_rtp = c.sr_c_rtp; sr_c_pc = c.sr_c_pc; sr_c_oc =
         c.sr_c_oc; sr_c_blocks = c.sr_c_blocks }
     | ORtp v ->
       MSr { sr_c_ssrc = c.sr_c_ssrc; sr_c_padding = c.sr_c_padding;
         sr_c_ntp = c.sr_c_ntp; sr_c_rtp = v; sr_c_pc = c.sr_c_pc; sr_c_oc =
         c.sr_c_oc; sr_c_blocks = c.sr_c_blocks }
     | OPc v ->
       MSr { sr_c_ssrc = c.sr_c_ssrc; sr_c_padding = c.sr_c_padding;
         sr_c_ntp = c.sr_c_ntp; sr_c_rtp = c.sr_c_rtp; sr_c_pc = v; sr_c_oc =
         c.sr_c_oc; sr_c_blocks = c.sr_c_blocks }
     | OOc v ->
       MSr { sr_c_ssrc = c.sr_c_ssrc; sr_c_padding = c.sr_c_padding;
         sr_c_ntp = c.sr_c_ntp; sr_c_rtp = c.sr_c_rtp; sr_c_pc = c.sr_c_pc;
         sr_c_oc = v; sr_c_blocks = c.sr_c_blocks }
     | ORb b ->
       MSr { sr_c_ssrc = c.sr_c_ssrc; sr_c_padding = c.sr_c_padding;
         sr_c_ntp = c.sr_c_ntp; sr_c_rtp = c.sr_c_rtp; sr_c_pc = c.sr_c_pc;
         sr_c_oc = c.sr_c_oc; sr_c_blocks = (app c.sr_c_blocks (b :: [])) }
     | _ -> m)
  | MRr c ->
    (match o with
     | OPad p ->
       MRr { rr_c_ssrc = c.rr_c_ssrc; rr_c_padding = p; rr_c_blocks =
         c.rr_c_blocks }
     | ORb b ->
       MRr { rr_c_ssrc = c.rr_c_ssrc; rr_c_padding = c.rr_c_padding;
         rr_c_blocks = (app c.rr_c_blocks (b :: [])) }
     | _ -> m)
  | MApp c ->
    (match o with
     | OPad p ->
       MApp { app_c_ssrc = c.app_c_ssrc; app_c_padding = p; app_c_subtype =
         c.app_c_subtype; app_c_name = c.app_c_name; app_c_data =
         c.app_c_data }
     | OSubtype v ->
       MApp { app_c_ssrc = c.app_c_ssrc; app_c_padding = c.app_c_padding;
         app_c_subtype = v; app_c_name = c.app_c_name; app_c_data =
         c.app_c_data }
     | OData d ->
       MApp { app_c_ssrc = c.app_c_ssrc; app_c_padding = c.app_c_padding;
         app_c_subtype = c.app_c_subtype; app_c_name = c.app_c_name;
         app_c_data = d }
     | _ -> m)
  | MBye c ->
    (match o with
     | OPad p ->
       MBye { bye_c_padding = p; bye_c_sources = c.bye_c_sources;
         bye_c_reason = c.bye_c_reason }
     | OSrc s ->
       MBye { bye_c_padding = c.bye_c_padding; bye_c_sources =
         (app c.bye_c_sources (s :: [])); bye_c_reason = c.bye_c_reason }
     | OReason r ->
       MBye { bye_c_padding = c.bye_c_padding; bye_c_sources =
         c.bye_c_sources; bye_c_reason = r }
     | OReasonOwned r ->
       MBye { bye_c_padding = c.bye_c_padding; bye_c_sources =
         c.bye_c_sources; bye_c_reason = r }
     | _ -> m)
  | MSdes c ->
    (match o with
     | OPad p -> MSdes { sdes_c_padding = p; sdes_c_chunks = c.sdes_c_chunks }
     | OChunk ch ->
       MSdes { sdes_c_padding = c.sdes_c_padding; sdes_c_chunks =
         (app c.sdes_c_chunks (ch :: [])) }
     | _ -> m)
  | MFb c ->
    (match o with
     | OPad p ->
       MFb { fb_c_kind = c.fb_c_kind; fb_c_padding = p; fb_c_sender =
         c.fb_c_sender; fb_c_media = c.fb_c_media; fb_c_fci = c.fb_c_fci }
     | OSender v ->
       MFb { fb_c_kind = c.fb_c_kind; fb_c_padding = c.fb_c_padding;
         fb_c_sender = v; fb_c_media = c.fb_c_media; fb_c_fci = c.fb_c_fci }
     | OMedia v ->
       MFb { fb_c_kind = c.fb_c_kind; fb_c_padding = c.fb_c_padding;
         fb_c_sender = c.fb_c_sender; fb_c_media = v; fb_c_fci = c.fb_c_fci }
     | _ -> m)
  | MUnk c ->
    (match o with
     | OPad p ->
       MUnk { unk_c_padding = p; unk_c_type = c.unk_c_type; unk_c_count =
         c.unk_c_count; unk_c_data = c.unk_c_data }
     | OCount v ->
       MUnk { unk_c_padding = c.unk_c_padding; unk_c_type = c.unk_c_type;
         unk_c_count = v; unk_c_data = c.unk_c_data }
     | _ -> m)
  | _ -> m

type wrap =
| WDirect
| WPacketBuilder
| WCompound

type hist_init =
| HSr of n
| HRr of n
| HApp of n * bytes
| HBye
| HSdes
| HUnk of n * bytes
| HFb of fb_kind * fci_hist

(** val init_member : hist_init -> member **)

let init_member = function
| HSr s ->
  MSr { sr_c_ssrc = s; sr_c_padding = N0; sr_c_ntp = N0; sr_c_rtp = N0;
    sr_c_pc = N0; sr_c_oc = N0; sr_c_blocks = [] }
| HRr s -> MRr { rr_c_ssrc = s; rr_c_padding = N0; rr_c_blocks = [] }
| HApp (s, n0) ->
  MApp { app_c_ssrc = s; app_c_padding = N0; app_c_subtype = N0; app_c_name =
    n0; app_c_data = [] }
| HBye -> MBye { bye_c_padding = N0; bye_c_sources = []; bye_c_reason = [] }
| HSdes -> MSdes { sdes_c_padding = N0; sdes_c_chunks = [] }
| HUnk (t, d) ->
  MUnk { unk_c_padding = N0; unk_c_type = t; unk_c_count = N0; unk_c_data =
    d }
| HFb (k, f) ->
  MFb { fb_c_kind = k; fb_c_padding = N0; fb_c_sender = N0; fb_c_media = N0;
    fb_c_fci = (fci_of_hist f) }

type hist = { h_init : hist_init; h_ops : op list; h_wrap : wrap }

(** val member_of_hist : hist -> member **)

let member_of_hist h =
  let m = fold_left apply_op h.h_ops (init_member h.h_init) in
  (match h.h_wrap with
   | WCompound -> MCompound (m :: [])
   | _ -> m)

(** val run_hist : hist -> kv list **)

let run_hist h =
  let m = member_of_hist h in
  ((String ((Ascii (true, true, false, false, true, true, true, false)),
  (String ((Ascii (true, false, false, true, false, true, true, false)),
  (String ((Ascii (false, true, false, true, true, true, true, false)),
  (String ((Ascii (true, false, true, false, false, true, true, false)),
  EmptyString)))))))), (obs_wres (fun x -> OI x) (m_calc m))) :: (((String
  ((Ascii (true, true, true, false, false, true, true, false)), (String
  ((Ascii (true, false, true, false, false, true, true, false)), (String
  ((Ascii (false, false, true, false, true, true, true, false)), (String
  ((Ascii (true, true, true, true, true, false, true, false)), (String
  ((Ascii (false, false, false, false, true, true, true, false)), (String
  ((Ascii (true, false, false, false, false, true, true, false)), (String
  ((Ascii (false, false, true, false, false, true, true, false)), (String
  ((Ascii (false, false, true, false, false, true, true, false)), (String
  ((Ascii (true, false, false, true, false, true, true, false)), (String
  ((Ascii (false, true, true, true, false, true, true, false)), (String
  ((Ascii (true, true, true, false, false, true, true, false)),
  EmptyString)))))))))))))))))))))),
  (obs_optN (m_padding m))) :: (app
                                 (match m_calc m with
                                  | Ok n0 ->
                                    ((String ((Ascii (true, true, true,
                                      false, true, true, true, false)),
                                      (String ((Ascii (false, true, false,
                                      false, true, true, true, false)),
                                      (String ((Ascii (true, false, false,
                                      true, false, true, true, false)),
                                      (String ((Ascii (false, false, true,
                                      false, true, true, true, false)),
                                      (String ((Ascii (true, false, true,
                                      false, false, true, true, false)),
                                      (String ((Ascii (true, true, false,
                                      false, true, true, true, false)),
                                      EmptyString)))))))))))), (OL
                                      ((obs_write
                                         (m_write_into m
                                           (repeat (Npos (XO (XI (XO (XI (XO
                                             (XI (XO XH)))))))) n0))) :: []))) :: []
                                  | _ ->
                                    ((String ((Ascii (true, true, true,
                                      false, true, true, true, false)),
                                      (String ((Ascii (false, true, false,
                                      false, true, true, true, false)),
                                      (String ((Ascii (true, false, false,
                                      true, false, true, true, false)),
                                      (String ((Ascii (false, false, true,
                                      false, true, true, true, false)),
                                      (String ((Ascii (true, false, true,
                                      false, false, true, true, false)),
                                      (String ((Ascii (true, true, false,
                                      false, true, true, true, false)),
                                      EmptyString)))))))))))), (OL
                                      ((obs_write (m_write_into m [])) :: []))) :: [])
                                 (obs_roundtrip m (Npos (XO (XI (XO (XI (XO
                                   (XI (XO XH)))))))))))

(** val rfc_header : n -> n -> n -> nat -> bytes **)

let rfc_header pt padding count total =
  app
    ((N.add
       (N.add (Npos (XO (XO (XO (XO (XO (XO (XO XH))))))))
         (if N.ltb N0 padding then Npos (XO (XO (XO (XO (XO XH))))) else N0))
       count) :: (pt :: []))
    (be16 (N.of_nat (sub (Nat.div total (S (S (S (S O))))) (S O))))

(** val rfc_trailer : n -> bytes **)

let rfc_trailer padding =
  if N.ltb N0 padding
  then app (zeros (sub (N.to_nat padding) (S O))) (padding :: [])
  else []

(** val rfc_rb : rb_cfg -> bytes **)

let rfc_rb b =
  app (be32 b.rb_c_ssrc)
    (app (b.rb_c_fraction :: [])
      (app
        ((N.modulo
           (N.div b.rb_c_cumulative (Npos (XO (XO (XO (XO (XO (XO (XO (XO (XO
             (XO (XO (XO (XO (XO (XO (XO XH)))))))))))))))))) (Npos (XO (XO
           (XO (XO (XO (XO (XO (XO XH)))))))))) :: ((N.modulo
                                                      (N.div
                                                        b.rb_c_cumulative
                                                        (Npos (XO (XO (XO (XO
                                                        (XO (XO (XO (XO
                                                        XH)))))))))) (Npos
                                                      (XO (XO (XO (XO (XO (XO
                                                      (XO (XO XH)))))))))) :: (
        (N.modulo b.rb_c_cumulative (Npos (XO (XO (XO (XO (XO (XO (XO (XO
          XH)))))))))) :: [])))
        (app (be32 b.rb_c_ext_seq)
          (app (be32 b.rb_c_jitter)
            (app (be32 b.rb_c_lsr) (be32 b.rb_c_dlsr))))))

(** val rfc_sr : sr_cfg -> bytes **)

let rfc_sr c =
  let total =
    add
      (add (S (S (S (S (S (S (S (S (S (S (S (S (S (S (S (S (S (S (S (S (S (S
        (S (S (S (S (S (S O))))))))))))))))))))))))))))
        (mul (S (S (S (S (S (S (S (S (S (S (S (S (S (S (S (S (S (S (S (S (S
          (S (S (S O)))))))))))))))))))))))) (length c.sr_c_blocks)))
      (N.to_nat c.sr_c_padding)
  in
  app
    (rfc_header (Npos (XO (XO (XO (XI (XO (XO (XI XH)))))))) c.sr_c_padding
      (N.of_nat (length c.sr_c_blocks)) total)
    (app (be32 c.sr_c_ssrc)
      (app (be64 c.sr_c_ntp)
        (app (be32 c.sr_c_rtp)
          (app (be32 c.sr_c_pc)
            (app (be32 c.sr_c_oc)
              (app (concat (map rfc_rb c.sr_c_blocks))
                (rfc_trailer c.sr_c_padding)))))))

(** val rfc_rr : rr_cfg -> bytes **)

let rfc_rr c =
  let total =
    add
      (add (S (S (S (S (S (S (S (S O))))))))
        (mul (S (S (S (S (S (S (S (S (S (S (S (S (S (S (S (S (S (S (S (S (S
          (S (S (S O)))))))))))))))))))))))) (length c.rr_c_blocks)))
      (N.to_nat c.rr_c_padding)
  in
  app
    (rfc_header (Npos (XI (XO (XO (XI (XO (XO (XI XH)))))))) c.rr_c_padding
      (N.of_nat (length c.rr_c_blocks)) total)
    (app (be32 c.rr_c_ssrc)
      (app (concat (map rfc_rb c.rr_c_blocks)) (rfc_trailer c.rr_c_padding)))

(** val rfc_app : app_cfg -> bytes **)

let rfc_app c =
  let total =
    add
      (add (S (S (S (S (S (S (S (S (S (S (S (S O))))))))))))
        (length c.app_c_data)) (N.to_nat c.app_c_padding)
  in
  app
    (rfc_header (Npos (XO (XO (XI (XI (XO (XO (XI XH)))))))) c.app_c_padding
      c.app_c_subtype total)
    (app (be32 c.app_c_ssrc)
      (app c.app_c_name
        (app (zeros (sub (S (S (S (S O)))) (length c.app_c_name)))
          (app c.app_c_data (rfc_trailer c.app_c_padding)))))

(** val rfc_reason : bytes -> bytes **)

let rfc_reason r = match r with
| [] -> []
| _ :: _ ->
  (N.of_nat (length r)) :: (app r
                             (zeros
                               (Nat.modulo
                                 (sub (S (S (S (S O))))
                                   (Nat.modulo (add (S O) (length r)) (S (S
                                     (S (S O)))))) (S (S (S (S O)))))))

(** val rfc_bye : bye_cfg -> bytes **)

let rfc_bye c =
  let body =
    app (concat (map be32 c.bye_c_sources)) (rfc_reason c.bye_c_reason)
  in
  let total =
    add (add (S (S (S (S O)))) (length body)) (N.to_nat c.bye_c_padding)
  in
  app
    (rfc_header (Npos (XI (XI (XO (XI (XO (XO (XI XH)))))))) c.bye_c_padding
      (N.of_nat (length c.bye_c_sources)) total)
    (app body (rfc_trailer c.bye_c_padding))

(** val rfc_item : item_cfg -> bytes **)

let rfc_item i =
  if N.eqb i.it_c_type (Npos (XO (XO (XO XH))))
  then app
         (i.it_c_type :: ((N.of_nat
                            (add (add (S O) (length i.it_c_prefix))
                              (length i.it_c_value))) :: ((N.of_nat
                                                            (length
                                                              i.it_c_prefix)) :: [])))
         (app i.it_c_prefix i.it_c_value)
  else app (i.it_c_type :: ((N.of_nat (length i.it_c_value)) :: []))
         i.it_c_value

(** val rfc_chunk : chunk_cfg -> bytes **)

let rfc_chunk c =
  let items = concat (map rfc_item c.ch_c_items) in
  app (be32 c.ch_c_ssrc)
    (app items
      (zeros
        (sub (S (S (S (S O)))) (Nat.modulo (length items) (S (S (S (S O))))))))

(** val rfc_sdes : sdes_cfg -> bytes **)

let rfc_sdes c =
  let body = concat (map rfc_chunk c.sdes_c_chunks) in
  let total =
    add (add (S (S (S (S O)))) (length body)) (N.to_nat c.sdes_c_padding)
  in
  app
    (rfc_header (Npos (XO (XI (XO (XI (XO (XO (XI XH)))))))) c.sdes_c_padding
      (N.of_nat (length c.sdes_c_chunks)) total)
    (app body (rfc_trailer c.sdes_c_padding))

(** val nack_take : n -> n list -> n * n list **)

let rec nack_take pid l = match l with
| [] -> (N0, [])
| x :: r ->
  if N.leb x (N.add pid (Npos (XO (XO (XO (XO XH))))))
  then let (blp, rest) = nack_take pid r in
       ((N.add (N.pow (Npos (XO XH)) (N.sub (N.sub x pid) (Npos XH))) blp),
       rest)
  else (N0, l)

(** val rfc_nack_words : nat -> n list -> (n * n) list **)

let rec rfc_nack_words fuel l =
  match fuel with
  | O -> []
  | S f ->
    (match l with
     | [] -> []
     | pid :: r ->
       let (blp, rest) = nack_take pid r in
       (pid, blp) :: (rfc_nack_words f rest))

(** val insert_sorted : n -> n list -> n list **)

let rec insert_sorted x l = match l with
| [] -> x :: []
| y :: r ->
  if N.ltb x y
  then x :: l
  else if N.eqb x y then l else y :: (insert_sorted x r)

(** val rfc_set : n list -> n list **)

let rfc_set adds =
  fold_right insert_sorted [] adds

(** val rfc_fir_lookup : (n * n) list -> n -> n option **)

let rfc_fir_lookup adds k =
  fold_left (fun acc kv0 ->
    if N.eqb (fst kv0) k then Some (snd kv0) else acc) adds None

(** val rfc_nodup_keys : n list -> (n * n) list -> n list **)

let rec rfc_nodup_keys seen = function
| [] -> []
| p :: r ->
  let (k, _) = p in
  if existsb (N.eqb k) seen
  then rfc_nodup_keys seen r
  else k :: (rfc_nodup_keys (k :: seen) r)

(** val rfc_fir_map : (n * n) list -> (n * n) list **)

let rfc_fir_map adds =
  map (fun k -> (k,
    (match rfc_fir_lookup adds k with
     | Some v -> v
     | None -> N0))) (rfc_nodup_keys [] adds)

(** val rfc_sli_word : ((n * n) * n) -> bytes **)

let rfc_sli_word = function
| (p, pid) ->
  let (first, number) = p in
  be32
    (N.add
      (N.add
        (N.mul
          (N.modulo first (Npos (XO (XO (XO (XO (XO (XO (XO (XO (XO (XO (XO
            (XO (XO XH))))))))))))))) (Npos (XO (XO (XO (XO (XO (XO (XO (XO
          (XO (XO (XO (XO (XO (XO (XO (XO (XO (XO (XO XH)))))))))))))))))))))
        (N.mul
          (N.modulo number (Npos (XO (XO (XO (XO (XO (XO (XO (XO (XO (XO (XO
            (XO (XO XH))))))))))))))) (Npos (XO (XO (XO (XO (XO (XO XH)))))))))
      (N.modulo pid (Npos (XO (XO (XO (XO (XO (XO XH)))))))))

(** val rfc_rpsi : n -> bytes -> n -> bytes **)

let rfc_rpsi pt bits overrun =
  let fill =
    Nat.modulo
      (sub (S (S (S (S O))))
        (Nat.modulo (add (S (S O)) (length bits)) (S (S (S (S O)))))) (S (S
      (S (S O))))
  in
  let body =
    match bits with
    | [] -> []
    | _ :: _ ->
      app (removelast bits)
        ((N.mul (N.div (last bits N0) (N.pow (Npos (XO XH)) overrun))
           (N.pow (Npos (XO XH)) overrun)) :: [])
  in
  app
    ((N.add (N.of_nat (mul (S (S (S (S (S (S (S (S O)))))))) fill)) overrun) :: (pt :: []))
    (app body (zeros fill))

(** val rfc_fci : fci_cfg -> bytes **)

let rfc_fci = function
| FNack adds ->
  let s = rfc_set adds in
  concat
    (map (fun w -> app (be16 (fst w)) (be16 (snd w)))
      (rfc_nack_words (length s) s))
| FFir adds ->
  concat
    (map (fun kv0 ->
      app (be32 (fst kv0)) ((snd kv0) :: (N0 :: (N0 :: (N0 :: [])))))
      (rfc_fir_map adds))
| FSli es -> concat (map rfc_sli_word es)
| FRpsi (pt, bits, ov) -> rfc_rpsi pt bits ov
| FPli -> []

(** val rfc_fb : fb_cfg -> bytes **)

let rfc_fb c =
  let fci = rfc_fci c.fb_c_fci in
  let total =
    add (add (S (S (S (S (S (S (S (S (S (S (S (S O)))))))))))) (length fci))
      (N.to_nat c.fb_c_padding)
  in
  app
    (rfc_header
      (match c.fb_c_kind with
       | Transport -> Npos (XI (XO (XI (XI (XO (XO (XI XH)))))))
       | Payload -> Npos (XO (XI (XI (XI (XO (XO (XI XH))))))))
      c.fb_c_padding
      (match c.fb_c_fci with
       | FFir _ -> Npos (XO (XO XH))
       | FSli _ -> Npos (XO XH)
       | FRpsi (_, _, _) -> Npos (XI XH)
       | _ -> Npos XH) total)
    (app (be32 c.fb_c_sender)
      (app (be32 c.fb_c_media) (app fci (rfc_trailer c.fb_c_padding))))

(** val rfc_raw : n -> n -> n -> bytes -> bytes **)

let rfc_raw pt padding count payload =
  let total = add (add (S (S (S (S O)))) (length payload)) (N.to_nat padding)
  in
  app (rfc_header pt padding count total) (app payload (rfc_trailer padding))

(** val rfc_image : member -> bytes **)

let rec rfc_image = function
| MSr c -> rfc_sr c
| MRr c -> rfc_rr c
| MApp c -> rfc_app c
| MBye c -> rfc_bye c
| MSdes c -> rfc_sdes c
| MFb c -> rfc_fb c
| MUnk c -> rfc_raw c.unk_c_type c.unk_c_padding c.unk_c_count c.unk_c_data
| MCustom c -> rfc_raw c.cu_pt c.cu_padding c.cu_count c.cu_payload
| MCompound ms -> concat (map rfc_image ms)

(** val well_framed : nat -> n -> bytes -> bool **)

let well_framed min pt l = match l with
| [] -> false
| b0 :: l0 ->
  (match l0 with
   | [] -> false
   | b1 :: l1 ->
     (match l1 with
      | [] -> false
      | b2 :: l2 ->
        (match l2 with
         | [] -> false
         | b3 :: _ ->
           (&&)
             ((&&)
               ((&&)
                 ((&&) (Nat.leb min (length l))
                   (N.eqb (N.div b0 (Npos (XO (XO (XO (XO (XO (XO XH))))))))
                     (Npos (XO XH)))) (N.eqb b1 pt))
               (Nat.eqb (length l)
                 (mul (S (S (S (S O))))
                   (add
                     (N.to_nat
                       (N.add
                         (N.mul b2 (Npos (XO (XO (XO (XO (XO (XO (XO (XO
                           XH)))))))))) b3)) (S O)))))
             (if N.eqb
                   (N.modulo (N.div b0 (Npos (XO (XO (XO (XO (XO XH)))))))
                     (Npos (XO XH))) (Npos XH)
              then let p = N.to_nat (last l N0) in
                   (&&) (Nat.ltb O p) (Nat.leb (add min p) (length l))
              else true))))

(** val raw_framed : bytes -> bool **)

let raw_framed l = match l with
| [] -> false
| b0 :: l0 ->
  (match l0 with
   | [] -> false
   | _ :: l1 ->
     (match l1 with
      | [] -> false
      | b2 :: l2 ->
        (match l2 with
         | [] -> false
         | b3 :: _ ->
           (&&)
             (N.eqb (N.div b0 (Npos (XO (XO (XO (XO (XO (XO XH)))))))) (Npos
               (XO XH)))
             (Nat.eqb (length l)
               (mul (S (S (S (S O))))
                 (add
                   (N.to_nat
                     (N.add
                       (N.mul b2 (Npos (XO (XO (XO (XO (XO (XO (XO (XO
                         XH)))))))))) b3)) (S O)))))))

(** val okO : obs -> obs **)

let okO o =
  OL ((OS (String ((Ascii (true, true, true, true, false, true, true,
    false)), (String ((Ascii (true, true, false, true, false, true, true,
    false)), EmptyString))))) :: (o :: []))

(** val okN : n -> obs **)

let okN x =
  okO (ON x)

(** val okI : nat -> obs **)

let okI x =
  okO (OI x)

(** val okPad : n -> obs **)

let okPad padding =
  okO (obs_optN (get_padding_of padding))

(** val exp_hdr : n -> n -> nat -> obs **)

let exp_hdr pt count total =
  okO (OL
    ((okN (Npos (XO XH))) :: ((okN pt) :: ((okN count) :: ((okN count) :: (
    (okI total) :: []))))))

(** val exp_rb : rb_cfg -> obs **)

let exp_rb b =
  OL
    ((okN b.rb_c_ssrc) :: ((okN b.rb_c_fraction) :: ((okN b.rb_c_cumulative) :: (
    (okN b.rb_c_ext_seq) :: ((okN b.rb_c_jitter) :: ((okN b.rb_c_lsr) :: (
    (okN b.rb_c_dlsr) :: [])))))))

(** val exp_sr : sr_cfg -> kv list **)

let exp_sr c =
  let nb = N.of_nat (length c.sr_c_blocks) in
  ((String ((Ascii (false, false, false, true, false, true, true, false)),
  (String ((Ascii (false, false, true, false, false, true, true, false)),
  (String ((Ascii (false, true, false, false, true, true, true, false)),
  EmptyString)))))),
  (exp_hdr (Npos (XO (XO (XO (XI (XO (XO (XI XH)))))))) nb
    (add
      (add (S (S (S (S (S (S (S (S (S (S (S (S (S (S (S (S (S (S (S (S (S (S
        (S (S (S (S (S (S O))))))))))))))))))))))))))))
        (mul (S (S (S (S (S (S (S (S (S (S (S (S (S (S (S (S (S (S (S (S (S
          (S (S (S O)))))))))))))))))))))))) (length c.sr_c_blocks)))
      (N.to_nat c.sr_c_padding)))) :: (((String ((Ascii (false, false, false,
  false, true, true, true, false)), (String ((Ascii (true, false, false,
  false, false, true, true, false)), (String ((Ascii (false, false, true,
  false, false, true, true, false)), (String ((Ascii (false, false, true,
  false, false, true, true, false)), (String ((Ascii (true, false, false,
  true, false, true, true, false)), (String ((Ascii (false, true, true, true,
  false, true, true, false)), (String ((Ascii (true, true, true, false,
  false, true, true, false)), EmptyString)))))))))))))),
  (okPad c.sr_c_padding)) :: (((String ((Ascii (false, true, true, true,
  false, true, true, false)), (String ((Ascii (true, true, true, true, true,
  false, true, false)), (String ((Ascii (false, true, false, false, true,
  true, true, false)), (String ((Ascii (true, false, true, false, false,
  true, true, false)), (String ((Ascii (false, false, false, false, true,
  true, true, false)), (String ((Ascii (true, true, true, true, false, true,
  true, false)), (String ((Ascii (false, true, false, false, true, true,
  true, false)), (String ((Ascii (false, false, true, false, true, true,
  true, false)), (String ((Ascii (true, true, false, false, true, true, true,
  false)), EmptyString)))))))))))))))))), (okN nb)) :: (((String ((Ascii
  (true, true, false, false, true, true, true, false)), (String ((Ascii
  (true, true, false, false, true, true, true, false)), (String ((Ascii
  (false, true, false, false, true, true, true, false)), (String ((Ascii
  (true, true, false, false, false, true, true, false)), EmptyString)))))))),
  (okN c.sr_c_ssrc)) :: (((String ((Ascii (false, true, true, true, false,
  true, true, false)), (String ((Ascii (false, false, true, false, true,
  true, true, false)), (String ((Ascii (false, false, false, false, true,
  true, true, false)), EmptyString)))))), (okN c.sr_c_ntp)) :: (((String
  ((Ascii (false, true, false, false, true, true, true, false)), (String
  ((Ascii (false, false, true, false, true, true, true, false)), (String
  ((Ascii (false, false, false, false, true, true, true, false)),
  EmptyString)))))), (okN c.sr_c_rtp)) :: (((String ((Ascii (false, false,
  false, false, true, true, true, false)), (String ((Ascii (true, true,
  false, false, false, true, true, false)), EmptyString)))),
  (okN c.sr_c_pc)) :: (((String ((Ascii (true, true, true, true, false, true,
  true, false)), (String ((Ascii (true, true, false, false, false, true,
  true, false)), EmptyString)))), (okN c.sr_c_oc)) :: (((String ((Ascii
  (false, true, false, false, true, true, true, false)), (String ((Ascii
  (false, true, false, false, false, true, true, false)), (String ((Ascii
  (true, true, false, false, true, true, true, false)), EmptyString)))))),
  (okO (OL (map exp_rb c.sr_c_blocks)))) :: []))))))))

(** val exp_rr : rr_cfg -> kv list **)

let exp_rr c =
  let nb = N.of_nat (length c.rr_c_blocks) in
  ((String ((Ascii (false, false, false, true, false, true, true, false)),
  (String ((Ascii (false, false, true, false, false, true, true, false)),
  (String ((Ascii (false, true, false, false, true, true, true, false)),
  EmptyString)))))),
  (exp_hdr (Npos (XI (XO (XO (XI (XO (XO (XI XH)))))))) nb
    (add
      (add (S (S (S (S (S (S (S (S O))))))))
        (mul (S (S (S (S (S (S (S (S (S (S (S (S (S (S (S (S (S (S (S (S (S
          (S (S (S O)))))))))))))))))))))))) (length c.rr_c_blocks)))
      (N.to_nat c.rr_c_padding)))) :: (((String ((Ascii (false, false, false,
  false, true, true, true, false)), (String ((Ascii (true, false, false,
  false, false, true, true, false)), (String ((Ascii (false, false, true,
  false, false, true, true, false)), (String ((Ascii (false, false, true,
  false, false, true, true, false)), (String ((Ascii (true, false, false,
  true, false, true, true, false)), (String ((Ascii (false, true, true, true,
  false, true, true, false)), (String ((Ascii (true, true, true, false,
  false, true, true, false)), EmptyString)))))))))))))),
  (okPad c.rr_c_padding)) :: (((String ((Ascii (false, true, true, true,
  false, true, true, false)), (String ((Ascii (true, true, true, true, true,
  false, true, false)), (String ((Ascii (false, true, false, false, true,
  true, true, false)), (String ((Ascii (true, false, true, false, false,
  true, true, false)), (String ((Ascii (false, false, false, false, true,
  true, true, false)), (String ((Ascii (true, true, true, true, false, true,
  true, false)), (String ((Ascii (false, true, false, false, true, true,
  true, false)), (String ((Ascii (false, false, true, false, true, true,
  true, false)), (String ((Ascii (true, true, false, false, true, true, true,
  false)), EmptyString)))))))))))))))))), (okN nb)) :: (((String ((Ascii
  (true, true, false, false, true, true, true, false)), (String ((Ascii
  (true, true, false, false, true, true, true, false)), (String ((Ascii
  (false, true, false, false, true, true, true, false)), (String ((Ascii
  (true, true, false, false, false, true, true, false)), EmptyString)))))))),
  (okN c.rr_c_ssrc)) :: (((String ((Ascii (false, true, false, false, true,
  true, true, false)), (String ((Ascii (false, true, false, false, false,
  true, true, false)), (String ((Ascii (true, true, false, false, true, true,
  true, false)), EmptyString)))))),
  (okO (OL (map exp_rb c.rr_c_blocks)))) :: []))))

(** val exp_app : app_cfg -> kv list **)

let exp_app c =
  ((String ((Ascii (false, false, false, true, false, true, true, false)),
    (String ((Ascii (false, false, true, false, false, true, true, false)),
    (String ((Ascii (false, true, false, false, true, true, true, false)),
    EmptyString)))))),
    (exp_hdr (Npos (XO (XO (XI (XI (XO (XO (XI XH)))))))) c.app_c_subtype
      (add
        (add (S (S (S (S (S (S (S (S (S (S (S (S O))))))))))))
          (length c.app_c_data)) (N.to_nat c.app_c_padding)))) :: (((String
    ((Ascii (false, false, false, false, true, true, true, false)), (String
    ((Ascii (true, false, false, false, false, true, true, false)), (String
    ((Ascii (false, false, true, false, false, true, true, false)), (String
    ((Ascii (false, false, true, false, false, true, true, false)), (String
    ((Ascii (true, false, false, true, false, true, true, false)), (String
    ((Ascii (false, true, true, true, false, true, true, false)), (String
    ((Ascii (true, true, true, false, false, true, true, false)),
    EmptyString)))))))))))))), (okPad c.app_c_padding)) :: (((String ((Ascii
    (true, true, false, false, true, true, true, false)), (String ((Ascii
    (true, true, false, false, true, true, true, false)), (String ((Ascii
    (false, true, false, false, true, true, true, false)), (String ((Ascii
    (true, true, false, false, false, true, true, false)),
    EmptyString)))))))), (okN c.app_c_ssrc)) :: (((String ((Ascii (false,
    true, true, true, false, true, true, false)), (String ((Ascii (true,
    false, false, false, false, true, true, false)), (String ((Ascii (true,
    false, true, true, false, true, true, false)), (String ((Ascii (true,
    false, true, false, false, true, true, false)), EmptyString)))))))),
    (okO (OB
      (app c.app_c_name (zeros (sub (S (S (S (S O)))) (length c.app_c_name))))))) :: (((String
    ((Ascii (false, false, true, false, false, true, true, false)), (String
    ((Ascii (true, false, false, false, false, true, true, false)), (String
    ((Ascii (false, false, true, false, true, true, true, false)), (String
    ((Ascii (true, false, false, false, false, true, true, false)),
    EmptyString)))))))),
    (okO
      (obs_range (S (S (S (S (S (S (S (S (S (S (S (S O))))))))))))
        (length c.app_c_data)))) :: []))))

(** val exp_bye : bye_cfg -> kv list **)

let exp_bye c =
  let ns = length c.bye_c_sources in
  ((String ((Ascii (false, false, false, true, false, true, true, false)),
  (String ((Ascii (false, false, true, false, false, true, true, false)),
  (String ((Ascii (false, true, false, false, true, true, true, false)),
  EmptyString)))))),
  (exp_hdr (Npos (XI (XI (XO (XI (XO (XO (XI XH)))))))) (N.of_nat ns)
    (add
      (add (add (S (S (S (S O)))) (mul (S (S (S (S O)))) ns))
        (length (rfc_reason c.bye_c_reason))) (N.to_nat c.bye_c_padding)))) :: (((String
  ((Ascii (false, false, false, false, true, true, true, false)), (String
  ((Ascii (true, false, false, false, false, true, true, false)), (String
  ((Ascii (false, false, true, false, false, true, true, false)), (String
  ((Ascii (false, false, true, false, false, true, true, false)), (String
  ((Ascii (true, false, false, true, false, true, true, false)), (String
  ((Ascii (false, true, true, true, false, true, true, false)), (String
  ((Ascii (true, true, true, false, false, true, true, false)),
  EmptyString)))))))))))))), (okPad c.bye_c_padding)) :: (((String ((Ascii
  (true, true, false, false, true, true, true, false)), (String ((Ascii
  (true, true, false, false, true, true, true, false)), (String ((Ascii
  (false, true, false, false, true, true, true, false)), (String ((Ascii
  (true, true, false, false, false, true, true, false)), (String ((Ascii
  (true, true, false, false, true, true, true, false)),
  EmptyString)))))))))),
  (okO (OL (map (fun x -> ON x) c.bye_c_sources)))) :: (((String ((Ascii
  (false, true, false, false, true, true, true, false)), (String ((Ascii
  (true, false, true, false, false, true, true, false)), (String ((Ascii
  (true, false, false, false, false, true, true, false)), (String ((Ascii
  (true, true, false, false, true, true, true, false)), (String ((Ascii
  (true, true, true, true, false, true, true, false)), (String ((Ascii
  (false, true, true, true, false, true, true, false)),
  EmptyString)))))))))))),
  (okO
    (match c.bye_c_reason with
     | [] ->
       OS (String ((Ascii (false, true, true, true, false, true, true,
         false)), (String ((Ascii (true, true, true, true, false, true, true,
         false)), (String ((Ascii (false, true, true, true, false, true,
         true, false)), (String ((Ascii (true, false, true, false, false,
         true, true, false)), EmptyString))))))))
     | n0 :: l ->
       OL ((OS (String ((Ascii (true, true, false, false, true, true, true,
         false)), (String ((Ascii (true, true, true, true, false, true, true,
         false)), (String ((Ascii (true, false, true, true, false, true,
         true, false)), (String ((Ascii (true, false, true, false, false,
         true, true, false)),
         EmptyString))))))))) :: ((obs_range
                                    (add
                                      (add (S (S (S (S O))))
                                        (mul (S (S (S (S O)))) ns)) (S O))
                                    (length (n0 :: l))) :: []))))) :: [])))

(** val item_size : item_cfg -> nat **)

let item_size i =
  length (rfc_item i)

(** val exp_item : nat -> item_cfg -> obs **)

let exp_item off i =
  if N.eqb i.it_c_type (Npos (XO (XO (XO XH))))
  then let pl = length i.it_c_prefix in
       OL
       ((okN (Npos (XO (XO (XO XH))))) :: ((okI
                                             (add (add (S O) pl)
                                               (length i.it_c_value))) :: (
       (okO
         (obs_range (add (add off (S (S (S O)))) pl) (length i.it_c_value))) :: (
       (okN (N.of_nat pl)) :: ((okO (obs_range (add off (S (S (S O)))) pl)) :: [])))))
  else OL
         ((okN i.it_c_type) :: ((okI (length i.it_c_value)) :: ((okO
                                                                  (obs_range
                                                                    (add off
                                                                    (S (S O)))
                                                                    (length
                                                                    i.it_c_value))) :: [])))

(** val exp_items : nat -> item_cfg list -> obs list **)

let rec exp_items off = function
| [] -> []
| i :: r -> (exp_item off i) :: (exp_items (add off (item_size i)) r)

(** val chunk_size : chunk_cfg -> nat **)

let chunk_size c =
  length (rfc_chunk c)

(** val exp_chunk : nat -> chunk_cfg -> obs **)

let exp_chunk off c =
  OL ((ON c.ch_c_ssrc) :: ((okI (chunk_size c)) :: ((OL
    (exp_items (add off (S (S (S (S O))))) c.ch_c_items)) :: [])))

(** val exp_chunks : nat -> chunk_cfg list -> obs list **)

let rec exp_chunks off = function
| [] -> []
| c :: r -> (exp_chunk off c) :: (exp_chunks (add off (chunk_size c)) r)

(** val exp_sdes : sdes_cfg -> kv list **)

let exp_sdes c =
  ((String ((Ascii (false, false, false, true, false, true, true, false)),
    (String ((Ascii (false, false, true, false, false, true, true, false)),
    (String ((Ascii (false, true, false, false, true, true, true, false)),
    EmptyString)))))),
    (exp_hdr (Npos (XO (XI (XO (XI (XO (XO (XI XH))))))))
      (N.of_nat (length c.sdes_c_chunks))
      (add
        (add (S (S (S (S O))))
          (length (concat (map rfc_chunk c.sdes_c_chunks))))
        (N.to_nat c.sdes_c_padding)))) :: (((String ((Ascii (false, false,
    false, false, true, true, true, false)), (String ((Ascii (true, false,
    false, false, false, true, true, false)), (String ((Ascii (false, false,
    true, false, false, true, true, false)), (String ((Ascii (false, false,
    true, false, false, true, true, false)), (String ((Ascii (true, false,
    false, true, false, true, true, false)), (String ((Ascii (false, true,
    true, true, false, true, true, false)), (String ((Ascii (true, true,
    true, false, false, true, true, false)), EmptyString)))))))))))))),
    (okPad c.sdes_c_padding)) :: (((String ((Ascii (true, true, false, false,
    false, true, true, false)), (String ((Ascii (false, false, false, true,
    false, true, true, false)), (String ((Ascii (true, false, true, false,
    true, true, true, false)), (String ((Ascii (false, true, true, true,
    false, true, true, false)), (String ((Ascii (true, true, false, true,
    false, true, true, false)), (String ((Ascii (true, true, false, false,
    true, true, true, false)), EmptyString)))))))))))), (OL
    (exp_chunks (S (S (S (S O)))) c.sdes_c_chunks))) :: []))

(** val errWI : obs **)

let errWI =
  OL ((OS (String ((Ascii (true, false, true, false, false, true, true,
    false)), (String ((Ascii (false, true, false, false, true, true, true,
    false)), (String ((Ascii (false, true, false, false, true, true, true,
    false)), EmptyString))))))) :: ((OL ((OS (String ((Ascii (true, true,
    true, false, true, false, true, false)), (String ((Ascii (false, true,
    false, false, true, true, true, false)), (String ((Ascii (true, true,
    true, true, false, true, true, false)), (String ((Ascii (false, true,
    true, true, false, true, true, false)), (String ((Ascii (true, true,
    true, false, false, true, true, false)), (String ((Ascii (true, false,
    false, true, false, false, true, false)), (String ((Ascii (true, false,
    true, true, false, true, true, false)), (String ((Ascii (false, false,
    false, false, true, true, true, false)), (String ((Ascii (false, false,
    true, true, false, true, true, false)), (String ((Ascii (true, false,
    true, false, false, true, true, false)), (String ((Ascii (true, false,
    true, true, false, true, true, false)), (String ((Ascii (true, false,
    true, false, false, true, true, false)), (String ((Ascii (false, true,
    true, true, false, true, true, false)), (String ((Ascii (false, false,
    true, false, true, true, true, false)), (String ((Ascii (true, false,
    false, false, false, true, true, false)), (String ((Ascii (false, false,
    true, false, true, true, true, false)), (String ((Ascii (true, false,
    false, true, false, true, true, false)), (String ((Ascii (true, true,
    true, true, false, true, true, false)), (String ((Ascii (false, true,
    true, true, false, true, true, false)),
    EmptyString))))))))))))))))))))))))))))))))))))))) :: [])) :: []))

(** val exp_fci_entries : fci_cfg -> obs **)

let exp_fci_entries = function
| FNack adds ->
  okO (OL
    ((okO (OL (map (fun x -> ON x) (rfc_set adds)))) :: ((okO (OS (String
                                                           ((Ascii (false,
                                                           true, true, false,
                                                           false, true, true,
                                                           false)), (String
                                                           ((Ascii (true,
                                                           false, true,
                                                           false, true, true,
                                                           true, false)),
                                                           (String ((Ascii
                                                           (true, true,
                                                           false, false,
                                                           true, true, true,
                                                           false)), (String
                                                           ((Ascii (true,
                                                           false, true,
                                                           false, false,
                                                           true, true,
                                                           false)), (String
                                                           ((Ascii (false,
                                                           false, true,
                                                           false, false,
                                                           true, true,
                                                           false)),
                                                           EmptyString)))))))))))) :: [])))
| FFir adds ->
  okO
    (okO (OL
      (map (fun kv0 -> OL ((ON (fst kv0)) :: ((ON (snd kv0)) :: [])))
        (rfc_fir_map adds))))
| FSli es ->
  okO
    (okO (OL
      (map (fun e -> OL ((ON
        (N.modulo (fst (fst e)) (Npos (XO (XO (XO (XO (XO (XO (XO (XO (XO (XO
          (XO (XO (XO XH)))))))))))))))) :: ((ON
        (N.modulo (snd (fst e)) (Npos (XO (XO (XO (XO (XO (XO (XO (XO (XO (XO
          (XO (XO (XO XH)))))))))))))))) :: ((ON
        (N.modulo (snd e) (Npos (XO (XO (XO (XO (XO (XO XH))))))))) :: []))))
        es)))
| FRpsi (pt, bits, ov) ->
  let fill =
    Nat.modulo
      (sub (S (S (S (S O))))
        (Nat.modulo (add (S (S O)) (length bits)) (S (S (S (S O)))))) (S (S
      (S (S O))))
  in
  let total_bits =
    add (mul (S (S (S (S (S (S (S (S O)))))))) fill) (N.to_nat ov)
  in
  okO (OL
    ((okN (N.modulo pt (Npos (XO (XO (XO (XO (XO (XO (XO XH)))))))))) :: (
    (okO (OL
      ((obs_range (S (S (S (S (S (S (S (S (S (S (S (S (S (S O))))))))))))))
         (sub (add (length bits) fill)
           (Nat.div total_bits (S (S (S (S (S (S (S (S O))))))))))) :: ((OI
      (Nat.modulo total_bits (S (S (S (S (S (S (S (S O)))))))))) :: [])))) :: [])))
| FPli ->
  okO (OS (String ((Ascii (false, false, false, false, true, true, true,
    false)), (String ((Ascii (false, false, true, true, false, true, true,
    false)), (String ((Ascii (true, false, false, true, false, true, true,
    false)), EmptyString)))))))

(** val exp_fcis : fb_cfg -> obs **)

let exp_fcis c =
  OL
    (map (fun t ->
      match t with
      | TNack ->
        (match c.fb_c_fci with
         | FNack _ -> exp_fci_entries c.fb_c_fci
         | _ -> errWI)
      | TFir ->
        (match c.fb_c_fci with
         | FFir _ -> exp_fci_entries c.fb_c_fci
         | _ -> errWI)
      | TSli ->
        (match c.fb_c_fci with
         | FSli _ -> exp_fci_entries c.fb_c_fci
         | _ -> errWI)
      | TRpsi ->
        (match c.fb_c_fci with
         | FRpsi (_, _, _) -> exp_fci_entries c.fb_c_fci
         | _ -> errWI)
      | TPli ->
        (match c.fb_c_fci with
         | FPli -> exp_fci_entries c.fb_c_fci
         | _ -> errWI)) all_fci)

(** val exp_fb : fb_cfg -> kv list **)

let exp_fb c =
  ((String ((Ascii (false, false, false, true, false, true, true, false)),
    (String ((Ascii (false, false, true, false, false, true, true, false)),
    (String ((Ascii (false, true, false, false, true, true, true, false)),
    EmptyString)))))),
    (exp_hdr
      (match c.fb_c_kind with
       | Transport -> Npos (XI (XO (XI (XI (XO (XO (XI XH)))))))
       | Payload -> Npos (XO (XI (XI (XI (XO (XO (XI XH))))))))
      (match c.fb_c_fci with
       | FFir _ -> Npos (XO (XO XH))
       | FSli _ -> Npos (XO XH)
       | FRpsi (_, _, _) -> Npos (XI XH)
       | _ -> Npos XH)
      (add
        (add (S (S (S (S (S (S (S (S (S (S (S (S O))))))))))))
          (length (rfc_fci c.fb_c_fci))) (N.to_nat c.fb_c_padding)))) :: (((String
    ((Ascii (false, false, false, false, true, true, true, false)), (String
    ((Ascii (true, false, false, false, false, true, true, false)), (String
    ((Ascii (false, false, true, false, false, true, true, false)), (String
    ((Ascii (false, false, true, false, false, true, true, false)), (String
    ((Ascii (true, false, false, true, false, true, true, false)), (String
    ((Ascii (false, true, true, true, false, true, true, false)), (String
    ((Ascii (true, true, true, false, false, true, true, false)),
    EmptyString)))))))))))))), (okPad c.fb_c_padding)) :: (((String ((Ascii
    (true, true, false, false, true, true, true, false)), (String ((Ascii
    (true, false, true, false, false, true, true, false)), (String ((Ascii
    (false, true, true, true, false, true, true, false)), (String ((Ascii
    (false, false, true, false, false, true, true, false)), (String ((Ascii
    (true, false, true, false, false, true, true, false)), (String ((Ascii
    (false, true, false, false, true, true, true, false)),
    EmptyString)))))))))))), (okN c.fb_c_sender)) :: (((String ((Ascii (true,
    false, true, true, false, true, true, false)), (String ((Ascii (true,
    false, true, false, false, true, true, false)), (String ((Ascii (false,
    false, true, false, false, true, true, false)), (String ((Ascii (true,
    false, false, true, false, true, true, false)), (String ((Ascii (true,
    false, false, false, false, true, true, false)), EmptyString)))))))))),
    (okN c.fb_c_media)) :: (((String ((Ascii (false, true, true, false,
    false, true, true, false)), (String ((Ascii (true, true, false, false,
    false, true, true, false)), (String ((Ascii (true, false, false, true,
    false, true, true, false)), EmptyString)))))), (exp_fcis c)) :: []))))

(** val exp_raw : n -> n -> nat -> kv list **)

let exp_raw count pt total =
  ((String ((Ascii (false, false, false, true, false, true, true, false)),
    (String ((Ascii (false, false, true, false, false, true, true, false)),
    (String ((Ascii (false, true, false, false, true, true, true, false)),
    EmptyString)))))), (exp_hdr pt count total)) :: (((String ((Ascii (false,
    false, true, false, false, true, true, false)), (String ((Ascii (true,
    false, false, false, false, true, true, false)), (String ((Ascii (false,
    false, true, false, true, true, true, false)), (String ((Ascii (true,
    false, false, false, false, true, true, false)), EmptyString)))))))),
    (obs_range O total)) :: [])

(** val expected_packet : member -> obs **)

let expected_packet = function
| MSr c ->
  OL ((OS (String ((Ascii (true, true, false, false, true, false, true,
    false)), (String ((Ascii (false, true, false, false, true, true, true,
    false)), EmptyString))))) :: ((obs_kvs (exp_sr c)) :: []))
| MRr c ->
  OL ((OS (String ((Ascii (false, true, false, false, true, false, true,
    false)), (String ((Ascii (false, true, false, false, true, true, true,
    false)), EmptyString))))) :: ((obs_kvs (exp_rr c)) :: []))
| MApp c ->
  OL ((OS (String ((Ascii (true, false, false, false, false, false, true,
    false)), (String ((Ascii (false, false, false, false, true, true, true,
    false)), (String ((Ascii (false, false, false, false, true, true, true,
    false)), EmptyString))))))) :: ((obs_kvs (exp_app c)) :: []))
| MBye c ->
  OL ((OS (String ((Ascii (false, true, false, false, false, false, true,
    false)), (String ((Ascii (true, false, false, true, true, true, true,
    false)), (String ((Ascii (true, false, true, false, false, true, true,
    false)), EmptyString))))))) :: ((obs_kvs (exp_bye c)) :: []))
| MSdes c ->
  OL ((OS (String ((Ascii (true, true, false, false, true, false, true,
    false)), (String ((Ascii (false, false, true, false, false, true, true,
    false)), (String ((Ascii (true, false, true, false, false, true, true,
    false)), (String ((Ascii (true, true, false, false, true, true, true,
    false)), EmptyString))))))))) :: ((obs_kvs (exp_sdes c)) :: []))
| MFb c ->
  OL ((OS
    (match c.fb_c_kind with
     | Transport ->
       String ((Ascii (false, false, true, false, true, false, true, false)),
         (String ((Ascii (false, true, true, false, false, true, true,
         false)), (String ((Ascii (false, true, false, false, false, true,
         true, false)), EmptyString)))))
     | Payload ->
       String ((Ascii (false, false, false, false, true, false, true,
         false)), (String ((Ascii (false, true, true, false, false, true,
         true, false)), (String ((Ascii (false, true, false, false, false,
         true, true, false)), EmptyString))))))) :: ((obs_kvs (exp_fb c)) :: []))
| MUnk c ->
  OL ((OS (String ((Ascii (true, false, true, false, true, false, true,
    false)), (String ((Ascii (false, true, true, true, false, true, true,
    false)), (String ((Ascii (true, true, false, true, false, true, true,
    false)), (String ((Ascii (false, true, true, true, false, true, true,
    false)), (String ((Ascii (true, true, true, true, false, true, true,
    false)), (String ((Ascii (true, true, true, false, true, true, true,
    false)), (String ((Ascii (false, true, true, true, false, true, true,
    false)),
    EmptyString))))))))))))))) :: ((obs_kvs
                                     (exp_raw c.unk_c_count c.unk_c_type
                                       (add
                                         (add (S (S (S (S O))))
                                           (length c.unk_c_data))
                                         (N.to_nat c.unk_c_padding)))) :: []))
| MCustom c ->
  OL ((OS (String ((Ascii (true, false, true, false, true, false, true,
    false)), (String ((Ascii (false, true, true, true, false, true, true,
    false)), (String ((Ascii (true, true, false, true, false, true, true,
    false)), (String ((Ascii (false, true, true, true, false, true, true,
    false)), (String ((Ascii (true, true, true, true, false, true, true,
    false)), (String ((Ascii (true, true, true, false, true, true, true,
    false)), (String ((Ascii (false, true, true, true, false, true, true,
    false)),
    EmptyString))))))))))))))) :: ((obs_kvs
                                     (exp_raw c.cu_count c.cu_pt
                                       (add
                                         (add (S (S (S (S O))))
                                           (length c.cu_payload))
                                         (N.to_nat c.cu_padding)))) :: []))
| MCompound _ ->
  OS (String ((Ascii (true, true, false, false, false, true, true, false)),
    (String ((Ascii (true, true, true, true, false, true, true, false)),
    (String ((Ascii (true, false, true, true, false, true, true, false)),
    (String ((Ascii (false, false, false, false, true, true, true, false)),
    (String ((Ascii (true, true, true, true, false, true, true, false)),
    (String ((Ascii (true, false, true, false, true, true, true, false)),
    (String ((Ascii (false, true, true, true, false, true, true, false)),
    (String ((Ascii (false, false, true, false, false, true, true, false)),
    EmptyString))))))))))))))))

(** val m_has_empty_fci : member -> bool **)

let rec m_has_empty_fci = function
| MFb c ->
  (match c.fb_c_fci with
   | FFir adds -> (match adds with
                   | [] -> true
                   | _ :: _ -> false)
   | FSli es -> (match es with
                 | [] -> true
                 | _ :: _ -> false)
   | _ -> false)
| MCompound ms -> existsb m_has_empty_fci ms
| _ -> false

(** val m_oversize : member -> bool **)

let rec m_oversize m = match m with
| MCompound ms -> existsb m_oversize ms
| _ ->
  N.ltb (Npos (XO (XO (XO (XO (XO (XO (XO (XO (XO (XO (XO (XO (XO (XO (XO (XO
    (XO (XO XH))))))))))))))))))) (N.of_nat (length (rfc_image m)))

(** val m_classes : member -> obs **)

let m_classes m =
  OL
    (app
      (if m_oversize m
       then (OS (String ((Ascii (true, true, true, true, false, true, true,
              false)), (String ((Ascii (false, true, true, false, true, true,
              true, false)), (String ((Ascii (true, false, true, false,
              false, true, true, false)), (String ((Ascii (false, true,
              false, false, true, true, true, false)), (String ((Ascii (true,
              true, false, false, true, true, true, false)), (String ((Ascii
              (true, false, false, true, false, true, true, false)), (String
              ((Ascii (false, true, false, true, true, true, true, false)),
              (String ((Ascii (true, false, true, false, false, true, true,
              false)), EmptyString))))))))))))))))) :: []
       else [])
      (if m_has_empty_fci m
       then (OS (String ((Ascii (true, false, true, false, false, true, true,
              false)), (String ((Ascii (true, false, true, true, false, true,
              true, false)), (String ((Ascii (false, false, false, false,
              true, true, true, false)), (String ((Ascii (false, false, true,
              false, true, true, true, false)), (String ((Ascii (true, false,
              false, true, true, true, true, false)), (String ((Ascii (true,
              false, true, true, false, true, false, false)), (String ((Ascii
              (false, true, true, false, false, true, true, false)), (String
              ((Ascii (true, false, false, true, false, true, true, false)),
              (String ((Ascii (false, true, false, false, true, true, true,
              false)), (String ((Ascii (true, false, true, true, false, true,
              false, false)), (String ((Ascii (true, true, false, false,
              true, true, true, false)), (String ((Ascii (false, false, true,
              true, false, true, true, false)), (String ((Ascii (true, false,
              false, true, false, true, true, false)),
              EmptyString))))))))))))))))))))))))))) :: []
       else []))

(** val spec_build : member -> kv list **)

let spec_build m =
  ((String ((Ascii (true, true, false, false, true, true, true, false)),
    (String ((Ascii (false, false, false, false, true, true, true, false)),
    (String ((Ascii (true, false, true, false, false, true, true, false)),
    (String ((Ascii (true, true, false, false, false, true, true, false)),
    (String ((Ascii (false, true, true, true, false, true, false, false)),
    (String ((Ascii (true, false, false, true, false, true, true, false)),
    (String ((Ascii (true, false, true, true, false, true, true, false)),
    (String ((Ascii (true, false, false, false, false, true, true, false)),
    (String ((Ascii (true, true, true, false, false, true, true, false)),
    (String ((Ascii (true, false, true, false, false, true, true, false)),
    EmptyString)))))))))))))))))))), (OB (rfc_image m))) :: (((String ((Ascii
    (true, true, false, false, true, true, true, false)), (String ((Ascii
    (false, false, false, false, true, true, true, false)), (String ((Ascii
    (true, false, true, false, false, true, true, false)), (String ((Ascii
    (true, true, false, false, false, true, true, false)), (String ((Ascii
    (false, true, true, true, false, true, false, false)), (String ((Ascii
    (false, true, true, false, true, true, true, false)), (String ((Ascii
    (true, false, false, true, false, true, true, false)), (String ((Ascii
    (true, false, true, false, false, true, true, false)), (String ((Ascii
    (true, true, true, false, true, true, true, false)),
    EmptyString)))))))))))))))))), (okO (expected_packet m))) :: (((String
    ((Ascii (true, true, false, false, true, true, true, false)), (String
    ((Ascii (false, false, false, false, true, true, true, false)), (String
    ((Ascii (true, false, true, false, false, true, true, false)), (String
    ((Ascii (true, true, false, false, false, true, true, false)), (String
    ((Ascii (false, true, true, true, false, true, false, false)), (String
    ((Ascii (true, true, false, false, false, true, true, false)), (String
    ((Ascii (false, false, true, true, false, true, true, false)), (String
    ((Ascii (true, false, false, false, false, true, true, false)), (String
    ((Ascii (true, true, false, false, true, true, true, false)), (String
    ((Ascii (true, true, false, false, true, true, true, false)),
    EmptyString)))))))))))))))))))), (m_classes m)) :: []))

(** val entry_framing : entry -> bytes -> (nat * n) option **)

let entry_framing e l =
  match e with
  | EPacket ->
    (match nth_error l (S O) with
     | Some n0 ->
       (match n0 with
        | N0 -> None
        | Npos p ->
          (match p with
           | XI p0 ->
             (match p0 with
              | XI p1 ->
                (match p1 with
                 | XO p2 ->
                   (match p2 with
                    | XI p3 ->
                      (match p3 with
                       | XO p4 ->
                         (match p4 with
                          | XO p5 ->
                            (match p5 with
                             | XI p6 ->
                               (match p6 with
                                | XH ->
                                  Some ((S (S (S (S O)))), (Npos (XI (XI (XO
                                    (XI (XO (XO (XI XH)))))))))
                                | _ -> None)
                             | _ -> None)
                          | _ -> None)
                       | _ -> None)
                    | _ -> None)
                 | _ -> None)
              | XO p1 ->
                (match p1 with
                 | XI p2 ->
                   (match p2 with
                    | XI p3 ->
                      (match p3 with
                       | XO p4 ->
                         (match p4 with
                          | XO p5 ->
                            (match p5 with
                             | XI p6 ->
                               (match p6 with
                                | XH ->
                                  Some ((S (S (S (S (S (S (S (S (S (S (S (S
                                    O)))))))))))), (Npos (XI (XO (XI (XI (XO
                                    (XO (XI XH)))))))))
                                | _ -> None)
                             | _ -> None)
                          | _ -> None)
                       | _ -> None)
                    | _ -> None)
                 | XO p2 ->
                   (match p2 with
                    | XI p3 ->
                      (match p3 with
                       | XO p4 ->
                         (match p4 with
                          | XO p5 ->
                            (match p5 with
                             | XI p6 ->
                               (match p6 with
                                | XH ->
                                  Some ((S (S (S (S (S (S (S (S O)))))))),
                                    (Npos (XI (XO (XO (XI (XO (XO (XI
                                    XH)))))))))
                                | _ -> None)
                             | _ -> None)
                          | _ -> None)
                       | _ -> None)
                    | _ -> None)
                 | XH -> None)
              | XH -> None)
           | XO p0 ->
             (match p0 with
              | XI p1 ->
                (match p1 with
                 | XI p2 ->
                   (match p2 with
                    | XI p3 ->
                      (match p3 with
                       | XO p4 ->
                         (match p4 with
                          | XO p5 ->
                            (match p5 with
                             | XI p6 ->
                               (match p6 with
                                | XH ->
                                  Some ((S (S (S (S (S (S (S (S (S (S (S (S
                                    O)))))))))))), (Npos (XO (XI (XI (XI (XO
                                    (XO (XI XH)))))))))
                                | _ -> None)
                             | _ -> None)
                          | _ -> None)
                       | _ -> None)
                    | _ -> None)
                 | XO p2 ->
                   (match p2 with
                    | XI p3 ->
                      (match p3 with
                       | XO p4 ->
                         (match p4 with
                          | XO p5 ->
                            (match p5 with
                             | XI p6 ->
                               (match p6 with
                                | XH ->
                                  Some ((S (S (S (S O)))), (Npos (XO (XI (XO
                                    (XI (XO (XO (XI XH)))))))))
                                | _ -> None)
                             | _ -> None)
                          | _ -> None)
                       | _ -> None)
                    | _ -> None)
                 | XH -> None)
              | XO p1 ->
                (match p1 with
                 | XI p2 ->
                   (match p2 with
                    | XI p3 ->
                      (match p3 with
                       | XO p4 ->
                         (match p4 with
                          | XO p5 ->
                            (match p5 with
                             | XI p6 ->
                               (match p6 with
                                | XH ->
                                  Some ((S (S (S (S (S (S (S (S (S (S (S (S
                                    O)))))))))))), (Npos (XO (XO (XI (XI (XO
                                    (XO (XI XH)))))))))
                                | _ -> None)
                             | _ -> None)
                          | _ -> None)
                       | _ -> None)
                    | _ -> None)
                 | XO p2 ->
                   (match p2 with
                    | XI p3 ->
                      (match p3 with
                       | XO p4 ->
                         (match p4 with
                          | XO p5 ->
                            (match p5 with
                             | XI p6 ->
                               (match p6 with
                                | XH ->
                                  Some ((S (S (S (S (S (S (S (S (S (S (S (S
                                    (S (S (S (S (S (S (S (S (S (S (S (S (S (S
                                    (S (S O)))))))))))))))))))))))))))),
                                    (Npos (XO (XO (XO (XI (XO (XO (XI
                                    XH)))))))))
                                | _ -> None)
                             | _ -> None)
                          | _ -> None)
                       | _ -> None)
                    | _ -> None)
                 | XH -> None)
              | XH -> None)
           | XH -> None))
     | None -> None)
  | ETyped v ->
    (match v with
     | VApp ->
       Some ((S (S (S (S (S (S (S (S (S (S (S (S O)))))))))))), (Npos (XO (XO
         (XI (XI (XO (XO (XI XH)))))))))
     | VBye ->
       Some ((S (S (S (S O)))), (Npos (XI (XI (XO (XI (XO (XO (XI XH)))))))))
     | VRr ->
       Some ((S (S (S (S (S (S (S (S O)))))))), (Npos (XI (XO (XO (XI (XO (XO
         (XI XH)))))))))
     | VSdes ->
       Some ((S (S (S (S O)))), (Npos (XO (XI (XO (XI (XO (XO (XI XH)))))))))
     | VSr ->
       Some ((S (S (S (S (S (S (S (S (S (S (S (S (S (S (S (S (S (S (S (S (S
         (S (S (S (S (S (S (S O)))))))))))))))))))))))))))), (Npos (XO (XO
         (XO (XI (XO (XO (XI XH)))))))))
     | VTfb ->
       Some ((S (S (S (S (S (S (S (S (S (S (S (S O)))))))))))), (Npos (XI (XO
         (XI (XI (XO (XO (XI XH)))))))))
     | VPfb ->
       Some ((S (S (S (S (S (S (S (S (S (S (S (S O)))))))))))), (Npos (XO (XI
         (XI (XI (XO (XO (XI XH)))))))))
     | VUnknown -> None)
  | ECustom (pt, min) -> Some (min, pt)
  | _ -> None

(** val obs_bool : bool -> obs **)

let obs_bool = function
| true ->
  OS (String ((Ascii (false, false, true, false, true, true, true, false)),
    (String ((Ascii (false, true, false, false, true, true, true, false)),
    (String ((Ascii (true, false, true, false, true, true, true, false)),
    (String ((Ascii (true, false, true, false, false, true, true, false)),
    EmptyString))))))))
| false ->
  OS (String ((Ascii (false, true, true, false, false, true, true, false)),
    (String ((Ascii (true, false, false, false, false, true, true, false)),
    (String ((Ascii (false, false, true, true, false, true, true, false)),
    (String ((Ascii (true, true, false, false, true, true, true, false)),
    (String ((Ascii (true, false, true, false, false, true, true, false)),
    EmptyString))))))))))

(** val spec_parse : entry -> bytes -> kv list **)

let spec_parse e l =
  app
    (match entry_framing e l with
     | Some p ->
       let (min, pt) = p in
       ((String ((Ascii (true, true, false, false, true, true, true, false)),
       (String ((Ascii (false, false, false, false, true, true, true,
       false)), (String ((Ascii (true, false, true, false, false, true, true,
       false)), (String ((Ascii (true, true, false, false, false, true, true,
       false)), (String ((Ascii (false, true, true, true, false, true, false,
       false)), (String ((Ascii (false, true, true, false, false, true, true,
       false)), (String ((Ascii (false, true, false, false, true, true, true,
       false)), (String ((Ascii (true, false, false, false, false, true,
       true, false)), (String ((Ascii (true, false, true, true, false, true,
       true, false)), (String ((Ascii (true, false, true, false, false, true,
       true, false)), (String ((Ascii (false, false, true, false, false,
       true, true, false)), EmptyString)))))))))))))))))))))),
       (obs_bool (well_framed min pt l))) :: []
     | None -> []) (((String ((Ascii (true, true, false, false, true, true,
    true, false)), (String ((Ascii (false, false, false, false, true, true,
    true, false)), (String ((Ascii (true, false, true, false, false, true,
    true, false)), (String ((Ascii (true, true, false, false, false, true,
    true, false)), (String ((Ascii (false, true, true, true, false, true,
    false, false)), (String ((Ascii (false, true, false, false, true, true,
    true, false)), (String ((Ascii (true, false, false, false, false, true,
    true, false)), (String ((Ascii (true, true, true, false, true, true,
    true, false)), (String ((Ascii (true, true, true, true, true, false,
    true, false)), (String ((Ascii (false, true, true, false, false, true,
    true, false)), (String ((Ascii (false, true, false, false, true, true,
    true, false)), (String ((Ascii (true, false, false, false, false, true,
    true, false)), (String ((Ascii (true, false, true, true, false, true,
    true, false)), (String ((Ascii (true, false, true, false, false, true,
    true, false)), (String ((Ascii (false, false, true, false, false, true,
    true, false)), EmptyString)))))))))))))))))))))))))))))),
    (obs_bool (raw_framed l))) :: [])

(** val sub0 : bytes -> nat -> nat -> bytes **)

let sub0 l off len =
  firstn len (skipn off l)

(** val beN : bytes -> nat -> nat -> n **)

let beN l off len =
  be_dec (sub0 l off len)

(** val byte_at : bytes -> nat -> n **)

let byte_at l off =
  nth off l N0

(** val ref_hdr : bytes -> obs **)

let ref_hdr l =
  okO (OL
    ((okN (N.div (byte_at l O) (Npos (XO (XO (XO (XO (XO (XO XH))))))))) :: (
    (okN (byte_at l (S O))) :: ((okN
                                  (N.modulo (byte_at l O) (Npos (XO (XO (XO
                                    (XO (XO XH)))))))) :: ((okN
                                                             (N.modulo
                                                               (byte_at l O)
                                                               (Npos (XO (XO
                                                               (XO (XO (XO
                                                               XH)))))))) :: (
    (okI
      (mul (S (S (S (S O))))
        (add (N.to_nat (beN l (S (S O)) (S (S O)))) (S O)))) :: []))))))

(** val ref_padding : bytes -> obs **)

let ref_padding l =
  okO
    (if N.eqb
          (N.modulo (N.div (byte_at l O) (Npos (XO (XO (XO (XO (XO XH)))))))
            (Npos (XO XH))) (Npos XH)
     then OL ((OS (String ((Ascii (true, true, false, false, true, true,
            true, false)), (String ((Ascii (true, true, true, true, false,
            true, true, false)), (String ((Ascii (true, false, true, true,
            false, true, true, false)), (String ((Ascii (true, false, true,
            false, false, true, true, false)), EmptyString))))))))) :: ((ON
            (last l N0)) :: []))
     else OS (String ((Ascii (false, true, true, true, false, true, true,
            false)), (String ((Ascii (true, true, true, true, false, true,
            true, false)), (String ((Ascii (false, true, true, true, false,
            true, true, false)), (String ((Ascii (true, false, true, false,
            false, true, true, false)), EmptyString)))))))))

(** val ref_pad_len : bytes -> nat **)

let ref_pad_len l =
  if N.eqb
       (N.modulo (N.div (byte_at l O) (Npos (XO (XO (XO (XO (XO XH)))))))
         (Npos (XO XH))) (Npos XH)
  then N.to_nat (last l N0)
  else O

(** val ref_rb : bytes -> nat -> obs **)

let ref_rb l off =
  OL
    ((okN (beN l off (S (S (S (S O)))))) :: ((okN
                                               (byte_at l
                                                 (add off (S (S (S (S O))))))) :: (
    (okN (beN l (add off (S (S (S (S (S O)))))) (S (S (S O))))) :: ((okN
                                                                    (beN l
                                                                    (add off
                                                                    (S (S (S
                                                                    (S (S (S
                                                                    (S (S
                                                                    O)))))))))
                                                                    (S (S (S
                                                                    (S O)))))) :: (
    (okN
      (beN l (add off (S (S (S (S (S (S (S (S (S (S (S (S O))))))))))))) (S
        (S (S (S O)))))) :: ((okN
                               (beN l
                                 (add off (S (S (S (S (S (S (S (S (S (S (S (S
                                   (S (S (S (S O))))))))))))))))) (S (S (S (S
                                 O)))))) :: ((okN
                                               (beN l
                                                 (add off (S (S (S (S (S (S
                                                   (S (S (S (S (S (S (S (S (S
                                                   (S (S (S (S (S
                                                   O))))))))))))))))))))) (S
                                                 (S (S (S O)))))) :: [])))))))

(** val ref_rbs : bytes -> nat -> obs **)

let ref_rbs l start =
  okO (OL
    (map (fun k ->
      ref_rb l
        (add start
          (mul (S (S (S (S (S (S (S (S (S (S (S (S (S (S (S (S (S (S (S (S (S
            (S (S (S O)))))))))))))))))))))))) k)))
      (seq O
        (N.to_nat (N.modulo (byte_at l O) (Npos (XO (XO (XO (XO (XO XH)))))))))))

(** val ref_view : variant -> bytes -> kv list **)

let ref_view v l =
  ((String ((Ascii (false, false, false, true, false, true, true, false)),
    (String ((Ascii (false, false, true, false, false, true, true, false)),
    (String ((Ascii (false, true, false, false, true, true, true, false)),
    EmptyString)))))),
    (ref_hdr l)) :: (match v with
                     | VApp ->
                       ((String ((Ascii (false, false, false, false, true,
                         true, true, false)), (String ((Ascii (true, false,
                         false, false, false, true, true, false)), (String
                         ((Ascii (false, false, true, false, false, true,
                         true, false)), (String ((Ascii (false, false, true,
                         false, false, true, true, false)), (String ((Ascii
                         (true, false, false, true, false, true, true,
                         false)), (String ((Ascii (false, true, true, true,
                         false, true, true, false)), (String ((Ascii (true,
                         true, true, false, false, true, true, false)),
                         EmptyString)))))))))))))),
                         (ref_padding l)) :: (((String ((Ascii (true, true,
                         false, false, true, true, true, false)), (String
                         ((Ascii (true, true, false, false, true, true, true,
                         false)), (String ((Ascii (false, true, false, false,
                         true, true, true, false)), (String ((Ascii (true,
                         true, false, false, false, true, true, false)),
                         EmptyString)))))))),
                         (okN (beN l (S (S (S (S O)))) (S (S (S (S O))))))) :: (((String
                         ((Ascii (false, true, true, true, false, true, true,
                         false)), (String ((Ascii (true, false, false, false,
                         false, true, true, false)), (String ((Ascii (true,
                         false, true, true, false, true, true, false)),
                         (String ((Ascii (true, false, true, false, false,
                         true, true, false)), EmptyString)))))))),
                         (okO (OB
                           (sub0 l (S (S (S (S (S (S (S (S O)))))))) (S (S (S
                             (S O)))))))) :: (((String ((Ascii (false, false,
                         true, false, false, true, true, false)), (String
                         ((Ascii (true, false, false, false, false, true,
                         true, false)), (String ((Ascii (false, false, true,
                         false, true, true, true, false)), (String ((Ascii
                         (true, false, false, false, false, true, true,
                         false)), EmptyString)))))))),
                         (okO
                           (obs_range (S (S (S (S (S (S (S (S (S (S (S (S
                             O))))))))))))
                             (sub (sub (length l) (ref_pad_len l)) (S (S (S
                               (S (S (S (S (S (S (S (S (S O)))))))))))))))) :: [])))
                     | VBye ->
                       let n0 =
                         N.to_nat
                           (N.modulo (byte_at l O) (Npos (XO (XO (XO (XO (XO
                             XH)))))))
                       in
                       let off =
                         add (S (S (S (S O)))) (mul (S (S (S (S O)))) n0)
                       in
                       ((String ((Ascii (false, false, false, false, true,
                       true, true, false)), (String ((Ascii (true, false,
                       false, false, false, true, true, false)), (String
                       ((Ascii (false, false, true, false, false, true, true,
                       false)), (String ((Ascii (false, false, true, false,
                       false, true, true, false)), (String ((Ascii (true,
                       false, false, true, false, true, true, false)),
                       (String ((Ascii (false, true, true, true, false, true,
                       true, false)), (String ((Ascii (true, true, true,
                       false, false, true, true, false)),
                       EmptyString)))))))))))))),
                       (ref_padding l)) :: (((String ((Ascii (true, true,
                       false, false, true, true, true, false)), (String
                       ((Ascii (true, true, false, false, true, true, true,
                       false)), (String ((Ascii (false, true, false, false,
                       true, true, true, false)), (String ((Ascii (true,
                       true, false, false, false, true, true, false)),
                       (String ((Ascii (true, true, false, false, true, true,
                       true, false)), EmptyString)))))))))),
                       (okO (OL
                         (map (fun k -> ON
                           (beN l
                             (add (S (S (S (S O)))) (mul (S (S (S (S O)))) k))
                             (S (S (S (S O)))))) (seq O n0))))) :: (((String
                       ((Ascii (false, true, false, false, true, true, true,
                       false)), (String ((Ascii (true, false, true, false,
                       false, true, true, false)), (String ((Ascii (true,
                       false, false, false, false, true, true, false)),
                       (String ((Ascii (true, true, false, false, true, true,
                       true, false)), (String ((Ascii (true, true, true,
                       true, false, true, true, false)), (String ((Ascii
                       (false, true, true, true, false, true, true, false)),
                       EmptyString)))))))))))),
                       (okO
                         (if Nat.ltb (add (add off (S O)) (ref_pad_len l))
                               (length l)
                          then OL ((OS (String ((Ascii (true, true, false,
                                 false, true, true, true, false)), (String
                                 ((Ascii (true, true, true, true, false,
                                 true, true, false)), (String ((Ascii (true,
                                 false, true, true, false, true, true,
                                 false)), (String ((Ascii (true, false, true,
                                 false, false, true, true, false)),
                                 EmptyString))))))))) :: ((obs_range
                                                            (add off (S O))
                                                            (N.to_nat
                                                              (byte_at l off))) :: []))
                          else OS (String ((Ascii (false, true, true, true,
                                 false, true, true, false)), (String ((Ascii
                                 (true, true, true, true, false, true, true,
                                 false)), (String ((Ascii (false, true, true,
                                 true, false, true, true, false)), (String
                                 ((Ascii (true, false, true, false, false,
                                 true, true, false)), EmptyString))))))))))) :: []))
                     | VRr ->
                       ((String ((Ascii (false, false, false, false, true,
                         true, true, false)), (String ((Ascii (true, false,
                         false, false, false, true, true, false)), (String
                         ((Ascii (false, false, true, false, false, true,
                         true, false)), (String ((Ascii (false, false, true,
                         false, false, true, true, false)), (String ((Ascii
                         (true, false, false, true, false, true, true,
                         false)), (String ((Ascii (false, true, true, true,
                         false, true, true, false)), (String ((Ascii (true,
                         true, true, false, false, true, true, false)),
                         EmptyString)))))))))))))),
                         (ref_padding l)) :: (((String ((Ascii (false, true,
                         true, true, false, true, true, false)), (String
                         ((Ascii (true, true, true, true, true, false, true,
                         false)), (String ((Ascii (false, true, false, false,
                         true, true, true, false)), (String ((Ascii (true,
                         false, true, false, false, true, true, false)),
                         (String ((Ascii (false, false, false, false, true,
                         true, true, false)), (String ((Ascii (true, true,
                         true, true, false, true, true, false)), (String
                         ((Ascii (false, true, false, false, true, true,
                         true, false)), (String ((Ascii (false, false, true,
                         false, true, true, true, false)), (String ((Ascii
                         (true, true, false, false, true, true, true,
                         false)), EmptyString)))))))))))))))))),
                         (okN
                           (N.modulo (byte_at l O) (Npos (XO (XO (XO (XO (XO
                             XH))))))))) :: (((String ((Ascii (true, true,
                         false, false, true, true, true, false)), (String
                         ((Ascii (true, true, false, false, true, true, true,
                         false)), (String ((Ascii (false, true, false, false,
                         true, true, true, false)), (String ((Ascii (true,
                         true, false, false, false, true, true, false)),
                         EmptyString)))))))),
                         (okN (beN l (S (S (S (S O)))) (S (S (S (S O))))))) :: (((String
                         ((Ascii (false, true, false, false, true, true,
                         true, false)), (String ((Ascii (false, true, false,
                         false, false, true, true, false)), (String ((Ascii
                         (true, true, false, false, true, true, true,
                         false)), EmptyString)))))),
                         (ref_rbs l (S (S (S (S (S (S (S (S O)))))))))) :: [])))
                     | VSdes ->
                       ((String ((Ascii (false, false, false, false, true,
                         true, true, false)), (String ((Ascii (true, false,
                         false, false, false, true, true, false)), (String
                         ((Ascii (false, false, true, false, false, true,
                         true, false)), (String ((Ascii (false, false, true,
                         false, false, true, true, false)), (String ((Ascii
                         (true, false, false, true, false, true, true,
                         false)), (String ((Ascii (false, true, true, true,
                         false, true, true, false)), (String ((Ascii (true,
                         true, true, false, false, true, true, false)),
                         EmptyString)))))))))))))), (ref_padding l)) :: []
                     | VSr ->
                       ((String ((Ascii (false, false, false, false, true,
                         true, true, false)), (String ((Ascii (true, false,
                         false, false, false, true, true, false)), (String
                         ((Ascii (false, false, true, false, false, true,
                         true, false)), (String ((Ascii (false, false, true,
                         false, false, true, true, false)), (String ((Ascii
                         (true, false, false, true, false, true, true,
                         false)), (String ((Ascii (false, true, true, true,
                         false, true, true, false)), (String ((Ascii (true,
                         true, true, false, false, true, true, false)),
                         EmptyString)))))))))))))),
                         (ref_padding l)) :: (((String ((Ascii (false, true,
                         true, true, false, true, true, false)), (String
                         ((Ascii (true, true, true, true, true, false, true,
                         false)), (String ((Ascii (false, true, false, false,
                         true, true, true, false)), (String ((Ascii (true,
                         false, true, false, false, true, true, false)),
                         (String ((Ascii (false, false, false, false, true,
                         true, true, false)), (String ((Ascii (true, true,
                         true, true, false, true, true, false)), (String
                         ((Ascii (false, true, false, false, true, true,
                         true, false)), (String ((Ascii (false, false, true,
                         false, true, true, true, false)), (String ((Ascii
                         (true, true, false, false, true, true, true,
                         false)), EmptyString)))))))))))))))))),
                         (okN
                           (N.modulo (byte_at l O) (Npos (XO (XO (XO (XO (XO
                             XH))))))))) :: (((String ((Ascii (true, true,
                         false, false, true, true, true, false)), (String
                         ((Ascii (true, true, false, false, true, true, true,
                         false)), (String ((Ascii (false, true, false, false,
                         true, true, true, false)), (String ((Ascii (true,
                         true, false, false, false, true, true, false)),
                         EmptyString)))))))),
                         (okN (beN l (S (S (S (S O)))) (S (S (S (S O))))))) :: (((String
                         ((Ascii (false, true, true, true, false, true, true,
                         false)), (String ((Ascii (false, false, true, false,
                         true, true, true, false)), (String ((Ascii (false,
                         false, false, false, true, true, true, false)),
                         EmptyString)))))),
                         (okN
                           (beN l (S (S (S (S (S (S (S (S O)))))))) (S (S (S
                             (S (S (S (S (S O))))))))))) :: (((String ((Ascii
                         (false, true, false, false, true, true, true,
                         false)), (String ((Ascii (false, false, true, false,
                         true, true, true, false)), (String ((Ascii (false,
                         false, false, false, true, true, true, false)),
                         EmptyString)))))),
                         (okN
                           (beN l (S (S (S (S (S (S (S (S (S (S (S (S (S (S
                             (S (S O)))))))))))))))) (S (S (S (S O))))))) :: (((String
                         ((Ascii (false, false, false, false, true, true,
                         true, false)), (String ((Ascii (true, true, false,
                         false, false, true, true, false)), EmptyString)))),
                         (okN
                           (beN l (S (S (S (S (S (S (S (S (S (S (S (S (S (S
                             (S (S (S (S (S (S O)))))))))))))))))))) (S (S (S
                             (S O))))))) :: (((String ((Ascii (true, true,
                         true, true, false, true, true, false)), (String
                         ((Ascii (true, true, false, false, false, true,
                         true, false)), EmptyString)))),
                         (okN
                           (beN l (S (S (S (S (S (S (S (S (S (S (S (S (S (S
                             (S (S (S (S (S (S (S (S (S (S
                             O)))))))))))))))))))))))) (S (S (S (S O))))))) :: (((String
                         ((Ascii (false, true, false, false, true, true,
                         true, false)), (String ((Ascii (false, true, false,
                         false, false, true, true, false)), (String ((Ascii
                         (true, true, false, false, true, true, true,
                         false)), EmptyString)))))),
                         (ref_rbs l (S (S (S (S (S (S (S (S (S (S (S (S (S (S
                           (S (S (S (S (S (S (S (S (S (S (S (S (S (S
                           O)))))))))))))))))))))))))))))) :: [])))))))
                     | VUnknown ->
                       ((String ((Ascii (false, false, true, false, false,
                         true, true, false)), (String ((Ascii (true, false,
                         false, false, false, true, true, false)), (String
                         ((Ascii (false, false, true, false, true, true,
                         true, false)), (String ((Ascii (true, false, false,
                         false, false, true, true, false)),
                         EmptyString)))))))), (obs_range O (length l))) :: []
                     | _ ->
                       ((String ((Ascii (false, false, false, false, true,
                         true, true, false)), (String ((Ascii (true, false,
                         false, false, false, true, true, false)), (String
                         ((Ascii (false, false, true, false, false, true,
                         true, false)), (String ((Ascii (false, false, true,
                         false, false, true, true, false)), (String ((Ascii
                         (true, false, false, true, false, true, true,
                         false)), (String ((Ascii (false, true, true, true,
                         false, true, true, false)), (String ((Ascii (true,
                         true, true, false, false, true, true, false)),
                         EmptyString)))))))))))))),
                         (ref_padding l)) :: (((String ((Ascii (true, true,
                         false, false, true, true, true, false)), (String
                         ((Ascii (true, false, true, false, false, true,
                         true, false)), (String ((Ascii (false, true, true,
                         true, false, true, true, false)), (String ((Ascii
                         (false, false, true, false, false, true, true,
                         false)), (String ((Ascii (true, false, true, false,
                         false, true, true, false)), (String ((Ascii (false,
                         true, false, false, true, true, true, false)),
                         EmptyString)))))))))))),
                         (okN (beN l (S (S (S (S O)))) (S (S (S (S O))))))) :: (((String
                         ((Ascii (true, false, true, true, false, true, true,
                         false)), (String ((Ascii (true, false, true, false,
                         false, true, true, false)), (String ((Ascii (false,
                         false, true, false, false, true, true, false)),
                         (String ((Ascii (true, false, false, true, false,
                         true, true, false)), (String ((Ascii (true, false,
                         false, false, false, true, true, false)),
                         EmptyString)))))))))),
                         (okN
                           (beN l (S (S (S (S (S (S (S (S O)))))))) (S (S (S
                             (S O))))))) :: [])))

(** val tiling : nat -> bytes -> nat -> (nat * nat) list option **)

let rec tiling fuel l off =
  match fuel with
  | O -> None
  | S f ->
    if Nat.eqb off (length l)
    then Some []
    else if Nat.ltb (length l) (add off (S (S (S (S O)))))
         then None
         else let tl =
                mul (S (S (S (S O))))
                  (add (N.to_nat (beN l (add off (S (S O))) (S (S O)))) (S O))
              in
              if Nat.ltb (length l) (add off tl)
              then None
              else (match tiling f l (add off tl) with
                    | Some r -> Some ((off, tl) :: r)
                    | None -> None)

(** val tiling_of : bytes -> (nat * nat) list option **)

let tiling_of l = match l with
| [] -> None
| _ :: _ -> tiling (S (length l)) l O

(** val words : nat -> nat -> bytes -> bytes list **)

let rec words k fuel l =
  match fuel with
  | O -> []
  | S f ->
    if Nat.ltb (length l) k
    then []
    else (firstn k l) :: (words k f (skipn k l))

(** val nack_word_seqs : bytes -> n list **)

let nack_word_seqs w =
  let pid = beN w O (S (S O)) in
  let blp = beN w (S (S O)) (S (S O)) in
  pid :: (flat_map (fun k ->
           if N.eqb
                (N.modulo
                  (N.div blp (N.pow (Npos (XO XH)) (N.of_nat (sub k (S O)))))
                  (Npos (XO XH))) (Npos XH)
           then (N.modulo (N.add pid (N.of_nat k)) (Npos (XO (XO (XO (XO (XO
                  (XO (XO (XO (XO (XO (XO (XO (XO (XO (XO (XO
                  XH)))))))))))))))))) :: []
           else [])
           (seq (S O) (S (S (S (S (S (S (S (S (S (S (S (S (S (S (S (S
             O))))))))))))))))))

(** val fci_ref : fci_type -> nat -> bytes -> obs **)

let fci_ref t base fci =
  match t with
  | TNack ->
    okO (OL
      ((okO (OL
         (map (fun x -> ON x)
           (flat_map nack_word_seqs
             (words (S (S (S (S O)))) (length fci) fci))))) :: ((okO (OS
                                                                  (String
                                                                  ((Ascii
                                                                  (false,
                                                                  true, true,
                                                                  false,
                                                                  false,
                                                                  true, true,
                                                                  false)),
                                                                  (String
                                                                  ((Ascii
                                                                  (true,
                                                                  false,
                                                                  true,
                                                                  false,
                                                                  true, true,
                                                                  true,
                                                                  false)),
                                                                  (String
                                                                  ((Ascii
                                                                  (true,
                                                                  true,
                                                                  false,
                                                                  false,
                                                                  true, true,
                                                                  true,
                                                                  false)),
                                                                  (String
                                                                  ((Ascii
                                                                  (true,
                                                                  false,
                                                                  true,
                                                                  false,
                                                                  false,
                                                                  true, true,
                                                                  false)),
                                                                  (String
                                                                  ((Ascii
                                                                  (false,
                                                                  false,
                                                                  true,
                                                                  false,
                                                                  false,
                                                                  true, true,
                                                                  false)),
                                                                  EmptyString)))))))))))) :: [])))
  | TFir ->
    if Nat.ltb (length fci) (S (S (S (S (S (S (S (S O))))))))
    then OL ((OS (String ((Ascii (true, false, true, false, false, true,
           true, false)), (String ((Ascii (false, true, false, false, true,
           true, true, false)), (String ((Ascii (false, true, false, false,
           true, true, true, false)),
           EmptyString))))))) :: ((obs_perr (Truncated ((S (S (S (S (S (S (S
                                    (S O)))))))), (length fci)))) :: []))
    else okO
           (okO (OL
             (map (fun w -> OL ((ON (beN w O (S (S (S (S O)))))) :: ((ON
               (byte_at w (S (S (S (S O)))))) :: [])))
               (words (S (S (S (S (S (S (S (S O)))))))) (length fci) fci))))
  | TSli ->
    if Nat.ltb (length fci) (S (S (S (S O))))
    then OL ((OS (String ((Ascii (true, false, true, false, false, true,
           true, false)), (String ((Ascii (false, true, false, false, true,
           true, true, false)), (String ((Ascii (false, true, false, false,
           true, true, true, false)),
           EmptyString))))))) :: ((obs_perr (Truncated ((S (S (S (S O)))),
                                    (length fci)))) :: []))
    else okO
           (okO (OL
             (map (fun w ->
               let x = beN w O (S (S (S (S O)))) in
               OL ((ON
               (N.div x (Npos (XO (XO (XO (XO (XO (XO (XO (XO (XO (XO (XO (XO
                 (XO (XO (XO (XO (XO (XO (XO XH)))))))))))))))))))))) :: ((ON
               (N.modulo (N.div x (Npos (XO (XO (XO (XO (XO (XO XH))))))))
                 (Npos (XO (XO (XO (XO (XO (XO (XO (XO (XO (XO (XO (XO (XO
                 XH)))))))))))))))) :: ((ON
               (N.modulo x (Npos (XO (XO (XO (XO (XO (XO XH))))))))) :: []))))
               (words (S (S (S (S O)))) (length fci) fci))))
  | TRpsi ->
    if Nat.ltb (length fci) (S (S (S (S O))))
    then OL ((OS (String ((Ascii (true, false, true, false, false, true,
           true, false)), (String ((Ascii (false, true, false, false, true,
           true, true, false)), (String ((Ascii (false, true, false, false,
           true, true, true, false)),
           EmptyString))))))) :: ((obs_perr (Truncated ((S (S (S (S O)))),
                                    (length fci)))) :: []))
    else let pb = N.to_nat (byte_at fci O) in
         if Nat.ltb (sub (length fci) (S (S O)))
              (Nat.div pb (S (S (S (S (S (S (S (S O)))))))))
         then OL ((OS (String ((Ascii (true, false, true, false, false, true,
                true, false)), (String ((Ascii (false, true, false, false,
                true, true, true, false)), (String ((Ascii (false, true,
                false, false, true, true, true, false)),
                EmptyString))))))) :: ((obs_perr (Truncated
                                         ((add
                                            (Nat.div pb (S (S (S (S (S (S (S
                                              (S O))))))))) (S (S O))),
                                         (length fci)))) :: []))
         else okO (OL
                ((okN
                   (N.modulo (byte_at fci (S O)) (Npos (XO (XO (XO (XO (XO
                     (XO (XO XH)))))))))) :: ((okO (OL
                                                ((obs_range
                                                   (add base (S (S O)))
                                                   (sub
                                                     (sub (length fci) (S (S
                                                       O)))
                                                     (Nat.div pb (S (S (S (S
                                                       (S (S (S (S O))))))))))) :: ((OI
                                                (Nat.modulo pb (S (S (S (S (S
                                                  (S (S (S O)))))))))) :: [])))) :: [])))
  | TPli ->
    if Nat.eqb (length fci) O
    then okO (OS (String ((Ascii (false, false, false, false, true, true,
           true, false)), (String ((Ascii (false, false, true, true, false,
           true, true, false)), (String ((Ascii (true, false, false, true,
           false, true, true, false)), EmptyString)))))))
    else OL ((OS (String ((Ascii (true, false, true, false, false, true,
           true, false)), (String ((Ascii (false, true, false, false, true,
           true, true, false)), (String ((Ascii (false, true, false, false,
           true, true, true, false)),
           EmptyString))))))) :: ((obs_perr (TooLarge (O, (length fci)))) :: []))

(** val fb_fci_ref : fb_kind -> bytes -> obs **)

let fb_fci_ref k l =
  let fmt = N.modulo (byte_at l O) (Npos (XO (XO (XO (XO (XO XH)))))) in
  let fci =
    sub0 l (S (S (S (S (S (S (S (S (S (S (S (S O))))))))))))
      (sub (sub (length l) (ref_pad_len l)) (S (S (S (S (S (S (S (S (S (S (S
        (S O)))))))))))))
  in
  OL
  (map (fun t ->
    if (&&) (fb_kind_eqb (match t with
                          | TNack -> Transport
                          | _ -> Payload) k)
         (N.eqb fmt
           (match t with
            | TFir -> Npos (XO (XO XH))
            | TSli -> Npos (XO XH)
            | TRpsi -> Npos (XI XH)
            | _ -> Npos XH))
    then fci_ref t (S (S (S (S (S (S (S (S (S (S (S (S O)))))))))))) fci
    else errWI) all_fci)

type ref_item =
| RItem of n * nat * nat * (nat * nat) option

type ref_chunk = { rc_ssrc : n; rc_len : nat; rc_items : ref_item list }

type verdict =
| MustAccept of ref_chunk list
| MustReject
| Either

type 'a scan =
| Done of 'a
| Reject
| Ambiguous

(** val ref_items :
    nat -> bytes -> nat -> nat -> (ref_item list * nat) scan **)

let rec ref_items fuel l e p =
  match fuel with
  | O -> Ambiguous
  | S f ->
    if Nat.leb e p
    then Ambiguous
    else if N.eqb (byte_at l p) N0
         then let stop = pad4 (add p (S O)) in
              if Nat.ltb e stop
              then Ambiguous
              else if forallb (fun b -> N.eqb b N0) (sub0 l p (sub stop p))
                   then Done ([], stop)
                   else Reject
         else if Nat.ltb e (add p (S (S O)))
              then Reject
              else let len = N.to_nat (byte_at l (add p (S O))) in
                   if Nat.ltb e (add (add p (S (S O))) len)
                   then Reject
                   else let ty = byte_at l p in
                        let pre =
                          if N.eqb ty (Npos (XO (XO (XO XH))))
                          then if Nat.eqb len O
                               then Ambiguous
                               else let pl =
                                      N.to_nat (byte_at l (add p (S (S O))))
                                    in
                                    if Nat.ltb len (add pl (S O))
                                    then Reject
                                    else Done (Some ((add p (S (S (S O)))),
                                           pl))
                          else Done None
                        in
                        (match pre with
                         | Done pr ->
                           (match ref_items f l e (add (add p (S (S O))) len) with
                            | Done a ->
                              let (its, stop) = a in
                              let v =
                                match pr with
                                | Some p0 ->
                                  let (po, pl) = p0 in
                                  ((add po pl), (sub (sub len (S O)) pl))
                                | None -> ((add p (S (S O))), len)
                              in
                              Done (((RItem (ty, (fst v), (snd v),
                              pr)) :: its), stop)
                            | x -> x)
                         | Reject -> Reject
                         | Ambiguous -> Ambiguous)

(** val ref_chunks : nat -> bytes -> nat -> nat -> ref_chunk list scan **)

let rec ref_chunks fuel l e p =
  match fuel with
  | O -> Ambiguous
  | S f ->
    if Nat.leb e p
    then Done []
    else if Nat.ltb e (add p (S (S (S (S O)))))
         then Ambiguous
         else (match ref_items (S (length l)) l e (add p (S (S (S (S O))))) with
               | Done a ->
                 let (its, stop) = a in
                 (match ref_chunks f l e stop with
                  | Done cs ->
                    Done ({ rc_ssrc = (beN l p (S (S (S (S O))))); rc_len =
                      (sub stop p); rc_items = its } :: cs)
                  | x -> x)
               | Reject -> Reject
               | Ambiguous -> Ambiguous)

(** val sdes_ref : bytes -> verdict **)

let sdes_ref l =
  match ref_chunks (S (length l)) l (sub (length l) (ref_pad_len l)) (S (S (S
          (S O)))) with
  | Done cs -> MustAccept cs
  | Reject -> MustReject
  | Ambiguous -> Either

(** val obs_ref_item : ref_item -> obs **)

let obs_ref_item = function
| RItem (ty, off, len, prefix) ->
  (match prefix with
   | Some p ->
     let (po, pl) = p in
     OL
     ((okN ty) :: ((okI (add (add (S O) pl) len)) :: ((okO
                                                        (obs_range off len)) :: (
     (okN (N.of_nat pl)) :: ((okO (obs_range po pl)) :: [])))))
   | None -> OL ((okN ty) :: ((okI len) :: ((okO (obs_range off len)) :: []))))

(** val obs_ref_chunk : ref_chunk -> obs **)

let obs_ref_chunk c =
  OL ((ON c.rc_ssrc) :: ((okI c.rc_len) :: ((OL
    (map obs_ref_item c.rc_items)) :: [])))

(** val obs_verdict : verdict -> obs **)

let obs_verdict = function
| MustAccept cs ->
  OL ((OS (String ((Ascii (true, false, false, false, false, true, true,
    false)), (String ((Ascii (true, true, false, false, false, true, true,
    false)), (String ((Ascii (true, true, false, false, false, true, true,
    false)), (String ((Ascii (true, false, true, false, false, true, true,
    false)), (String ((Ascii (false, false, false, false, true, true, true,
    false)), (String ((Ascii (false, false, true, false, true, true, true,
    false)), EmptyString))))))))))))) :: ((OL (map obs_ref_chunk cs)) :: []))
| MustReject ->
  OS (String ((Ascii (false, true, false, false, true, true, true, false)),
    (String ((Ascii (true, false, true, false, false, true, true, false)),
    (String ((Ascii (false, true, false, true, false, true, true, false)),
    (String ((Ascii (true, false, true, false, false, true, true, false)),
    (String ((Ascii (true, true, false, false, false, true, true, false)),
    (String ((Ascii (false, false, true, false, true, true, true, false)),
    EmptyString))))))))))))
| Either ->
  OS (String ((Ascii (true, false, true, false, false, true, true, false)),
    (String ((Ascii (true, false, false, true, false, true, true, false)),
    (String ((Ascii (false, false, true, false, true, true, true, false)),
    (String ((Ascii (false, false, false, true, false, true, true, false)),
    (String ((Ascii (true, false, true, false, false, true, true, false)),
    (String ((Ascii (false, true, false, false, true, true, true, false)),
    EmptyString))))))))))))

(** val rb_violations : rb_cfg -> werr list **)

let rb_violations b =
  if N.ltb (Npos (XI (XI (XI (XI (XI (XI (XI (XI (XI (XI (XI (XI (XI (XI (XI
       (XI (XI (XI (XI (XI (XI (XI (XI XH))))))))))))))))))))))))
       b.rb_c_cumulative
  then (CumulativeLostTooLarge (b.rb_c_cumulative, (Npos (XI (XI (XI (XI (XI
         (XI (XI (XI (XI (XI (XI (XI (XI (XI (XI (XI (XI (XI (XI (XI (XI (XI
         (XI XH)))))))))))))))))))))))))) :: []
  else []

(** val pad_violations : n -> werr list **)

let pad_violations p =
  if N.eqb (N.modulo p (Npos (XO (XO XH)))) N0
  then []
  else (InvalidPadding p) :: []

(** val item_violations : item_cfg -> werr list **)

let item_violations i =
  if N.eqb i.it_c_type (Npos (XO (XO (XO XH))))
  then app
         (if Nat.ltb (S (S (S (S (S (S (S (S (S (S (S (S (S (S (S (S (S (S (S
               (S (S (S (S (S (S (S (S (S (S (S (S (S (S (S (S (S (S (S (S (S
               (S (S (S (S (S (S (S (S (S (S (S (S (S (S (S (S (S (S (S (S (S
               (S (S (S (S (S (S (S (S (S (S (S (S (S (S (S (S (S (S (S (S (S
               (S (S (S (S (S (S (S (S (S (S (S (S (S (S (S (S (S (S (S (S (S
               (S (S (S (S (S (S (S (S (S (S (S (S (S (S (S (S (S (S (S (S (S
               (S (S (S (S (S (S (S (S (S (S (S (S (S (S (S (S (S (S (S (S (S
               (S (S (S (S (S (S (S (S (S (S (S (S (S (S (S (S (S (S (S (S (S
               (S (S (S (S (S (S (S (S (S (S (S (S (S (S (S (S (S (S (S (S (S
               (S (S (S (S (S (S (S (S (S (S (S (S (S (S (S (S (S (S (S (S (S
               (S (S (S (S (S (S (S (S (S (S (S (S (S (S (S (S (S (S (S (S (S
               (S (S (S (S (S (S (S (S (S (S (S (S (S (S (S (S (S (S (S (S (S
               (S (S (S (S
               O))))))))))))))))))))))))))))))))))))))))))))))))))))))))))))))))))))))))))))))))))))))))))))))))))))))))))))))))))))))))))))))))))))))))))))))))))))))))))))))))))))))))))))))))))))))))))))))))))))))))))))))))))))))))))))))))))))))))))))))))))))))))))))))
               (length i.it_c_prefix)
          then (SdesPrivPrefixTooLarge ((length i.it_c_prefix), (Npos (XO (XI
                 (XI (XI (XI (XI (XI XH)))))))))) :: []
          else [])
         (if Nat.ltb (S (S (S (S (S (S (S (S (S (S (S (S (S (S (S (S (S (S (S
               (S (S (S (S (S (S (S (S (S (S (S (S (S (S (S (S (S (S (S (S (S
               (S (S (S (S (S (S (S (S (S (S (S (S (S (S (S (S (S (S (S (S (S
               (S (S (S (S (S (S (S (S (S (S (S (S (S (S (S (S (S (S (S (S (S
               (S (S (S (S (S (S (S (S (S (S (S (S (S (S (S (S (S (S (S (S (S
               (S (S (S (S (S (S (S (S (S (S (S (S (S (S (S (S (S (S (S (S (S
               (S (S (S (S (S (S (S (S (S (S (S (S (S (S (S (S (S (S (S (S (S
               (S (S (S (S (S (S (S (S (S (S (S (S (S (S (S (S (S (S (S (S (S
               (S (S (S (S (S (S (S (S (S (S (S (S (S (S (S (S (S (S (S (S (S
               (S (S (S (S (S (S (S (S (S (S (S (S (S (S (S (S (S (S (S (S (S
               (S (S (S (S (S (S (S (S (S (S (S (S (S (S (S (S (S (S (S (S (S
               (S (S (S (S (S (S (S (S (S (S (S (S (S (S (S (S (S (S (S (S (S
               (S (S (S (S
               O))))))))))))))))))))))))))))))))))))))))))))))))))))))))))))))))))))))))))))))))))))))))))))))))))))))))))))))))))))))))))))))))))))))))))))))))))))))))))))))))))))))))))))))))))))))))))))))))))))))))))))))))))))))))))))))))))))))))))))))))))))))))))))))
               (add (length i.it_c_prefix) (length i.it_c_value))
          then (SdesValueTooLarge ((length i.it_c_value),
                 (N.sub (Npos (XO (XI (XI (XI (XI (XI (XI XH))))))))
                   (N.of_nat (length i.it_c_prefix))))) :: []
          else [])
  else if Nat.ltb (S (S (S (S (S (S (S (S (S (S (S (S (S (S (S (S (S (S (S (S
            (S (S (S (S (S (S (S (S (S (S (S (S (S (S (S (S (S (S (S (S (S (S
            (S (S (S (S (S (S (S (S (S (S (S (S (S (S (S (S (S (S (S (S (S (S
            (S (S (S (S (S (S (S (S (S (S (S (S (S (S (S (S (S (S (S (S (S (S
            (S (S (S (S (S (S (S (S (S (S (S (S (S (S (S (S (S (S (S (S (S (S
            (S (S (S (S (S (S (S (S (S (S (S (S (S (S (S (S (S (S (S (S (S (S
            (S (S (S (S (S (S (S (S (S (S (S (S (S (S (S (S (S (S (S (S (S (S
            (S (S (S (S (S (S (S (S (S (S (S (S (S (S (S (S (S (S (S (S (S (S
            (S (S (S (S (S (S (S (S (S (S (S (S (S (S (S (S (S (S (S (S (S (S
            (S (S (S (S (S (S (S (S (S (S (S (S (S (S (S (S (S (S (S (S (S (S
            (S (S (S (S (S (S (S (S (S (S (S (S (S (S (S (S (S (S (S (S (S (S
            (S (S (S (S (S (S (S (S (S (S (S (S (S (S (S
            O)))))))))))))))))))))))))))))))))))))))))))))))))))))))))))))))))))))))))))))))))))))))))))))))))))))))))))))))))))))))))))))))))))))))))))))))))))))))))))))))))))))))))))))))))))))))))))))))))))))))))))))))))))))))))))))))))))))))))))))))))))))))))))))))
            (length i.it_c_value)
       then (SdesValueTooLarge ((length i.it_c_value), (Npos (XI (XI (XI (XI
              (XI (XI (XI XH)))))))))) :: []
       else []

(** val fci_violations : fb_kind -> fci_cfg -> werr list **)

let fci_violations k f =
  app
    (if fb_kind_eqb (match f with
                     | FNack _ -> Transport
                     | _ -> Payload) k
     then []
     else FciWrongFeedbackPacketType :: [])
    (match f with
     | FNack adds ->
       let s = rfc_set adds in
       if N.ltb (Npos (XI (XO (XI (XI (XI (XI (XI (XI (XI (XI (XI (XI (XI (XI
            (XI XH))))))))))))))))
            (N.of_nat (length (rfc_nack_words (length s) s)))
       then TooManyNack :: []
       else []
     | FFir adds ->
       if N.ltb (Npos (XO (XI (XI (XI (XI (XI (XI (XI (XI (XI (XI (XI (XI (XI
            XH))))))))))))))) (N.of_nat (length (rfc_fir_map adds)))
       then TooManyFir :: []
       else []
     | FRpsi (pt, bits, ov) ->
       app
         (if N.ltb (Npos (XI (XI (XI (XI (XI (XI XH))))))) pt
          then PayloadTypeInvalid :: []
          else [])
         (if (||) (N.ltb (Npos (XO (XO (XO XH)))) ov)
               (match bits with
                | [] -> N.ltb N0 ov
                | _ :: _ -> false)
          then PaddingBitsTooLarge :: []
          else [])
     | _ -> [])

(** val violations : member -> werr list **)

let rec violations = function
| MSr c ->
  app
    (if Nat.ltb (S (S (S (S (S (S (S (S (S (S (S (S (S (S (S (S (S (S (S (S
          (S (S (S (S (S (S (S (S (S (S (S O)))))))))))))))))))))))))))))))
          (length c.sr_c_blocks)
     then (TooManyReportBlocks ((length c.sr_c_blocks), (Npos (XI (XI (XI (XI
            XH))))))) :: []
     else [])
    (app (pad_violations c.sr_c_padding)
      (flat_map rb_violations c.sr_c_blocks))
| MRr c ->
  app
    (if Nat.ltb (S (S (S (S (S (S (S (S (S (S (S (S (S (S (S (S (S (S (S (S
          (S (S (S (S (S (S (S (S (S (S (S O)))))))))))))))))))))))))))))))
          (length c.rr_c_blocks)
     then (TooManyReportBlocks ((length c.rr_c_blocks), (Npos (XI (XI (XI (XI
            XH))))))) :: []
     else [])
    (app (pad_violations c.rr_c_padding)
      (flat_map rb_violations c.rr_c_blocks))
| MApp c ->
  app
    (if N.ltb (Npos (XI (XI (XI (XI XH))))) c.app_c_subtype
     then (AppSubtypeOutOfRange (c.app_c_subtype, (Npos (XI (XI (XI (XI
            XH))))))) :: []
     else [])
    (app
      (if (||) (Nat.ltb (S (S (S (S O)))) (length c.app_c_name))
            (negb
              (forallb (fun b ->
                N.ltb b (Npos (XO (XO (XO (XO (XO (XO (XO XH)))))))))
                c.app_c_name))
       then InvalidName :: []
       else [])
      (app
        (if Nat.eqb (Nat.modulo (length c.app_c_data) (S (S (S (S O))))) O
         then []
         else (DataLen32bitMultiple (length c.app_c_data)) :: [])
        (pad_violations c.app_c_padding)))
| MBye c ->
  app
    (if Nat.ltb (S (S (S (S (S (S (S (S (S (S (S (S (S (S (S (S (S (S (S (S
          (S (S (S (S (S (S (S (S (S (S (S O)))))))))))))))))))))))))))))))
          (length c.bye_c_sources)
     then (TooManySources ((length c.bye_c_sources), (Npos (XI (XI (XI (XI
            XH))))))) :: []
     else [])
    (app (pad_violations c.bye_c_padding)
      (if Nat.ltb (S (S (S (S (S (S (S (S (S (S (S (S (S (S (S (S (S (S (S (S
            (S (S (S (S (S (S (S (S (S (S (S (S (S (S (S (S (S (S (S (S (S (S
            (S (S (S (S (S (S (S (S (S (S (S (S (S (S (S (S (S (S (S (S (S (S
            (S (S (S (S (S (S (S (S (S (S (S (S (S (S (S (S (S (S (S (S (S (S
            (S (S (S (S (S (S (S (S (S (S (S (S (S (S (S (S (S (S (S (S (S (S
            (S (S (S (S (S (S (S (S (S (S (S (S (S (S (S (S (S (S (S (S (S (S
            (S (S (S (S (S (S (S (S (S (S (S (S (S (S (S (S (S (S (S (S (S (S
            (S (S (S (S (S (S (S (S (S (S (S (S (S (S (S (S (S (S (S (S (S (S
            (S (S (S (S (S (S (S (S (S (S (S (S (S (S (S (S (S (S (S (S (S (S
            (S (S (S (S (S (S (S (S (S (S (S (S (S (S (S (S (S (S (S (S (S (S
            (S (S (S (S (S (S (S (S (S (S (S (S (S (S (S (S (S (S (S (S (S (S
            (S (S (S (S (S (S (S (S (S (S (S (S (S (S (S
            O)))))))))))))))))))))))))))))))))))))))))))))))))))))))))))))))))))))))))))))))))))))))))))))))))))))))))))))))))))))))))))))))))))))))))))))))))))))))))))))))))))))))))))))))))))))))))))))))))))))))))))))))))))))))))))))))))))))))))))))))))))))))))))))))
            (length c.bye_c_reason)
       then (ReasonLenTooLarge ((length c.bye_c_reason), (Npos (XI (XI (XI
              (XI (XI (XI (XI XH)))))))))) :: []
       else []))
| MSdes c ->
  app
    (if Nat.ltb (S (S (S (S (S (S (S (S (S (S (S (S (S (S (S (S (S (S (S (S
          (S (S (S (S (S (S (S (S (S (S (S O)))))))))))))))))))))))))))))))
          (length c.sdes_c_chunks)
     then (TooManySdesChunks ((length c.sdes_c_chunks), (Npos (XI (XI (XI (XI
            XH))))))) :: []
     else [])
    (app (pad_violations c.sdes_c_padding)
      (flat_map (fun ch -> flat_map item_violations ch.ch_c_items)
        c.sdes_c_chunks))
| MFb c ->
  app (pad_violations c.fb_c_padding) (fci_violations c.fb_c_kind c.fb_c_fci)
| MUnk c ->
  app
    (if N.ltb (Npos (XI (XI (XI (XI XH))))) c.unk_c_count
     then (CountOutOfRange (c.unk_c_count, (Npos (XI (XI (XI (XI
            XH))))))) :: []
     else [])
    (app (pad_violations c.unk_c_padding)
      (if Nat.eqb (Nat.modulo (length c.unk_c_data) (S (S (S (S O))))) O
       then []
       else (DataLen32bitMultiple (length c.unk_c_data)) :: []))
| MCustom c -> pad_violations c.cu_padding
| MCompound ms ->
  let rec go = function
  | [] -> []
  | m0 :: r ->
    app (violations m0)
      (app
        (match r with
         | [] -> []
         | _ :: _ ->
           (match m_padding m0 with
            | Some p ->
              if N.ltb N0 p then NonLastCompoundPacketPadding :: [] else []
            | None -> [])) (go r))
  in go ms

(** val representable : member -> bool **)

let representable m =
  match violations m with
  | [] -> true
  | _ :: _ -> false

(** val obs_tiles : (nat * nat) list option -> obs **)

let obs_tiles = function
| Some ts ->
  OL ((OS (String ((Ascii (true, true, false, false, true, true, true,
    false)), (String ((Ascii (true, true, true, true, false, true, true,
    false)), (String ((Ascii (true, false, true, true, false, true, true,
    false)), (String ((Ascii (true, false, true, false, false, true, true,
    false)), EmptyString))))))))) :: ((OL
    (map (fun t -> OL ((OI (fst t)) :: ((OI (snd t)) :: []))) ts)) :: []))
| None ->
  OS (String ((Ascii (false, true, true, true, false, true, true, false)),
    (String ((Ascii (true, true, true, true, false, true, true, false)),
    (String ((Ascii (false, true, true, true, false, true, true, false)),
    (String ((Ascii (true, false, true, false, false, true, true, false)),
    EmptyString))))))))

(** val spec_parse2 : entry -> bytes -> kv list **)

let spec_parse2 e l =
  app (spec_parse e l)
    (match e with
     | ECompound ->
       ((String ((Ascii (true, true, false, false, true, true, true, false)),
         (String ((Ascii (false, false, false, false, true, true, true,
         false)), (String ((Ascii (true, false, true, false, false, true,
         true, false)), (String ((Ascii (true, true, false, false, false,
         true, true, false)), (String ((Ascii (false, true, true, true,
         false, true, false, false)), (String ((Ascii (false, false, true,
         false, true, true, true, false)), (String ((Ascii (true, false,
         false, true, false, true, true, false)), (String ((Ascii (false,
         false, true, true, false, true, true, false)), (String ((Ascii
         (true, false, true, false, false, true, true, false)), (String
         ((Ascii (true, true, false, false, true, true, true, false)),
         EmptyString)))))))))))))))))))), (obs_tiles (tiling_of l))) :: []
     | ETyped v ->
       (match v with
        | VSdes ->
          ((String ((Ascii (true, true, false, false, true, true, true,
            false)), (String ((Ascii (false, false, false, false, true, true,
            true, false)), (String ((Ascii (true, false, true, false, false,
            true, true, false)), (String ((Ascii (true, true, false, false,
            false, true, true, false)), (String ((Ascii (false, true, true,
            true, false, true, false, false)), (String ((Ascii (false, true,
            false, false, true, true, true, false)), (String ((Ascii (true,
            false, true, false, false, true, true, false)), (String ((Ascii
            (false, true, true, false, false, true, true, false)),
            EmptyString)))))))))))))))),
            (obs_kvs (ref_view VSdes l))) :: (((String ((Ascii (true, true,
            false, false, true, true, true, false)), (String ((Ascii (false,
            false, false, false, true, true, true, false)), (String ((Ascii
            (true, false, true, false, false, true, true, false)), (String
            ((Ascii (true, true, false, false, false, true, true, false)),
            (String ((Ascii (false, true, true, true, false, true, false,
            false)), (String ((Ascii (true, true, false, false, true, true,
            true, false)), (String ((Ascii (false, false, true, false, false,
            true, true, false)), (String ((Ascii (true, false, true, false,
            false, true, true, false)), (String ((Ascii (true, true, false,
            false, true, true, true, false)), EmptyString)))))))))))))))))),
            (obs_verdict (sdes_ref l))) :: [])
        | VTfb ->
          ((String ((Ascii (true, true, false, false, true, true, true,
            false)), (String ((Ascii (false, false, false, false, true, true,
            true, false)), (String ((Ascii (true, false, true, false, false,
            true, true, false)), (String ((Ascii (true, true, false, false,
            false, true, true, false)), (String ((Ascii (false, true, true,
            true, false, true, false, false)), (String ((Ascii (false, true,
            false, false, true, true, true, false)), (String ((Ascii (true,
            false, true, false, false, true, true, false)), (String ((Ascii
            (false, true, true, false, false, true, true, false)),
            EmptyString)))))))))))))))),
            (obs_kvs (ref_view VTfb l))) :: (((String ((Ascii (true, true,
            false, false, true, true, true, false)), (String ((Ascii (false,
            false, false, false, true, true, true, false)), (String ((Ascii
            (true, false, true, false, false, true, true, false)), (String
            ((Ascii (true, true, false, false, false, true, true, false)),
            (String ((Ascii (false, true, true, true, false, true, false,
            false)), (String ((Ascii (false, true, true, false, false, true,
            true, false)), (String ((Ascii (true, true, false, false, false,
            true, true, false)), (String ((Ascii (true, false, false, true,
            false, true, true, false)), EmptyString)))))))))))))))),
            (fb_fci_ref Transport l)) :: [])
        | VPfb ->
          ((String ((Ascii (true, true, false, false, true, true, true,
            false)), (String ((Ascii (false, false, false, false, true, true,
            true, false)), (String ((Ascii (true, false, true, false, false,
            true, true, false)), (String ((Ascii (true, true, false, false,
            false, true, true, false)), (String ((Ascii (false, true, true,
            true, false, true, false, false)), (String ((Ascii (false, true,
            false, false, true, true, true, false)), (String ((Ascii (true,
            false, true, false, false, true, true, false)), (String ((Ascii
            (false, true, true, false, false, true, true, false)),
            EmptyString)))))))))))))))),
            (obs_kvs (ref_view VPfb l))) :: (((String ((Ascii (true, true,
            false, false, true, true, true, false)), (String ((Ascii (false,
            false, false, false, true, true, true, false)), (String ((Ascii
            (true, false, true, false, false, true, true, false)), (String
            ((Ascii (true, true, false, false, false, true, true, false)),
            (String ((Ascii (false, true, true, true, false, true, false,
            false)), (String ((Ascii (false, true, true, false, false, true,
            true, false)), (String ((Ascii (true, true, false, false, false,
            true, true, false)), (String ((Ascii (true, false, false, true,
            false, true, true, false)), EmptyString)))))))))))))))),
            (fb_fci_ref Payload l)) :: [])
        | _ ->
          ((String ((Ascii (true, true, false, false, true, true, true,
            false)), (String ((Ascii (false, false, false, false, true, true,
            true, false)), (String ((Ascii (true, false, true, false, false,
            true, true, false)), (String ((Ascii (true, true, false, false,
            false, true, true, false)), (String ((Ascii (false, true, true,
            true, false, true, false, false)), (String ((Ascii (false, true,
            false, false, true, true, true, false)), (String ((Ascii (true,
            false, true, false, false, true, true, false)), (String ((Ascii
            (false, true, true, false, false, true, true, false)),
            EmptyString)))))))))))))))), (obs_kvs (ref_view v l))) :: [])
     | ERb ->
       ((String ((Ascii (true, true, false, false, true, true, true, false)),
         (String ((Ascii (false, false, false, false, true, true, true,
         false)), (String ((Ascii (true, false, true, false, false, true,
         true, false)), (String ((Ascii (true, true, false, false, false,
         true, true, false)), (String ((Ascii (false, true, true, true,
         false, true, false, false)), (String ((Ascii (false, true, false,
         false, true, true, true, false)), (String ((Ascii (true, false,
         true, false, false, true, true, false)), (String ((Ascii (false,
         true, true, false, false, true, true, false)),
         EmptyString)))))))))))))))), (okO (ref_rb l O))) :: []
     | EFci t ->
       ((String ((Ascii (true, true, false, false, true, true, true, false)),
         (String ((Ascii (false, false, false, false, true, true, true,
         false)), (String ((Ascii (true, false, true, false, false, true,
         true, false)), (String ((Ascii (true, true, false, false, false,
         true, true, false)), (String ((Ascii (false, true, true, true,
         false, true, false, false)), (String ((Ascii (false, true, true,
         false, false, true, true, false)), (String ((Ascii (true, true,
         false, false, false, true, true, false)), (String ((Ascii (true,
         false, false, true, false, true, true, false)),
         EmptyString)))))))))))))))), (fci_ref t O l)) :: []
     | _ -> [])

(** val representable_full : member -> bool **)

let representable_full m =
  (&&) (representable m) (negb (m_oversize m))

(** val spec_build2 : member -> kv list **)

let spec_build2 m =
  app (spec_build m) (((String ((Ascii (true, true, false, false, true, true,
    true, false)), (String ((Ascii (false, false, false, false, true, true,
    true, false)), (String ((Ascii (true, false, true, false, false, true,
    true, false)), (String ((Ascii (true, true, false, false, false, true,
    true, false)), (String ((Ascii (false, true, true, true, false, true,
    false, false)), (String ((Ascii (false, true, false, false, true, true,
    true, false)), (String ((Ascii (true, false, true, false, false, true,
    true, false)), (String ((Ascii (false, false, false, false, true, true,
    true, false)), (String ((Ascii (false, true, false, false, true, true,
    true, false)), (String ((Ascii (true, false, true, false, false, true,
    true, false)), (String ((Ascii (true, true, false, false, true, true,
    true, false)), (String ((Ascii (true, false, true, false, false, true,
    true, false)), (String ((Ascii (false, true, true, true, false, true,
    true, false)), (String ((Ascii (false, false, true, false, true, true,
    true, false)), (String ((Ascii (true, false, false, false, false, true,
    true, false)), (String ((Ascii (false, true, false, false, false, true,
    true, false)), (String ((Ascii (false, false, true, true, false, true,
    true, false)), (String ((Ascii (true, false, true, false, false, true,
    true, false)), EmptyString)))))))))))))))))))))))))))))))))))),
    (obs_bool (representable_full m))) :: (((String ((Ascii (true, true,
    false, false, true, true, true, false)), (String ((Ascii (false, false,
    false, false, true, true, true, false)), (String ((Ascii (true, false,
    true, false, false, true, true, false)), (String ((Ascii (true, true,
    false, false, false, true, true, false)), (String ((Ascii (false, true,
    true, true, false, true, false, false)), (String ((Ascii (false, true,
    true, false, true, true, true, false)), (String ((Ascii (true, false,
    false, true, false, true, true, false)), (String ((Ascii (true, true,
    true, true, false, true, true, false)), (String ((Ascii (false, false,
    true, true, false, true, true, false)), (String ((Ascii (true, false,
    false, false, false, true, true, false)), (String ((Ascii (false, false,
    true, false, true, true, true, false)), (String ((Ascii (true, false,
    false, true, false, true, true, false)), (String ((Ascii (true, true,
    true, true, false, true, true, false)), (String ((Ascii (false, true,
    true, true, false, true, true, false)), (String ((Ascii (true, true,
    false, false, true, true, true, false)),
    EmptyString)))))))))))))))))))))))))))))), (OL
    (map obs_werr (violations m)))) :: []))

(** val spec_chunk : chunk_cfg -> kv list **)

let spec_chunk c =
  ((String ((Ascii (true, true, false, false, true, true, true, false)),
    (String ((Ascii (false, false, false, false, true, true, true, false)),
    (String ((Ascii (true, false, true, false, false, true, true, false)),
    (String ((Ascii (true, true, false, false, false, true, true, false)),
    (String ((Ascii (false, true, true, true, false, true, false, false)),
    (String ((Ascii (true, false, false, true, false, true, true, false)),
    (String ((Ascii (true, false, true, true, false, true, true, false)),
    (String ((Ascii (true, false, false, false, false, true, true, false)),
    (String ((Ascii (true, true, true, false, false, true, true, false)),
    (String ((Ascii (true, false, true, false, false, true, true, false)),
    EmptyString)))))))))))))))))))), (OB (rfc_chunk c))) :: []

(** val spec_item : item_cfg -> kv list **)

let spec_item i =
  ((String ((Ascii (true, true, false, false, true, true, true, false)),
    (String ((Ascii (false, false, false, false, true, true, true, false)),
    (String ((Ascii (true, false, true, false, false, true, true, false)),
    (String ((Ascii (true, true, false, false, false, true, true, false)),
    (String ((Ascii (false, true, true, true, false, true, false, false)),
    (String ((Ascii (true, false, false, true, false, true, true, false)),
    (String ((Ascii (true, false, true, true, false, true, true, false)),
    (String ((Ascii (true, false, false, false, false, true, true, false)),
    (String ((Ascii (true, true, true, false, false, true, true, false)),
    (String ((Ascii (true, false, true, false, false, true, true, false)),
    EmptyString)))))))))))))))))))), (OB (rfc_item i))) :: []

(** val last_of : (op -> 'a1 option) -> op list -> 'a1 -> 'a1 **)

let last_of sel ops default =
  fold_left (fun acc o -> match sel o with
                          | Some v -> v
                          | None -> acc) ops default

(** val all_of : (op -> 'a1 option) -> op list -> 'a1 list **)

let all_of sel ops =
  flat_map (fun o -> match sel o with
                     | Some v -> v :: []
                     | None -> []) ops

(** val sel_pad : op -> n option **)

let sel_pad = function
| OPad p -> Some p
| _ -> None

(** val sel_ntp : op -> n option **)

let sel_ntp = function
| ONtp v -> Some v
| _ -> None

(** val sel_rtp : op -> n option **)

let sel_rtp = function
| ORtp v -> Some v
| _ -> None

(** val sel_pc : op -> n option **)

let sel_pc = function
| OPc v -> Some v
| _ -> None

(** val sel_oc : op -> n option **)

let sel_oc = function
| OOc v -> Some v
| _ -> None

(** val sel_rb : op -> rb_cfg option **)

let sel_rb = function
| ORb b -> Some b
| _ -> None

(** val sel_subtype : op -> n option **)

let sel_subtype = function
| OSubtype v -> Some v
| _ -> None

(** val sel_data : op -> bytes option **)

let sel_data = function
| OData d -> Some d
| _ -> None

(** val sel_src : op -> n option **)

let sel_src = function
| OSrc s -> Some s
| _ -> None

(** val sel_reason : op -> bytes option **)

let sel_reason = function
| OReason r -> Some r
| OReasonOwned r -> Some r
| _ -> None

(** val sel_chunk : op -> chunk_cfg option **)

let sel_chunk = function
| OChunk c -> Some c
| _ -> None

(** val sel_count : op -> n option **)

let sel_count = function
| OCount v -> Some v
| _ -> None

(** val sel_sender : op -> n option **)

let sel_sender = function
| OSender v -> Some v
| _ -> None

(** val sel_media : op -> n option **)

let sel_media = function
| OMedia v -> Some v
| _ -> None

(** val final_rpsi : rpsi_op list -> fci_cfg **)

let final_rpsi ops =
  FRpsi
    ((fold_left (fun acc o -> match o with
                              | RPt v -> v
                              | _ -> acc) ops N0),
    (fold_left (fun acc o ->
      match o with
      | RPt _ -> acc
      | RData (d, _) -> d
      | RDataOwned (d, _) -> d) ops []),
    (fold_left (fun acc o ->
      match o with
      | RPt _ -> acc
      | RData (_, ov) -> ov
      | RDataOwned (_, ov) -> ov) ops N0))

(** val final_fci : fci_hist -> fci_cfg **)

let final_fci = function
| FHNack a -> FNack a
| FHFir a -> FFir a
| FHSli a -> FSli a
| FHRpsi ops -> final_rpsi ops
| FHPli -> FPli

(** val final_member : hist_init -> op list -> member **)

let final_member i ops =
  match i with
  | HSr s ->
    MSr { sr_c_ssrc = s; sr_c_padding = (last_of sel_pad ops N0); sr_c_ntp =
      (last_of sel_ntp ops N0); sr_c_rtp = (last_of sel_rtp ops N0);
      sr_c_pc = (last_of sel_pc ops N0); sr_c_oc = (last_of sel_oc ops N0);
      sr_c_blocks = (all_of sel_rb ops) }
  | HRr s ->
    MRr { rr_c_ssrc = s; rr_c_padding = (last_of sel_pad ops N0);
      rr_c_blocks = (all_of sel_rb ops) }
  | HApp (s, n0) ->
    MApp { app_c_ssrc = s; app_c_padding = (last_of sel_pad ops N0);
      app_c_subtype = (last_of sel_subtype ops N0); app_c_name = n0;
      app_c_data = (last_of sel_data ops []) }
  | HBye ->
    MBye { bye_c_padding = (last_of sel_pad ops N0); bye_c_sources =
      (all_of sel_src ops); bye_c_reason = (last_of sel_reason ops []) }
  | HSdes ->
    MSdes { sdes_c_padding = (last_of sel_pad ops N0); sdes_c_chunks =
      (all_of sel_chunk ops) }
  | HUnk (t, d) ->
    MUnk { unk_c_padding = (last_of sel_pad ops N0); unk_c_type = t;
      unk_c_count = (last_of sel_count ops N0); unk_c_data = d }
  | HFb (k, f) ->
    MFb { fb_c_kind = k; fb_c_padding = (last_of sel_pad ops N0);
      fb_c_sender = (last_of sel_sender ops N0); fb_c_media =
      (last_of sel_media ops N0); fb_c_fci = (final_fci f) }

(** val final_config : hist -> member **)

let final_config h =
  match h.h_wrap with
  | WCompound -> MCompound ((final_member h.h_init h.h_ops) :: [])
  | _ -> final_member h.h_init h.h_ops
