(* C03: SDES packets survive a build-then-parse round trip. *)
From RtcpV Require Export Proofs.C09.

(* values a caller can pass: a non-zero u8 item type (the property's "any non-zero item types"), a u32 SSRC *)
Definition item_wf (i : item_cfg) : Prop := (0 < it_c_type i < 256)%N.
Definition chunk_wf (c : chunk_cfg) : Prop := (ch_c_ssrc c < 4294967296)%N /\ Forall item_wf (ch_c_items c).
Definition sdes_wf (c : sdes_cfg) : Prop := (sdes_c_padding c < 256)%N /\ Forall chunk_wf (sdes_c_chunks c).

(* ---------------------------------------------------------------- items *)

Lemma rfc_item_shape i k :
  item_calc i = Ok k ->
  k = length (rfc_item i) /\ 2 <= k /\
  exists lenb body, rfc_item i = it_c_type i :: lenb :: body /\ N.to_nat lenb = length body /\ length body <= 255.
Proof.
  intros H. apply item_calc_ok in H. destruct H as [Hk Hb]. split; [exact Hk|]. subst k.
  unfold rfc_item, PRIV in *. destruct (it_c_type i =? 8)%N.
  - split; [cbn [app length]; lia|].
    exists (N.of_nat (1 + length (it_c_prefix i) + length (it_c_value i))),
           (N.of_nat (length (it_c_prefix i)) :: it_c_prefix i ++ it_c_value i).
    split; [reflexivity|]. cbn [length]. rewrite app_length. lia.
  - split; [cbn [app length]; lia|].
    exists (N.of_nat (length (it_c_value i))), (it_c_value i). split; [reflexivity|]. lia.
Qed.

Lemma item_parse_rfc i k (tail : bytes) :
  item_calc i = Ok k -> item_parse (rfc_item i ++ tail) = Ok (rfc_item i, k).
Proof.
  intros Hc. pose proof (item_calc_ok i k Hc) as [Hk Hb]. unfold item_parse, rfc_item, PRIV in *.
  destruct (N.eqb_spec (it_c_type i) 8) as [Ht|Ht].
  - set (pl := length (it_c_prefix i)) in *. set (vl := length (it_c_value i)) in *.
    cbn [app length] in Hk. rewrite app_length in Hk. fold pl vl in Hk.
    cbn [app]. rewrite Ht.
    set (data := 8%N :: N.of_nat (1 + pl + vl) :: N.of_nat pl :: (it_c_prefix i ++ it_c_value i) ++ tail).
    assert (Hdl : length data = 3 + pl + vl + length tail) by (unfold data; cbn [length]; rewrite !app_length; fold pl vl; lia).
    destruct (Nat.ltb_spec (length data) 2); [lia|].
    assert (E1 : @idx perr data 1 = Ok (N.of_nat (1 + pl + vl))) by reflexivity. rewrite E1. cbn [bind].
    rewrite Nat2N.id. destruct (Nat.ltb_spec (length data) (2 + (1 + pl + vl))); [lia|].
    destruct (Nat.ltb_spec 255 (1 + pl + vl)); [lia|].
    assert (E2 : @slice perr data 0 (2 + (1 + pl + vl)) = Ok (8%N :: N.of_nat (1 + pl + vl) :: N.of_nat pl :: it_c_prefix i ++ it_c_value i)).
    { unfold data. change (8%N :: N.of_nat (1 + pl + vl) :: N.of_nat pl :: (it_c_prefix i ++ it_c_value i) ++ tail)
        with ((8%N :: N.of_nat (1 + pl + vl) :: N.of_nat pl :: it_c_prefix i ++ it_c_value i) ++ tail).
      apply slice_take. cbn [length]. rewrite app_length. fold pl vl. lia. }
    rewrite E2. cbn [bind]. rewrite idx_head. cbn [bind]. change (8 =? 8)%N with true. cbv iota.
    destruct (Nat.ltb_spec (length (8%N :: N.of_nat (1 + pl + vl) :: N.of_nat pl :: it_c_prefix i ++ it_c_value i)) 3);
      [cbn [length] in *; lia|].
    assert (E3 : @idx perr (8%N :: N.of_nat (1 + pl + vl) :: N.of_nat pl :: it_c_prefix i ++ it_c_value i) 2 = Ok (N.of_nat pl)) by reflexivity.
    rewrite E3. cbn [bind]. rewrite Nat2N.id.
    destruct (Nat.ltb_spec (2 + (1 + pl + vl)) (pl + 3)); [lia|]. f_equal. f_equal. lia.
  - set (vl := length (it_c_value i)) in *. cbn [app length] in Hk. fold vl in Hk. cbn [app].
    set (data := it_c_type i :: N.of_nat vl :: it_c_value i ++ tail).
    assert (Hdl : length data = 2 + vl + length tail) by (unfold data; cbn [length]; rewrite !app_length; fold vl; lia).
    destruct (Nat.ltb_spec (length data) 2); [lia|].
    assert (E1 : @idx perr data 1 = Ok (N.of_nat vl)) by reflexivity. rewrite E1. cbn [bind].
    rewrite Nat2N.id. destruct (Nat.ltb_spec (length data) (2 + vl)); [lia|].
    destruct (Nat.ltb_spec 255 vl); [lia|].
    assert (E2 : @slice perr data 0 (2 + vl) = Ok (it_c_type i :: N.of_nat vl :: it_c_value i)).
    { unfold data. change (it_c_type i :: N.of_nat vl :: it_c_value i ++ tail) with ((it_c_type i :: N.of_nat vl :: it_c_value i) ++ tail).
      apply slice_take. cbn [length]. fold vl. lia. }
    rewrite E2. cbn [bind]. rewrite idx_head. cbn [bind].
    destruct (N.eqb_spec (it_c_type i) 8); [contradiction|]. f_equal. f_equal. lia.
Qed.

Lemma item_view_rfc off i k :
  item_calc i = Ok k -> obs_item (mk_item off (rfc_item i)) = exp_item off i /\
                        item_length (mk_item off (rfc_item i)) = Ok (k - 2).
Proof.
  intros Hc. pose proof (item_calc_ok i k Hc) as [Hk Hb]. unfold obs_item, exp_item.
  unfold item_value, item_priv_prefix, item_priv_prefix_len, item_length, item_type. cbn [it_data it_off].
  unfold rfc_item, PRIV in *.
  destruct (N.eqb_spec (it_c_type i) 8) as [Ht|Ht].
  - set (pl := length (it_c_prefix i)) in *. set (vl := length (it_c_value i)) in *.
    cbn [app length] in Hk. rewrite app_length in Hk. fold pl vl in Hk. cbn [app]. rewrite Ht.
    set (data := 8%N :: N.of_nat (1 + pl + vl) :: N.of_nat pl :: it_c_prefix i ++ it_c_value i).
    assert (Hdl : length data = 3 + pl + vl) by (unfold data; cbn [length]; rewrite !app_length; fold pl vl; lia).
    assert (E0 : @idx perr data 0 = Ok 8%N) by reflexivity.
    assert (E1 : @idx perr data 1 = Ok (N.of_nat (1 + pl + vl))) by reflexivity.
    assert (E2 : @idx perr data 2 = Ok (N.of_nat pl)) by reflexivity.
    rewrite E0, E1. cbn [bind]. change (8 =? 8)%N with true. cbn [negb]. cbv iota. rewrite E2. cbn [bind].
    rewrite Nat2N.id. rewrite tail_from_ok by lia. cbn [bind]. rewrite slice_ok by lia. cbn [bind].
    rewrite Nat2N.id. split; [|f_equal; lia].
    rewrite skipn_length, firstn_length, skipn_length, Hdl.
    cbv [obs_pres obs_res okN okI okO obs_rng fst snd app].
    replace (3 + pl + vl - (pl + 3)) with vl by lia.
    replace (Nat.min (3 + pl - 3) (3 + pl + vl - 3)) with pl by lia.
    replace (off + (pl + 3)) with (off + 3 + pl) by lia. reflexivity.
  - set (vl := length (it_c_value i)) in *. cbn [app length] in Hk. fold vl in Hk. cbn [app].
    set (data := it_c_type i :: N.of_nat vl :: it_c_value i).
    assert (Hdl : length data = 2 + vl) by (unfold data; cbn [length]; fold vl; lia).
    assert (E0 : @idx perr data 0 = Ok (it_c_type i)) by reflexivity.
    assert (E1 : @idx perr data 1 = Ok (N.of_nat vl)) by reflexivity.
    rewrite E0, E1. cbn [bind]. destruct (N.eqb_spec (it_c_type i) 8); [contradiction|]. cbn [negb].
    rewrite tail_from_ok by lia. cbn [bind]. rewrite Nat2N.id. split; [|f_equal; lia].
    rewrite skipn_length, Hdl. cbv [obs_pres obs_res okN okI okO obs_rng fst snd app].
    replace (2 + vl - 2) with vl by lia. reflexivity.
Qed.

(* the views the item loop yields for a list of configured items starting at [off] *)
Fixpoint item_views (off : nat) (its : list item_cfg) : list item_view :=
  match its with
  | [] => []
  | i :: r => mk_item off (rfc_item i) :: item_views (off + length (rfc_item i)) r
  end.

Lemma items_loop_rfc its : forall fuel base (pre tail : bytes),
  Forall item_wf its -> Forall (fun it => exists k, item_calc it = Ok k) its -> length its < fuel ->
  items_loop fuel base (pre ++ concat (map rfc_item its) ++ 0%N :: tail) (length pre) =
  Ok (item_views (base + length pre) its, length pre + length (concat (map rfc_item its)) + 1).
Proof.
  induction its as [|i its IH]; intros fuel base pre tail Hwf Hcs Hf; (destruct fuel as [|fuel]; [cbn [length] in Hf; lia|]);
    cbn [items_loop map concat item_views].
  - cbn [app length]. destruct (Nat.ltb_spec (length pre) (length (pre ++ 0%N :: tail))) as [_|Hge];
      [|rewrite app_length in Hge; cbn [length] in Hge; lia].
    rewrite idx_skip by lia. rewrite Nat.sub_diag, idx_head. cbn [bind]. change (0 =? 0)%N with true. cbv iota.
    f_equal. f_equal. lia.
  - inversion Hwf as [|? ? Hi Hwf']; subst. inversion Hcs as [|? ? [k Hk] Hcs']; subst.
    destruct (rfc_item_shape i k Hk) as [Hkl [Hk2 [lenb [body [Hshape _]]]]].
    set (data := pre ++ (rfc_item i ++ concat (map rfc_item its)) ++ 0%N :: tail).
    assert (Hdl : length pre + k <= length data) by (unfold data; rewrite !app_length; lia).
    destruct (Nat.ltb_spec (length pre) (length data)); [|lia].
    assert (Hdata : data = pre ++ rfc_item i ++ concat (map rfc_item its) ++ 0%N :: tail)
      by (unfold data; rewrite <- !app_assoc; reflexivity).
    assert (E0 : @idx perr data (length pre) = Ok (it_c_type i)).
    { rewrite Hdata, idx_skip by lia. rewrite Nat.sub_diag, Hshape. reflexivity. }
    rewrite E0. cbn [bind]. destruct (N.eqb_spec (it_c_type i) 0) as [Hz|_]; [unfold item_wf in Hi; lia|].
    rewrite tail_from_ok by lia. cbn [bind].
    assert (Et : skipn (length pre) data = rfc_item i ++ concat (map rfc_item its) ++ 0%N :: tail)
      by (rewrite Hdata; rewrite (skipn_app_len pre _ (length pre) 0) by lia; reflexivity).
    rewrite Et, (item_parse_rfc i k) by exact Hk. cbn [bind].
    assert (Hdata' : data = (pre ++ rfc_item i) ++ concat (map rfc_item its) ++ 0%N :: tail)
      by (rewrite Hdata, <- !app_assoc; reflexivity).
    assert (Hpl : length pre + k = length (pre ++ rfc_item i)) by (rewrite app_length; lia).
    rewrite Hdata', Hpl. rewrite IH by (assumption || (cbn [length] in Hf; lia)). cbn [bind].
    rewrite !app_length. f_equal. f_equal; [|lia]. f_equal. rewrite <- Hkl. f_equal. lia.
Qed.

(* ---------------------------------------------------------------- chunks *)

Lemma zero_skip_zeros z : forall fuel (pre tail : bytes),
  z < fuel -> z < 4 -> (length pre + z) mod 4 = 0 ->
  zero_skip fuel (pre ++ zeros z ++ tail) (length pre) = Ok (length pre + z).
Proof.
  induction z as [|z IH]; intros fuel pre tail Hf Hz Hm; (destruct fuel as [|fuel]; [lia|]); cbn [zero_skip].
  - rewrite Nat.add_0_r in *. rewrite Hm. cbn [Nat.eqb negb andb]. reflexivity.
  - destruct (Nat.eqb_spec (length pre mod 4) 0) as [He|_]; [lia|]. cbn [negb andb].
    change (zeros (S z)) with (0%N :: zeros z). cbn [app].
    destruct (Nat.ltb_spec (length pre) (length (pre ++ 0%N :: zeros z ++ tail))) as [_|Hge];
      [|rewrite app_length in Hge; cbn [length] in Hge; lia].
    rewrite idx_skip by lia. rewrite Nat.sub_diag, idx_head. cbn [bind]. change (0 =? 0)%N with true. cbv iota.
    assert (Hd : pre ++ 0%N :: zeros z ++ tail = (pre ++ [0%N]) ++ zeros z ++ tail) by (rewrite <- app_assoc; reflexivity).
    assert (Hl : length pre + 1 = length (pre ++ [0%N])) by (rewrite app_length; reflexivity).
    rewrite Hd, Hl. rewrite IH by (rewrite ?app_length; cbn [length]; lia). rewrite app_length. cbn [length]. f_equal. lia.
Qed.

Definition chunk_view_of (off : nat) (c : chunk_cfg) : chunk_view :=
  mk_chunk (ch_c_ssrc c) (item_views (off + 4) (ch_c_items c)).

Lemma chunk_parse_rfc base c n (tail : bytes) :
  chunk_wf c -> chunk_calc c = Ok n ->
  chunk_parse base (rfc_chunk c ++ tail) = Ok (chunk_view_of base c, n).
Proof.
  intros [Hs Hwf] Hc. apply chunk_calc_ok in Hc. destruct Hc as [Hn [Hmod Hcs]].
  unfold rfc_chunk in *. set (items := concat (map rfc_item (ch_c_items c))) in *. set (L := length items) in *.
  rewrite !app_length, be32_length, zeros_length in Hn. fold L in Hn.
  assert (Hz : 4 - L mod 4 = S (3 - L mod 4)) by lia.
  set (data := (be32 (ch_c_ssrc c) ++ items ++ zeros (4 - L mod 4)) ++ tail).
  assert (Hdata : data = be32 (ch_c_ssrc c) ++ items ++ 0%N :: zeros (3 - L mod 4) ++ tail).
  { unfold data. rewrite Hz. change (zeros (S (3 - L mod 4))) with (0%N :: zeros (3 - L mod 4)). rewrite <- !app_assoc. reflexivity. }
  assert (Hdl : length data = n + length tail) by (unfold data; rewrite !app_length, be32_length, zeros_length; fold L; lia).
  unfold chunk_parse. destruct (Nat.ltb_spec (length data) 4); [lia|].
  assert (E1 : @slice perr data 0 4 = Ok (be32 (ch_c_ssrc c))) by (rewrite Hdata; apply slice_take; reflexivity).
  rewrite E1. cbn [bind]. rewrite be_dec_exact_ok by reflexivity. cbn [bind]. rewrite be_dec_be32 by exact Hs.
  destruct (Nat.ltb_spec 4 (length data)); [|lia].
  assert (Hlits : length (ch_c_items c) < S (length data)).
  { assert (Hle : length (ch_c_items c) <= L).
    { unfold L, items. clear - Hcs. induction (ch_c_items c) as [|i r IH]; [cbn; lia|].
      inversion Hcs as [|? ? [k Hk] Hcs']; subst. cbn [map concat length]. rewrite app_length.
      destruct (rfc_item_shape i k Hk) as [Hkl [Hk2 _]]. specialize (IH Hcs'). lia. }
    lia. }
  assert (E2 : items_loop (S (length data)) base data 4 = Ok (item_views (base + 4) (ch_c_items c), 4 + L + 1)).
  { revert Hlits. rewrite Hdata. intros Hlits.
    exact (items_loop_rfc (ch_c_items c) _ base (be32 (ch_c_ssrc c)) (zeros (3 - L mod 4) ++ tail) Hwf Hcs Hlits). }
  rewrite E2. cbn [bind].
  assert (E3 : zero_skip 4 data (4 + L + 1) = Ok n).
  { assert (Hd2 : data = (be32 (ch_c_ssrc c) ++ items ++ [0%N]) ++ zeros (3 - L mod 4) ++ tail)
      by (rewrite Hdata, <- !app_assoc; reflexivity).
    assert (Hl2 : 4 + L + 1 = length (be32 (ch_c_ssrc c) ++ items ++ [0%N]))
      by (rewrite !app_length, be32_length; fold L; cbn [length]; lia).
    rewrite Hd2, Hl2. rewrite zero_skip_zeros by (rewrite <- ?Hl2; lia). rewrite <- Hl2. f_equal. lia. }
  rewrite E3. cbn [bind].
  assert (Hp : pad4 n = n) by (unfold pad4; lia). rewrite Hp, Nat.eqb_refl. cbn [negb].
  unfold chunk_view_of. reflexivity.
Qed.

Lemma item_views_obs its : forall off,
  Forall (fun it => exists k, item_calc it = Ok k) its ->
  map obs_item (item_views off its) = exp_items off its /\
  items_len_sum (item_views off its) = Ok (length (concat (map rfc_item its))).
Proof.
  induction its as [|i its IH]; intros off Hcs; cbn [item_views map exp_items items_len_sum concat]; [split; reflexivity|].
  inversion Hcs as [|? ? [k Hk] Hcs']; subst. destruct (item_view_rfc off i k Hk) as [Ho Hl].
  destruct (rfc_item_shape i k Hk) as [Hkl [Hk2 _]]. destruct (IH (off + length (rfc_item i)) Hcs') as [IH1 IH2].
  rewrite Ho, Hl, IH2. cbn [bind]. split.
  - f_equal. unfold item_size. exact IH1.
  - rewrite app_length. f_equal. lia.
Qed.

Lemma chunk_view_obs off c n :
  chunk_calc c = Ok n -> obs_chunk (chunk_view_of off c) = exp_chunk off c.
Proof.
  intros Hc. apply chunk_calc_ok in Hc. destruct Hc as [Hn [Hmod Hcs]].
  destruct (item_views_obs (ch_c_items c) (off + 4) Hcs) as [H1 H2].
  unfold obs_chunk, exp_chunk, chunk_view_of, chunk_length, chunk_size. cbn [ch_ssrc ch_items].
  rewrite H2. cbn [bind]. unfold obs_list. rewrite H1.
  assert (Hsz : pad4 (4 + length (concat (map rfc_item (ch_c_items c))) + 1) = length (rfc_chunk c)).
  { unfold rfc_chunk. rewrite !app_length, be32_length, zeros_length. unfold pad4. lia. }
  rewrite Hsz. reflexivity.
Qed.

(* the chunk walk over the chunks of the image *)
Fixpoint chunk_views (off : nat) (cs : list chunk_cfg) : list chunk_view :=
  match cs with
  | [] => []
  | c :: r => chunk_view_of off c :: chunk_views (off + length (rfc_chunk c)) r
  end.

Lemma chunks_loop_rfc cs : forall fuel (pre post : bytes),
  Forall chunk_wf cs -> Forall (fun c => exists k, chunk_calc c = Ok k) cs -> length cs < fuel ->
  chunks_loop fuel (pre ++ concat (map rfc_chunk cs) ++ post)
              (length pre + length (concat (map rfc_chunk cs))) (length pre) =
  Ok (chunk_views (length pre) cs).
Proof.
  induction cs as [|c cs IH]; intros fuel pre post Hwf Hcs Hf; (destruct fuel as [|fuel]; [cbn [length] in Hf; lia|]);
    cbn [chunks_loop map concat chunk_views].
  - cbn [length]. rewrite Nat.add_0_r, Nat.ltb_irrefl. reflexivity.
  - inversion Hwf as [|? ? Hc Hwf']; subst. inversion Hcs as [|? ? [k Hk] Hcs']; subst.
    pose proof (chunk_calc_ok c k Hk) as [Hkl [Hkm _]].
    assert (Hk4 : 4 <= k). { rewrite Hkl. unfold rfc_chunk. rewrite !app_length, be32_length. lia. }
    rewrite app_length. set (rest := concat (map rfc_chunk cs)) in *.
    destruct (Nat.ltb_spec (length pre) (length pre + (length (rfc_chunk c) + length rest))); [|lia].
    assert (E1 : @slice perr (pre ++ (rfc_chunk c ++ rest) ++ post) (length pre) (length pre + (length (rfc_chunk c) + length rest))
                 = Ok (rfc_chunk c ++ rest)).
    { rewrite slice_skip by lia. rewrite Nat.sub_diag.
      replace (length pre + (length (rfc_chunk c) + length rest) - length pre) with (length (rfc_chunk c ++ rest))
        by (rewrite app_length; lia).
      apply slice_take. reflexivity. }
    rewrite E1. cbn [bind]. rewrite (chunk_parse_rfc (length pre) c k rest Hc Hk). cbn [bind].
    assert (Hd : pre ++ (rfc_chunk c ++ rest) ++ post = (pre ++ rfc_chunk c) ++ rest ++ post) by (rewrite <- !app_assoc; reflexivity).
    assert (Hl1 : length pre + k = length (pre ++ rfc_chunk c)) by (rewrite app_length; lia).
    assert (Hl2 : length pre + (length (rfc_chunk c) + length rest) = length (pre ++ rfc_chunk c) + length rest) by (rewrite app_length; lia).
    rewrite Hd, Hl1, Hl2. unfold rest. rewrite IH by (assumption || (cbn [length] in Hf; lia)). cbn [bind].
    rewrite app_length. reflexivity.
Qed.

Lemma chunk_views_obs cs : forall off,
  Forall (fun c => exists k, chunk_calc c = Ok k) cs ->
  map obs_chunk (chunk_views off cs) = exp_chunks off cs.
Proof.
  induction cs as [|c cs IH]; intros off Hcs; cbn [chunk_views map exp_chunks]; [reflexivity|].
  inversion Hcs as [|? ? [k Hk] Hcs']; subst. rewrite (chunk_view_obs off c k Hk). unfold chunk_size. rewrite IH by exact Hcs'. reflexivity.
Qed.

(* ---------------------------------------------------------------- the packet *)

Lemma chunks_length_ge cs : 4 * length cs <= length (concat (map rfc_chunk cs)).
Proof.
  induction cs as [|c cs IH]; cbn [map concat length]; [lia|].
  rewrite app_length. unfold rfc_chunk at 1. rewrite !app_length, be32_length. lia.
Qed.

Definition sdes_body (c : sdes_cfg) : bytes := concat (map rfc_chunk (sdes_c_chunks c)).

Lemma sdes_image_ok c n :
  sdes_wf c -> sdes_calc c = Ok n -> (N.of_nat n <= 262144)%N ->
  image_ok 4 (sdes_c_padding c) (N.of_nat (length (sdes_c_chunks c))) n (sdes_body c) /\
  rfc_sdes c = image 202 (sdes_c_padding c) (N.of_nat (length (sdes_c_chunks c))) n (sdes_body c).
Proof.
  intros [Hp Hwf] Hc Hmax. apply sdes_calc_ok in Hc. destruct Hc as [Hnc [Hpm [Hf [Hm Hn]]]].
  split.
  - constructor; unfold sdes_body; try lia.
  - unfold rfc_sdes, image, sdes_body. rewrite <- Hn. reflexivity.
Qed.

Theorem sdes_roundtrip c n :
  sdes_wf c -> sdes_calc c = Ok n -> (N.of_nat n <= 262144)%N ->
  typed_parse VSdes (rfc_sdes c) = Ok (mk_pkt VSdes (rfc_sdes c) (chunk_views 4 (sdes_c_chunks c))) /\
  obs_view (mk_pkt VSdes (rfc_sdes c) (chunk_views 4 (sdes_c_chunks c))) = exp_sdes c.
Proof.
  intros Hwf Hc Hmax. destruct (sdes_image_ok c n Hwf Hc Hmax) as [Hio Himg].
  pose proof (sdes_calc_ok c n Hc) as [Hnc [Hpm [Hf [Hm Hn]]]]. destruct Hwf as [Hp Hwf].
  set (img := rfc_sdes c) in *.
  assert (Hlen : length img = n) by (rewrite Himg; apply image_length; apply (io_len _ _ _ _ _ Hio)).
  assert (Hpad : parse_padding img = Ok (get_padding_of (sdes_c_padding c))) by (rewrite Himg; apply (image_parse_padding 4); exact Hio).
  assert (Hpn : N.to_nat (match get_padding_of (sdes_c_padding c) with Some p => p | None => 0%N end) = N.to_nat (sdes_c_padding c))
    by (unfold get_padding_of; destruct (N.eqb_spec (sdes_c_padding c) 0) as [->|]; reflexivity).
  split.
  - cbn [typed_parse]. unfold sdes_parse, SDES_MIN, SDES_PT. rewrite Himg at 1. rewrite (image_check_packet 4 202) by exact Hio.
    cbn [bind]. rewrite Hpad. cbn [bind]. rewrite Hpn, Hlen. rewrite usub_ok by lia. cbn [bind].
    destruct (Nat.ltb_spec 4 n) as [Hlt|Hge].
    + assert (Hcl : chunks_loop (S n) img (n - N.to_nat (sdes_c_padding c)) 4 = Ok (chunk_views 4 (sdes_c_chunks c))).
      { assert (Hd : img = rfc_header 202 (sdes_c_padding c) (N.of_nat (length (sdes_c_chunks c))) n ++
                           concat (map rfc_chunk (sdes_c_chunks c)) ++ rfc_trailer (sdes_c_padding c))
          by (rewrite Himg; reflexivity).
        remember (rfc_header 202 (sdes_c_padding c) (N.of_nat (length (sdes_c_chunks c))) n) as hdr eqn:Hhdr.
        assert (Hh : length hdr = 4) by (subst hdr; reflexivity).
        rewrite Hd. replace (n - N.to_nat (sdes_c_padding c)) with (length hdr + length (concat (map rfc_chunk (sdes_c_chunks c)))) by lia.
        pose proof (chunks_length_ge (sdes_c_chunks c)) as Hge.
        rewrite <- Hh. apply chunks_loop_rfc; [exact Hwf|exact Hf|lia]. }
      rewrite Hcl. reflexivity.
    + (* no chunks *)
      assert (Hnil : sdes_c_chunks c = []).
      { destruct (sdes_c_chunks c) as [|c0 cs] eqn:E; [reflexivity|]. exfalso.
        apply Forall_inv in Hf. destruct Hf as [k Hk]. apply chunk_calc_ok in Hk. destruct Hk as [Hkl _].
        cbn [map concat] in Hn. rewrite app_length in Hn. unfold rfc_chunk in Hn. rewrite !app_length, be32_length in Hn. lia. }
      rewrite Hnil. reflexivity.
  - unfold obs_view, exp_sdes. cbn [pk_variant pk_data pk_chunks]. rewrite Hpad.
    rewrite Himg at 1. rewrite (image_obs_hdr 4) by exact Hio. unfold obs_list. rewrite chunk_views_obs by exact Hf.
    rewrite Hn. reflexivity.
Qed.

Theorem sdes_build_then_parse c n (buf : bytes) :
  sdes_wf c -> m_calc (MSdes c) = Ok n -> (N.of_nat n <= 262144)%N -> n <= length buf ->
  m_write_into (MSdes c) buf = (Ok n, rfc_sdes c ++ skipn n buf) /\
  exists pv, packet_parse (rfc_sdes c) = Ok pv /\ pk_variant pv = VSdes /\ pk_data pv = rfc_sdes c /\
             obs_view pv = exp_sdes c.
Proof.
  intros Hwf Hc Hmax Hn. cbn [m_calc] in Hc. destruct (sdes_roundtrip c n Hwf Hc Hmax) as [Hp Hv].
  split.
  - unfold m_write_into. cbn [m_calc m_write_unchecked].
    apply write_into_ok; [exact Hc|exact Hn|]. intros s Hs. apply sdes_write_ok; assumption.
  - destruct (sdes_image_ok c n Hwf Hc Hmax) as [Hio Himg].
    eexists. split; [|split; [|split; [|exact Hv]]]; [|reflexivity|reflexivity].
    rewrite <- Hp. rewrite Himg. apply packet_parse_of_image; [|apply image_length; apply (io_len _ _ _ _ _ Hio)|reflexivity].
    pose proof (io_min _ _ _ _ _ Hio). lia.
Qed.

(* the premises hold of a two-chunk packet with a PRIV item, an empty value, an SSRC with leading zero
   bytes in the second chunk and padding *)
Example sdes_premises_hold :
  let c := mk_sdes 4 [mk_ccfg 305419896 [mk_icfg 1 [] [97; 98; 99]; mk_icfg 8 [112; 113] [118]];
                      mk_ccfg 7 [mk_icfg 2 [] []]]%N in
  sdes_wf c /\ sdes_calc c = Ok 32 /\ (N.of_nat 32 <= 262144)%N.
Proof.
  cbv zeta. split; [|split; [vm_compute; reflexivity|lia]].
  unfold sdes_wf, chunk_wf, item_wf. cbn [sdes_c_padding sdes_c_chunks ch_c_ssrc ch_c_items it_c_type].
  split; [lia|]. repeat constructor; cbn [ch_c_ssrc ch_c_items it_c_type]; try lia.
Qed.

(* the size bound of the statements above is exactly known finding D13: every accepted configuration
   above 65536 words is written as bytes the crate's own parser rejects *)
Theorem sdes_oversize_rejected c n :
  sdes_wf c -> sdes_calc c = Ok n -> (262144 < N.of_nat n)%N ->
  exists e, typed_parse VSdes (rfc_sdes c) = Err e.
Proof.
  intros Hwf Hc Hbig. pose proof (sdes_calc_ok c n Hc) as [Hnc [Hpm [Hf [Hm Hn]]]].
  assert (Hlen : length (rfc_sdes c) = n).
  { unfold rfc_sdes, rfc_header. rewrite !app_length, rfc_trailer_length, be16_length. cbn [length]. lia. }
  cbn [typed_parse]. unfold sdes_parse.
  pose proof (check_packet_total SDES_MIN SDES_PT (rfc_sdes c) ltac:(unfold SDES_MIN; lia)) as [Hcp|[e Hcp]];
    rewrite Hcp; cbn [bind]; [|eauto].
  exfalso. apply check_packet_iff in Hcp; [|unfold SDES_MIN; lia]. apply well_framed_conditions in Hcp.
  destruct Hcp as [a [b [c0 [d [r [Hp [_ [_ [_ [Hl _]]]]]]]]]].
  assert (Hcd : (c0 < 256 /\ d < 256)%N).
  { unfold rfc_sdes, rfc_header, be16 in Hp. cbn [app] in Hp. injection Hp as _ _ <- <- _. lia. }
  rewrite Hlen in Hl. lia.
Qed.
