(* C18, compound parser: the error is Truncated with the real length of the input and the offset at which
   the tile the walk was looking at would have ended; an input shorter than one header is reported with
   exactly the minimum 4. *)
From RtcpV Require Export Proofs.C18.

Lemma compound_check_truncated_exact fuel d off e :
  compound_check fuel d off = Err e ->
  exists ex, e = Truncated ex (length d) /\ ex > length d /\ off < length d.
Proof.
  revert off. unfold UNK_MIN. induction fuel as [|f IH]; intros off; cbn [compound_check]; [discriminate|].
  destruct (Nat.ltb_spec off (length d)) as [Hlt|Hge]; [|discriminate].
  destruct (Nat.ltb_spec (length d) (off + UNK_MIN)) as [Hs|Hs]; unfold UNK_MIN in Hs; [intros [= <-]; exists (off + 4); repeat split; lia|].
  destruct (tail_from d off) as [t|?| |] eqn:Ht; cbn [bind]; try discriminate;
    [|pose proof (errs_tail_from (fun _ => False) d off) as Hf; rewrite Ht in Hf; destruct Hf].
  destruct (parse_length t) as [pl|?| |] eqn:Hpl; cbn [bind]; try discriminate;
    [|pose proof (errs_parse_length (fun _ => False) t) as Hf; rewrite Hpl in Hf; destruct Hf].
  destruct (Nat.ltb_spec (length d) (off + pl)) as [Hp|Hp]; [intros [= <-]; exists (off + pl); repeat split; lia|].
  intros Hrec. destruct (IH _ Hrec) as [ex [He [Hgt _]]]. exists ex. repeat split; assumption.
Qed.

Theorem compound_errors_exact l e :
  compound_parse l = Err e ->
  (exists ex, e = Truncated ex (length l) /\ ex > length l) /\
  (length l < 4 -> e = Truncated 4 (length l)).
Proof.
  unfold compound_parse. destruct l as [|x l].
  - intros [= <-]. split; [exists 4; split; [reflexivity|cbn; lia]|reflexivity].
  - intros H. apply bind_err_inv in H. destruct H as [H|[u [_ H]]]; [|discriminate]. split.
    + destruct (compound_check_truncated_exact _ _ _ _ H) as [ex [He [Hgt _]]]. exists ex. split; assumption.
    + intros Hshort. cbn [compound_check] in H.
      destruct (Nat.ltb_spec 0 (length (x :: l))) as [_|Hz]; [|cbn [length] in Hz; lia].
      unfold UNK_MIN in H. destruct (Nat.ltb_spec (length (x :: l)) (0 + 4)) as [_|Hge]; [|lia].
      injection H as <-. reflexivity.
Qed.
