(* C01, accessor level: every accessor of every accepted typed view returns normally.
   [view_clean]: no observation of the view is the token of a Rust panic or of fuel exhaustion. *)
From RtcpV Require Export Proofs.C10.

Definition view_clean (kvs : list kv) : bool := forallb (fun p => obs_clean (snd p)) kvs.

Lemma clean_okO o : obs_clean (okO o) = obs_clean o.
Proof. unfold okO. cbn [obs_clean forallb]. destruct (obs_clean o); reflexivity. Qed.
Lemma clean_okN x : obs_clean (okN x) = true. Proof. reflexivity. Qed.
Lemma clean_okI x : obs_clean (okI x) = true. Proof. reflexivity. Qed.
Lemma clean_range a b : obs_clean (obs_range a b) = true. Proof. reflexivity. Qed.
Lemma clean_perr e : obs_clean (obs_perr e) = true. Proof. destruct e; reflexivity. Qed.
Lemma clean_err e : obs_clean (OL [OS "err"; obs_perr e]) = true.
Proof. cbn [obs_clean forallb]. rewrite clean_perr. reflexivity. Qed.
Lemma clean_OL l : obs_clean (OL l) = forallb obs_clean l. Proof. reflexivity. Qed.
Lemma clean_map {A} (f : A -> obs) l : (forall x, In x l -> obs_clean (f x) = true) -> forallb obs_clean (map f l) = true.
Proof. intros H. apply forallb_forall. intros o Ho. apply in_map_iff in Ho. destruct Ho as [x [<- Hx]]. apply H. exact Hx. Qed.

Lemma clean_pres {A} (f : A -> obs) (r : pres A) :
  returns_normally r -> (forall a, r = Ok a -> obs_clean (f a) = true) -> obs_clean (obs_pres f r) = true.
Proof.
  intros Hn Hf. destruct r as [a|e| |]; cbn in Hn; try contradiction.
  - cbn [obs_pres obs_res obs_clean forallb]. rewrite (Hf a eq_refl). reflexivity.
  - apply clean_err.
Qed.

Lemma clean_ref_hdr l : obs_clean (ref_hdr l) = true. Proof. reflexivity. Qed.
Lemma clean_ref_padding l : obs_clean (ref_padding l) = true.
Proof. unfold ref_padding. destruct (_ =? _)%N; reflexivity. Qed.
Lemma clean_ref_rbs l s : obs_clean (ref_rbs l s) = true.
Proof. unfold ref_rbs. rewrite clean_okO, clean_OL. apply clean_map. intros; reflexivity. Qed.

Lemma clean_ref_view v l : v <> VSdes -> view_clean (ref_view v l) = true.
Proof.
  intros Hv. unfold view_clean, ref_view. destruct v; try congruence; cbn [forallb snd];
    rewrite ?clean_ref_hdr, ?clean_ref_padding, ?clean_ref_rbs, ?clean_okN, ?clean_okO, ?clean_range; cbn [andb]; try reflexivity.
  - (* BYE *) rewrite clean_OL. rewrite clean_map by (intros; reflexivity). cbn [andb].
    destruct (_ <? _); reflexivity.
Qed.

(* the FCI reference decodings contain no panic token either *)
Lemma clean_fci_ref t base fci : obs_clean (fci_ref t base fci) = true.
Proof.
  destruct t; cbn [fci_ref].
  - rewrite clean_okO, clean_OL. cbn [forallb]. rewrite !clean_okO, clean_OL. rewrite clean_map by (intros; reflexivity). reflexivity.
  - destruct (_ <? _); [apply clean_err|]. rewrite !clean_okO, clean_OL. apply clean_map. intros; reflexivity.
  - destruct (_ <? _); [apply clean_err|]. rewrite !clean_okO, clean_OL. apply clean_map. intros; reflexivity.
  - destruct (_ <? _); [apply clean_err|]. cbv zeta. destruct (_ <? _); [apply clean_err|]. reflexivity.
  - destruct (_ =? _); [reflexivity|apply clean_err].
Qed.

Lemma clean_fb_fci_ref k l : obs_clean (fb_fci_ref k l) = true.
Proof.
  unfold fb_fci_ref. cbv zeta. rewrite clean_OL. apply clean_map. intros t _.
  destruct (_ && _); [apply clean_fci_ref|reflexivity].
Qed.

(* ---------------------------------------------------------------- SDES items and chunks *)

Lemma idx_of_nth_error (l : bytes) i b : nth_error l i = Some b -> @idx perr l i = Ok b.
Proof. intros H. unfold idx. rewrite H. reflexivity. Qed.

Lemma item_accessors_clean off (data it : bytes) e :
  item_ok data it e -> obs_clean (obs_item (mk_item off it)) = true /\ exists n, item_length (mk_item off it) = Ok n.
Proof.
  intros [Hit [He [ty [lenb [H0 [H1 [Hel Hpriv]]]]]]].
  assert (Hl : length it = e) by (rewrite Hit, firstn_length; lia).
  unfold obs_item, item_value, item_priv_prefix, item_priv_prefix_len, item_length, item_type. cbn [it_data it_off].
  rewrite (idx_of_nth_error it 0 ty H0), (idx_of_nth_error it 1 lenb H1). cbn [bind].
  split; [|eauto].
  destruct (N.eqb_spec ty PRIV) as [Hp|Hp]; cbn [negb].
  - destruct (Hpriv Hp) as [H3 [pl [H2 Hple]]]. rewrite (idx_of_nth_error it 2 pl H2). cbn [bind].
    rewrite tail_from_ok by lia. cbn [bind]. rewrite slice_ok by lia. cbn [bind]. reflexivity.
  - rewrite tail_from_ok by lia. cbn [bind]. reflexivity.
Qed.

Lemma items_clean (l : bytes) its :
  Forall (item_in_packet l) its ->
  forallb obs_clean (map obs_item its) = true /\ exists s, items_len_sum its = Ok s.
Proof.
  induction its as [|it its IH]; intros H; [split; [reflexivity|exists 0; reflexivity]|].
  inversion H as [|? ? [e [_ Hok]] Hr]; subst. destruct (IH Hr) as [I1 [s I2]].
  destruct it as [off d]. cbn [it_off it_data] in Hok.
  destruct (item_accessors_clean off _ d e Hok) as [Hc [n Hn]].
  cbn [map forallb items_len_sum]. rewrite Hc, I1, Hn, I2. cbn [bind]. split; [reflexivity|eauto].
Qed.

Lemma chunk_clean (l : bytes) c :
  Forall (item_in_packet l) (ch_items c) -> obs_clean (obs_chunk c) = true.
Proof.
  intros H. destruct (items_clean l _ H) as [H1 [s H2]].
  unfold obs_chunk, chunk_length, obs_list. rewrite H2. cbn [bind obs_pres obs_res obs_clean forallb].
  change (forallb obs_clean (map obs_item (ch_items c))) with (forallb obs_clean (map obs_item (ch_items c))).
  rewrite H1. reflexivity.
Qed.

(* ---------------------------------------------------------------- every accepted typed view *)

Theorem accepted_views_clean v (l : bytes) pv :
  wfb l -> typed_parse v l = Ok pv -> view_clean (obs_view pv) = true.
Proof.
  intros Hw H. destruct v.
  - destruct (app_accessors l pv H) as [-> _]. apply clean_ref_view. discriminate.
  - destruct (bye_accessors l pv H) as [-> _]. apply clean_ref_view. discriminate.
  - rewrite (rr_accessors l pv Hw H). apply clean_ref_view. discriminate.
  - (* SDES *)
    destruct (typed_check VSdes l pv ltac:(discriminate) H) as [Hc [_ Hpv]]. cbn [variant_min variant_pt] in Hc.
    cbn [typed_parse] in H. apply bind_ok_inv in H. destruct H as [cs [Hs [= <-]]].
    pose proof (sdes_parse_post l) as P. rewrite Hs in P. cbn [post] in P. destruct P as [_ Hitems].
    destruct (acc_padding 4 SDES_PT l ltac:(lia) Hc) as [Hp [_ [H4 _]]].
    unfold view_clean, obs_view. cbn [pk_variant pk_data pk_chunks forallb snd].
    rewrite acc_hdr by exact H4. rewrite (obs_padding_ref l Hp), clean_ref_hdr, clean_ref_padding. cbn [andb].
    unfold obs_list. rewrite clean_OL. rewrite clean_map; [reflexivity|].
    intros c Hin. apply (chunk_clean l). rewrite Forall_forall in Hitems. apply Hitems. exact Hin.
  - rewrite (sr_accessors l pv Hw H). apply clean_ref_view. discriminate.
  - rewrite (fb_accessors Transport l pv H). unfold view_clean. rewrite forallb_app.
    fold (view_clean (ref_view VTfb l)). rewrite clean_ref_view by discriminate. cbn [forallb snd andb].
    destruct (typed_check VTfb l pv ltac:(discriminate) H) as [Hc _]. cbn [variant_min variant_pt] in Hc.
    rewrite (fb_fci_decoding Transport l (check_packet_framed 12 _ l ltac:(lia) Hc) Hw), clean_fb_fci_ref. reflexivity.
  - rewrite (fb_accessors Payload l pv H). unfold view_clean. rewrite forallb_app.
    fold (view_clean (ref_view VPfb l)). rewrite clean_ref_view by discriminate. cbn [forallb snd andb].
    destruct (typed_check VPfb l pv ltac:(discriminate) H) as [Hc _]. cbn [variant_min variant_pt] in Hc.
    rewrite (fb_fci_decoding Payload l (check_packet_framed 12 _ l ltac:(lia) Hc) Hw), clean_fb_fci_ref. reflexivity.
  - rewrite (unknown_accessors l pv H). apply clean_ref_view. discriminate.
Qed.

(* through the generic parser *)
Theorem generic_views_clean (l : bytes) pv :
  wfb l -> packet_parse l = Ok pv -> view_clean (obs_view pv) = true.
Proof.
  intros Hw H. destruct (Nat.lt_ge_cases (length l) 4) as [Hs|Hs].
  - exfalso. pose proof (generic_accept_framed l pv H) as [Hd _].
    destruct l as [|a [|b [|c [|d r]]]]; cbn [length] in Hs; try lia; vm_compute in H; discriminate.
  - destruct (generic_is_typed l Hs) as [b [_ Hg]]. rewrite Hg in H. eapply accepted_views_clean; eauto.
Qed.
