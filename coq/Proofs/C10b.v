(* C10, continued: the reference tokeniser judges every image of the independent encoder "must accept"
   and reads back the configured chunks - so the must-accept clause of C10 covers every well-formed
   packet the encoder can produce. *)
From RtcpV Require Export Proofs.C01.

Lemma byte_at_app_r (a b : bytes) i : byte_at (a ++ b) (length a + i) = byte_at b i.
Proof. unfold byte_at. rewrite app_nth2 by lia. f_equal. lia. Qed.

Lemma byte_at_app_l (a b : bytes) i : i < length a -> byte_at (a ++ b) i = byte_at a i.
Proof. intros H. unfold byte_at. apply app_nth1. exact H. Qed.

Fixpoint ref_tokens (p : nat) (its : list item_cfg) : list ref_item :=
  match its with
  | [] => []
  | i :: r => ref_token p (rfc_item i) :: ref_tokens (p + length (rfc_item i)) r
  end.

(* one item of the image at position p = length pre *)
Lemma ref_item_step (pre rest : bytes) i k :
  item_wf i -> item_calc i = Ok k ->
  let l := pre ++ rfc_item i ++ rest in
  let p := length pre in
  let len := N.to_nat (byte_at l (p + 1)) in
  byte_at l p = it_c_type i /\ k = 2 + len /\
  (it_c_type i = 8%N -> len <> 0 /\ N.to_nat (byte_at l (p + 2)) + 1 <= len) /\
  ref_token p (rfc_item i) =
    (if (it_c_type i =? 8)%N
     then RItem (it_c_type i) (p + 3 + N.to_nat (byte_at l (p + 2))) (len - 1 - N.to_nat (byte_at l (p + 2)))
                (Some (p + 3, N.to_nat (byte_at l (p + 2))))
     else RItem (it_c_type i) (p + 2) len None).
Proof.
  intros Hwf Hc l p len. pose proof (item_calc_ok i k Hc) as [Hk Hb].
  assert (B : forall j, j < length (rfc_item i) -> byte_at l (p + j) = nth j (rfc_item i) 0%N).
  { intros j Hj. unfold l, p. rewrite byte_at_app_r. rewrite byte_at_app_l by exact Hj. reflexivity. }
  unfold ref_token. unfold rfc_item, PRIV in *.
  destruct (N.eqb_spec (it_c_type i) 8) as [Ht|Ht].
  - set (pl := length (it_c_prefix i)) in *. set (vl := length (it_c_value i)) in *.
    cbn [app length] in Hk, B. rewrite app_length in Hk, B. fold pl vl in Hk, B.
    pose proof (B 0 ltac:(lia)) as B0. pose proof (B 1 ltac:(lia)) as B1. pose proof (B 2 ltac:(lia)) as B2.
    cbn [app nth] in B0, B1, B2 |- *. replace (p + 0) with p in B0 by lia.
    unfold len. rewrite B0, B1, B2, !Nat2N.id.
    destruct (N.eqb_spec (it_c_type i) 8); [|contradiction].
    split; [reflexivity|]. split; [lia|]. split; [intros _; lia|reflexivity].
  - set (vl := length (it_c_value i)) in *. cbn [app length] in Hk, B. fold vl in Hk, B.
    pose proof (B 0 ltac:(lia)) as B0. pose proof (B 1 ltac:(lia)) as B1.
    cbn [app nth] in B0, B1 |- *. replace (p + 0) with p in B0 by lia.
    unfold len. rewrite B0, B1, !Nat2N.id.
    destruct (N.eqb_spec (it_c_type i) 8); [contradiction|].
    split; [reflexivity|]. split; [lia|]. split; [intros; contradiction|reflexivity].
Qed.

Lemma forallb_zeros z : forallb (fun b : N => (b =? 0)%N) (zeros z) = true.
Proof. induction z as [|z IH]; [reflexivity|]. change (zeros (S z)) with (0%N :: zeros z). cbn [forallb]. exact IH. Qed.

Lemma ref_items_rfc its : forall fuel (pre tail : bytes) e,
  Forall item_wf its -> Forall (fun it => exists k, item_calc it = Ok k) its -> length its < fuel ->
  let L := length (concat (map rfc_item its)) in
  let p := length pre in
  let stop := pad4 (p + L + 1) in
  stop <= e ->
  ref_items fuel (pre ++ concat (map rfc_item its) ++ zeros (stop - (p + L)) ++ tail) e p =
  Done (ref_tokens p its, stop).
Proof.
  induction its as [|i its IH]; intros fuel pre tail e Hwf Hcs Hf L p stop He;
    (destruct fuel as [|fuel]; [cbn [length] in Hf; lia|]); cbn [ref_items].
  - subst L stop. cbn [map concat length app] in *. replace (p + 0) with p in * by lia.
    pose proof (pad4_ge (p + 1)) as Hs1. pose proof (pad4_lt (p + 1)) as Hs2.
    set (z := pad4 (p + 1) - p) in *. assert (Hz : z = S (z - 1)) by (unfold z; lia).
    destruct (Nat.leb_spec e p); [lia|].
    assert (B0 : byte_at (pre ++ zeros z ++ tail) p = 0%N).
    { unfold p. rewrite <- (Nat.add_0_r (length pre)), byte_at_app_r. rewrite Hz. reflexivity. }
    rewrite B0. change (0 =? 0)%N with true. cbv iota.
    destruct (Nat.ltb_spec e (pad4 (p + 1))); [lia|].
    assert (Hsub : sub (pre ++ zeros z ++ tail) p z = zeros z).
    { unfold sub, p. rewrite (skipn_app_len pre _ (length pre) 0) by lia. cbn [skipn].
      rewrite firstn_app_len by (rewrite zeros_length; reflexivity). reflexivity. }
    rewrite Hsub, forallb_zeros. reflexivity.
  - inversion Hwf as [|? ? Hi Hwf']; subst. inversion Hcs as [|? ? [k Hk] Hcs']; subst.
    subst L stop. cbn [map concat ref_tokens] in *.
    set (t := rfc_item i) in *. set (rest := concat (map rfc_item its)) in *.
    rewrite app_length in *. set (L := length t + length rest) in *. set (stop := pad4 (p + L + 1)) in *.
    assert (Hl : pre ++ (t ++ rest) ++ zeros (stop - (p + L)) ++ tail = pre ++ t ++ (rest ++ zeros (stop - (p + L)) ++ tail))
      by (rewrite <- !app_assoc; reflexivity).
    rewrite Hl. set (l := pre ++ t ++ rest ++ zeros (stop - (p + L)) ++ tail).
    destruct (ref_item_step pre (rest ++ zeros (stop - (p + L)) ++ tail) i k Hi Hk) as [B0 [Hklen [Hpriv Htok]]].
    fold t l p in B0, Hklen, Hpriv, Htok.
    destruct (rfc_item_shape i k Hk) as [Hkl [Hk2 _]]. fold t in Hkl.
    pose proof (pad4_ge (p + L + 1)) as Hstop. fold stop in Hstop.
    destruct (Nat.leb_spec e p); [lia|]. rewrite B0.
    destruct (N.eqb_spec (it_c_type i) 0) as [Hz|_]; [unfold item_wf in Hi; lia|].
    destruct (Nat.ltb_spec e (p + 2)); [lia|].
    set (len := N.to_nat (byte_at l (p + 1))) in *.
    destruct (Nat.ltb_spec e (p + 2 + len)); [lia|].
    (* the recursive call is the induction hypothesis at pre ++ t *)
    assert (Hl2 : l = (pre ++ t) ++ rest ++ zeros (stop - (p + L)) ++ tail) by (unfold l; rewrite <- !app_assoc; reflexivity).
    assert (Hp2 : p + 2 + len = length (pre ++ t)) by (rewrite app_length; fold p; lia).
    assert (Hpl : length (pre ++ t) + length rest = p + L) by (rewrite app_length; fold p; unfold L; lia).
    assert (Hrec : ref_items fuel l e (p + 2 + len) = Done (ref_tokens (p + length t) its, stop)).
    { rewrite Hl2, Hp2.
      pose proof (IH fuel (pre ++ t) tail e Hwf' Hcs' ltac:(cbn [length] in Hf; lia)) as IH'. cbv zeta in IH'.
      fold rest in IH'. rewrite Hpl in IH'. fold stop in IH'. rewrite IH' by exact He.
      rewrite app_length. reflexivity. }
    destruct (N.eqb_spec (it_c_type i) 8) as [E8|N8].
    + destruct (Hpriv E8) as [Hl0 Hpl']. destruct (Nat.eqb_spec len 0); [lia|].
      destruct (Nat.ltb_spec len (N.to_nat (byte_at l (p + 2)) + 1)); [lia|].
      rewrite Hrec. cbn [fst snd]. rewrite Htok. reflexivity.
    + rewrite Hrec. cbn [fst snd]. rewrite Htok. reflexivity.
Qed.

(* ---------------------------------------------------------------- chunks and the packet *)

Definition ref_chunk_of (p : nat) (c : chunk_cfg) : ref_chunk :=
  mk_rchunk (ch_c_ssrc c) (length (rfc_chunk c)) (ref_tokens (p + 4) (ch_c_items c)).
Fixpoint ref_chunks_of (p : nat) (cs : list chunk_cfg) : list ref_chunk :=
  match cs with
  | [] => []
  | c :: r => ref_chunk_of p c :: ref_chunks_of (p + length (rfc_chunk c)) r
  end.

Lemma items_count_le its :
  Forall (fun it => exists k, item_calc it = Ok k) its -> length its <= length (concat (map rfc_item its)).
Proof.
  induction its as [|i r IH]; intros H; [cbn; lia|].
  inversion H as [|? ? [k Hk] H']; subst. cbn [map concat length]. rewrite app_length.
  destruct (rfc_item_shape i k Hk) as [Hkl [Hk2 _]]. specialize (IH H'). lia.
Qed.

Lemma ref_chunks_rfc cs : forall fuel (pre post : bytes),
  Forall chunk_wf cs -> Forall (fun c => exists k, chunk_calc c = Ok k) cs -> length cs < fuel ->
  length pre mod 4 = 0 ->
  ref_chunks fuel (pre ++ concat (map rfc_chunk cs) ++ post)
             (length pre + length (concat (map rfc_chunk cs))) (length pre) =
  Done (ref_chunks_of (length pre) cs).
Proof.
  induction cs as [|c cs IH]; intros fuel pre post Hwf Hcs Hf Hal;
    (destruct fuel as [|fuel]; [cbn [length] in Hf; lia|]); cbn [ref_chunks map concat ref_chunks_of].
  - cbn [length]. rewrite Nat.add_0_r. destruct (Nat.leb_spec (length pre) (length pre)); [reflexivity|lia].
  - inversion Hwf as [|? ? [Hs Hiw] Hwf']; subst. inversion Hcs as [|? ? [k Hk] Hcs']; subst.
    pose proof (chunk_calc_ok c k Hk) as [Hkl [Hkm Hic]].
    set (p := length pre) in *. set (items := concat (map rfc_item (ch_c_items c))) in *. set (L := length items) in *.
    set (rest := concat (map rfc_chunk cs)) in *.
    assert (Hcl : length (rfc_chunk c) = 4 + L + (4 - L mod 4))
      by (unfold rfc_chunk; fold items L; rewrite !app_length, be32_length, zeros_length; lia).
    rewrite app_length. set (e := p + (length (rfc_chunk c) + length rest)).
    destruct (Nat.leb_spec e p); [unfold e in *; lia|]. destruct (Nat.ltb_spec e (p + 4)); [unfold e in *; lia|].
    set (l := pre ++ (rfc_chunk c ++ rest) ++ post).
    set (stop := pad4 (p + 4 + L + 1)).
    assert (Hstop : stop = p + length (rfc_chunk c)) by (unfold stop, pad4; lia).
    assert (Hz : 4 - L mod 4 = stop - (p + 4 + L)) by lia.
    assert (Hl : l = (pre ++ be32 (ch_c_ssrc c)) ++ items ++ zeros (stop - (length (pre ++ be32 (ch_c_ssrc c)) + L)) ++ (rest ++ post)).
    { unfold l, rfc_chunk. fold items L. rewrite app_length, be32_length. fold p. rewrite <- Hz. rewrite <- !app_assoc. reflexivity. }
    assert (Hp4 : p + 4 = length (pre ++ be32 (ch_c_ssrc c))) by (rewrite app_length, be32_length; reflexivity).
    assert (Hri : ref_items (S (length l)) l e (p + 4) = Done (ref_tokens (p + 4) (ch_c_items c), stop)).
    { pose proof (ref_items_rfc (ch_c_items c) (S (length l)) (pre ++ be32 (ch_c_ssrc c)) (rest ++ post) e Hiw Hic) as R.
      cbv zeta in R. fold items L in R. rewrite <- Hp4 in R. fold stop in R.
      rewrite Hl at 2. rewrite <- Hp4. apply R.
      - pose proof (items_count_le _ Hic). fold items L in H1. unfold l. rewrite !app_length. lia.
      - unfold e. lia. }
    rewrite Hri.
    assert (Hl2 : l = (pre ++ rfc_chunk c) ++ rest ++ post) by (unfold l; rewrite <- !app_assoc; reflexivity).
    assert (Hstop2 : stop = length (pre ++ rfc_chunk c)) by (rewrite app_length; exact Hstop).
    assert (He2 : e = length (pre ++ rfc_chunk c) + length rest) by (unfold e; rewrite app_length; fold p; lia).
    rewrite Hl2, Hstop2, He2. unfold rest.
    rewrite IH by (assumption || (cbn [length] in Hf; lia) || (rewrite <- Hstop2, Hstop; lia)).
    f_equal. f_equal; [|rewrite app_length; reflexivity].
    unfold ref_chunk_of. f_equal.
    + (* the SSRC *) unfold beN, sub. rewrite <- !app_assoc. rewrite (skipn_app_len pre _ p 0) by (unfold p; lia).
      cbn [skipn]. unfold rfc_chunk. rewrite <- !app_assoc. rewrite firstn_app_len by reflexivity. apply be_dec_be32. exact Hs.
    + rewrite <- Hstop2. lia.
Qed.

Theorem encoder_images_must_be_accepted c n :
  sdes_wf c -> sdes_calc c = Ok n -> (N.of_nat n <= 262144)%N ->
  sdes_ref (rfc_sdes c) = MustAccept (ref_chunks_of 4 (sdes_c_chunks c)).
Proof.
  intros Hwf Hc Hmax. destruct (sdes_image_ok c n Hwf Hc Hmax) as [Hio Himg].
  pose proof (sdes_calc_ok c n Hc) as [Hnc [Hpm [Hf [Hm Hn]]]]. destruct Hwf as [Hp Hwf].
  set (img := rfc_sdes c) in *.
  assert (Hlen : length img = n) by (rewrite Himg; apply image_length; apply (io_len _ _ _ _ _ Hio)).
  assert (Hcp : check_packet 4 202 img = Ok tt) by (rewrite Himg; apply (image_check_packet 4 202); exact Hio).
  destruct (acc_padding 4 202 img ltac:(lia) Hcp) as [Hpp _].
  assert (Hpad : parse_padding img = Ok (get_padding_of (sdes_c_padding c))) by (rewrite Himg; apply (image_parse_padding 4); exact Hio).
  assert (Hrpl : ref_pad_len img = N.to_nat (sdes_c_padding c)).
  { assert (E : (if pbit img then Some (last img 0%N) else None) = get_padding_of (sdes_c_padding c)) by congruence.
    rewrite <- pad_amount, E.
    unfold get_padding_of. destruct (N.eqb_spec (sdes_c_padding c) 0) as [->|]; reflexivity. }
  unfold sdes_ref. rewrite Hrpl, Hlen.
  assert (Hd : img = rfc_header 202 (sdes_c_padding c) (N.of_nat (length (sdes_c_chunks c))) n ++
                     concat (map rfc_chunk (sdes_c_chunks c)) ++ rfc_trailer (sdes_c_padding c))
    by (rewrite Himg; reflexivity).
  remember (rfc_header 202 (sdes_c_padding c) (N.of_nat (length (sdes_c_chunks c))) n) as hdr eqn:Hhdr.
  assert (Hh : length hdr = 4) by (subst hdr; reflexivity).
  pose proof (chunks_length_ge (sdes_c_chunks c)) as Hge.
  replace (n - N.to_nat (sdes_c_padding c)) with (length hdr + length (concat (map rfc_chunk (sdes_c_chunks c)))) by lia.
  rewrite <- Hlen, Hd. rewrite <- Hh.
  rewrite ref_chunks_rfc; [reflexivity|exact Hwf|exact Hf| |rewrite Hh; reflexivity].
  rewrite !app_length. lia.
Qed.

(* and the tokens it reads back are the expected view of the configuration *)
Lemma ref_tokens_exp its : forall p,
  Forall (fun it => exists k, item_calc it = Ok k) its ->
  map obs_ref_item (ref_tokens p its) = exp_items p its.
Proof.
  induction its as [|i r IH]; intros p H; cbn [ref_tokens map exp_items]; [reflexivity|].
  inversion H as [|? ? [k Hk] H']; subst. rewrite IH by exact H'. unfold item_size. f_equal.
  pose proof (item_calc_ok i k Hk) as [Hkl Hb]. unfold ref_token, exp_item, rfc_item, PRIV in *.
  destruct (N.eqb_spec (it_c_type i) 8) as [Ht|Ht].
  - cbn [app nth]. rewrite Ht. change (8 =? 8)%N with true. cbv iota. rewrite !Nat2N.id. cbn [obs_ref_item].
    replace (1 + length (it_c_prefix i) + length (it_c_value i) - 1 - length (it_c_prefix i)) with (length (it_c_value i)) by lia.
    reflexivity.
  - cbn [app nth]. destruct (N.eqb_spec (it_c_type i) 8); [contradiction|]. rewrite Nat2N.id. reflexivity.
Qed.

Theorem encoder_tokens_are_the_configuration cs : forall p,
  Forall (fun c => exists k, chunk_calc c = Ok k) cs ->
  map obs_ref_chunk (ref_chunks_of p cs) = exp_chunks p cs.
Proof.
  induction cs as [|c r IH]; intros p H; cbn [ref_chunks_of map exp_chunks]; [reflexivity|].
  inversion H as [|? ? [k Hk] H']; subst. rewrite IH by exact H'. unfold chunk_size. f_equal.
  apply chunk_calc_ok in Hk. destruct Hk as [_ [_ Hic]].
  unfold obs_ref_chunk, ref_chunk_of, exp_chunk, chunk_size. cbn [rc_ssrc rc_len rc_items].
  rewrite ref_tokens_exp by exact Hic. reflexivity.
Qed.
