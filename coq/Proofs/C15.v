(* C15: FCI decoding follows RFC 4585/5104 for arbitrary control information. *)
From RtcpV Require Export Proofs.C04 Spec.Ref.

(* ---------------------------------------------------------------- gating *)

Theorem parse_fci_gating k t d x :
  parse_fci k t d = Ok x -> fci_kind t = k /\ parse_count d = Ok (fci_format t).
Proof.
  unfold parse_fci. destruct (fb_kind_eqb (fci_kind t) k) eqn:Hk; cbn [negb]; [|discriminate].
  intros H. apply bind_ok_inv in H. destruct H as [c [Hc H]].
  destruct (N.eqb_spec c (fci_format t)) as [->|]; cbn [negb] in H; [|discriminate].
  split; [|exact Hc]. destruct (fci_kind t), k; cbn in Hk; congruence.
Qed.

(* ---------------------------------------------------------------- words of k bytes *)

Lemma words_length k fuel (l : bytes) :
  0 < k -> length l <= fuel * k -> length (words k fuel l) = length l / k.
Proof.
  intros Hk. revert l. induction fuel as [|f IH]; intros l Hl.
  - cbn [words]. assert (length l = 0) by lia. rewrite H. symmetry. apply Nat.div_0_l. lia.
  - cbn [words]. destruct (Nat.ltb_spec (length l) k) as [Hlt|Hge]; [rewrite Nat.div_small by lia; reflexivity|].
    cbn [length]. rewrite IH by (rewrite skipn_length; lia). rewrite skipn_length.
    replace (length l) with ((length l - k) + 1 * k) at 2 by lia. rewrite Nat.div_add by lia. lia.
Qed.

(* ---------------------------------------------------------------- FIR *)

Lemma fir_run_spec fuel : forall (data : bytes) i,
  length data - 8 * i < fuel * 8 ->
  fir_run fuel data i =
    Ok (map (fun w => (beN w 0 4, byte_at w 4)) (words 8 fuel (skipn (8 * i) data))).
Proof.
  induction fuel as [|f IH]; intros data i Hf; [lia|]. cbn [fir_run words].
  rewrite skipn_length. replace (i * 8) with (8 * i) by lia.
  destruct (Nat.leb_spec (length data) (8 * i + 7)) as [Hend|Hmore].
  - destruct (Nat.ltb_spec (length data - 8 * i) 8); [reflexivity|lia].
  - destruct (Nat.ltb_spec (length data - 8 * i) 8); [lia|].
    rewrite tail_from_ok by lia. cbn [bind]. rewrite slice_ok by (rewrite ?skipn_length; lia). cbn [bind]. rewrite Nat.sub_0_r.
    change (skipn 0 (skipn (8 * i) data)) with (skipn (8 * i) data).
    rewrite be_dec_exact_ok by (rewrite firstn_length, skipn_length; lia). cbn [bind].
    assert (Hi : 4 < length (skipn (8 * i) data)) by (rewrite skipn_length; lia).
    destruct (idx_ok (E:=perr) (skipn (8 * i) data) 4 Hi) as [b [-> Hb]]. cbn [bind].
    rewrite IH by lia. cbn [bind map]. rewrite skipn_skipn. replace (8 * i + 8) with (8 * (i + 1)) by lia.
    f_equal. f_equal. f_equal.
    + unfold beN, sub. change (skipn 0 (firstn 8 (skipn (8 * i) data))) with (firstn 8 (skipn (8 * i) data)).
      rewrite firstn_firstn. reflexivity.
    + unfold byte_at. rewrite <- (firstn_skipn 8 (skipn (8 * i) data)) in Hb at 1.
      rewrite nth_error_app1 in Hb by (rewrite firstn_length, skipn_length; lia).
      apply nth_error_nth with (d := 0%N) in Hb. symmetry. exact Hb.
Qed.

Theorem fir_decoding (fci : bytes) base :
  obs_pres (obs_fci_view base TFir) (fci_parse_raw TFir fci) = fci_ref TFir base fci.
Proof.
  cbn [fci_parse_raw fci_ref]. unfold fir_parse. destruct (Nat.ltb_spec (length fci) 8); [reflexivity|].
  cbn [obs_pres obs_res obs_fci_view]. unfold fir_entries. rewrite fir_run_spec by lia.
  change (skipn (8 * 0) fci) with fci. cbv [obs_pres obs_res obs_list obs_pair okO]. rewrite map_map. cbn [fst snd].
  (* the fuel of the reference and of the model differ; both are enough *)
  assert (Hw : forall f1 f2 (l : bytes), length l <= f1 -> length l <= f2 -> words 8 f1 l = words 8 f2 l).
  { induction f1 as [|f1 IH1]; intros f2 l H1 H2.
    - assert (length l = 0) by lia. destruct l; [|discriminate]. destruct f2; reflexivity.
    - destruct f2 as [|f2]; [assert (length l = 0) by lia; destruct l; [reflexivity|discriminate]|].
      cbn [words]. destruct (length l <? 8) eqn:E; [reflexivity|]. apply Nat.ltb_ge in E.
      f_equal. apply IH1; rewrite skipn_length; lia. }
  rewrite (Hw (S (length fci)) (length fci) fci) by lia. reflexivity.
Qed.

(* ---------------------------------------------------------------- SLI *)

Lemma sli_decode_ref d0 d1 d2 d3 :
  (d0 < 256 -> d1 < 256 -> d2 < 256 -> d3 < 256 ->
   sli_decode d0 d1 d2 d3 =
   let x := be_dec [d0; d1; d2; d3] in (x / 524288, (x / 64) mod 8192, x mod 64))%N.
Proof.
  intros H0 H1 H2 H3. unfold sli_decode. rewrite be_dec_4. cbv zeta. f_equal; [f_equal|]; lia.
Qed.

Lemma sli_run_spec fuel : forall (data : bytes) i,
  wfb data -> length data - i < fuel * 4 ->
  sli_run fuel data i =
    Ok (map (fun w => let x := beN w 0 4 in (x / 524288, (x / 64) mod 8192, x mod 64)%N)
            (words 4 fuel (skipn i data))).
Proof.
  induction fuel as [|f IH]; intros data i Hwf Hf; [lia|]. cbn [sli_run words]. rewrite skipn_length.
  destruct (Nat.leb_spec (length data) (i + 3)) as [Hend|Hmore].
  - destruct (Nat.ltb_spec (length data - i) 4); [reflexivity|lia].
  - destruct (Nat.ltb_spec (length data - i) 4); [lia|].
    (* the four bytes at i *)
    assert (Hsk : exists d0 d1 d2 d3 r, skipn i data = d0 :: d1 :: d2 :: d3 :: r).
    { pose proof (skipn_length i data) as Hl. destruct (skipn i data) as [|d0 [|d1 [|d2 [|d3 r]]]]; cbn [length] in Hl; try lia. eauto 6. }
    destruct Hsk as [d0 [d1 [d2 [d3 [r Hsk]]]]].
    assert (Hnth : forall k b, nth_error (skipn i data) k = Some b -> idx (E:=perr) data (i + k) = Ok b).
    { intros k b Hk. unfold idx. rewrite <- (firstn_skipn i data) at 1.
      rewrite nth_error_app2 by (rewrite firstn_length; lia). rewrite firstn_length.
      replace (i + k - Nat.min i (length data)) with k by lia. rewrite Hk. reflexivity. }
    replace i with (i + 0) at 1 by lia.
    rewrite (Hnth 0 d0), (Hnth 1 d1), (Hnth 2 d2), (Hnth 3 d3) by (rewrite Hsk; reflexivity). cbn [bind].
    rewrite IH by (assumption || lia). cbn [bind map]. rewrite skipn_skipn. replace (i + 4) with (i + 4) by lia.
    assert (Hwf4 : wfb (skipn i data)) by (apply wfb_skipn; exact Hwf). rewrite Hsk in Hwf4.
    apply wfb_cons in Hwf4. destruct Hwf4 as [B0 Hwf4]. apply wfb_cons in Hwf4. destruct Hwf4 as [B1 Hwf4].
    apply wfb_cons in Hwf4. destruct Hwf4 as [B2 Hwf4]. apply wfb_cons in Hwf4. destruct Hwf4 as [B3 _].
    rewrite Hsk. cbn [firstn skipn]. unfold beN, sub. cbn [skipn firstn].
    rewrite sli_decode_ref by assumption. cbv zeta.
    replace (skipn (i + 4) data) with r; [reflexivity|].
    rewrite <- skipn_skipn, Hsk. reflexivity.
Qed.

Lemma words_fuel k : 0 < k -> forall f1 f2 (l : bytes), length l <= f1 -> length l <= f2 -> words k f1 l = words k f2 l.
Proof.
  intros Hk. induction f1 as [|f1 IH1]; intros f2 l H1 H2.
  - assert (length l = 0) by lia. destruct l; [|discriminate]. destruct f2; cbn [words length]; [reflexivity|].
    destruct (Nat.ltb_spec 0 k); [reflexivity|lia].
  - destruct f2 as [|f2].
    + assert (length l = 0) by lia. destruct l; [|discriminate]. cbn [words length]. destruct (Nat.ltb_spec 0 k); [reflexivity|lia].
    + cbn [words]. destruct (length l <? k) eqn:E; [reflexivity|]. apply Nat.ltb_ge in E.
      f_equal. apply IH1; rewrite skipn_length; lia.
Qed.

Theorem sli_decoding (fci : bytes) base :
  wfb fci -> obs_pres (obs_fci_view base TSli) (fci_parse_raw TSli fci) = fci_ref TSli base fci.
Proof.
  intros Hwf. cbn [fci_parse_raw fci_ref]. unfold sli_parse. destruct (Nat.ltb_spec (length fci) 4); [reflexivity|].
  cbn [obs_pres obs_res obs_fci_view]. unfold sli_entries. rewrite sli_run_spec by (assumption || lia).
  cbn [skipn]. cbv [obs_pres obs_res obs_list okO]. rewrite map_map. cbn [fst snd].
  rewrite (words_fuel 4 ltac:(lia) (S (length fci)) (length fci) fci) by lia. reflexivity.
Qed.

(* ---------------------------------------------------------------- RPSI and PLI *)

Theorem rpsi_decoding (fci : bytes) base :
  obs_pres (obs_fci_view base TRpsi) (fci_parse_raw TRpsi fci) = fci_ref TRpsi base fci.
Proof.
  cbn [fci_parse_raw fci_ref]. unfold rpsi_parse, rpsi_padding_bytes.
  destruct (Nat.ltb_spec (length fci) 4) as [Hs|Hs]; [reflexivity|].
  destruct fci as [|b0 [|b1 r]]; cbn [length] in Hs; try lia.
  cbn [idx nth_error bind]. unfold byte_at. cbn [nth].
  replace (N.to_nat (b0 / 8)) with (N.to_nat b0 / 8) by lia.
  destruct (Nat.ltb_spec (length (b0 :: b1 :: r) - 2) (N.to_nat b0 / 8)) as [Hbig|Hfit]; [reflexivity|].
  cbn [obs_pres obs_res obs_fci_view]. unfold rpsi_payload_type, rpsi_bit_string, rpsi_padding_bytes.
  cbn [idx nth_error bind]. replace (N.to_nat (b0 / 8)) with (N.to_nat b0 / 8) by lia.
  rewrite usub_ok by lia. cbn [bind]. rewrite usub_ok by (cbn [length] in *; lia). cbn [bind].
  rewrite slice_ok by (cbn [length] in *; lia). cbn [bind].
  rewrite firstn_length, skipn_length. cbv [obs_pres obs_res okO okN fst snd].
  replace (N.to_nat b0 - N.to_nat b0 / 8 * 8) with (N.to_nat b0 mod 8) by lia.
  replace (Nat.min (length (b0 :: b1 :: r) - N.to_nat b0 / 8 - 2) (length (b0 :: b1 :: r) - 2))
    with (length (b0 :: b1 :: r) - 2 - N.to_nat b0 / 8) by lia.
  reflexivity.
Qed.

Theorem pli_decoding (fci : bytes) base :
  obs_pres (obs_fci_view base TPli) (fci_parse_raw TPli fci) = fci_ref TPli base fci.
Proof.
  cbn [fci_parse_raw fci_ref]. unfold pli_parse. destruct (Nat.eqb_spec (length fci) 0); reflexivity.
Qed.
