(* Lemma library for the primitives of Base/Prelude.v. *)
From RtcpV Require Export Base.Prelude.
From Coq Require Export Lia ZArith.
From Coq Require Import ZifyBool ZifyNat ZifyN.
Ltac Zify.zify_post_hook ::= Z.div_mod_to_equations.

Arguments N.add : simpl never.
Arguments N.sub : simpl never.
Arguments N.mul : simpl never.
Arguments N.div : simpl never.
Arguments N.modulo : simpl never.
Arguments N.pow : simpl never.
Arguments N.eqb : simpl never.
Arguments N.ltb : simpl never.
Arguments N.leb : simpl never.
Arguments N.lor : simpl never.
Arguments Nat.div : simpl never.
Arguments Nat.modulo : simpl never.
Arguments Nat.ltb : simpl never.
Arguments Nat.leb : simpl never.
Arguments Nat.eqb : simpl never.

(* ---------------------------------------------------------------- boolean comparisons *)

Ltac bool_to_prop :=
  repeat match goal with
  | H : (_ <? _) = true |- _ => apply Nat.ltb_lt in H
  | H : (_ <? _) = false |- _ => apply Nat.ltb_ge in H
  | H : (_ <=? _) = true |- _ => apply Nat.leb_le in H
  | H : (_ <=? _) = false |- _ => apply Nat.leb_gt in H
  | H : (_ =? _) = true |- _ => apply Nat.eqb_eq in H
  | H : (_ =? _) = false |- _ => apply Nat.eqb_neq in H
  | H : (_ <? _)%N = true |- _ => apply N.ltb_lt in H
  | H : (_ <? _)%N = false |- _ => apply N.ltb_ge in H
  | H : (_ <=? _)%N = true |- _ => apply N.leb_le in H
  | H : (_ <=? _)%N = false |- _ => apply N.leb_gt in H
  | H : (_ =? _)%N = true |- _ => apply N.eqb_eq in H
  | H : (_ =? _)%N = false |- _ => apply N.eqb_neq in H
  | H : negb _ = true |- _ => apply negb_true_iff in H
  | H : negb _ = false |- _ => apply negb_false_iff in H
  | H : (_ && _) = true |- _ => apply andb_true_iff in H; destruct H
  end.

(* decide a comparison appearing in the goal from the arithmetic context *)
Ltac decide_ltb a b :=
  let H := fresh "Hc" in
  destruct (Nat.ltb_spec a b) as [H|H]; [|try (exfalso; lia)]; try (exfalso; lia).

(* ---------------------------------------------------------------- lists *)

Lemma skipn_skipn {A} (a b : nat) (l : list A) : skipn a (skipn b l) = skipn (b + a) l.
Proof.
  revert l; induction b as [|b IH]; intros l; [reflexivity|].
  destruct l as [|x l]; [now rewrite !skipn_nil|]. cbn [skipn Nat.add]. apply IH.
Qed.

Lemma firstn_skipn_length {A} (n : nat) (l : list A) : n <= length l -> length (firstn n l) = n.
Proof. intros H. rewrite firstn_length. lia. Qed.

Lemma nth_error_last {A} (l : list A) (d : A) :
  l <> [] -> nth_error l (length l - 1) = Some (last l d).
Proof.
  induction l as [|x l IH]; [congruence|]. intros _.
  destruct l as [|y l]; [reflexivity|].
  cbn [length] in *. replace (S (S (length l)) - 1) with (S (length l)) by lia.
  cbn [nth_error]. replace (length l) with (S (length l) - 1) at 1 by lia.
  rewrite IH by congruence. reflexivity.
Qed.

Lemma wfb_cons b l : wfb (b :: l) <-> (b < 256)%N /\ wfb l.
Proof. unfold wfb. split; intros H; [inversion H; auto | constructor; tauto]. Qed.

Lemma wfb_app a b : wfb (a ++ b) <-> wfb a /\ wfb b.
Proof. unfold wfb. apply Forall_app. Qed.

Lemma wfb_firstn n l : wfb l -> wfb (firstn n l).
Proof. intros H. rewrite <- (firstn_skipn n l) in H. apply wfb_app in H. tauto. Qed.

Lemma wfb_skipn n l : wfb l -> wfb (skipn n l).
Proof. intros H. rewrite <- (firstn_skipn n l) in H. apply wfb_app in H. tauto. Qed.

Lemma wfb_nth l i b : wfb l -> nth_error l i = Some b -> (b < 256)%N.
Proof. unfold wfb. intros H Hn. rewrite Forall_forall in H. apply H. eapply nth_error_In; eauto. Qed.

Lemma wfb_last l : wfb l -> (last l 0 < 256)%N.
Proof.
  intros H. destruct l as [|x l]; [cbn; lia|].
  assert (Hn := nth_error_last (x :: l) 0%N ltac:(congruence)).
  eapply wfb_nth; eauto.
Qed.

Lemma wfb_zeros n : wfb (zeros n).
Proof. unfold wfb, zeros. apply Forall_forall. intros x Hx. apply repeat_spec in Hx. subst. lia. Qed.

Lemma zeros_length n : length (zeros n) = n.
Proof. apply repeat_length. Qed.

(* ---------------------------------------------------------------- big-endian *)

Lemma be_dec_2 a b : be_dec [a; b] = (a * 256 + b)%N.
Proof. unfold be_dec. cbn [fold_left]. lia. Qed.
Lemma be_dec_4 a b c d : be_dec [a; b; c; d] = (((a * 256 + b) * 256 + c) * 256 + d)%N.
Proof. unfold be_dec. cbn [fold_left]. lia. Qed.

Lemma be16_length x : length (be16 x) = 2. Proof. reflexivity. Qed.
Lemma be32_length x : length (be32 x) = 4. Proof. reflexivity. Qed.
Lemma be64_length x : length (be64 x) = 8. Proof. reflexivity. Qed.

Lemma be_dec_be16 x : (x < 65536)%N -> be_dec (be16 x) = x.
Proof. intros H. unfold be16. rewrite be_dec_2. lia. Qed.
Lemma be_dec_be32 x : (x < 4294967296)%N -> be_dec (be32 x) = x.
Proof. intros H. unfold be32. rewrite be_dec_4. lia. Qed.

Lemma be_fold l acc :
  fold_left (fun acc b => acc * 256 + b)%N l acc =
  (acc * 256 ^ N.of_nat (length l) + fold_left (fun acc b => acc * 256 + b)%N l 0)%N.
Proof.
  revert acc. induction l as [|x l IH]; intros acc.
  - cbn. lia.
  - cbn [fold_left length]. rewrite IH. rewrite (IH (0 * 256 + x)%N).
    replace (N.of_nat (S (length l))) with (N.of_nat (length l) + 1)%N by lia.
    rewrite N.pow_add_r. lia.
Qed.

Lemma be_dec_app a b : be_dec (a ++ b) = (be_dec a * 256 ^ N.of_nat (length b) + be_dec b)%N.
Proof. unfold be_dec. rewrite fold_left_app. apply be_fold. Qed.

Lemma be_dec_be64 x : (x < 18446744073709551616)%N -> be_dec (be64 x) = x.
Proof.
  intros H. unfold be64. rewrite be_dec_app, !be_dec_be32.
  - rewrite be32_length. change (256 ^ N.of_nat 4)%N with 4294967296%N. lia.
  - lia.
  - lia.
Qed.

Lemma wfb_be16 x : wfb (be16 x).
Proof. unfold be16. repeat (apply wfb_cons; split); try lia. constructor. Qed.
Lemma wfb_be32 x : wfb (be32 x).
Proof. unfold be32. repeat (apply wfb_cons; split); try lia. constructor. Qed.

Lemma pad4_ge n : n <= pad4 n. Proof. unfold pad4. lia. Qed.
Lemma pad4_mod n : pad4 n mod 4 = 0. Proof. unfold pad4. lia. Qed.
Lemma pad4_lt n : pad4 n < n + 4. Proof. unfold pad4. lia. Qed.
Lemma pad4_id n : n mod 4 = 0 -> pad4 n = n. Proof. unfold pad4. lia. Qed.

(* ---------------------------------------------------------------- primitives: success conditions *)

Section PrimLemmas.
  Context {E : Type}.

  Lemma slice_ok (l : bytes) lo hi :
    lo <= hi -> hi <= length l -> @slice E l lo hi = Ok (firstn (hi - lo) (skipn lo l)).
  Proof.
    intros H1 H2. unfold slice.
    destruct (Nat.ltb_spec hi lo); [lia|]. destruct (Nat.ltb_spec (length l) hi); [lia|]. reflexivity.
  Qed.

  Lemma slice_length (l : bytes) lo hi s : @slice E l lo hi = Ok s -> length s = hi - lo /\ lo <= hi /\ hi <= length l.
  Proof.
    unfold slice. destruct (Nat.ltb_spec hi lo); [discriminate|].
    destruct (Nat.ltb_spec (length l) hi); [discriminate|]. intros [= <-].
    rewrite firstn_length, skipn_length. lia.
  Qed.

  Lemma slice_no_err (l : bytes) lo hi e : @slice E l lo hi <> Err e.
  Proof. unfold slice. destruct (hi <? lo); [discriminate|]. destruct (length l <? hi); discriminate. Qed.

  Lemma tail_from_ok (l : bytes) lo : lo <= length l -> @tail_from E l lo = Ok (skipn lo l).
  Proof. intros H. unfold tail_from. destruct (Nat.ltb_spec (length l) lo); [lia|reflexivity]. Qed.

  Lemma idx_ok (l : bytes) i : i < length l -> exists b, @idx E l i = Ok b /\ nth_error l i = Some b.
  Proof.
    intros H. unfold idx. destruct (nth_error l i) eqn:Hn; [eauto|].
    apply nth_error_None in Hn. lia.
  Qed.

  Lemma idx_app_r (a b : bytes) i : length a <= i -> @idx E (a ++ b) i = idx b (i - length a).
  Proof. intros H. unfold idx. rewrite nth_error_app2 by lia. reflexivity. Qed.

  Lemma usub_ok a b : b <= a -> @usub E a b = Ok (a - b).
  Proof. intros H. unfold usub. destruct (Nat.ltb_spec a b); [lia|reflexivity]. Qed.

  Lemma be_dec_exact_ok n (l : bytes) : length l = n -> @be_dec_exact E n l = Ok (be_dec l).
  Proof. intros H. unfold be_dec_exact. destruct (Nat.eqb_spec (length l) n); [reflexivity|lia]. Qed.

  Lemma set_at_ok (buf : bytes) i v :
    i < length buf -> @set_at E buf i v = Ok (firstn i buf ++ v :: skipn (S i) buf).
  Proof. intros H. unfold set_at. destruct (Nat.ltb_spec i (length buf)); [reflexivity|lia]. Qed.

  Lemma copy_into_ok (buf : bytes) lo hi src :
    lo <= hi -> hi <= length buf -> length src = hi - lo ->
    @copy_into E buf lo hi src = Ok (firstn lo buf ++ src ++ skipn hi buf).
  Proof.
    intros H1 H2 H3. unfold copy_into.
    destruct (Nat.ltb_spec hi lo); [lia|]. destruct (Nat.ltb_spec (length buf) hi); [lia|].
    destruct (Nat.eqb_spec (length src) (hi - lo)); [reflexivity|lia].
  Qed.

  Lemma fill_range_ok (buf : bytes) lo hi v :
    lo <= hi -> hi <= length buf ->
    @fill_range E buf lo hi v = Ok (firstn lo buf ++ repeat v (hi - lo) ++ skipn hi buf).
  Proof.
    intros H1 H2. unfold fill_range.
    destruct (Nat.ltb_spec hi lo); [lia|]. destruct (Nat.ltb_spec (length buf) hi); [lia|]. reflexivity.
  Qed.
End PrimLemmas.

Lemma bind_ok_inv {E A B} (r : res E A) (f : A -> res E B) (x : B) :
  bind r f = Ok x -> exists a, r = Ok a /\ f a = Ok x.
Proof. destruct r; cbn; intros H; try discriminate. eauto. Qed.

Lemma bind_err_inv {E A B} (r : res E A) (f : A -> res E B) (e : E) :
  bind r f = Err e -> r = Err e \/ exists a, r = Ok a /\ f a = Err e.
Proof. destruct r; cbn; intros H; try discriminate; [eauto | left; congruence]. Qed.

(* ---------------------------------------------------------------- "returns normally, and then Q" *)

Definition post {E A} (r : res E A) (Q : A -> Prop) : Prop :=
  match r with Ok a => Q a | Err _ => True | Panic => False | Fuel => False end.

Lemma post_bind {E A B} (r : res E A) (f : A -> res E B) (Q1 : A -> Prop) (Q2 : B -> Prop) :
  post r Q1 -> (forall a, r = Ok a -> Q1 a -> post (f a) Q2) -> post (bind r f) Q2.
Proof. destruct r; cbn; auto. Qed.

Lemma post_weaken {E A} (r : res E A) (Q1 Q2 : A -> Prop) :
  post r Q1 -> (forall a, Q1 a -> Q2 a) -> post r Q2.
Proof. destruct r; cbn; auto. Qed.

Lemma post_ok_inv {E A} (r : res E A) (Q : A -> Prop) a : post r Q -> r = Ok a -> Q a.
Proof. intros H ->. exact H. Qed.

Section PostPrims.
  Context {E : Type}.
  Lemma post_idx (l : bytes) i : i < length l -> post (@idx E l i) (fun b => nth_error l i = Some b).
  Proof. intros H. destruct (idx_ok (E:=E) l i H) as [b [-> Hb]]. exact Hb. Qed.
  Lemma post_slice (l : bytes) lo hi :
    lo <= hi -> hi <= length l -> post (@slice E l lo hi) (fun s => s = firstn (hi - lo) (skipn lo l)).
  Proof. intros. rewrite slice_ok by lia. reflexivity. Qed.
  Lemma post_tail_from (l : bytes) lo : lo <= length l -> post (@tail_from E l lo) (fun s => s = skipn lo l).
  Proof. intros. rewrite tail_from_ok by lia. reflexivity. Qed.
  Lemma post_usub a b : b <= a -> post (@usub E a b) (fun x => x = a - b).
  Proof. intros. rewrite usub_ok by lia. reflexivity. Qed.
  Lemma post_be_dec_exact n (l : bytes) : length l = n -> post (@be_dec_exact E n l) (fun x => x = be_dec l).
  Proof. intros. rewrite be_dec_exact_ok by assumption. reflexivity. Qed.
End PostPrims.
