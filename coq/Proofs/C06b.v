(* C06 / C17 for an FCI builder used as a writer in its own right: the size it announces is the size it
   writes, a shorter buffer is refused with OutputTooSmall carrying that size, the bytes are the FCI's RFC
   image and nothing beyond them is touched. *)
From RtcpV Require Export Proofs.WriteFbTop Model.RunHelper.

Lemma fci_calc_mod4 f k : fci_calc f = Ok k -> k mod 4 = 0.
Proof.
  destruct f as [adds|adds|es|pt bits ov|]; cbn [fci_calc].
  - destruct (_ <? _)%N; [discriminate|]. intros [= <-]. lia.
  - destruct (_ <? _)%N; [discriminate|]. intros [= <-]. lia.
  - intros [= <-]. lia.
  - destruct (_ <? _)%N; [discriminate|]. destruct (_ || _); [discriminate|]. intros [= <-]. apply pad4_mod.
  - intros [= <-]. reflexivity.
Qed.

Theorem fci_write_into_spec f (buf : bytes) :
  fci_wf f ->
  match fci_calc f with
  | Ok n =>
      n mod 4 = 0 /\ length (rfc_fci f) = n /\
      (n <= length buf -> fci_write_into f buf = (Ok n, rfc_fci f ++ skipn n buf)) /\
      (length buf < n -> fci_write_into f buf = (Err (OutputTooSmall n), buf))
  | Err e => fci_write_into f buf = (Err e, buf)
  | Panic => False
  | Fuel => False
  end.
Proof.
  intros Hwf. destruct (fci_calc f) as [n|e| |] eqn:Hc.
  - pose proof (fci_calc_mod4 f n Hc) as Hmod. pose proof (pad4_id n Hmod) as Hid.
    split; [exact Hmod|]. split.
    { destruct (fci_write_ok f n (repeat 0%N n) Hwf Hc) as [Hl _]; [rewrite repeat_length; lia|]. lia. }
    split.
    + intros Hfit. unfold fci_write_into. apply write_into_ok; [exact Hc|exact Hfit|].
      intros s Hs. destruct (fci_write_ok f n s Hwf Hc) as [_ Hw]; [lia|]. rewrite Hw, Hid.
      rewrite skipn_all_nil by lia. rewrite app_nil_r. reflexivity.
    + intros Hs. unfold fci_write_into. apply write_into_small; assumption.
  - unfold fci_write_into. apply write_into_err. exact Hc.
  - destruct f as [adds|adds|es|pt bits ov|]; cbn [fci_calc] in Hc;
      repeat match type of Hc with (if ?b then _ else _) = _ => destruct b end; discriminate.
  - destruct f as [adds|adds|es|pt bits ov|]; cbn [fci_calc] in Hc;
      repeat match type of Hc with (if ?b then _ else _) = _ => destruct b end; discriminate.
Qed.
