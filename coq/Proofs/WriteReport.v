(* The writers of report blocks, SR and RR produce exactly the RFC image (C06, C07, C17). *)
From RtcpV Require Export Proofs.Buf Model.Report.

Lemma rb_calc_ok b n : rb_calc b = Ok n -> n = 24 /\ (rb_c_cumulative b < 16777216)%N.
Proof.
  unfold rb_calc. destruct (N.eqb_spec (rb_c_cumulative b / 16777216) 0); cbn [negb]; [|discriminate].
  intros [= <-]. split; [reflexivity|lia].
Qed.

Lemma rb_write_ok b (s : bytes) :
  length s = 24 -> (rb_c_cumulative b < 16777216)%N -> rb_write_unchecked b s = Ok (24, rfc_rb b).
Proof.
  intros Hs Hc. unfold rb_write_unchecked.
  change s with ([] ++ s) at 1.
  rewrite copy_at by len. cbn [bind app].
  rewrite copy_at by len. cbn [bind].
  (* buf[4] = fraction: overwrites the first byte of the cumulative word *)
  unfold be32 at 2. cbn [app]. unfold be32 at 1. cbn [app].
  rewrite set_at_ok by len. cbn [bind firstn skipn app].
  replace (length [(rb_c_cumulative b / 16777216) mod 256; (rb_c_cumulative b / 65536) mod 256;
                   (rb_c_cumulative b / 256) mod 256; rb_c_cumulative b mod 256]%N) with 4 by reflexivity.
  rewrite skipn_skipn. cbn [Nat.add].
  set (pre := [(rb_c_ssrc b / 16777216) mod 256; (rb_c_ssrc b / 65536) mod 256; (rb_c_ssrc b / 256) mod 256;
               rb_c_ssrc b mod 256; rb_c_fraction b; (rb_c_cumulative b / 65536) mod 256;
               (rb_c_cumulative b / 256) mod 256; rb_c_cumulative b mod 256]%N).
  change (pre ++ skipn 8 s) with (pre ++ skipn 8 s).
  assert (Hpre : length pre = 8) by reflexivity.
  rewrite (copy_at pre (skipn 8 s)) by len. cbn [bind]. rewrite skipn_skipn.
  rewrite (copy_at (pre ++ be32 (rb_c_ext_seq b))) by len. cbn [bind]. rewrite skipn_skipn.
  rewrite (copy_at ((pre ++ be32 (rb_c_ext_seq b)) ++ be32 (rb_c_jitter b))) by len. cbn [bind]. rewrite skipn_skipn.
  rewrite (copy_at (((pre ++ be32 (rb_c_ext_seq b)) ++ be32 (rb_c_jitter b)) ++ be32 (rb_c_lsr b))) by len.
  cbn [bind]. rewrite skipn_skipn. cbn [Nat.add be32_length length].
  rewrite skipn_all_nil by len. rewrite app_nil_r.
  unfold rfc_rb, pre. unfold be32 at 5. cbn [app]. rewrite <- !app_assoc. cbn [app]. reflexivity.
Qed.

Lemma concat_rb_length bs : length (concat (map rfc_rb bs)) = 24 * length bs.
Proof. induction bs as [|b bs IH]; [reflexivity|]. cbn [map concat length]. rewrite app_length, IH.
  replace (length (rfc_rb b)) with 24 by reflexivity. lia. Qed.

(* the report-block loops *)
Lemma rbs_calc_ok bs n :
  rbs_calc bs = Ok n -> n = 24 * length bs /\ Forall (fun b => (rb_c_cumulative b < 16777216)%N) bs.
Proof.
  revert n. induction bs as [|b bs IH]; intros n; cbn [rbs_calc length].
  - intros [= <-]. split; [reflexivity|constructor].
  - intros H. apply bind_ok_inv in H. destruct H as [k [Hk H]]. apply rb_calc_ok in Hk. destruct Hk as [-> Hc].
    apply bind_ok_inv in H. destruct H as [m [Hm [= <-]]]. apply IH in Hm. destruct Hm as [-> Hf].
    split; [lia|constructor; assumption].
Qed.

Lemma rbs_calc_err bs e : rbs_calc bs = Err e ->
  exists b, In b bs /\ e = CumulativeLostTooLarge (rb_c_cumulative b) 16777215%N /\ (16777215 < rb_c_cumulative b)%N.
Proof.
  induction bs as [|b bs IH]; cbn [rbs_calc]; [discriminate|].
  unfold rb_calc at 1. destruct (N.eqb_spec (rb_c_cumulative b / 16777216) 0); cbn [negb bind].
  - intros H. destruct (rbs_calc bs) as [m|e'| |]; cbn [bind] in H; try discriminate.
    injection H as <-. destruct (IH eq_refl) as [b' [Hin H']]. exists b'. split; [now right|exact H'].
  - intros [= <-]. exists b. split; [now left|]. split; [reflexivity|lia].
Qed.

Lemma rbs_write_ok bs : forall (done rest : bytes) i,
  i = length done -> 24 * length bs <= length rest ->
  Forall (fun b => (rb_c_cumulative b < 16777216)%N) bs ->
  rbs_write bs i (done ++ rest) =
    Ok (i + 24 * length bs, (done ++ concat (map rfc_rb bs)) ++ skipn (24 * length bs) rest).
Proof.
  induction bs as [|b bs IH]; intros done rest i Hi Hfit Hf; cbn [rbs_write length map concat].
  - rewrite app_nil_r. cbn [skipn Nat.mul]. rewrite Nat.add_0_r. reflexivity.
  - inversion Hf as [|? ? Hb Hbs]; subst. unfold RB_SIZE.
    cbn [length] in Hfit.
    rewrite with_sub_at by lia. replace (length done + 24 - length done) with 24 by lia.
    rewrite rb_write_ok by (rewrite ?firstn_length; lia || assumption). cbn [bind].
    assert (Hrb : length (rfc_rb b) = 24) by reflexivity.
    rewrite app_assoc.
    rewrite IH by (rewrite ?app_length, ?skipn_length, ?Hrb; lia || assumption).
    rewrite skipn_skipn. replace (24 * S (length bs)) with (24 + 24 * length bs) by lia.
    rewrite <- !app_assoc. rewrite Nat.add_assoc. reflexivity.
Qed.

(* ---------------------------------------------------------------- SR *)

Lemma check_padding_ok p : check_padding p = Ok tt -> (p mod 4 = 0)%N.
Proof. unfold check_padding. destruct (N.eqb_spec (p mod 4) 0); cbn [negb]; [auto|discriminate]. Qed.

Lemma sr_calc_ok c n :
  sr_calc c = Ok n ->
  length (sr_c_blocks c) <= 31 /\ (sr_c_padding c mod 4 = 0)%N /\
  Forall (fun b => (rb_c_cumulative b < 16777216)%N) (sr_c_blocks c) /\
  n = 28 + 24 * length (sr_c_blocks c) + N.to_nat (sr_c_padding c).
Proof.
  unfold sr_calc, SR_MIN. destruct (Nat.ltb_spec 31 (length (sr_c_blocks c))) as [Hgt|Hle]; [discriminate|].
  intros H. apply bind_ok_inv in H. destruct H as [[] [Hp H]]. apply check_padding_ok in Hp.
  apply bind_ok_inv in H. destruct H as [k [Hk [= <-]]]. apply rbs_calc_ok in Hk. destruct Hk as [-> Hf].
  repeat split; auto.
Qed.

Lemma count_mod n : n <= 31 -> (N.of_nat n mod 256 = N.of_nat n)%N /\ (N.of_nat n < 32)%N.
Proof. intros H. split; [apply N.mod_small; lia|lia]. Qed.

Theorem sr_write_ok c n (s : bytes) :
  sr_calc c = Ok n -> length s = n -> sr_write_unchecked c s = Ok (n, rfc_sr c).
Proof.
  intros Hc Hs. apply sr_calc_ok in Hc. destruct Hc as [Hnb [Hp [Hf Hn]]].
  destruct (count_mod _ Hnb) as [Hcm Hc32].
  unfold sr_write_unchecked. rewrite write_header_ok by lia. cbn [bind]. rewrite Hcm.
  rewrite hdr_bytes_rfc by exact Hc32. rewrite Hs.
  remember (rfc_header SR_PT (sr_c_padding c) (N.of_nat (length (sr_c_blocks c))) n) as hdr eqn:Hhdr.
  assert (Hh : length hdr = 4) by (subst hdr; reflexivity).
  rewrite (copy_at hdr) by len. cbn [bind]. rewrite skipn_skipn.
  rewrite (copy_at (hdr ++ _)) by len. cbn [bind]. rewrite skipn_skipn.
  rewrite (copy_at ((hdr ++ _) ++ _)) by len. cbn [bind]. rewrite skipn_skipn.
  rewrite (copy_at (((hdr ++ _) ++ _) ++ _)) by len. cbn [bind]. rewrite skipn_skipn.
  rewrite (copy_at ((((hdr ++ _) ++ _) ++ _) ++ _)) by len. cbn [bind]. rewrite skipn_skipn.
  cbn [Nat.add be32_length be64_length length].
  rewrite rbs_write_ok by (len || assumption). cbn [bind]. rewrite skipn_skipn.
  rewrite trailer_at_end by (repeat rewrite ?app_length, ?concat_rb_length; len). cbn [bind].
  f_equal. f_equal; [lia|]. subst hdr. unfold rfc_sr. fold SR_PT. rewrite <- Hn. rewrite <- !app_assoc. reflexivity.
Qed.

(* ---------------------------------------------------------------- RR *)

Lemma rr_calc_ok c n :
  rr_calc c = Ok n ->
  length (rr_c_blocks c) <= 31 /\ (rr_c_padding c mod 4 = 0)%N /\
  Forall (fun b => (rb_c_cumulative b < 16777216)%N) (rr_c_blocks c) /\
  n = 8 + 24 * length (rr_c_blocks c) + N.to_nat (rr_c_padding c).
Proof.
  unfold rr_calc, RR_MIN. destruct (Nat.ltb_spec 31 (length (rr_c_blocks c))) as [Hgt|Hle]; [discriminate|].
  intros H. apply bind_ok_inv in H. destruct H as [[] [Hp H]]. apply check_padding_ok in Hp.
  apply bind_ok_inv in H. destruct H as [k [Hk [= <-]]]. apply rbs_calc_ok in Hk. destruct Hk as [-> Hf].
  repeat split; auto.
Qed.

Theorem rr_write_ok c n (s : bytes) :
  rr_calc c = Ok n -> length s = n -> rr_write_unchecked c s = Ok (n, rfc_rr c).
Proof.
  intros Hc Hs. apply rr_calc_ok in Hc. destruct Hc as [Hnb [Hp [Hf Hn]]].
  destruct (count_mod _ Hnb) as [Hcm Hc32].
  unfold rr_write_unchecked. rewrite write_header_ok by lia. cbn [bind]. rewrite Hcm.
  rewrite hdr_bytes_rfc by exact Hc32. rewrite Hs.
  remember (rfc_header RR_PT (rr_c_padding c) (N.of_nat (length (rr_c_blocks c))) n) as hdr eqn:Hhdr.
  assert (Hh : length hdr = 4) by (subst hdr; reflexivity).
  rewrite (copy_at hdr) by len. cbn [bind]. rewrite skipn_skipn.
  cbn [Nat.add be32_length length].
  rewrite rbs_write_ok by (len || assumption). cbn [bind]. rewrite skipn_skipn.
  rewrite trailer_at_end by (repeat rewrite ?app_length, ?concat_rb_length; len). cbn [bind].
  f_equal. f_equal; [lia|]. subst hdr. unfold rfc_rr. fold RR_PT. rewrite <- Hn. rewrite <- !app_assoc. reflexivity.
Qed.
