(* C07: the 16-bit length field of the RFC image.  [rfc_header] writes be16 (total/4 - 1): that is the
   value the RFC asks for exactly when it fits 16 bits, i.e. for packets of at most 262144 bytes.  Beyond
   that the builders without a total-size rule still accept (known finding D13) and the field is the value
   truncated to 16 bits: "a length field equal to size/4-1" is false of those packets. *)
From RtcpV Require Export Proofs.Members Proofs.C04.

Definition length_field (img : bytes) : N := be_dec (firstn 2 (skipn 2 img)).

Lemma rfc_header_length_field_mod pt p c total rest :
  length_field (rfc_header pt p c total ++ rest) = (N.of_nat (total / 4 - 1) mod 65536)%N.
Proof.
  unfold length_field, rfc_header. rewrite <- app_assoc. cbn [app skipn]. unfold be16. cbn [app firstn]. rewrite be_dec_2.
  generalize (N.of_nat (total / 4 - 1)). intros x. lia.
Qed.

Lemma rfc_header_length_field pt p c total rest :
  4 <= total -> (N.of_nat total <= 262144)%N ->
  length_field (rfc_header pt p c total ++ rest) = N.of_nat (total / 4 - 1).
Proof.
  intros Hlo Hhi. rewrite rfc_header_length_field_mod.
  assert (N.of_nat (total / 4 - 1) < 65536)%N by lia. apply N.mod_small. assumption.
Qed.

Theorem length_field_oversize_refuted :
  exists c n, app_wf c /\ app_calc c = Ok n /\ (262144 < N.of_nat n)%N /\
              length_field (rfc_app c) <> N.of_nat (n / 4 - 1).
Proof.
  assert (Hk : N.to_nat 262144 mod 4 = 0) by lia.
  assert (Hb : (262144 <= N.of_nat (N.to_nat 262144))%N) by lia.
  destruct (app_oversize_rejected (N.to_nat 262144) Hk Hb) as [Hc _].
  eexists _, _. split; [|split; [exact Hc|split; [lia|]]].
  { unfold app_wf. cbn [app_c_ssrc app_c_padding]. lia. }
  unfold rfc_app. rewrite rfc_header_length_field_mod.
  cbn [app_c_padding app_c_data]. rewrite repeat_length.
  assert (H1 : N.of_nat ((12 + N.to_nat 262144 + N.to_nat 0) / 4 - 1) = 65538%N) by lia.
  assert (H2 : N.of_nat ((12 + 0 + N.to_nat 262144) / 4 - 1) = 65538%N) by lia.
  rewrite H1, H2. vm_compute. discriminate.
Qed.

(* ---------------------------------------------------------------- the first word of every packet image *)

Definition is_leaf (m : member) : bool := match m with MCompound _ => false | _ => true end.

(* packet type, requested padding, and the 5-bit count / subtype / format of a configuration *)
Definition leaf_fields (m : member) : N * N * N :=
  match m with
  | MSr c => (200, sr_c_padding c, N.of_nat (length (sr_c_blocks c)))
  | MRr c => (201, rr_c_padding c, N.of_nat (length (rr_c_blocks c)))
  | MApp c => (204, app_c_padding c, app_c_subtype c)
  | MBye c => (203, bye_c_padding c, N.of_nat (length (bye_c_sources c)))
  | MSdes c => (202, sdes_c_padding c, N.of_nat (length (sdes_c_chunks c)))
  | MFb c => (match fb_c_kind c with Transport => 205 | Payload => 206 end, fb_c_padding c,
              match fb_c_fci c with FNack _ => 1 | FPli => 1 | FSli _ => 2 | FRpsi _ _ _ => 3 | FFir _ => 4 end)
  | MUnk c => (unk_c_type c, unk_c_padding c, unk_c_count c)
  | MCustom c => (cu_pt c, cu_padding c, cu_count c)
  | MCompound _ => (0, 0, 0)
  end%N.

Lemma header_app_length pt pad cnt total rest :
  length (rfc_header pt pad cnt total ++ rest) = 4 + length rest.
Proof. unfold rfc_header. rewrite !app_length, be16_length. cbn [length]. lia. Qed.

Theorem leaf_image_starts_with_header m n :
  is_leaf m = true -> member_wf m -> m_calc m = Ok n ->
  exists rest, rfc_image m = rfc_header (fst (fst (leaf_fields m))) (snd (fst (leaf_fields m))) (snd (leaf_fields m)) n ++ rest.
Proof.
  intros Hleaf Hwf Hc.
  destruct (member_writes_image m Hwf n Hc) as [Hlen _].
  destruct m as [c|c|c|c|c|c|c|c|ms]; [| | | | | | | |cbn in Hleaf; discriminate Hleaf]; cbn [rfc_image leaf_fields fst snd] in *.
  - unfold rfc_sr in *. cbv zeta in *. eexists. rewrite header_app_length in Hlen.
    repeat rewrite ?app_length, ?be32_length, ?be64_length, ?concat_rb_length, ?rfc_trailer_length in Hlen.
    replace n with (28 + 24 * length (sr_c_blocks c) + N.to_nat (sr_c_padding c)) by lia. reflexivity.
  - unfold rfc_rr in *. cbv zeta in *. eexists. rewrite header_app_length in Hlen.
    repeat rewrite ?app_length, ?be32_length, ?concat_rb_length, ?rfc_trailer_length in Hlen.
    replace n with (8 + 24 * length (rr_c_blocks c) + N.to_nat (rr_c_padding c)) by lia. reflexivity.
  - cbn [m_calc] in Hc. pose proof (app_calc_ok c n Hc) as Hok.
    unfold rfc_app in *. cbv zeta in *. eexists. rewrite header_app_length in Hlen.
    repeat rewrite ?app_length, ?be32_length, ?zeros_length, ?rfc_trailer_length in Hlen.
    replace n with (12 + length (app_c_data c) + N.to_nat (app_c_padding c)) by lia. reflexivity.
  - unfold rfc_bye in *. cbv zeta in *. eexists. rewrite header_app_length in Hlen.
    repeat rewrite ?app_length, ?rfc_trailer_length in Hlen. rewrite ?app_length.
    match goal with |- rfc_header _ _ _ ?t ++ _ = _ => replace t with n by lia end. reflexivity.
  - unfold rfc_sdes in *. cbv zeta in *. eexists. rewrite header_app_length in Hlen.
    repeat rewrite ?app_length, ?rfc_trailer_length in Hlen. rewrite ?app_length.
    match goal with |- rfc_header _ _ _ ?t ++ _ = _ => replace t with n by lia end. reflexivity.
  - unfold rfc_fb in *. cbv zeta in *. eexists. rewrite header_app_length in Hlen.
    repeat rewrite ?app_length, ?be32_length, ?rfc_trailer_length in Hlen. rewrite ?app_length.
    match goal with |- rfc_header _ _ _ ?t ++ _ = _ => replace t with n by lia end. reflexivity.
  - unfold rfc_raw in *. cbv zeta in *. eexists. rewrite header_app_length in Hlen.
    repeat rewrite ?app_length, ?rfc_trailer_length in Hlen. rewrite ?app_length.
    match goal with |- rfc_header _ _ _ ?t ++ _ = _ => replace t with n by lia end. reflexivity.
  - unfold rfc_raw in *. cbv zeta in *. eexists. rewrite header_app_length in Hlen.
    repeat rewrite ?app_length, ?rfc_trailer_length in Hlen. rewrite ?app_length.
    match goal with |- rfc_header _ _ _ ?t ++ _ = _ => replace t with n by lia end. reflexivity.
Qed.

(* the property's reading of the first 32-bit word: version 2 (the 128), the padding bit set exactly when
   padding was requested, the count / subtype / format, the packet type, and the length in words minus one *)
Theorem leaf_image_first_word m n :
  is_leaf m = true -> member_wf m -> m_calc m = Ok n -> (N.of_nat n <= 262144)%N ->
  nth 0 (rfc_image m) 0%N =
    (128 + (if (0 <? snd (fst (leaf_fields m)))%N then 32 else 0) + snd (leaf_fields m))%N /\
  nth 1 (rfc_image m) 0%N = fst (fst (leaf_fields m)) /\
  length_field (rfc_image m) = N.of_nat (n / 4 - 1).
Proof.
  intros Hleaf Hwf Hc Hmax.
  destruct (member_writes_image m Hwf n Hc) as [Hlen _].
  destruct (leaf_image_starts_with_header m n Hleaf Hwf Hc) as [rest Himg].
  rewrite Himg in Hlen |- *. rewrite header_app_length in Hlen.
  split; [|split].
  - unfold rfc_header. reflexivity.
  - unfold rfc_header. reflexivity.
  - apply rfc_header_length_field; lia.
Qed.

(* the count / subtype / format of an accepted configuration fits its five bits, so the 128 above really is
   "version 2" and the 32 really is the padding bit *)
Theorem accepted_count_fits_5_bits m n :
  is_leaf m = true -> member_wf m -> m_calc m = Ok n -> (snd (leaf_fields m) < 32)%N.
Proof.
  intros Hleaf Hwf Hc.
  destruct m as [c|c|c|c|c|c|c|c|ms]; [| | | | | | | |cbn in Hleaf; discriminate Hleaf];
    cbn [m_calc leaf_fields snd member_wf] in *.
  - apply sr_calc_ok in Hc. lia.
  - apply rr_calc_ok in Hc. lia.
  - apply app_calc_ok in Hc. lia.
  - apply bye_calc_ok in Hc. lia.
  - apply sdes_calc_ok in Hc. lia.
  - destruct (fb_c_fci c); lia.
  - apply unk_calc_ok in Hc. lia.
  - lia.
Qed.
