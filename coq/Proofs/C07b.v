(* C07: the 16-bit length field of the RFC image.  [rfc_header] writes be16 (total/4 - 1): that is the
   value the RFC asks for exactly when it fits 16 bits, i.e. for packets of at most 262144 bytes.  Beyond
   that the builders without a total-size rule still accept (known finding D13) and the field is the value
   truncated to 16 bits: "a length field equal to size/4-1" is false of those packets. *)
From RtcpV Require Export Proofs.Members Proofs.C04.

Definition length_field (img : bytes) : N := be_dec (firstn 2 (skipn 2 img)).

Lemma rfc_header_length_field_mod pt p c total rest :
  length_field (rfc_header pt p c total ++ rest) = (N.of_nat (total / 4 - 1) mod 65536)%N.
Proof.
  unfold length_field, rfc_header. rewrite <- app_assoc. cbn [app skipn]. unfold be16. cbn [app firstn]. rewrite be_dec_2.
  generalize (N.of_nat (total / 4 - 1)). intros x. lia.
Qed.

Lemma rfc_header_length_field pt p c total rest :
  4 <= total -> (N.of_nat total <= 262144)%N ->
  length_field (rfc_header pt p c total ++ rest) = N.of_nat (total / 4 - 1).
Proof.
  intros Hlo Hhi. rewrite rfc_header_length_field_mod.
  assert (N.of_nat (total / 4 - 1) < 65536)%N by lia. apply N.mod_small. assumption.
Qed.

Theorem length_field_oversize_refuted :
  exists c n, app_wf c /\ app_calc c = Ok n /\ (262144 < N.of_nat n)%N /\
              length_field (rfc_app c) <> N.of_nat (n / 4 - 1).
Proof.
  assert (Hk : N.to_nat 262144 mod 4 = 0) by lia.
  assert (Hb : (262144 <= N.of_nat (N.to_nat 262144))%N) by lia.
  destruct (app_oversize_rejected (N.to_nat 262144) Hk Hb) as [Hc _].
  eexists _, _. split; [|split; [exact Hc|split; [lia|]]].
  { unfold app_wf. cbn [app_c_ssrc app_c_padding]. lia. }
  unfold rfc_app. rewrite rfc_header_length_field_mod.
  cbn [app_c_padding app_c_data]. rewrite repeat_length.
  assert (H1 : N.of_nat ((12 + N.to_nat 262144 + N.to_nat 0) / 4 - 1) = 65538%N) by lia.
  assert (H2 : N.of_nat ((12 + 0 + N.to_nat 262144) / 4 - 1) = 65538%N) by lia.
  rewrite H1, H2. vm_compute. discriminate.
Qed.
