(* C09: decoded fields are exactly the bytes on the wire. *)
From RtcpV Require Export Proofs.C13.

(* ---------------------------------------------------------------- reads *)

Lemma read_be (l : bytes) lo hi k :
  hi = lo + k -> hi <= length l -> (s <- @slice perr l lo hi ;; be_dec_exact k s) = Ok (beN l lo k).
Proof.
  intros -> H. rewrite slice_ok by lia. cbn [bind]. replace (lo + k - lo) with k by lia.
  rewrite be_dec_exact_ok by (rewrite firstn_length, skipn_length; lia). reflexivity.
Qed.

Lemma idx_byte (l : bytes) i : i < length l -> @idx perr l i = Ok (byte_at l i).
Proof.
  intros H. unfold idx, byte_at. rewrite (nth_error_nth' l 0%N H). reflexivity.
Qed.

Lemma obs_ok {A} (f : A -> obs) (r : pres A) x : r = Ok x -> obs_pres f r = okO (f x).
Proof. intros ->. reflexivity. Qed.

Lemma beN_skipn (l : bytes) o off k : beN (skipn o l) off k = beN l (o + off) k.
Proof. unfold beN, sub. rewrite skipn_skipn. replace (off + o) with (o + off) by lia. reflexivity. Qed.

Lemma beN_firstn (l : bytes) n off k : off + k <= n -> beN (firstn n l) off k = beN l off k.
Proof.
  intros H. unfold beN, sub. f_equal. rewrite skipn_firstn_comm. rewrite firstn_firstn. f_equal. lia.
Qed.

Lemma byte_at_skipn (l : bytes) o i : byte_at (skipn o l) i = byte_at l (o + i).
Proof.
  unfold byte_at. revert l. induction o as [|o IH]; intros l; [reflexivity|].
  destruct l as [|x l]; [destruct i; reflexivity|]. cbn [skipn Nat.add nth]. apply IH.
Qed.

Lemma byte_at_firstn (l : bytes) n i : i < n -> byte_at (firstn n l) i = byte_at l i.
Proof.
  unfold byte_at. revert l i. induction n as [|n IH]; intros l i H; [lia|].
  destruct l as [|x l]; [reflexivity|]. destruct i as [|i]; [reflexivity|]. cbn [firstn nth]. apply IH. lia.
Qed.

(* ---------------------------------------------------------------- report blocks *)

Lemma cumulative_mask (d : bytes) : wfb d -> 8 <= length d -> (beN d 4 4 mod 16777216 = beN d 5 3)%N.
Proof.
  intros Hw Hl. destruct d as [|d0 [|d1 [|d2 [|d3 [|d4 [|d5 [|d6 [|d7 rest]]]]]]]]; cbn [length] in Hl; try lia.
  unfold beN, sub. cbn [skipn firstn]. rewrite be_dec_4. unfold be_dec. cbn [fold_left].
  repeat (apply wfb_cons in Hw; destruct Hw as [? Hw]). lia.
Qed.

Lemma rb_view_block (d : bytes) : wfb d -> length d = 24 -> obs_rb_view d = ref_rb d 0.
Proof.
  intros Hw Hl. unfold obs_rb_view, ref_rb, rb_ssrc, rb_fraction_lost, rb_cumulative_lost, rb_ext_seq, rb_jitter, rb_lsr, rb_dlsr.
  rewrite (read_be d 0 4 4), (read_be d 8 12 4), (read_be d 12 16 4), (read_be d 16 20 4), (read_be d 20 24 4) by lia.
  rewrite idx_byte by lia. rewrite slice_ok by lia. cbn [bind].
  rewrite be_dec_exact_ok by (rewrite firstn_length, skipn_length; lia). cbn [bind].
  change (be_dec (firstn (8 - 4) (skipn 4 d))) with (beN d 4 4). rewrite cumulative_mask by (assumption || lia).
  reflexivity.
Qed.

Lemma ref_rb_block (l : bytes) off : off + 24 <= length l -> ref_rb (firstn 24 (skipn off l)) 0 = ref_rb l off.
Proof.
  intros H. unfold ref_rb. rewrite !beN_firstn by lia. rewrite !byte_at_firstn by lia.
  rewrite !beN_skipn, !byte_at_skipn. cbn [Nat.add]. replace (off + 0) with off by lia. reflexivity.
Qed.

Lemma rb_view_ref (l : bytes) off : wfb l -> off + 24 <= length l -> obs_rb_view (firstn 24 (skipn off l)) = ref_rb l off.
Proof.
  intros Hw H.
  assert (Hl : length (firstn 24 (skipn off l)) = 24) by (rewrite firstn_length, skipn_length; lia).
  rewrite (rb_view_block _ (wfb_firstn _ _ (wfb_skipn _ _ Hw)) Hl). apply ref_rb_block. exact H.
Qed.

Lemma rbs_view_ref (l : bytes) n : forall off fuel,
  wfb l -> off + 24 * n <= length l -> n <= fuel ->
  map obs_rb_view (chunks_exact 24 fuel (firstn (24 * n) (skipn off l))) =
  map (fun k => ref_rb l (off + 24 * k)) (seq 0 n).
Proof.
  induction n as [|n IH]; intros off fuel Hw Hl Hf.
  - cbn [Nat.mul firstn seq map]. destruct fuel; reflexivity.
  - destruct fuel as [|fuel]; [lia|]. cbn [chunks_exact].
    assert (Hlen : length (firstn (24 * S n) (skipn off l)) = 24 * S n) by (rewrite firstn_length, skipn_length; lia).
    destruct (Nat.ltb_spec (length (firstn (24 * S n) (skipn off l))) 24); [lia|].
    rewrite firstn_firstn. replace (Nat.min 24 (24 * S n)) with 24 by lia.
    assert (Hsk : skipn 24 (firstn (24 * S n) (skipn off l)) = firstn (24 * n) (skipn (off + 24) l)).
    { rewrite skipn_firstn_comm, skipn_skipn. replace (24 * S n - 24) with (24 * n) by lia.
      replace (24 + off) with (off + 24) by lia. reflexivity. }
    rewrite Hsk. cbn [map seq]. rewrite rb_view_ref by (assumption || lia).
    rewrite IH by (assumption || lia). replace (off + 24 * 0) with off by lia. f_equal.
    rewrite <- seq_shift, map_map. apply map_ext. intros k. f_equal. lia.
Qed.

(* ---------------------------------------------------------------- header, padding *)

Lemma acc_hdr (l : bytes) : 4 <= length l -> obs_hdr l = ref_hdr l.
Proof.
  intros H. destruct l as [|a [|b [|c [|d r]]]]; cbn [length] in H; try lia.
  rewrite header_accessors. unfold ref_hdr, okO, okN, okI, byte_at, beN, sub. cbn [nth skipn firstn].
  rewrite be_dec_2. reflexivity.
Qed.

Definition pbit (l : bytes) : bool := ((byte_at l 0 / 32) mod 2 =? 1)%N.

Lemma acc_padding min pt (l : bytes) :
  4 <= min -> check_packet min pt l = Ok tt ->
  parse_padding l = Ok (if pbit l then Some (last l 0%N) else None) /\
  min + ref_pad_len l <= length l /\ 4 <= length l /\ count_of l = N.to_nat (byte_at l 0 mod 32) /\
  parse_count l = Ok (byte_at l 0 mod 32)%N.
Proof.
  intros Hmin Hc. apply check_packet_iff in Hc; [|exact Hmin]. apply well_framed_conditions in Hc.
  destruct Hc as [a [b [c [d [r [Hl [Hm [Hv [Hb [Hlen Hpad]]]]]]]]]].
  assert (H4 : 4 <= length l) by lia.
  rewrite Hl in *. rewrite parse_padding_cons by exact Hlen.
  unfold pbit, ref_pad_len, byte_at, count_of. cbn [nth]. rewrite parse_count_cons.
  assert (Hb2 : ((a / 32) mod 2 < 2)%N) by (apply N.mod_lt; lia).
  destruct (N.eqb_spec ((a / 32) mod 2) 1) as [H1|H1].
  - rewrite H1. change (negb (1 =? 0)%N) with true. cbv iota. destruct (Hpad H1) as [_ Hp]. auto.
  - replace ((a / 32) mod 2 =? 0)%N with true by (symmetry; apply N.eqb_eq; lia). cbn [negb].
    split; [reflexivity|]. split; [lia|]. auto.
Qed.

Lemma obs_padding_ref (l : bytes) :
  parse_padding l = Ok (if pbit l then Some (last l 0%N) else None) ->
  obs_pres obs_optN (parse_padding l) = ref_padding l.
Proof. intros ->. unfold ref_padding. fold (pbit l). destruct (pbit l); reflexivity. Qed.

Lemma pad_amount (l : bytes) :
  N.to_nat (match (if pbit l then Some (last l 0%N) else None) with Some p => p | None => 0%N end) = ref_pad_len l.
Proof. unfold ref_pad_len. fold (pbit l). destruct (pbit l); reflexivity. Qed.

(* ---------------------------------------------------------------- the fixed-layout views *)

Theorem sr_accessors (l : bytes) pv :
  wfb l -> typed_parse VSr l = Ok pv -> obs_view pv = ref_view VSr l.
Proof.
  intros Hw H. destruct (typed_check VSr l pv ltac:(congruence) H) as [Hc [Hb Hpv]].
  pose proof (typed_no_chunks VSr l pv ltac:(congruence) H) as Hnc. rewrite Hnc in Hpv. subst pv.
  cbn [variant_min variant_pt body_ok] in *.
  destruct (acc_padding 28 SR_PT l ltac:(lia) Hc) as [Hp [Hpl [H4 [Hcnt Hpc]]]].
  unfold obs_view, ref_view. cbn [pk_variant pk_data]. rewrite acc_hdr by exact H4.
  rewrite (obs_padding_ref l Hp). rewrite Hpc.
  unfold parse_ssrc, sr_ntp, sr_rtp, sr_packet_count, sr_octet_count.
  rewrite (read_be l 4 8 4), (read_be l 8 16 8), (read_be l 16 20 4), (read_be l 20 24 4), (read_be l 24 28 4) by lia.
  unfold obs_rbs, report_blocks, SR_MIN. rewrite Hpc. cbn [bind]. rewrite Hcnt in Hb.
  rewrite slice_ok by lia. cbn [bind obs_pres obs_res obs_list].
  replace (28 + N.to_nat (byte_at l 0 mod 32) * 24 - 28) with (24 * N.to_nat (byte_at l 0 mod 32)) by lia.
  unfold obs_list. rewrite rbs_view_ref; [reflexivity|exact Hw|lia|rewrite firstn_length, skipn_length; lia].
Qed.

Theorem rr_accessors (l : bytes) pv :
  wfb l -> typed_parse VRr l = Ok pv -> obs_view pv = ref_view VRr l.
Proof.
  intros Hw H. destruct (typed_check VRr l pv ltac:(congruence) H) as [Hc [Hb Hpv]].
  pose proof (typed_no_chunks VRr l pv ltac:(congruence) H) as Hnc. rewrite Hnc in Hpv. subst pv.
  cbn [variant_min variant_pt body_ok] in *.
  destruct (acc_padding 8 RR_PT l ltac:(lia) Hc) as [Hp [Hpl [H4 [Hcnt Hpc]]]].
  unfold obs_view, ref_view. cbn [pk_variant pk_data]. rewrite acc_hdr by exact H4.
  rewrite (obs_padding_ref l Hp). rewrite Hpc. unfold parse_ssrc. rewrite (read_be l 4 8 4) by lia.
  unfold obs_rbs, report_blocks, RR_MIN. rewrite Hpc. cbn [bind]. rewrite Hcnt in Hb.
  rewrite slice_ok by lia. cbn [bind obs_pres obs_res obs_list].
  replace (8 + N.to_nat (byte_at l 0 mod 32) * 24 - 8) with (24 * N.to_nat (byte_at l 0 mod 32)) by lia.
  unfold obs_list. rewrite rbs_view_ref; [reflexivity|exact Hw|lia|rewrite firstn_length, skipn_length; lia].
Qed.

Theorem rb_accessors (l : bytes) : wfb l -> rb_parse l = Ok l -> OL [OS "ok"; obs_rb_view l] = okO (ref_rb l 0).
Proof.
  intros Hw H. unfold rb_parse, RB_SIZE in H.
  destruct (Nat.ltb_spec (length l) 24); [discriminate|]. destruct (Nat.ltb_spec 24 (length l)); [discriminate|].
  rewrite rb_view_block by (assumption || lia). reflexivity.
Qed.

Theorem app_accessors (l : bytes) pv :
  typed_parse VApp l = Ok pv ->
  obs_view pv = ref_view VApp l /\ 12 + (length l - ref_pad_len l - 12) <= length l.
Proof.
  intros H. destruct (typed_check VApp l pv ltac:(congruence) H) as [Hc [_ Hpv]].
  pose proof (typed_no_chunks VApp l pv ltac:(congruence) H) as Hnc. rewrite Hnc in Hpv. subst pv.
  cbn [variant_min variant_pt] in *.
  destruct (acc_padding 12 APP_PT l ltac:(lia) Hc) as [Hp [Hpl [H4 [Hcnt Hpc]]]].
  split; [|lia].
  unfold obs_view, ref_view. cbn [pk_variant pk_data]. rewrite acc_hdr by exact H4.
  rewrite (obs_padding_ref l Hp). unfold parse_ssrc. rewrite (read_be l 4 8 4) by lia.
  unfold app_name, app_data. rewrite Hp. cbn [bind]. rewrite pad_amount.
  rewrite usub_ok by lia. cbn [bind]. rewrite !slice_ok by lia. cbn [bind obs_pres obs_res].
  unfold obs_rng. cbn [fst snd]. rewrite firstn_length, skipn_length.
  replace (Nat.min (length l - ref_pad_len l - 12) (length l - 12)) with (length l - ref_pad_len l - 12) by lia.
  reflexivity.
Qed.

Lemma words_view_ref {A} (f : bytes -> A) k (l : bytes) n : forall off fuel,
  0 < k -> off + k * n <= length l -> n <= fuel ->
  map f (chunks_exact k fuel (firstn (k * n) (skipn off l))) =
  map (fun i => f (sub l (off + k * i) k)) (seq 0 n).
Proof.
  induction n as [|n IH]; intros off fuel Hk Hl Hf.
  - replace (k * 0) with 0 by lia. cbn [firstn seq map]. destruct fuel; [reflexivity|]. cbn [chunks_exact length].
    destruct (Nat.ltb_spec 0 k); [reflexivity|lia].
  - destruct fuel as [|fuel]; [lia|]. cbn [chunks_exact].
    assert (Hlen : length (firstn (k * S n) (skipn off l)) = k * S n) by (rewrite firstn_length, skipn_length; nia).
    destruct (Nat.ltb_spec (length (firstn (k * S n) (skipn off l))) k); [nia|].
    rewrite firstn_firstn. replace (Nat.min k (k * S n)) with k by nia.
    assert (Hsk : skipn k (firstn (k * S n) (skipn off l)) = firstn (k * n) (skipn (off + k) l)).
    { rewrite skipn_firstn_comm, skipn_skipn. replace (k * S n - k) with (k * n) by nia.
      replace (k + off) with (off + k) by lia. reflexivity. }
    rewrite Hsk. cbn [map seq]. rewrite IH by (assumption || nia). replace (off + k * 0) with off by lia.
    unfold sub at 1. f_equal.
    rewrite <- seq_shift, map_map. apply map_ext. intros i.
    replace (off + k + k * i) with (off + k * S i) by nia. reflexivity.
Qed.

Theorem bye_accessors (l : bytes) pv :
  typed_parse VBye l = Ok pv ->
  obs_view pv = ref_view VBye l /\
  (* the reason, when present, lies inside the packet *)
  (let off := 4 + 4 * N.to_nat (byte_at l 0 mod 32) in
   off + 1 + ref_pad_len l < length l -> off + 1 + N.to_nat (byte_at l off) <= length l).
Proof.
  intros H. destruct (typed_check VBye l pv ltac:(congruence) H) as [Hc [Hb Hpv]].
  pose proof (typed_no_chunks VBye l pv ltac:(congruence) H) as Hnc. rewrite Hnc in Hpv. subst pv.
  cbn [variant_min variant_pt body_ok] in *.
  destruct (acc_padding 4 BYE_PT l ltac:(lia) Hc) as [Hp [Hpl [H4 [Hcnt Hpc]]]].
  cbn [typed_parse] in H. unfold bye_parse, BYE_MIN in H. rewrite Hc, Hpc in H. cbn [bind] in H.
  set (n := N.to_nat (byte_at l 0 mod 32)) in *. rewrite Hcnt in Hb.
  destruct (Nat.ltb_spec (length l) (4 + 4 * n)); [discriminate|].
  assert (Hreason : 4 + 4 * n < length l -> 4 + 4 * n + 1 + N.to_nat (byte_at l (4 + 4 * n)) <= length l).
  { intros Hlt. destruct (Nat.ltb_spec (4 + 4 * n) (length l)); [|lia].
    rewrite idx_byte in H by lia. cbn [bind] in H.
    destruct (Nat.ltb_spec (length l) (4 + 4 * n + 1 + N.to_nat (byte_at l (4 + 4 * n)))); [discriminate|lia]. }
  split; [|cbv zeta; intros; apply Hreason; lia].
  unfold obs_view, ref_view. cbn [pk_variant pk_data]. rewrite acc_hdr by exact H4.
  rewrite (obs_padding_ref l Hp). fold n. f_equal. f_equal. f_equal; [|f_equal].
  - (* sources *)
    unfold bye_ssrcs. rewrite Hpc. cbn [bind]. fold n. rewrite slice_ok by lia. cbn [bind obs_pres obs_res].
    replace (4 + n * 4 - 4) with (4 * n) by lia. unfold obs_list. rewrite map_map.
    rewrite (words_view_ref (fun x => ON (be_dec x)) 4 l n 4) by (rewrite ?firstn_length, ?skipn_length; lia).
    reflexivity.
  - (* reason *)
    unfold bye_reason. rewrite Hpc. cbn [bind]. fold n.
    assert (Hh : (h <- header_data l ;; parse_length h) = Ok (length l)).
    { apply check_packet_iff in Hc; [|lia]. apply well_framed_conditions in Hc.
      destruct Hc as [a [b [c [d [r [Hl [_ [_ [_ [Hlen _]]]]]]]]]].
      unfold header_data. rewrite slice_ok by lia. cbn [bind]. rewrite Hl at 1. cbn [skipn firstn Nat.sub].
      rewrite parse_length_cons. f_equal. lia. }
    unfold header_data in *. rewrite slice_ok in Hh |- * by lia. cbn [bind] in *. rewrite Hh, Hp. cbn [bind].
    rewrite pad_amount. replace (n * 4 + 4) with (4 + 4 * n) by lia.
    destruct (Nat.ltb_spec (4 + 4 * n + 1 + ref_pad_len l) (length l)) as [Hlt|Hge].
    + destruct (Nat.ltb_spec (length l) (4 + 4 * n + 1 + ref_pad_len l)); [lia|].
      destruct (Nat.eqb_spec (length l - (4 + 4 * n + 1 + ref_pad_len l)) 0); [lia|].
      rewrite idx_byte by lia. cbn [bind]. pose proof (Hreason ltac:(lia)) as Hr.
      rewrite slice_ok by lia. cbn [bind obs_pres obs_res option_map obs_opt]. unfold obs_rng. cbn [fst snd].
      rewrite firstn_length, skipn_length.
      replace (Nat.min (4 + 4 * n + 1 + N.to_nat (byte_at l (4 + 4 * n)) - (4 + 4 * n + 1)) (length l - (4 + 4 * n + 1)))
        with (N.to_nat (byte_at l (4 + 4 * n))) by lia.
      reflexivity.
    + destruct (Nat.ltb_spec (length l) (4 + 4 * n + 1 + ref_pad_len l)); [reflexivity|].
      destruct (Nat.eqb_spec (length l - (4 + 4 * n + 1 + ref_pad_len l)) 0); [reflexivity|lia].
Qed.

Theorem fb_accessors k (l : bytes) pv :
  let v := match k with Transport => VTfb | Payload => VPfb end in
  typed_parse v l = Ok pv ->
  obs_view pv = ref_view v l ++ [("fci", obs_fcis k l)].
Proof.
  intros v H. assert (Hv : v <> VUnknown /\ v <> VSdes) by (unfold v; destruct k; split; discriminate).
  destruct (typed_check v l pv (proj1 Hv) H) as [Hc [_ Hpv]].
  pose proof (typed_no_chunks v l pv (proj2 Hv) H) as Hnc. rewrite Hnc in Hpv. subst pv.
  assert (Hc' : check_packet 12 (variant_pt v) l = Ok tt) by (unfold v in *; destruct k; exact Hc).
  destruct (acc_padding 12 (variant_pt v) l ltac:(lia) Hc') as [Hp [Hpl [H4 [Hcnt Hpc]]]].
  assert (E1 : fb_sender_ssrc l = Ok (beN l 4 4)) by (unfold fb_sender_ssrc, parse_ssrc; apply read_be; lia).
  assert (E2 : fb_media_ssrc l = Ok (beN l 8 4)).
  { unfold fb_media_ssrc, parse_ssrc. rewrite tail_from_ok by lia. cbn [bind].
    rewrite (read_be (skipn 4 l) 4 8 4) by (rewrite ?skipn_length; lia). rewrite beN_skipn. reflexivity. }
  unfold obs_view, ref_view, v. destruct k; cbn [pk_variant pk_data app]; rewrite acc_hdr by exact H4;
    rewrite (obs_padding_ref l Hp), E1, E2; reflexivity.
Qed.

Theorem unknown_accessors (l : bytes) pv :
  typed_parse VUnknown l = Ok pv -> obs_view pv = ref_view VUnknown l.
Proof.
  intros H. cbn [typed_parse] in H. apply bind_ok_inv in H. destruct H as [x [H1 [= <-]]].
  apply unknown_accept_framed in H1. destruct H1 as [Hr ->].
  unfold obs_view, ref_view. cbn [pk_variant pk_data]. rewrite acc_hdr; [reflexivity|].
  destruct l as [|a [|b [|c [|d r]]]]; try discriminate. cbn [length]. lia.
Qed.

(* ---------------------------------------------------------------- every RFC-well-formed packet is accepted *)

(* what RFC 3550 / 4585 ask of the body of each fixed-layout type, beyond the common framing *)
Definition rfc_body (v : variant) (l : bytes) : Prop :=
  let n := N.to_nat (byte_at l 0 mod 32) in
  match v with
  | VSr => 28 + 24 * n <= length l
  | VRr => 8 + 24 * n <= length l
  | VBye => 4 + 4 * n <= length l /\
            (4 + 4 * n < length l -> 4 + 4 * n + 1 + N.to_nat (byte_at l (4 + 4 * n)) <= length l)
  | _ => True
  end.

Theorem well_formed_accepted v (l : bytes) :
  v <> VUnknown -> v <> VSdes ->
  well_framed (variant_min v) (variant_pt v) l = true -> rfc_body v l ->
  typed_parse v l = Ok (mk_pkt v l []).
Proof.
  intros Hu Hs Hw Hb.
  assert (Hmin : 4 <= variant_min v) by (destruct v; cbn [variant_min]; lia).
  pose proof (proj2 (check_packet_iff (variant_min v) (variant_pt v) l Hmin) Hw) as Hc.
  destruct (acc_padding _ _ l Hmin Hc) as [_ [_ [H4 [_ Hpc]]]].
  destruct v; try congruence; cbn [typed_parse variant_min variant_pt rfc_body] in *.
  - unfold app_parse, APP_MIN. rewrite Hc. reflexivity.
  - unfold bye_parse, BYE_MIN. rewrite Hc, Hpc. cbn [bind]. destruct Hb as [Hb1 Hb2].
    set (n := N.to_nat (byte_at l 0 mod 32)) in *.
    destruct (Nat.ltb_spec (length l) (4 + 4 * n)); [lia|].
    destruct (Nat.ltb_spec (4 + 4 * n) (length l)) as [Hlt|]; [|reflexivity].
    rewrite idx_byte by lia. cbn [bind]. specialize (Hb2 Hlt).
    destruct (Nat.ltb_spec (length l) (4 + 4 * n + 1 + N.to_nat (byte_at l (4 + 4 * n)))); [lia|reflexivity].
  - unfold rr_parse, RR_MIN, RB_SIZE. rewrite Hc, Hpc. cbn [bind].
    destruct (Nat.ltb_spec (length l) (8 + N.to_nat (byte_at l 0 mod 32) * 24)); [lia|reflexivity].
  - unfold sr_parse, SR_MIN, RB_SIZE. rewrite Hc, Hpc. cbn [bind].
    destruct (Nat.ltb_spec (length l) (28 + N.to_nat (byte_at l 0 mod 32) * 24)); [lia|reflexivity].
  - unfold fb_parse, FB_MIN. cbn [fb_pt]. rewrite Hc. reflexivity.
  - unfold fb_parse, FB_MIN. cbn [fb_pt]. rewrite Hc. reflexivity.
Qed.

Theorem raw_well_formed_accepted (l : bytes) :
  raw_framed l = true -> typed_parse VUnknown l = Ok (mk_pkt VUnknown l []).
Proof.
  intros H. destruct l as [|a [|b [|c [|d r]]]]; try discriminate. cbn [raw_framed] in H.
  apply andb_true_iff in H. destruct H as [Hv Hl]. apply N.eqb_eq in Hv. apply Nat.eqb_eq in Hl.
  cbn [typed_parse]. unfold unknown_parse, UNK_MIN, VERSION.
  destruct (Nat.ltb_spec (length (a :: b :: c :: d :: r)) 4); [cbn [length] in *; lia|].
  rewrite parse_version_cons. cbn [bind]. rewrite Hv. change (negb (2 =? 2)%N) with false. cbv iota.
  rewrite parse_length_cons. cbn [bind]. rewrite <- Hl.
  destruct (Nat.ltb_spec (length (a :: b :: c :: d :: r)) (length (a :: b :: c :: d :: r))); [lia|]. reflexivity.
Qed.

(* the premises hold of concrete packets with every field distinct *)
Example accessors_premises_hold :
  let sr := [129; 200; 0; 12; 1; 2; 3; 4; 5; 6; 7; 8; 9; 10; 11; 12; 13; 14; 15; 16; 17; 18; 19; 20; 21; 22; 23; 24;
             31; 32; 33; 34; 35; 36; 37; 38; 39; 40; 41; 42; 43; 44; 45; 46; 47; 48; 49; 50; 51; 52; 53; 54]%N in
  let bye := [161; 203; 0; 4; 0; 0; 0; 9; 2; 104; 105; 0; 0; 0; 0; 0; 0; 0; 0; 8]%N in
  (wfb sr /\ exists pv, typed_parse VSr sr = Ok pv) /\ (exists pv, typed_parse VBye bye = Ok pv) /\
  well_framed 28 SR_PT sr = true /\ rfc_body VSr sr.
Proof.
  cbv zeta. split; [split; [|eexists; vm_compute; reflexivity]|].
  - unfold wfb. repeat (constructor; [lia|]). constructor.
  - split; [eexists; vm_compute; reflexivity|]. split; [vm_compute; reflexivity|]. cbn. lia.
Qed.
