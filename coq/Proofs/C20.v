(* C20: builder output depends on what was configured, not on how. *)
From RtcpV Require Export Spec.Final Proofs.Members.

(* generic "last value wins" / "adds in order" facts about a fold over steps *)
Lemma last_of_snoc {A} (sel : op -> option A) ops o d :
  last_of sel (ops ++ [o]) d = match sel o with Some v => v | None => last_of sel ops d end.
Proof. unfold last_of. rewrite fold_left_app. reflexivity. Qed.

Lemma all_of_snoc {A} (sel : op -> option A) ops o :
  all_of sel (ops ++ [o]) = all_of sel ops ++ match sel o with Some v => [v] | None => [] end.
Proof. unfold all_of. rewrite flat_map_app. cbn [flat_map]. rewrite app_nil_r. reflexivity. Qed.

Lemma fold_apply_snoc ops o m : fold_left apply_op (ops ++ [o]) m = apply_op (fold_left apply_op ops m) o.
Proof. rewrite fold_left_app. reflexivity. Qed.

Ltac snoc_step :=
  rewrite fold_apply_snoc; rewrite ?last_of_snoc, ?all_of_snoc.

Lemma item_hist_final h : item_of_hist h = final_item h.
Proof.
  unfold item_of_hist, final_item.
  assert (H : forall ops c, fold_left item_apply ops c =
                mk_icfg (it_c_type c)
                        (fold_left (fun acc o => match o with IPrefix p => p | IIntoOwned => acc end) ops (it_c_prefix c))
                        (it_c_value c)).
  { induction ops as [|o ops IH]; intros c; [destruct c; reflexivity|].
    cbn [fold_left]. rewrite IH. destruct o; reflexivity. }
  rewrite H. cbn [it_c_type it_c_prefix it_c_value]. destruct (ih_add_owned h); reflexivity.
Qed.

Lemma chunk_hist_final h : chunk_of_hist h = final_chunk h.
Proof. unfold chunk_of_hist, final_chunk. f_equal. apply map_ext. intros. apply item_hist_final. Qed.

Lemma rpsi_hist_final ops : fci_of_hist (FHRpsi ops) = final_rpsi ops.
Proof.
  unfold fci_of_hist, final_rpsi.
  assert (H : forall ops s,
            fold_left rpsi_apply ops s =
            mk_rpsi (fold_left (fun acc o => match o with RPt v => v | _ => acc end) ops (rp_pt s))
                    (fold_left (fun acc o => match o with RData d _ => d | RDataOwned d _ => d | _ => acc end) ops (rp_bits s))
                    (fold_left (fun acc o => match o with RData _ ov => ov | RDataOwned _ ov => ov | _ => acc end) ops (rp_ov s))).
  { induction ops0 as [|o ops0 IH]; intros s; [destruct s; reflexivity|].
    cbn [fold_left]. rewrite IH. destruct o; reflexivity. }
  rewrite H. reflexivity.
Qed.

Lemma fci_hist_final f : fci_of_hist f = final_fci f.
Proof. destruct f; try reflexivity. apply rpsi_hist_final. Qed.

Theorem history_is_final_member i ops :
  fold_left apply_op ops (init_member i) = final_member i ops.
Proof.
  induction ops as [|o ops IH] using rev_ind.
  - destruct i; cbn [fold_left init_member final_member last_of all_of flat_map]; try reflexivity.
    rewrite fci_hist_final. reflexivity.
  - snoc_step. rewrite IH. destruct i; cbn [final_member];
      rewrite ?last_of_snoc, ?all_of_snoc; destruct o; cbn [apply_op sel_pad sel_ntp sel_rtp sel_pc sel_oc sel_rb
        sel_subtype sel_data sel_src sel_reason sel_chunk sel_count sel_sender sel_media
        sr_c_ssrc sr_c_padding sr_c_ntp sr_c_rtp sr_c_pc sr_c_oc sr_c_blocks rr_c_ssrc rr_c_padding rr_c_blocks
        app_c_ssrc app_c_padding app_c_subtype app_c_name app_c_data bye_c_padding bye_c_sources bye_c_reason
        sdes_c_padding sdes_c_chunks unk_c_padding unk_c_type unk_c_count unk_c_data
        fb_c_kind fb_c_padding fb_c_sender fb_c_media fb_c_fci]; rewrite ?app_nil_r; reflexivity.
Qed.

Theorem history_is_final_config h : member_of_hist h = final_config h.
Proof.
  unfold member_of_hist, final_config. rewrite history_is_final_member. destruct (h_wrap h); reflexivity.
Qed.

(* any two histories with the same final configuration produce the same size and the same bytes *)
Theorem same_final_same_output h1 h2 buf :
  final_config h1 = final_config h2 ->
  m_calc (member_of_hist h1) = m_calc (member_of_hist h2) /\
  m_write_into (member_of_hist h1) buf = m_write_into (member_of_hist h2) buf.
Proof. intros H. rewrite !history_is_final_config, H. auto. Qed.

(* the wrappers are transparent: PacketBuilder::from is the identity, a one-member compound of a valid
   builder has the builder's size and bytes *)
Theorem one_member_compound m (buf : bytes) n :
  member_wf m -> m_calc m = Ok n -> n <= length buf ->
  m_calc (MCompound [m]) = Ok n /\ m_write_into (MCompound [m]) buf = m_write_into m buf.
Proof.
  intros Hwf Hc Hn.
  assert (Hcc : m_calc (MCompound [m]) = Ok n).
  { change (m_calc (MCompound [m])) with (compound_calc [m]). rewrite compound_calc_cons. rewrite Hc. cbn [bind andb].
    change (compound_calc []) with (@Ok werr nat 0). cbn [bind]. rewrite Nat.add_0_r. reflexivity. }
  split; [exact Hcc|].
  assert (Hwfc : member_wf (MCompound [m])) by (apply member_wf_compound; constructor; [exact Hwf|constructor]).
  pose proof (write_into_spec (MCompound [m]) buf Hwfc) as H1. rewrite Hcc in H1.
  pose proof (write_into_spec m buf Hwf) as H2. rewrite Hc in H2.
  destruct H1 as [_ [_ [W1 _]]]. destruct H2 as [_ [_ [W2 _]]].
  rewrite W1, W2 by exact Hn. cbn [rfc_image map concat]. rewrite app_nil_r. reflexivity.
Qed.

(* re-adding a NACK sequence number is idempotent; re-adding a FIR SSRC keeps the last sequence *)
Theorem nack_readd_idempotent adds x : In x adds -> rfc_set (adds ++ [x]) = rfc_set adds.
Proof.
  intros Hin. destruct (rfc_set_spec (adds ++ [x])) as [A1 I1]. destruct (rfc_set_spec adds) as [A2 I2].
  apply asc_unique; [exact A1|exact A2|]. intros y. rewrite I1, I2, in_app_iff. cbn [In]. intuition. subst. exact Hin.
Qed.

Theorem fir_readd_keeps_last adds k v :
  rfc_fir_lookup (adds ++ [(k, v)]) k = Some v /\
  (forall k', k' <> k -> rfc_fir_lookup (adds ++ [(k, v)]) k' = rfc_fir_lookup adds k').
Proof.
  split; [rewrite fir_lookup_snoc, N.eqb_refl; reflexivity|].
  intros k' Hne. rewrite fir_lookup_snoc. destruct (N.eqb_spec k k'); [congruence|reflexivity].
Qed.

Example history_nonvacuous :
  let h1 := mk_hist HBye [OPad 4; OSrc 5; OReasonOwned [97; 98]; OPad 8]%N WDirect in
  let h2 := mk_hist HBye [OPad 8; OReason [1]; OSrc 5; OReason [97; 98]]%N WPacketBuilder in
  final_config h1 = final_config h2 /\ exists n, m_calc (member_of_hist h1) = Ok n.
Proof. cbv zeta. split; [reflexivity|]. eexists. vm_compute. reflexivity. Qed.
