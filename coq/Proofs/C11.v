(* C11: compound parsing tiles the datagram and iterates it faithfully. *)
From RtcpV Require Export Proofs.C12 Spec.Ref.

(* ---------------------------------------------------------------- tiling, declaratively *)

(* ts are consecutive (offset, length) tiles from [off] to the end of l, each as long as its own
   length field says *)
Inductive is_tiling (l : bytes) : nat -> list (nat * nat) -> Prop :=
| tiling_end : is_tiling l (length l) []
| tiling_step off n ts :
    off + 4 <= length l -> n = 4 * (N.to_nat (beN l (off + 2) 2) + 1) -> off + n <= length l ->
    is_tiling l (off + n) ts -> is_tiling l off ((off, n) :: ts).

Lemma tiling_sound fuel l off ts : tiling fuel l off = Some ts -> is_tiling l off ts.
Proof.
  revert off ts. induction fuel as [|f IH]; intros off ts; cbn [tiling]; [discriminate|].
  destruct (Nat.eqb_spec off (length l)) as [->|Hne]; [intros [= <-]; constructor|].
  destruct (Nat.ltb_spec (length l) (off + 4)); [discriminate|].
  destruct (Nat.ltb_spec (length l) (off + 4 * (N.to_nat (beN l (off + 2) 2) + 1))); [discriminate|].
  destruct (tiling f l (off + 4 * (N.to_nat (beN l (off + 2) 2) + 1))) as [r|] eqn:Hr; [|discriminate].
  intros [= <-]. econstructor; eauto.
Qed.

Lemma tiling_complete l off ts :
  is_tiling l off ts -> forall fuel, length l - off < fuel -> tiling fuel l off = Some ts.
Proof.
  induction 1 as [|off n ts H4 Hn Hfit Ht IH]; intros fuel Hf.
  - destruct fuel; [lia|]. cbn [tiling]. rewrite Nat.eqb_refl. reflexivity.
  - destruct fuel; [lia|]. cbn [tiling].
    destruct (Nat.eqb_spec off (length l)); [lia|].
    destruct (Nat.ltb_spec (length l) (off + 4)); [lia|]. rewrite <- Hn.
    destruct (Nat.ltb_spec (length l) (off + n)); [lia|].
    rewrite IH by lia. reflexivity.
Qed.

Theorem tiling_of_iff l ts : tiling_of l = Some ts <-> l <> [] /\ is_tiling l 0 ts.
Proof.
  unfold tiling_of. destruct l as [|x l]; [split; [discriminate|intros [H _]; congruence]|].
  split.
  - intros H. split; [congruence|]. eapply tiling_sound; eauto.
  - intros [_ H]. apply tiling_complete; [exact H|lia].
Qed.

(* ---------------------------------------------------------------- Compound::parse *)

Lemma parse_length_skipn l off :
  off + 4 <= length l -> parse_length (skipn off l) = Ok (4 * (N.to_nat (beN l (off + 2) 2) + 1)).
Proof.
  intros H. unfold parse_length. rewrite slice_ok by (rewrite ?skipn_length; lia).
  cbn [Nat.sub bind]. rewrite be_dec_exact_ok.
  - cbn [bind]. unfold beN, sub. rewrite skipn_skipn. replace (off + 2) with (off + 2) by lia.
    replace (4 - 2) with 2 by lia. reflexivity.
  - rewrite firstn_length, skipn_length, skipn_length. lia.
Qed.

Lemma compound_check_tiling fuel l off :
  off <= length l -> (compound_check fuel l off = Ok tt <-> exists ts, tiling fuel l off = Some ts).
Proof.
  revert off. induction fuel as [|f IH]; intros off Hoff; cbn [compound_check tiling].
  - split; [discriminate|intros [ts H]; discriminate].
  - destruct (Nat.ltb_spec off (length l)) as [Hlt|Hge].
    + destruct (Nat.eqb_spec off (length l)); [lia|]. unfold UNK_MIN.
      destruct (Nat.ltb_spec (length l) (off + 4)) as [Hs|Hs]; [split; [discriminate|intros [ts H]; discriminate]|].
      rewrite tail_from_ok by lia. cbn [bind]. rewrite parse_length_skipn by lia. cbn [bind].
      destruct (Nat.ltb_spec (length l) (off + 4 * (N.to_nat (beN l (off + 2) 2) + 1))) as [Hb|Hb];
        [split; [discriminate|intros [ts H]; discriminate]|].
      rewrite IH by lia.
      destruct (tiling f l (off + 4 * (N.to_nat (beN l (off + 2) 2) + 1))) as [r|];
        split; intros [ts H]; try discriminate; eauto.
    + assert (off = length l) by lia. subst off. rewrite Nat.eqb_refl. split; eauto.
Qed.

Theorem compound_accepts_iff_tiled l :
  (exists c, compound_parse l = Ok c) <-> (l <> [] /\ exists ts, is_tiling l 0 ts).
Proof.
  unfold compound_parse. destruct l as [|x l].
  - split; [intros [c H]; discriminate|intros [H _]; congruence].
  - split.
    + intros [c H]. apply bind_ok_inv in H. destruct H as [[] [H _]].
      apply compound_check_tiling in H; [|lia]. destruct H as [ts H].
      split; [congruence|]. exists ts. eapply tiling_sound; eauto.
    + intros [_ [ts H]]. pose proof (tiling_complete _ _ _ H (S (length (x :: l))) ltac:(lia)) as H'.
      assert (Hc : compound_check (S (length (x :: l))) (x :: l) 0 = Ok tt)
        by (apply compound_check_tiling; [lia|eauto]).
      rewrite Hc. cbn [bind]. eauto.
Qed.

Theorem compound_parse_state l c : compound_parse l = Ok c -> c = mk_cst l 0 false.
Proof.
  unfold compound_parse. destruct l as [|x l]; [discriminate|]. intros H.
  apply bind_ok_inv in H. destruct H as [[] [_ [= <-]]]. reflexivity.
Qed.

(* ---------------------------------------------------------------- iteration *)

(* the first k calls of next() *)
Fixpoint nexts (k : nat) (s : compound_st) : pres (list (option (pres packet_view))) :=
  match k with
  | O => Ok []
  | S k' => '(o, s') <- compound_next s ;; r <- nexts k' s' ;; Ok (o :: r)
  end.

(* what iteration must yield: the generic parser on each tile, cut after the first failing tile *)
Fixpoint iter_spec (l : bytes) (ts : list (nat * nat)) : list (pres packet_view) :=
  match ts with
  | [] => []
  | (o, n) :: r => let p := packet_parse (sub l o n) in p :: (if is_ok p then iter_spec l r else [])
  end.

Definition expected_nexts (k : nat) (items : list (pres packet_view)) : list (option (pres packet_view)) :=
  map Some (firstn k items) ++ repeat None (k - length items).

Definition returns_normally {A} (r : pres A) : Prop := match r with Panic | Fuel => False | _ => True end.

Lemma nexts_over k l off : nexts k (mk_cst l off true) = Ok (repeat None k).
Proof.
  induction k as [|k IH]; [reflexivity|]. cbn [nexts compound_next c_is_over bind]. rewrite IH. reflexivity.
Qed.

Section Iteration.
  (* the generic parser returns normally on every string: discharged by C01 (Proofs/C01.v) *)
  Hypothesis packet_total : forall t, returns_normally (packet_parse t).

  Lemma nexts_tiled l ts off :
    is_tiling l off ts -> off < length l ->
    forall k, nexts k (mk_cst l off false) = Ok (expected_nexts k (iter_spec l ts)).
  Proof.
    induction 1 as [|off n ts H4 Hn Hfit Ht IH]; intros Hlt k; [lia|].
    destruct k as [|k]; [reflexivity|].
    cbn [nexts]. unfold compound_next. cbn [c_is_over c_data c_offset].
    rewrite tail_from_ok by lia. cbn [bind]. rewrite parse_length_skipn by lia. cbn [bind]. rewrite <- Hn.
    rewrite slice_ok by lia. cbn [bind]. replace (off + n - off) with n by lia. fold (sub l off n).
    pose proof (packet_total (sub l off n)) as Hp. cbn [iter_spec].
    destruct (packet_parse (sub l off n)) as [p|e| |] eqn:Hpp; cbn [returns_normally] in Hp; try contradiction.
    - (* the tile parses *)
      cbn [is_ok negb bind]. destruct (Nat.leb_spec (length l) (off + n)) as [Hend|Hmore].
      + (* last tile *)
        assert (off + n = length l) by lia. inversion Ht as [Hl|? ? ? Hx]; [|lia]. subst ts.
        rewrite nexts_over. cbn [bind iter_spec]. unfold expected_nexts. cbn [length firstn map app].
        destruct k; cbn [firstn map app Nat.sub repeat length]; rewrite ?Nat.sub_0_r; reflexivity.
      + rewrite IH by lia. cbn [bind]. unfold expected_nexts. cbn [firstn map app length Nat.sub]. reflexivity.
    - (* the tile fails: iteration is over *)
      cbn [is_ok negb bind]. destruct (length l <=? off + n); rewrite nexts_over; cbn [bind];
        unfold expected_nexts; cbn [length firstn map app];
        destruct k; cbn [firstn map app Nat.sub repeat length]; rewrite ?Nat.sub_0_r; reflexivity.
  Qed.

  Theorem compound_iteration l c ts :
    compound_parse l = Ok c -> tiling_of l = Some ts ->
    forall k, nexts k c = Ok (expected_nexts k (iter_spec l ts)).
  Proof.
    intros Hc Ht k. apply compound_parse_state in Hc. subst c.
    apply tiling_of_iff in Ht. destruct Ht as [Hne Ht].
    apply nexts_tiled; [exact Ht|]. destruct l; [congruence|cbn [length]; lia].
  Qed.
End Iteration.

(* consequences the property spells out *)
Lemma iter_spec_length l ts : length (iter_spec l ts) <= length ts.
Proof.
  induction ts as [|[o n] r IH]; cbn [iter_spec length]; [lia|].
  destruct (is_ok (packet_parse (sub l o n))); cbn [length]; lia.
Qed.

Lemma iter_spec_stops l ts i r :
  nth_error (iter_spec l ts) i = Some r -> is_ok r = false -> length (iter_spec l ts) = S i.
Proof.
  revert i. induction ts as [|[o n] t IH]; intros i; cbn [iter_spec]; [destruct i; discriminate|].
  destruct i as [|i]; cbn [nth_error].
  - intros [= <-] Hr. rewrite Hr. reflexivity.
  - destruct (is_ok (packet_parse (sub l o n))); [|destruct i; discriminate].
    intros H Hr. cbn [length]. f_equal. eapply IH; eauto.
Qed.

Example compound_nonvacuous :
  exists c ts, compound_parse [129; 203; 0; 1; 1; 2; 3; 4; 128; 201; 0; 1; 0; 0; 0; 7]%N = Ok c /\
               tiling_of [129; 203; 0; 1; 1; 2; 3; 4; 128; 201; 0; 1; 0; 0; 0; 7]%N = Some ts /\ length ts = 2.
Proof. do 2 eexists. vm_compute. repeat split. Qed.
