(* C18: parse errors tell the truth about the input. *)
From RtcpV Require Export Proofs.C08.

(* a predicate on the error a computation may return *)
Definition res_errs {A} (P : perr -> Prop) (r : pres A) : Prop :=
  match r with Err e => P e | _ => True end.

Lemma res_errs_bind {A B} (P : perr -> Prop) (r : pres A) (f : A -> pres B) :
  res_errs P r -> (forall a, r = Ok a -> res_errs P (f a)) -> res_errs P (bind r f).
Proof. destruct r; cbn; auto. Qed.

(* errors raised below the framing level: only size complaints, and they are the right way round *)
Definition body_err_ok (e : perr) : Prop :=
  match e with
  | Truncated ex ac => ex > ac
  | TooLarge ex ac => ex < ac
  | UnsupportedVersion _ | PacketTypeMismatch _ _ | InvalidPaddingP | WrongImplementation => False
  | _ => True
  end.

Section NoErr.
  Context (P : perr -> Prop).
  Lemma errs_idx l i : res_errs P (idx l i).
  Proof. unfold idx. destruct (nth_error l i); exact I. Qed.
  Lemma errs_slice l lo hi : res_errs P (slice l lo hi).
  Proof. unfold slice. destruct (hi <? lo); [exact I|]. destruct (length l <? hi); exact I. Qed.
  Lemma errs_tail_from l lo : res_errs P (tail_from l lo).
  Proof. unfold tail_from. destruct (length l <? lo); exact I. Qed.
  Lemma errs_usub a b : res_errs P (usub a b).
  Proof. unfold usub. destruct (a <? b); exact I. Qed.
  Lemma errs_be_dec_exact n l : res_errs P (be_dec_exact n l).
  Proof. unfold be_dec_exact. destruct (length l =? n); exact I. Qed.
  Lemma errs_parse_count l : res_errs P (parse_count l).
  Proof. unfold parse_count. apply res_errs_bind; [apply errs_idx|intros; exact I]. Qed.
  Lemma errs_parse_length l : res_errs P (parse_length l).
  Proof.
    unfold parse_length. apply res_errs_bind; [apply errs_slice|intros].
    apply res_errs_bind; [apply errs_be_dec_exact|intros; exact I].
  Qed.
  Lemma errs_parse_padding l : res_errs P (parse_padding l).
  Proof.
    unfold parse_padding, parse_padding_bit. apply res_errs_bind.
    - apply res_errs_bind; [apply errs_idx|intros; exact I].
    - intros [] _; [|exact I]. apply res_errs_bind; [apply errs_parse_length|intros].
      apply res_errs_bind; [apply errs_idx|intros; exact I].
  Qed.
  Lemma errs_parse_version l : res_errs P (parse_version l).
  Proof. unfold parse_version. apply res_errs_bind; [apply errs_idx|intros; exact I]. Qed.
  Lemma errs_parse_packet_type l : res_errs P (parse_packet_type l).
  Proof. apply errs_idx. Qed.
End NoErr.

Ltac errs_prim :=
  first [ apply errs_idx | apply errs_slice | apply errs_tail_from | apply errs_usub
        | apply errs_be_dec_exact | apply errs_parse_count | apply errs_parse_length
        | apply errs_parse_padding | apply errs_parse_version | apply errs_parse_packet_type ].

Ltac errs_step :=
  match goal with
  | |- res_errs _ (Ok _) => exact I
  | |- res_errs _ Panic => exact I
  | |- res_errs _ Fuel => exact I
  | |- res_errs _ (bind _ _) => apply res_errs_bind; [try errs_prim|intros]
  | |- res_errs _ (let '(_, _) := ?x in _) => destruct x
  | |- res_errs _ (if ?c then _ else _) => destruct c eqn:?
  | |- res_errs _ (Err _) => cbn [res_errs body_err_ok]; bool_to_prop; try lia
  end.

(* ---------------------------------------------------------------- SDES body *)

Lemma item_parse_errs data : res_errs body_err_ok (item_parse data).
Proof. unfold item_parse. repeat errs_step. Qed.

Lemma items_loop_errs fuel base data off : res_errs body_err_ok (items_loop fuel base data off).
Proof.
  revert off. induction fuel as [|f IH]; intros off; cbn [items_loop]; [exact I|].
  repeat errs_step; try apply item_parse_errs; try apply IH.
Qed.

Lemma zero_skip_errs fuel data off : res_errs body_err_ok (zero_skip fuel data off).
Proof.
  revert off. induction fuel as [|f IH]; intros off; cbn [zero_skip]; [exact I|].
  repeat errs_step; try apply IH.
Qed.

Lemma chunk_parse_errs base data : res_errs body_err_ok (chunk_parse base data).
Proof.
  unfold chunk_parse. repeat errs_step; try apply items_loop_errs; try apply zero_skip_errs.
  all: try (pose proof (pad4_ge n); assert (pad4 n <> n) by assumption; lia).
Qed.

Lemma chunks_loop_errs fuel d endp off : res_errs body_err_ok (chunks_loop fuel d endp off).
Proof.
  revert off. induction fuel as [|f IH]; intros off; cbn [chunks_loop]; [exact I|].
  repeat errs_step; try apply chunk_parse_errs; try apply IH.
Qed.

(* ---------------------------------------------------------------- framing errors *)

(* what the property demands of an error returned by a parser of type [pt] with minimum [min] *)
Definition truthful (min : nat) (pt : option N) (l : bytes) (e : perr) : Prop :=
  (* accuracy *)
  match e with
  | UnsupportedVersion v => exists b r, l = b :: r /\ v = (b / 64)%N /\ v <> 2%N
  | PacketTypeMismatch a rq => exists x r, l = x :: a :: r /\ a <> rq /\ pt = Some rq
  | Truncated ex ac => ex > ac
  | TooLarge ex ac => ex < ac
  | _ => True
  end /\
  (* exactness for short inputs *)
  (length l < min -> e = Truncated min (length l)) /\
  (* exactness for a disagreeing length field *)
  (forall a b c d r, l = a :: b :: c :: d :: r -> min <= length l -> (a / 64 = 2)%N ->
     (match pt with Some t => b = t | None => True end) -> hdr_len c d <> length l ->
     e = (if length l <? hdr_len c d then Truncated (hdr_len c d) (length l)
          else TooLarge (hdr_len c d) (length l))).

Lemma check_packet_truthful min pt p e :
  4 <= min -> check_packet min pt p = Err e -> truthful min (Some pt) p e.
Proof.
  intros Hmin H. pose proof (check_packet_spec min pt p Hmin) as Hs.
  unfold truthful. revert H.
  destruct Hs as [Hl| a b c d r Hp Hl Hv| a b c d r Hp Hl Hv Ht| a b c d r Hp Hl Hv Ht Hlen
                  | a b c d r Hp Hl Hv Ht Hlen| a b c d r Hp Hl Hv Ht Hlen Hpb Hz
                  | a b c d r Hp Hl Hv Ht Hlen Hpb Hz Hbig| |]; intros Hx; try discriminate; injection Hx as <-.
  - split; [lia|]. split; [auto|]. intros; exfalso; lia.
  - split; [exists a, (b :: c :: d :: r); auto|]. split; [intros; exfalso; lia|].
    intros a' b' c' d' r' Hp' _ Hv'. rewrite Hp in Hp'. injection Hp' as <- <- <- <- <-. congruence.
  - split; [exists a, (c :: d :: r); auto|]. split; [intros; exfalso; lia|].
    intros a' b' c' d' r' Hp' _ _ Hb'. rewrite Hp in Hp'. injection Hp' as <- <- <- <- <-. congruence.
  - split; [lia|]. split; [intros; exfalso; lia|].
    intros a' b' c' d' r' Hp' _ _ _ _. rewrite Hp in Hp'. injection Hp' as <- <- <- <- <-.
    destruct (Nat.ltb_spec (length p) (hdr_len c d)); [reflexivity|lia].
  - split; [lia|]. split; [intros; exfalso; lia|].
    intros a' b' c' d' r' Hp' _ _ _ _. rewrite Hp in Hp'. injection Hp' as <- <- <- <- <-.
    destruct (Nat.ltb_spec (length p) (hdr_len c d)); [lia|reflexivity].
  - split; [exact I|]. split; [intros; exfalso; lia|].
    intros a' b' c' d' r' Hp' _ _ _ Hne. rewrite Hp in Hp'. injection Hp' as <- <- <- <- <-. lia.
  - split; [lia|]. split; [intros; exfalso; lia|].
    intros a' b' c' d' r' Hp' _ _ _ Hne. rewrite Hp in Hp'. injection Hp' as <- <- <- <- <-. lia.
Qed.

(* an error raised after check_packet succeeded *)
Lemma body_err_truthful min pt l e :
  4 <= min -> check_packet min pt l = Ok tt -> body_err_ok e -> truthful min (Some pt) l e.
Proof.
  intros Hmin Hc He. apply check_packet_iff in Hc; [|exact Hmin].
  apply well_framed_conditions in Hc. destruct Hc as [a [b [c [d [r [Hp [Hl [Hv [Ht [Hlen _]]]]]]]]]].
  unfold truthful. split; [destruct e; cbn in He; try tauto; exact I|]. split; [intros; exfalso; lia|].
  intros a' b' c' d' r' Hp' _ _ _ Hne. rewrite Hp in Hp'. injection Hp' as <- <- <- <- <-.
  unfold hdr_len in Hne. lia.
Qed.

Lemma typed_parse_check v l :
  v <> VUnknown ->
  (exists e, check_packet (variant_min v) (variant_pt v) l = Err e /\ typed_parse v l = Err e) \/
  (check_packet (variant_min v) (variant_pt v) l = Ok tt /\ res_errs body_err_ok (typed_parse v l)) \/
  (check_packet (variant_min v) (variant_pt v) l = Panic) \/ (check_packet (variant_min v) (variant_pt v) l = Fuel).
Proof.
  intros Hv. destruct (check_packet (variant_min v) (variant_pt v) l) as [[]|e| |] eqn:Hc; auto.
  - right. left. split; [reflexivity|].
    destruct v; try congruence; cbn [typed_parse variant_min variant_pt] in *.
    + unfold app_parse, APP_MIN. rewrite Hc. exact I.
    + unfold bye_parse, BYE_MIN. rewrite Hc. cbn [bind]. repeat errs_step.
    + unfold rr_parse, RR_MIN. rewrite Hc. cbn [bind]. repeat errs_step.
    + unfold sdes_parse, SDES_MIN. rewrite Hc. cbn [bind]. repeat errs_step. apply chunks_loop_errs.
    + unfold sr_parse, SR_MIN. rewrite Hc. cbn [bind]. repeat errs_step.
    + unfold fb_parse, FB_MIN, fb_pt. rewrite Hc. exact I.
    + unfold fb_parse, FB_MIN, fb_pt. rewrite Hc. exact I.
  - left. exists e. split; [reflexivity|].
    destruct v; try congruence; cbn [typed_parse variant_min variant_pt] in *;
      unfold app_parse, bye_parse, rr_parse, sdes_parse, sr_parse, fb_parse, fb_pt,
             APP_MIN, BYE_MIN, RR_MIN, SDES_MIN, SR_MIN, FB_MIN; rewrite Hc; reflexivity.
Qed.

Theorem typed_errors_truthful v l e :
  v <> VUnknown -> typed_parse v l = Err e -> truthful (variant_min v) (Some (variant_pt v)) l e.
Proof.
  intros Hv H. destruct (typed_parse_check v l Hv) as [[e' [Hc Ht]]|[[Hc Hb]|[Hc|Hc]]].
  - rewrite H in Ht. injection Ht as <-. apply check_packet_truthful; [apply variant_min_ge4|exact Hc].
  - rewrite H in Hb. cbn in Hb. apply body_err_truthful; [apply variant_min_ge4|exact Hc|exact Hb].
  - pose proof (check_packet_total (variant_min v) (variant_pt v) l (variant_min_ge4 v)) as [T|[x T]]; congruence.
  - pose proof (check_packet_total (variant_min v) (variant_pt v) l (variant_min_ge4 v)) as [T|[x T]]; congruence.
Qed.

Theorem unknown_errors_truthful l e :
  unknown_parse l = Err e -> truthful 4 None l e.
Proof.
  unfold unknown_parse, UNK_MIN, truthful. intros H.
  destruct (Nat.ltb_spec (length l) 4) as [Hs|Hs].
  - injection H as <-. cbn [length] in *. split; [lia|]. split; [auto|]. intros; exfalso; lia.
  - destruct l as [|a [|b [|c [|d r]]]]; cbn [length] in Hs; try lia.
    rewrite parse_version_cons in H. cbn [bind] in H. unfold VERSION in H.
    destruct (N.eqb_spec (a / 64) 2) as [Hv|Hv]; cbn [negb] in H.
    + rewrite parse_length_cons in H. cbn [bind] in H. fold (hdr_len c d) in H.
      destruct (Nat.ltb_spec (length (a :: b :: c :: d :: r)) (hdr_len c d)) as [H1|H1].
      * injection H as <-. cbn [length] in *. split; [lia|]. split; [intros; exfalso; lia|].
        intros a' b' c' d' r' [= <- <- <- <- <-] _ _ _ _.
        destruct (Nat.ltb_spec (S (S (S (S (length r))))) (hdr_len c d)); [reflexivity|lia].
      * destruct (Nat.ltb_spec (hdr_len c d) (length (a :: b :: c :: d :: r))) as [H2|H2]; [|discriminate].
        injection H as <-. cbn [length] in *. split; [lia|]. split; [intros; exfalso; lia|].
        intros a' b' c' d' r' [= <- <- <- <- <-] _ _ _ _.
        destruct (Nat.ltb_spec (S (S (S (S (length r))))) (hdr_len c d)); [lia|reflexivity].
    + injection H as <-. cbn [length] in *. split; [exists a, (b :: c :: d :: r); auto|]. split; [intros; exfalso; lia|].
      intros a' b' c' d' r' [= <- <- <- <- <-] _ Hv'. congruence.
Qed.

(* the generic parser: the error is the typed parser's (for the type the input names) *)
Theorem generic_errors_truthful l e :
  packet_parse l = Err e ->
  (length l < 4 /\ e = Truncated 4 (length l)) \/
  (exists b, nth_error l 1 = Some b /\
     if variant_eqb (variant_of_pt b) VUnknown then truthful 4 None l e
     else truthful (variant_min (variant_of_pt b)) (Some b) l e).
Proof.
  unfold packet_parse. intros H.
  destruct (Nat.ltb_spec (length l) 4) as [Hs|Hs]; [left; split; [exact Hs|congruence]|].
  right. destruct l as [|a [|b r]]; cbn [length] in Hs; try lia.
  rewrite parse_packet_type_cons in H. cbn [bind] in H. exists b. split; [reflexivity|].
  destruct (variant_of_pt b) eqn:Hv; cbn [variant_eqb];
    try (assert (Hne : variant_of_pt b <> VUnknown) by congruence;
         pose proof (variant_of_pt_pt b Hne) as Hptb; rewrite Hv in Hptb;
         match goal with |- truthful (variant_min ?v) _ ?l ?e =>
           assert (Hg : truthful (variant_min v) (Some (variant_pt v)) l e)
             by (apply typed_errors_truthful; [congruence|exact H]);
           rewrite Hptb in Hg; exact Hg
         end).
  cbn [typed_parse] in H. apply unknown_errors_truthful.
  destruct (unknown_parse (a :: b :: r)); cbn [bind] in H; congruence.
Qed.

(* compound parsing: only truncation, and truthfully *)
Lemma compound_check_errs fuel d off : res_errs body_err_ok (compound_check fuel d off).
Proof.
  revert off. induction fuel as [|f IH]; intros off; cbn [compound_check]; [exact I|].
  unfold UNK_MIN. repeat errs_step. apply IH.
Qed.

Lemma compound_check_truncated fuel d off e :
  compound_check fuel d off = Err e -> exists ex ac, e = Truncated ex ac /\ ex > ac.
Proof.
  revert off. unfold UNK_MIN. induction fuel as [|f IH]; intros off; cbn [compound_check]; [discriminate|].
  destruct (off <? length d); [|discriminate].
  destruct (Nat.ltb_spec (length d) (off + UNK_MIN)); [intros [= <-]; eauto|].
  destruct (tail_from d off) as [t|?| |] eqn:Ht; cbn [bind]; try discriminate;
    [|pose proof (errs_tail_from (fun _ => False) d off) as Hf; rewrite Ht in Hf; destruct Hf].
  destruct (parse_length t) as [pl|?| |] eqn:Hpl; cbn [bind]; try discriminate;
    [|pose proof (errs_parse_length (fun _ => False) t) as Hf; rewrite Hpl in Hf; destruct Hf].
  destruct (Nat.ltb_spec (length d) (off + pl)); [intros [= <-]; eauto|]. apply IH.
Qed.

Theorem compound_errors_truthful l e :
  compound_parse l = Err e -> exists ex ac, e = Truncated ex ac /\ ex > ac.
Proof.
  unfold compound_parse. destruct l as [|x l]; [intros [= <-]; exists 4, 0; split; [reflexivity|lia]|].
  intros H. apply bind_err_inv in H. destruct H as [H|[u [_ H]]]; [|discriminate].
  eapply compound_check_truncated; eauto.
Qed.

(* report block and FCI parsers: size complaints only, the right way round, exact for short input *)
Theorem rb_errors_truthful l e :
  rb_parse l = Err e -> body_err_ok e /\ (length l < 24 -> e = Truncated 24 (length l)).
Proof.
  unfold rb_parse, RB_SIZE. intros H.
  destruct (Nat.ltb_spec (length l) 24); [injection H as <-; cbn; split; [lia|auto]|].
  destruct (Nat.ltb_spec 24 (length l)); [injection H as <-; cbn; split; [lia|intros; exfalso; lia]|discriminate].
Qed.

Theorem fci_errors_truthful t l e : fci_parse_raw t l = Err e -> body_err_ok e.
Proof.
  intros H. assert (Hr : res_errs body_err_ok (fci_parse_raw t l)); [|rewrite H in Hr; exact Hr].
  destruct t; cbn [fci_parse_raw]; unfold fir_parse, sli_parse, rpsi_parse, pli_parse, rpsi_padding_bytes;
    repeat errs_step.
Qed.

(* parse_fci::<F>() on an accepted feedback packet: WrongImplementation or a truthful size complaint *)
Theorem parse_fci_errors_truthful k t d e :
  parse_fci k t d = Err e -> e = WrongImplementation \/ body_err_ok e.
Proof.
  unfold parse_fci, fci_slice. intros H.
  destruct (negb (fb_kind_eqb (fci_kind t) k)); [left; congruence|].
  apply bind_err_inv in H. destruct H as [H|[c [_ H]]].
  { pose proof (errs_parse_count (fun _ => False) d) as Hf. rewrite H in Hf. destruct Hf. }
  destruct (negb (c =? fci_format t)%N); [left; congruence|]. right.
  apply bind_err_inv in H. destruct H as [H|[s [_ H]]]; [|eapply fci_errors_truthful; eauto].
  exfalso. apply bind_err_inv in H. destruct H as [H|[pad [_ H]]].
  { pose proof (errs_parse_padding (fun _ => False) d) as Hf. rewrite H in Hf. destruct Hf. }
  apply bind_err_inv in H. destruct H as [H|[x [_ H]]].
  { pose proof (errs_usub (fun _ => False) (length d) (N.to_nat match pad with Some p => p | None => 0%N end)) as Hf.
    rewrite H in Hf. destruct Hf. }
  pose proof (errs_slice (fun _ => False) d 12 x) as Hf. rewrite H in Hf. destruct Hf.
Qed.
