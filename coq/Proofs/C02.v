(* C02: sender/receiver reports survive a build-then-parse round trip. *)
From RtcpV Require Export Proofs.ImageFramed Proofs.WriteReport Proofs.C12.

(* the configuration's values fit their Rust types (u8/u32/u64): true of every builder value *)
Definition rb_wf (b : rb_cfg) : Prop :=
  (rb_c_ssrc b < 4294967296 /\ rb_c_fraction b < 256 /\ rb_c_cumulative b < 16777216 /\
   rb_c_ext_seq b < 4294967296 /\ rb_c_jitter b < 4294967296 /\ rb_c_lsr b < 4294967296 /\
   rb_c_dlsr b < 4294967296)%N.

(* accessors of a report block view over its RFC image *)
Lemma rb_view_image b : rb_wf b -> obs_rb_view (rfc_rb b) = exp_rb b.
Proof.
  intros [H1 [H2 [H3 [H4 [H5 [H6 H7]]]]]].
  unfold obs_rb_view, exp_rb, rb_ssrc, rb_fraction_lost, rb_cumulative_lost, rb_ext_seq, rb_jitter, rb_lsr, rb_dlsr.
  unfold rfc_rb, be32. cbn [app].
  repeat (rewrite slice_ok by (cbn [length]; lia); cbn [skipn firstn Nat.sub bind];
          rewrite be_dec_exact_ok by reflexivity; cbn [bind]).
  cbn [idx nth_error]. rewrite !be_dec_4. cbv [obs_pres obs_res okN okO].
  repeat f_equal; lia.
Qed.

Lemma chunks_exact_concat (bs : list rb_cfg) fuel :
  length bs <= fuel ->
  chunks_exact 24 fuel (concat (map rfc_rb bs)) = map rfc_rb bs.
Proof.
  revert fuel. induction bs as [|b bs IH]; intros fuel Hf.
  - destruct fuel; reflexivity.
  - destruct fuel as [|fuel]; [cbn [length] in Hf; lia|]. cbn [chunks_exact map concat].
    assert (Hrb : length (rfc_rb b) = 24) by reflexivity.
    destruct (Nat.ltb_spec (length (rfc_rb b ++ concat (map rfc_rb bs))) 24) as [Hlt|Hge];
      [rewrite app_length in Hlt; lia|].
    rewrite firstn_app_len by (symmetry; exact Hrb).
    rewrite (skipn_app_len (rfc_rb b) _ 24 0) by lia. cbn [skipn].
    rewrite IH by (cbn [length] in Hf; lia). reflexivity.
Qed.

Definition sr_wf (c : sr_cfg) : Prop :=
  (sr_c_ssrc c < 4294967296 /\ sr_c_padding c < 256 /\ sr_c_ntp c < 18446744073709551616 /\
   sr_c_rtp c < 4294967296 /\ sr_c_pc c < 4294967296 /\ sr_c_oc c < 4294967296)%N /\
  Forall rb_wf (sr_c_blocks c).

Definition sr_body (c : sr_cfg) : bytes :=
  be32 (sr_c_ssrc c) ++ be64 (sr_c_ntp c) ++ be32 (sr_c_rtp c) ++ be32 (sr_c_pc c) ++ be32 (sr_c_oc c) ++
  concat (map rfc_rb (sr_c_blocks c)).

Lemma rfc_sr_image c :
  rfc_sr c = image 200 (sr_c_padding c) (N.of_nat (length (sr_c_blocks c)))
                   (28 + 24 * length (sr_c_blocks c) + N.to_nat (sr_c_padding c)) (sr_body c).
Proof. unfold rfc_sr, image, sr_body. rewrite <- !app_assoc. reflexivity. Qed.

Lemma sr_image_ok c n :
  sr_wf c -> sr_calc c = Ok n ->
  image_ok 28 (sr_c_padding c) (N.of_nat (length (sr_c_blocks c))) n (sr_body c) /\
  n = 28 + 24 * length (sr_c_blocks c) + N.to_nat (sr_c_padding c).
Proof.
  intros [[H1 [H2 _]] _] Hc. apply sr_calc_ok in Hc. destruct Hc as [Hnb [Hp [_ Hn]]].
  split; [|exact Hn]. constructor; try lia.
  unfold sr_body. rewrite !app_length, concat_rb_length, !be32_length, be64_length. lia.
Qed.

Theorem sr_roundtrip c n :
  sr_wf c -> sr_calc c = Ok n ->
  typed_parse VSr (rfc_sr c) = Ok (mk_pkt VSr (rfc_sr c) []) /\
  obs_view (mk_pkt VSr (rfc_sr c) []) = exp_sr c.
Proof.
  intros Hwf Hc. destruct (sr_image_ok c n Hwf Hc) as [Hio Hn].
  destruct Hwf as [[H1 [H2 [H3 [H4 [H5 H6]]]]] Hrbs].
  assert (Hnb : length (sr_c_blocks c) <= 31) by (apply sr_calc_ok in Hc; tauto).
  rewrite rfc_sr_image, <- Hn.
  set (img := image 200 (sr_c_padding c) (N.of_nat (length (sr_c_blocks c))) n (sr_body c)).
  assert (Hcount : parse_count img = Ok (N.of_nat (length (sr_c_blocks c)))) by (eapply image_parse_count; eauto).
  assert (Hlen : length img = n) by (apply image_length; apply (io_len _ _ _ _ _ Hio)).
  split.
  - cbn [typed_parse]. unfold sr_parse, SR_MIN, SR_PT. fold img.
    unfold img at 1. rewrite (image_check_packet 28 200) by exact Hio. cbn [bind]. fold img.
    rewrite Hcount. cbn [bind]. rewrite Hlen.
    destruct (Nat.ltb_spec n (28 + N.to_nat (N.of_nat (length (sr_c_blocks c))) * RB_SIZE)) as [Hlt|Hge];
      [unfold RB_SIZE in Hlt; lia|reflexivity].
  - unfold obs_view, exp_sr. cbn [pk_variant pk_data]. fold img.
    unfold img at 1. rewrite (image_obs_hdr 28) by exact Hio. rewrite <- Hn.
    unfold img at 1. rewrite (image_parse_padding 28) by exact Hio.
    rewrite Hcount.
    (* the body fields *)
    assert (Hbody : img = rfc_header 200 (sr_c_padding c) (N.of_nat (length (sr_c_blocks c))) n ++
                          be32 (sr_c_ssrc c) ++ be64 (sr_c_ntp c) ++ be32 (sr_c_rtp c) ++ be32 (sr_c_pc c) ++
                          be32 (sr_c_oc c) ++ concat (map rfc_rb (sr_c_blocks c)) ++ rfc_trailer (sr_c_padding c)).
    { unfold img, image, sr_body. rewrite <- !app_assoc. reflexivity. }
    remember (rfc_header 200 (sr_c_padding c) (N.of_nat (length (sr_c_blocks c))) n) as hdr eqn:Hhdr.
    assert (Hh : length hdr = 4) by (subst hdr; reflexivity).
    assert (Essrc : parse_ssrc img = Ok (sr_c_ssrc c)).
    { rewrite Hbody. unfold parse_ssrc. rewrite slice_skip by lia. rewrite Hh. cbn [Nat.sub].
      rewrite slice_take by reflexivity. cbn [bind]. rewrite be_dec_exact_ok by reflexivity.
      rewrite be_dec_be32 by exact H1. reflexivity. }
    assert (Entp : sr_ntp img = Ok (sr_c_ntp c)).
    { rewrite Hbody. unfold sr_ntp. rewrite slice_skip by lia. rewrite Hh. cbn [Nat.sub].
      rewrite slice_skip by len. rewrite be32_length. cbn [Nat.sub].
      rewrite slice_take by reflexivity. cbn [bind]. rewrite be_dec_exact_ok by reflexivity.
      rewrite be_dec_be64 by exact H3. reflexivity. }
    assert (Ertp : sr_rtp img = Ok (sr_c_rtp c)).
    { rewrite Hbody. unfold sr_rtp. rewrite slice_skip by lia. rewrite Hh. cbn [Nat.sub].
      rewrite slice_skip by len. rewrite be32_length. cbn [Nat.sub].
      rewrite slice_skip by len. rewrite be64_length. cbn [Nat.sub].
      rewrite slice_take by reflexivity. cbn [bind]. rewrite be_dec_exact_ok by reflexivity.
      rewrite be_dec_be32 by exact H4. reflexivity. }
    assert (Epc : sr_packet_count img = Ok (sr_c_pc c)).
    { rewrite Hbody. unfold sr_packet_count. rewrite slice_skip by lia. rewrite Hh. cbn [Nat.sub].
      rewrite slice_skip by len. rewrite be32_length. cbn [Nat.sub].
      rewrite slice_skip by len. rewrite be64_length. cbn [Nat.sub].
      rewrite slice_skip by len. rewrite be32_length. cbn [Nat.sub].
      rewrite slice_take by reflexivity. cbn [bind]. rewrite be_dec_exact_ok by reflexivity.
      rewrite be_dec_be32 by exact H5. reflexivity. }
    assert (Eoc : sr_octet_count img = Ok (sr_c_oc c)).
    { rewrite Hbody. unfold sr_octet_count. rewrite slice_skip by lia. rewrite Hh. cbn [Nat.sub].
      rewrite slice_skip by len. rewrite be32_length. cbn [Nat.sub].
      rewrite slice_skip by len. rewrite be64_length. cbn [Nat.sub].
      rewrite slice_skip by len. rewrite be32_length. cbn [Nat.sub].
      rewrite slice_skip by len. rewrite be32_length. cbn [Nat.sub].
      rewrite slice_take by reflexivity. cbn [bind]. rewrite be_dec_exact_ok by reflexivity.
      rewrite be_dec_be32 by exact H6. reflexivity. }
    assert (Erbs : obs_rbs SR_MIN img = okO (OL (map exp_rb (sr_c_blocks c)))).
    { unfold obs_rbs, report_blocks, SR_MIN. rewrite Hcount. cbn [bind]. rewrite Nat2N.id.
      rewrite Hbody. rewrite slice_skip by lia. rewrite Hh. cbn [Nat.sub].
      rewrite slice_skip by len. rewrite be32_length. cbn [Nat.sub].
      rewrite slice_skip by len. rewrite be64_length. cbn [Nat.sub].
      rewrite slice_skip by len. rewrite be32_length. cbn [Nat.sub].
      rewrite slice_skip by len. rewrite be32_length. cbn [Nat.sub].
      rewrite slice_skip by len. rewrite be32_length. cbn [Nat.sub].
      rewrite slice_take by (rewrite concat_rb_length; lia). cbn [bind].
      rewrite chunks_exact_concat by (rewrite concat_rb_length; lia).
      cbv [obs_pres obs_res obs_list okO]. rewrite map_map.
      assert (Hm : map (fun x => obs_rb_view (rfc_rb x)) (sr_c_blocks c) = map exp_rb (sr_c_blocks c)).
      { apply map_ext_in. intros b Hb. apply rb_view_image. rewrite Forall_forall in Hrbs. auto. }
      rewrite Hm. reflexivity. }
    rewrite Essrc, Entp, Ertp, Epc, Eoc, Erbs.
    cbv [obs_pres obs_res okPad okO okN obs_optN]. reflexivity.
Qed.

(* ---------------------------------------------------------------- RR *)

Definition rr_wf (c : rr_cfg) : Prop :=
  (rr_c_ssrc c < 4294967296 /\ rr_c_padding c < 256)%N /\ Forall rb_wf (rr_c_blocks c).

Definition rr_body (c : rr_cfg) : bytes := be32 (rr_c_ssrc c) ++ concat (map rfc_rb (rr_c_blocks c)).

Lemma rr_image_ok c n :
  rr_wf c -> rr_calc c = Ok n ->
  image_ok 8 (rr_c_padding c) (N.of_nat (length (rr_c_blocks c))) n (rr_body c) /\
  n = 8 + 24 * length (rr_c_blocks c) + N.to_nat (rr_c_padding c).
Proof.
  intros [[H1 H2] _] Hc. apply rr_calc_ok in Hc. destruct Hc as [Hnb [Hp [_ Hn]]].
  split; [|exact Hn]. constructor; try lia.
  unfold rr_body. rewrite !app_length, concat_rb_length, !be32_length. lia.
Qed.

Theorem rr_roundtrip c n :
  rr_wf c -> rr_calc c = Ok n ->
  typed_parse VRr (rfc_rr c) = Ok (mk_pkt VRr (rfc_rr c) []) /\
  obs_view (mk_pkt VRr (rfc_rr c) []) = exp_rr c.
Proof.
  intros Hwf Hc. destruct (rr_image_ok c n Hwf Hc) as [Hio Hn].
  destruct Hwf as [[H1 H2] Hrbs].
  assert (Hnb : length (rr_c_blocks c) <= 31) by (apply rr_calc_ok in Hc; tauto).
  assert (Himg : rfc_rr c = image 201 (rr_c_padding c) (N.of_nat (length (rr_c_blocks c))) n (rr_body c)).
  { unfold rfc_rr, image, rr_body. rewrite <- Hn, <- !app_assoc. reflexivity. }
  rewrite Himg.
  set (img := image 201 (rr_c_padding c) (N.of_nat (length (rr_c_blocks c))) n (rr_body c)).
  assert (Hcount : parse_count img = Ok (N.of_nat (length (rr_c_blocks c)))) by (eapply image_parse_count; eauto).
  assert (Hlen : length img = n) by (apply image_length; apply (io_len _ _ _ _ _ Hio)).
  split.
  - cbn [typed_parse]. unfold rr_parse, RR_MIN, RR_PT. fold img.
    unfold img at 1. rewrite (image_check_packet 8 201) by exact Hio. cbn [bind]. fold img.
    rewrite Hcount. cbn [bind]. rewrite Hlen.
    destruct (Nat.ltb_spec n (8 + N.to_nat (N.of_nat (length (rr_c_blocks c))) * RB_SIZE)) as [Hlt|Hge];
      [unfold RB_SIZE in Hlt; lia|reflexivity].
  - unfold obs_view, exp_rr. cbn [pk_variant pk_data]. fold img.
    unfold img at 1. rewrite (image_obs_hdr 8) by exact Hio. rewrite <- Hn.
    unfold img at 1. rewrite (image_parse_padding 8) by exact Hio.
    rewrite Hcount.
    assert (Hbody : img = rfc_header 201 (rr_c_padding c) (N.of_nat (length (rr_c_blocks c))) n ++
                          be32 (rr_c_ssrc c) ++ concat (map rfc_rb (rr_c_blocks c)) ++ rfc_trailer (rr_c_padding c)).
    { unfold img, image, rr_body. rewrite <- !app_assoc. reflexivity. }
    remember (rfc_header 201 (rr_c_padding c) (N.of_nat (length (rr_c_blocks c))) n) as hdr eqn:Hhdr.
    assert (Hh : length hdr = 4) by (subst hdr; reflexivity).
    assert (Essrc : parse_ssrc img = Ok (rr_c_ssrc c)).
    { rewrite Hbody. unfold parse_ssrc. rewrite slice_skip by lia. rewrite Hh. cbn [Nat.sub].
      rewrite slice_take by reflexivity. cbn [bind]. rewrite be_dec_exact_ok by reflexivity.
      rewrite be_dec_be32 by exact H1. reflexivity. }
    assert (Erbs : obs_rbs RR_MIN img = okO (OL (map exp_rb (rr_c_blocks c)))).
    { unfold obs_rbs, report_blocks, RR_MIN. rewrite Hcount. cbn [bind]. rewrite Nat2N.id.
      rewrite Hbody. rewrite slice_skip by lia. rewrite Hh. cbn [Nat.sub].
      rewrite slice_skip by len. rewrite be32_length. cbn [Nat.sub].
      rewrite slice_take by (rewrite concat_rb_length; lia). cbn [bind].
      rewrite chunks_exact_concat by (rewrite concat_rb_length; lia).
      cbv [obs_pres obs_res obs_list okO]. rewrite map_map.
      assert (Hm : map (fun x => obs_rb_view (rfc_rb x)) (rr_c_blocks c) = map exp_rb (rr_c_blocks c)).
      { apply map_ext_in. intros b Hb. apply rb_view_image. rewrite Forall_forall in Hrbs. auto. }
      rewrite Hm. reflexivity. }
    rewrite Essrc, Erbs.
    cbv [obs_pres obs_res okPad okO okN obs_optN]. reflexivity.
Qed.

(* ---------------------------------------------------------------- the full statements *)

Theorem sr_build_then_parse c n (buf : bytes) :
  sr_wf c -> m_calc (MSr c) = Ok n -> n <= length buf ->
  m_write_into (MSr c) buf = (Ok n, rfc_sr c ++ skipn n buf) /\
  packet_parse (rfc_sr c) = Ok (mk_pkt VSr (rfc_sr c) []) /\
  obs_view (mk_pkt VSr (rfc_sr c) []) = exp_sr c.
Proof.
  intros Hwf Hc Hn. cbn [m_calc] in Hc. destruct (sr_roundtrip c n Hwf Hc) as [Hp Hv].
  split; [|split; [|exact Hv]].
  - unfold m_write_into. cbn [m_calc m_write_unchecked].
    apply write_into_ok; [exact Hc|exact Hn|]. intros s Hs. apply sr_write_ok; assumption.
  - destruct (generic_is_typed (rfc_sr c)) as [b [Hb Hg]].
    { destruct (sr_image_ok c n Hwf Hc) as [Hio Hn']. rewrite rfc_sr_image, <- Hn'.
      rewrite image_length by (apply (io_len _ _ _ _ _ Hio)). pose proof (io_min _ _ _ _ _ Hio). lia. }
    rewrite Hg. unfold rfc_sr, rfc_header in Hb. cbn [app nth_error] in Hb. injection Hb as <-. exact Hp.
Qed.

Theorem rr_build_then_parse c n (buf : bytes) :
  rr_wf c -> m_calc (MRr c) = Ok n -> n <= length buf ->
  m_write_into (MRr c) buf = (Ok n, rfc_rr c ++ skipn n buf) /\
  packet_parse (rfc_rr c) = Ok (mk_pkt VRr (rfc_rr c) []) /\
  obs_view (mk_pkt VRr (rfc_rr c) []) = exp_rr c.
Proof.
  intros Hwf Hc Hn. cbn [m_calc] in Hc. destruct (rr_roundtrip c n Hwf Hc) as [Hp Hv].
  split; [|split; [|exact Hv]].
  - unfold m_write_into. cbn [m_calc m_write_unchecked].
    apply write_into_ok; [exact Hc|exact Hn|]. intros s Hs. apply rr_write_ok; assumption.
  - destruct (generic_is_typed (rfc_rr c)) as [b [Hb Hg]].
    { destruct (rr_image_ok c n Hwf Hc) as [Hio Hn'].
      assert (Himg : rfc_rr c = image 201 (rr_c_padding c) (N.of_nat (length (rr_c_blocks c))) n (rr_body c)).
      { unfold rfc_rr, image, rr_body. rewrite <- Hn', <- !app_assoc. reflexivity. }
      rewrite Himg. rewrite image_length by (apply (io_len _ _ _ _ _ Hio)). pose proof (io_min _ _ _ _ _ Hio). lia. }
    rewrite Hg. unfold rfc_rr, rfc_header in Hb. cbn [app nth_error] in Hb. injection Hb as <-. exact Hp.
Qed.

(* which configurations the builder accepts: exactly the ones the property quantifies over *)
Theorem sr_accepts_iff c :
  (exists n, sr_calc c = Ok n) <->
  length (sr_c_blocks c) <= 31 /\ (sr_c_padding c mod 4 = 0)%N /\
  Forall (fun b => (rb_c_cumulative b < 16777216)%N) (sr_c_blocks c).
Proof.
  split.
  - intros [n H]. apply sr_calc_ok in H. tauto.
  - intros [Hn [Hp Hf]]. unfold sr_calc.
    destruct (Nat.ltb_spec 31 (length (sr_c_blocks c))); [lia|].
    unfold check_padding. destruct (N.eqb_spec (sr_c_padding c mod 4) 0); [|contradiction]. cbn [negb bind].
    assert (Hr : exists k, rbs_calc (sr_c_blocks c) = Ok k).
    { clear -Hf. induction Hf as [|b bs Hb Hbs IH]; [eexists; reflexivity|]. destruct IH as [k Hk].
      cbn [rbs_calc]. unfold rb_calc. destruct (N.eqb_spec (rb_c_cumulative b / 16777216) 0); [|lia].
      cbn [negb bind]. rewrite Hk. cbn [bind]. eauto. }
    destruct Hr as [k Hk]. rewrite Hk. cbn [bind]. eauto.
Qed.

Example sr_roundtrip_nonvacuous :
  let c := mk_sr 305419896 4 1234605616436508552 7 8 9 [mk_rb 1 2 16777215 4 5 6 7] in
  sr_wf c /\ exists n, sr_calc c = Ok n.
Proof.
  cbv zeta. split.
  - unfold sr_wf, rb_wf. cbn. repeat split; try lia. constructor; [cbn; repeat split; lia|constructor].
  - eexists. vm_compute. reflexivity.
Qed.
