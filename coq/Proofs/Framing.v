(* check_packet accepts exactly the well-framed strings (C08, C18, C19), and never panics (C01). *)
From RtcpV Require Export Proofs.BaseLemmas Model.Utils Spec.Rfc.

Lemma parse_version_cons b r : parse_version (b :: r) = Ok (b / 64)%N.
Proof. reflexivity. Qed.
Lemma parse_count_cons b r : parse_count (b :: r) = Ok (b mod 32)%N.
Proof. reflexivity. Qed.
Lemma parse_padding_bit_cons b r : parse_padding_bit (b :: r) = Ok (negb (((b / 32) mod 2) =? 0)%N).
Proof. reflexivity. Qed.
Lemma parse_packet_type_cons a b r : parse_packet_type (a :: b :: r) = Ok b.
Proof. reflexivity. Qed.
Lemma parse_length_cons a b c d r :
  parse_length (a :: b :: c :: d :: r) = Ok (4 * (N.to_nat (c * 256 + d) + 1)).
Proof.
  unfold parse_length. rewrite slice_ok by (cbn [length]; lia).
  cbn [skipn firstn Nat.sub bind]. rewrite be_dec_exact_ok by reflexivity.
  cbn [bind]. rewrite be_dec_2. reflexivity.
Qed.

Definition hdr_len (c d : N) : nat := 4 * (N.to_nat (c * 256 + d) + 1).

Lemma parse_padding_cons a b c d r :
  length (a :: b :: c :: d :: r) = hdr_len c d ->
  parse_padding (a :: b :: c :: d :: r) =
  Ok (if negb (((a / 32) mod 2) =? 0)%N then Some (last (a :: b :: c :: d :: r) 0%N) else None).
Proof.
  intros Hl. unfold parse_padding. rewrite parse_padding_bit_cons. cbn [bind].
  destruct (negb (((a / 32) mod 2) =? 0)%N); [|reflexivity].
  rewrite parse_length_cons. cbn [bind]. fold (hdr_len c d). rewrite <- Hl.
  unfold idx. rewrite (nth_error_last _ 0%N) by congruence. reflexivity.
Qed.

(* the outcome of check_packet, case by case *)
Inductive cp_spec (min : nat) (pt : N) (p : bytes) : pres unit -> Prop :=
| cp_short : length p < min -> cp_spec min pt p (Err (Truncated min (length p)))
| cp_version a b c d r : p = a :: b :: c :: d :: r -> min <= length p -> (a / 64 <> 2)%N ->
    cp_spec min pt p (Err (UnsupportedVersion (a / 64)))
| cp_type a b c d r : p = a :: b :: c :: d :: r -> min <= length p -> (a / 64 = 2)%N -> b <> pt ->
    cp_spec min pt p (Err (PacketTypeMismatch b pt))
| cp_trunc a b c d r : p = a :: b :: c :: d :: r -> min <= length p -> (a / 64 = 2)%N -> b = pt ->
    length p < hdr_len c d -> cp_spec min pt p (Err (Truncated (hdr_len c d) (length p)))
| cp_large a b c d r : p = a :: b :: c :: d :: r -> min <= length p -> (a / 64 = 2)%N -> b = pt ->
    hdr_len c d < length p -> cp_spec min pt p (Err (TooLarge (hdr_len c d) (length p)))
| cp_pad0 a b c d r : p = a :: b :: c :: d :: r -> min <= length p -> (a / 64 = 2)%N -> b = pt ->
    hdr_len c d = length p -> ((a / 32) mod 2 <> 0)%N -> last p 0%N = 0%N ->
    cp_spec min pt p (Err InvalidPaddingP)
| cp_padbig a b c d r : p = a :: b :: c :: d :: r -> min <= length p -> (a / 64 = 2)%N -> b = pt ->
    hdr_len c d = length p -> ((a / 32) mod 2 <> 0)%N -> last p 0%N <> 0%N ->
    length p < min + N.to_nat (last p 0%N) ->
    cp_spec min pt p (Err (Truncated (min + N.to_nat (last p 0%N)) (length p)))
| cp_ok_pad a b c d r : p = a :: b :: c :: d :: r -> min <= length p -> (a / 64 = 2)%N -> b = pt ->
    hdr_len c d = length p -> ((a / 32) mod 2 <> 0)%N -> last p 0%N <> 0%N ->
    min + N.to_nat (last p 0%N) <= length p -> cp_spec min pt p (Ok tt)
| cp_ok_nopad a b c d r : p = a :: b :: c :: d :: r -> min <= length p -> (a / 64 = 2)%N -> b = pt ->
    hdr_len c d = length p -> ((a / 32) mod 2 = 0)%N -> cp_spec min pt p (Ok tt).

Lemma check_packet_spec min pt p : 4 <= min -> cp_spec min pt p (check_packet min pt p).
Proof.
  intros Hmin. unfold check_packet.
  destruct (Nat.ltb_spec (length p) min) as [Hs|Hs]; [now constructor|].
  destruct p as [|a [|b [|c [|d r]]]]; cbn [length] in Hs; try lia.
  remember (a :: b :: c :: d :: r) as p eqn:Hp.
  assert (Hs' : min <= length p) by (subst p; cbn [length]; lia).
  assert (E1 : parse_version p = Ok (a / 64)%N) by (subst p; apply parse_version_cons).
  assert (E2 : parse_packet_type p = Ok b) by (subst p; apply parse_packet_type_cons).
  assert (E3 : parse_length p = Ok (hdr_len c d)) by (subst p; apply parse_length_cons).
  rewrite E1. cbn [bind]. unfold VERSION.
  destruct (N.eqb_spec (a / 64) 2) as [Hv|Hv]; cbn [negb]; [|eapply cp_version; eauto].
  rewrite E2. cbn [bind].
  destruct (N.eqb_spec b pt) as [Ht|Ht]; cbn [negb]; [|eapply cp_type; eauto].
  rewrite E3. cbn [bind].
  destruct (Nat.ltb_spec (length p) (hdr_len c d)) as [Hl|Hl]; [eapply cp_trunc; eauto|].
  destruct (Nat.ltb_spec (hdr_len c d) (length p)) as [Hl2|Hl2]; [eapply cp_large; eauto|].
  assert (Hlen : length p = hdr_len c d) by lia.
  assert (E4 : parse_padding p = Ok (if negb (((a / 32) mod 2) =? 0)%N then Some (last p 0%N) else None))
    by (subst p; apply parse_padding_cons; exact Hlen).
  rewrite E4. cbn [bind].
  destruct (N.eqb_spec ((a / 32) mod 2) 0) as [Hpb|Hpb]; cbn [negb].
  - eapply cp_ok_nopad; eauto.
  - destruct (N.eqb_spec (last p 0%N) 0) as [Hz|Hz]; [eapply cp_pad0; eauto|].
    destruct (Nat.ltb_spec (length p) (min + N.to_nat (last p 0%N))) as [Hb|Hb].
    + eapply cp_padbig; eauto.
    + eapply cp_ok_pad; eauto.
Qed.

Lemma well_framed_cons min pt a b c d r :
  well_framed min pt (a :: b :: c :: d :: r) =
  let l := a :: b :: c :: d :: r in
  (min <=? length l) && (a / 64 =? 2)%N && (b =? pt)%N && (length l =? hdr_len c d) &&
  (if ((a / 32) mod 2 =? 1)%N
   then let p := N.to_nat (last l 0%N) in (0 <? p) && (min + p <=? length l) else true).
Proof. reflexivity. Qed.

Theorem check_packet_iff min pt p :
  4 <= min -> (check_packet min pt p = Ok tt <-> well_framed min pt p = true).
Proof.
  intros Hmin. pose proof (check_packet_spec min pt p Hmin) as Hs.
  assert (Hmod : forall a : N, ((a / 32) mod 2 = 0 \/ (a / 32) mod 2 = 1)%N) by (intros; lia).
  inversion Hs as [Hl Hr| a b c d r Hp Hl Hv Hr| a b c d r Hp Hl Hv Ht Hr| a b c d r Hp Hl Hv Ht Hlen Hr
                  | a b c d r Hp Hl Hv Ht Hlen Hr| a b c d r Hp Hl Hv Ht Hlen Hpb Hz Hr
                  | a b c d r Hp Hl Hv Ht Hlen Hpb Hz Hbig Hr| a b c d r Hp Hl Hv Ht Hlen Hpb Hz Hfit Hr
                  | a b c d r Hp Hl Hv Ht Hlen Hpb Hr];
    try (split; [intros; congruence|]).
  - (* short *) intros Hw. exfalso. destruct p as [|a [|b [|c [|d r]]]]; try discriminate.
    rewrite well_framed_cons in Hw. cbv zeta in Hw. bool_to_prop. lia.
  - intros Hw. exfalso. subst p. rewrite well_framed_cons in Hw. cbv zeta in Hw. bool_to_prop. congruence.
  - intros Hw. exfalso. subst p. rewrite well_framed_cons in Hw. cbv zeta in Hw. bool_to_prop. congruence.
  - intros Hw. exfalso. subst p. rewrite well_framed_cons in Hw. cbv zeta in Hw. bool_to_prop. lia.
  - intros Hw. exfalso. subst p. rewrite well_framed_cons in Hw. cbv zeta in Hw. bool_to_prop. lia.
  - intros Hw. exfalso. subst p. rewrite well_framed_cons in Hw. cbv zeta in Hw. bool_to_prop.
    destruct (Hmod a) as [Hm0|Hm1]; [congruence|]. rewrite Hm1 in *.
    match goal with H : context[(1 =? 1)%N] |- _ => change (1 =? 1)%N with true in H; cbv iota zeta in H end.
    bool_to_prop. lia.
  - intros Hw. exfalso. subst p. rewrite well_framed_cons in Hw. cbv zeta in Hw. bool_to_prop.
    destruct (Hmod a) as [Hm0|Hm1]; [congruence|]. rewrite Hm1 in *.
    match goal with H : context[(1 =? 1)%N] |- _ => change (1 =? 1)%N with true in H; cbv iota zeta in H end.
    bool_to_prop. lia.
  - split; [intros _|reflexivity]. subst p. rewrite well_framed_cons. cbv zeta.
    destruct (Hmod a) as [Hm0|Hm1]; [congruence|]. rewrite Hm1.
    replace (1 =? 1)%N with true by reflexivity.
    repeat (apply andb_true_iff; split);
      try (apply Nat.leb_le; lia); try (apply N.eqb_eq; assumption); try (apply Nat.eqb_eq; lia);
      try (apply Nat.ltb_lt; lia).
  - split; [intros _|reflexivity]. subst p. rewrite well_framed_cons. cbv zeta. rewrite Hpb.
    replace (0 =? 1)%N with false by reflexivity.
    repeat (apply andb_true_iff; split);
      try (apply Nat.leb_le; lia); try (apply N.eqb_eq; assumption); try (apply Nat.eqb_eq; lia);
      reflexivity.
Qed.

(* check_packet never panics and never runs out of fuel *)
Lemma check_packet_total min pt p : 4 <= min ->
  check_packet min pt p = Ok tt \/ exists e, check_packet min pt p = Err e.
Proof.
  intros Hmin. destruct (check_packet_spec min pt p Hmin); eauto.
Qed.
