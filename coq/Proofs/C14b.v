(* C14 / C17: write_into_unchecked of a compound called directly on a buffer LONGER than the compound's size
   (a scratch or MTU-sized buffer).  Every member still gets the exact sub-slice its own size asks for, so the
   bytes are the same concatenation of the members' images, the count returned is the size, and the rest of the
   buffer is untouched.  (For a single packet the statement would be false: a packet writer takes its length
   field from the slice it is handed.) *)
From RtcpV Require Export Proofs.Members.

Theorem compound_unchecked_on_any_buffer ms n (buf : bytes) :
  Forall member_wf ms -> m_calc (MCompound ms) = Ok n -> n <= length buf ->
  m_write_unchecked (MCompound ms) buf = Ok (n, rfc_image (MCompound ms) ++ skipn n buf).
Proof.
  intros Hwf Hc Hfit.
  assert (Hw : Forall writes_image ms).
  { apply Forall_forall. intros m Hm. apply member_writes_image. eapply Forall_forall; eassumption. }
  change (m_calc (MCompound ms)) with (compound_calc ms) in Hc.
  destruct (compound_calc_ok ms n Hc) as [Hoks Hlen]. destruct (Hlen Hw) as [Hn _].
  rewrite compound_write_unfold. cbn [rfc_image].
  pose proof (compound_write_ok ms [] buf 0 Hw Hoks eq_refl ltac:(lia)) as H.
  cbn [app] in H. rewrite H. rewrite <- Hn. reflexivity.
Qed.
