(* Buffer algebra for the writers: every write happens at a cursor [length done] of a buffer
   [done ++ rest]; the result is [done ++ written ++ remaining rest]. *)
From RtcpV Require Export Proofs.BaseLemmas Model.Utils Spec.Rfc.

Section Cursor.
  Context {E : Type}.

  Lemma firstn_app_len {A} (a b : list A) n : n = length a -> firstn n (a ++ b) = a.
  Proof. intros ->. rewrite firstn_app, Nat.sub_diag, firstn_all. cbn. apply app_nil_r. Qed.

  Lemma skipn_app_len {A} (a b : list A) n k : n = length a + k -> skipn n (a ++ b) = skipn k b.
  Proof.
    intros ->. rewrite skipn_app. rewrite skipn_all2 by lia. cbn [app]. f_equal. lia.
  Qed.

  Lemma copy_at (done rest src : bytes) lo hi :
    lo = length done -> hi = lo + length src -> length src <= length rest ->
    @copy_into E (done ++ rest) lo hi src = Ok ((done ++ src) ++ skipn (length src) rest).
  Proof.
    intros Hlo Hhi Hfit. rewrite copy_into_ok by (rewrite ?app_length; lia).
    rewrite firstn_app_len by exact Hlo. rewrite (skipn_app_len done rest hi (length src)) by lia.
    rewrite app_assoc. reflexivity.
  Qed.

  Lemma set_at_cur (done rest : bytes) i v :
    i = length done -> 1 <= length rest ->
    @set_at E (done ++ rest) i v = Ok ((done ++ [v]) ++ skipn 1 rest).
  Proof.
    intros Hi Hfit. rewrite set_at_ok by (rewrite app_length; lia).
    rewrite firstn_app_len by exact Hi. rewrite (skipn_app_len done rest (S i) 1) by lia.
    rewrite <- app_assoc. reflexivity.
  Qed.

  Lemma fill_at (done rest : bytes) lo hi v :
    lo = length done -> lo <= hi -> hi - lo <= length rest ->
    @fill_range E (done ++ rest) lo hi v = Ok ((done ++ repeat v (hi - lo)) ++ skipn (hi - lo) rest).
  Proof.
    intros Hlo Hle Hfit. rewrite fill_range_ok by (rewrite ?app_length; lia).
    rewrite firstn_app_len by exact Hlo. rewrite (skipn_app_len done rest hi (hi - lo)) by lia.
    rewrite app_assoc. reflexivity.
  Qed.

  Lemma fill_if_at (done rest : bytes) lo hi :
    lo = length done -> hi - lo <= length rest ->
    @fill_if E (done ++ rest) lo hi 0%N = Ok ((done ++ zeros (hi - lo)) ++ skipn (hi - lo) rest).
  Proof.
    intros Hlo Hfit. unfold fill_if. destruct (Nat.ltb_spec lo hi) as [Hlt|Hge].
    - rewrite fill_at by lia. reflexivity.
    - replace (hi - lo) with 0 by lia. cbn [zeros repeat skipn]. rewrite app_nil_r. reflexivity.
  Qed.

  Lemma with_tail_at {A} (done rest : bytes) lo (f : bytes -> res E (A * bytes)) :
    lo = length done ->
    with_tail (done ++ rest) lo f = ('(a, s') <- f rest ;; Ok (a, done ++ s')).
  Proof.
    intros Hlo. unfold with_tail. rewrite tail_from_ok by (rewrite app_length; lia). cbn [bind].
    rewrite (skipn_app_len done rest lo 0) by lia. cbn [skipn].
    rewrite firstn_app_len by exact Hlo. reflexivity.
  Qed.

  Lemma with_sub_at {A} (done rest : bytes) lo hi (f : bytes -> res E (A * bytes)) :
    lo = length done -> lo <= hi -> hi - lo <= length rest ->
    with_sub (done ++ rest) lo hi f =
      ('(a, s') <- f (firstn (hi - lo) rest) ;; Ok (a, done ++ s' ++ skipn (hi - lo) rest)).
  Proof.
    intros Hlo Hle Hfit. unfold with_sub. rewrite slice_ok by (rewrite ?app_length; lia). cbn [bind].
    rewrite (skipn_app_len done rest lo 0) by lia. cbn [skipn].
    rewrite firstn_app_len by exact Hlo. rewrite (skipn_app_len done rest hi (hi - lo)) by lia. reflexivity.
  Qed.
End Cursor.

Ltac len :=
  repeat rewrite ?app_length, ?skipn_length, ?firstn_length, ?be16_length, ?be32_length, ?be64_length,
         ?repeat_length, ?zeros_length, ?map_length;
  cbn [length]; lia.

(* [skipn] of everything *)
Lemma skipn_all_nil {A} (l : list A) n : length l <= n -> skipn n l = [].
Proof. apply skipn_all2. Qed.

Lemma lor_disjoint b c : (b = 128 \/ b = 160)%N -> (c < 32)%N -> N.lor b c = (b + c)%N.
Proof.
  intros Hb Hc.
  assert (H : forall k, (k < 32)%nat -> N.lor 128 (N.of_nat k) = (128 + N.of_nat k)%N /\
                                        N.lor 160 (N.of_nat k) = (160 + N.of_nat k)%N).
  { intros k Hk. do 32 (destruct k as [|k]; [vm_compute; split; reflexivity|]). lia. }
  destruct (H (N.to_nat c) ltac:(lia)) as [H1 H2]. rewrite N2Nat.id in *. destruct Hb; subst; assumption.
Qed.

(* ---------------------------------------------------------------- header and trailer *)

Definition hdr_bytes (pt padding count : N) (total : nat) : bytes :=
  [N.lor (if (0 <? padding)%N then 160 else 128)%N count; pt] ++ be16 (N.of_nat (total / 4 - 1) mod 65536).

Lemma be16_mod x : be16 (x mod 65536) = be16 x.
Proof. unfold be16. f_equal; [|f_equal]; lia. Qed.

Lemma write_header_ok pt padding count (buf : bytes) :
  4 <= length buf ->
  write_header_unchecked pt padding count buf = Ok (4, hdr_bytes pt padding count (length buf) ++ skipn 4 buf).
Proof.
  intros H. destruct buf as [|b0 [|b1 [|b2 [|b3 rest]]]]; cbn [length] in H; try lia.
  unfold write_header_unchecked. cbn [bind].
  rewrite set_at_ok by (cbn [length]; lia). cbn [bind firstn skipn app].
  rewrite set_at_ok by (cbn [length]; lia). cbn [bind firstn skipn app].
  rewrite usub_ok by (cbn [length]; lia). cbn [bind].
  rewrite copy_into_ok by len. cbn [bind firstn skipn app].
  unfold hdr_bytes. cbn [length app]. reflexivity.
Qed.

(* UnknownBuilder: the header is written with a placeholder type, then buf[1] = type *)
Lemma set_type_hdr pt ty padding count total (rest : bytes) :
  @set_at werr (hdr_bytes pt padding count total ++ rest) 1 ty = Ok (hdr_bytes ty padding count total ++ rest).
Proof. unfold hdr_bytes. cbn [app]. rewrite set_at_ok by (cbn [length]; lia). reflexivity. Qed.

Lemma hdr_bytes_rfc pt padding count total :
  (count < 32)%N -> hdr_bytes pt padding count total = rfc_header pt padding count total.
Proof.
  intros Hc. unfold hdr_bytes, rfc_header. rewrite be16_mod. f_equal. f_equal.
  destruct (0 <? padding)%N; rewrite lor_disjoint by (auto; lia); lia.
Qed.

Lemma hdr_bytes_length pt padding count total : length (hdr_bytes pt padding count total) = 4.
Proof. reflexivity. Qed.

Lemma rfc_trailer_length padding : length (rfc_trailer padding) = N.to_nat padding.
Proof.
  unfold rfc_trailer. destruct (N.ltb_spec 0 padding); [|cbn; lia].
  rewrite app_length, zeros_length. cbn [length]. lia.
Qed.

Lemma write_padding_ok padding (buf : bytes) :
  N.to_nat padding <= length buf ->
  write_padding_unchecked padding buf =
    Ok (N.to_nat padding, rfc_trailer padding ++ skipn (N.to_nat padding) buf).
Proof.
  intros H. unfold write_padding_unchecked, rfc_trailer.
  destruct (N.ltb_spec 0 padding) as [Hp|Hp].
  - change buf with ([] ++ buf) at 1. rewrite fill_at by (cbn [length]; lia). cbn [bind app].
    rewrite Nat.sub_0_r.
    rewrite set_at_cur by (rewrite ?repeat_length, ?skipn_length; lia). cbn [bind].
    rewrite skipn_skipn. replace (N.to_nat padding - 1 + 1) with (N.to_nat padding) by lia.
    unfold zeros. reflexivity.
  - replace (N.to_nat padding) with 0 by lia. reflexivity.
Qed.

(* the trailer written at the cursor, consuming the rest of an exact-size buffer *)
Lemma trailer_at_end (done rest : bytes) i padding :
  i = length done -> length rest = N.to_nat padding ->
  with_tail (done ++ rest) i (write_padding_unchecked padding) =
    Ok (N.to_nat padding, done ++ rfc_trailer padding).
Proof.
  intros Hi Hr. rewrite with_tail_at by exact Hi. rewrite write_padding_ok by lia. cbn [bind].
  rewrite skipn_all_nil by lia. rewrite app_nil_r. reflexivity.
Qed.

(* ---------------------------------------------------------------- write_into from write_unchecked *)

Lemma write_into_ok calc wu (buf img : bytes) n :
  calc = Ok n -> n <= length buf ->
  (forall s, length s = n -> wu s = Ok (n, img)) ->
  write_into_gen calc wu buf = (Ok n, img ++ skipn n buf).
Proof.
  intros -> Hn Hw. unfold write_into_gen.
  destruct (Nat.ltb_spec (length buf) n); [lia|].
  unfold with_sub. rewrite slice_ok by lia. cbn [bind skipn]. rewrite Nat.sub_0_r.
  rewrite Hw by (rewrite firstn_length; lia). cbn [bind firstn app]. reflexivity.
Qed.

Lemma write_into_small calc wu (buf : bytes) n :
  calc = Ok n -> length buf < n -> write_into_gen calc wu buf = (Err (OutputTooSmall n), buf).
Proof. intros -> Hn. unfold write_into_gen. destruct (Nat.ltb_spec (length buf) n); [reflexivity|lia]. Qed.

Lemma write_into_err calc wu (buf : bytes) e :
  calc = Err e -> write_into_gen calc wu buf = (Err e, buf).
Proof. intros ->. reflexivity. Qed.
