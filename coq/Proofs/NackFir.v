(* The NACK set / word encoder and the FIR map of the model agree with the RFC-level definitions. *)
From RtcpV Require Export Proofs.WriteFb.
From Coq Require Import Sorting.Sorted.

(* ================================================================ FIR *)

Definition keys (m : list (N * N)) : list N := map fst m.

Lemma fir_lookup_snoc a k v k' :
  rfc_fir_lookup (a ++ [(k, v)]) k' = if (k =? k')%N then Some v else rfc_fir_lookup a k'.
Proof. unfold rfc_fir_lookup. rewrite fold_left_app. cbn [fold_left fst snd]. reflexivity. Qed.

Lemma existsb_swap {A} (p : A -> bool) x s r : existsb p ((x :: s) ++ r) = existsb p (s ++ x :: r).
Proof. rewrite !existsb_app. cbn [existsb]. destruct (p x), (existsb p s), (existsb p r); reflexivity. Qed.

Lemma nodup_keys_snoc a : forall seen k v,
  rfc_nodup_keys seen (a ++ [(k, v)]) =
  rfc_nodup_keys seen a ++ (if existsb (N.eqb k) (seen ++ rfc_nodup_keys seen a) then [] else [k]).
Proof.
  induction a as [|[k0 v0] a IH]; intros seen k v; cbn [app rfc_nodup_keys].
  - rewrite app_nil_r. destruct (existsb (N.eqb k) seen); reflexivity.
  - destruct (existsb (N.eqb k0) seen) eqn:E0.
    + apply IH.
    + rewrite IH, existsb_swap. reflexivity.
Qed.

Lemma nodup_keys_fresh a : forall seen k, In k (rfc_nodup_keys seen a) -> existsb (N.eqb k) seen = false.
Proof.
  induction a as [|[k0 v0] a IH]; intros seen k; cbn [rfc_nodup_keys]; [contradiction|].
  destruct (existsb (N.eqb k0) seen) eqn:E0; [apply IH|].
  intros [<-|Hin]; [exact E0|]. apply IH in Hin. cbn [existsb] in Hin. apply orb_false_iff in Hin. tauto.
Qed.

Lemma nodup_keys_NoDup a : forall seen, NoDup (rfc_nodup_keys seen a).
Proof.
  induction a as [|[k0 v0] a IH]; intros seen; cbn [rfc_nodup_keys]; [constructor|].
  destruct (existsb (N.eqb k0) seen); [apply IH|]. constructor; [|apply IH].
  intros Hin. apply nodup_keys_fresh in Hin. cbn [existsb] in Hin. rewrite N.eqb_refl in Hin. discriminate.
Qed.

(* fir_put on a key-unique list built from a key list *)
Lemma fir_put_map (f : N -> N) ks k v :
  NoDup ks ->
  fir_put k v (map (fun k' => (k', f k')) ks) =
  map (fun k' => (k', if (k =? k')%N then v else f k')) ks ++ (if existsb (N.eqb k) ks then [] else [(k, v)]).
Proof.
  induction 1 as [|k0 ks Hnin Hnd IH]; cbn [map fir_put existsb app]; [reflexivity|].
  destruct (N.eqb_spec k k0) as [->|Hne]; cbn [orb app].
  - f_equal. rewrite app_nil_r. apply map_ext_in. intros k' Hin.
    destruct (N.eqb_spec k0 k') as [->|]; [contradiction|reflexivity].
  - rewrite IH. reflexivity.
Qed.

Lemma fir_map_snoc a k v : fir_map (a ++ [(k, v)]) = fir_put k v (fir_map a).
Proof. unfold fir_map. rewrite fold_left_app. reflexivity. Qed.

Theorem fir_map_rfc adds : fir_map adds = rfc_fir_map adds.
Proof.
  induction adds as [|[k v] a IH] using rev_ind; [reflexivity|].
  rewrite fir_map_snoc, IH. unfold rfc_fir_map.
  rewrite (fir_put_map (fun k' => match rfc_fir_lookup a k' with Some x => x | None => 0%N end))
    by apply nodup_keys_NoDup.
  rewrite nodup_keys_snoc. cbn [app]. rewrite map_app. f_equal.
  - apply map_ext. intros k'. rewrite fir_lookup_snoc. destruct (k =? k')%N; reflexivity.
  - destruct (existsb (N.eqb k) (rfc_nodup_keys [] a)); [reflexivity|].
    cbn [map]. rewrite fir_lookup_snoc, N.eqb_refl. reflexivity.
Qed.

(* the declarative content of the map: unique keys, last value wins, same key set *)
Theorem rfc_fir_map_spec adds :
  NoDup (keys (rfc_fir_map adds)) /\
  (forall k v, In (k, v) (rfc_fir_map adds) <-> rfc_fir_lookup adds k = Some v).
Proof.
  unfold rfc_fir_map, keys. rewrite map_map. cbn [fst]. rewrite map_id. split; [apply nodup_keys_NoDup|].
  intros k v. rewrite in_map_iff. split.
  - intros [k' [[= <- <-] Hin]].
    (* a key that was kept has been added, hence has a value *)
    assert (Hsome : forall a seen k', In k' (rfc_nodup_keys seen a) -> exists x, rfc_fir_lookup a k' = Some x).
    { clear. induction a as [|[k0 v0] a IH] using rev_ind; intros seen k' Hin; [contradiction|].
      rewrite nodup_keys_snoc in Hin. rewrite fir_lookup_snoc. apply in_app_or in Hin.
      destruct (N.eqb_spec k0 k'); [eauto|]. destruct Hin as [Hin|Hin]; [eapply IH; eauto|].
      destruct (existsb _ _); [contradiction|]. destruct Hin as [->|[]]. congruence. }
    destruct (Hsome adds [] k' Hin) as [x Hx]. rewrite Hx. reflexivity.
  - intros Hl. exists k. rewrite Hl. split; [reflexivity|].
    (* a key with a value has been added, hence is kept *)
    assert (Hkept : forall a seen, rfc_fir_lookup a k <> None -> existsb (N.eqb k) seen = false ->
                                   In k (rfc_nodup_keys seen a)).
    { clear. induction a as [|[k0 v0] a IH] using rev_ind; intros seen Hl Hs; [cbn in Hl; congruence|].
      rewrite nodup_keys_snoc. rewrite fir_lookup_snoc in Hl. apply in_or_app.
      destruct (In_dec N.eq_dec k (rfc_nodup_keys seen a)) as [Hin|Hnin]; [now left|]. right.
      destruct (N.eqb_spec k0 k) as [->|Hne].
      - rewrite existsb_app, Hs. cbn [orb].
        destruct (existsb (N.eqb k) (rfc_nodup_keys seen a)) eqn:E; [|now left].
        apply existsb_exists in E. destruct E as [y [Hy Hey]]. apply N.eqb_eq in Hey. subst y. contradiction.
      - exfalso. apply Hnin. apply IH; assumption. }
    apply Hkept; [congruence|reflexivity].
Qed.

(* ================================================================ NACK: the set *)

(* strictly ascending *)
Fixpoint asc (l : list N) : Prop :=
  match l with
  | [] => True
  | x :: r => match r with [] => True | y :: _ => (x < y)%N end /\ asc r
  end.

Lemma set_insert_eq x l : set_insert x l = insert_sorted x l.
Proof. induction l as [|y r IH]; [reflexivity|]. cbn [set_insert insert_sorted]. rewrite IH. reflexivity. Qed.

Lemma insert_in x l y : In y (insert_sorted x l) <-> y = x \/ In y l.
Proof.
  induction l as [|z r IH]; cbn [insert_sorted In]; [intuition|].
  destruct (N.ltb_spec x z); [cbn [In]; intuition|].
  destruct (N.eqb_spec x z); [subst; cbn [In]; intuition|].
  cbn [In]. rewrite IH. intuition.
Qed.

Lemma insert_asc x l : asc l -> asc (insert_sorted x l).
Proof.
  induction l as [|z r IH]; cbn [insert_sorted]; [cbn; auto|]. intros [Hz Hr].
  destruct (N.ltb_spec x z); [cbn [asc]; auto|].
  destruct (N.eqb_spec x z); [cbn [asc]; auto|].
  cbn [asc]. split; [|auto].
  specialize (IH Hr). destruct r as [|w r']; cbn [insert_sorted] in *; [lia|].
  destruct (N.ltb_spec x w); [lia|]. destruct (N.eqb_spec x w); [lia|]. lia.
Qed.

Lemma asc_head_lt x r : asc (x :: r) -> forall y, In y r -> (x < y)%N.
Proof.
  revert x. induction r as [|z r IH]; intros x H y Hy; [contradiction|].
  cbn [asc] in H. destruct H as [Hxz Hr]. destruct Hy as [<-|Hy]; [exact Hxz|].
  specialize (IH z Hr y Hy). lia.
Qed.

(* an ascending list is determined by its elements *)
Lemma asc_unique l1 : forall l2, asc l1 -> asc l2 -> (forall x, In x l1 <-> In x l2) -> l1 = l2.
Proof.
  induction l1 as [|x r1 IH]; intros l2 H1 H2 Hin.
  - destruct l2 as [|y r2]; [reflexivity|]. exfalso. apply (Hin y). now left.
  - destruct l2 as [|y r2]; [exfalso; apply (Hin x); now left|].
    assert (x = y).
    { pose proof (asc_head_lt _ _ H1) as L1. pose proof (asc_head_lt _ _ H2) as L2.
      destruct (proj1 (Hin x) (or_introl eq_refl)) as [->|Hx]; [reflexivity|].
      destruct (proj2 (Hin y) (or_introl eq_refl)) as [->|Hy]; [reflexivity|].
      specialize (L1 y Hy). specialize (L2 x Hx). lia. }
    subst y. f_equal. apply IH; [apply H1|apply H2|].
    intros z. pose proof (asc_head_lt _ _ H1) as L1. pose proof (asc_head_lt _ _ H2) as L2. split; intros Hz.
    + destruct (proj1 (Hin z) (or_intror Hz)) as [->|]; [specialize (L1 z Hz); lia|assumption].
    + destruct (proj2 (Hin z) (or_intror Hz)) as [->|]; [specialize (L2 z Hz); lia|assumption].
Qed.

Lemma nack_set_spec adds : asc (nack_set adds) /\ (forall x, In x (nack_set adds) <-> In x adds).
Proof.
  unfold nack_set. rewrite <- fold_left_rev_right. 
  assert (H : forall l, asc (fold_right (fun y s => set_insert y s) [] l) /\
                        (forall x, In x (fold_right (fun y s => set_insert y s) [] l) <-> In x l)).
  { induction l as [|a l [IHa IHi]]; cbn [fold_right]; [cbn; intuition|].
    rewrite set_insert_eq. split; [apply insert_asc; exact IHa|].
    intros x. rewrite insert_in, IHi. cbn [In]. intuition. }
  destruct (H (rev adds)) as [Ha Hi]. split; [exact Ha|]. intros x. rewrite Hi. symmetry. apply in_rev.
Qed.

Lemma rfc_set_spec adds : asc (rfc_set adds) /\ (forall x, In x (rfc_set adds) <-> In x adds).
Proof.
  unfold rfc_set. induction adds as [|a l [IHa IHi]]; cbn [fold_right]; [cbn; intuition|].
  split; [apply insert_asc; exact IHa|]. intros x. rewrite insert_in, IHi. cbn [In]. intuition.
Qed.

Theorem nack_set_rfc adds : nack_set adds = rfc_set adds.
Proof.
  destruct (nack_set_spec adds) as [A1 I1]. destruct (rfc_set_spec adds) as [A2 I2].
  apply asc_unique; [exact A1|exact A2|]. intros x. rewrite I1, I2. reflexivity.
Qed.

(* ================================================================ NACK: the words *)

Lemma lor_pow2_disjoint mask k : (mask < 2 ^ k)%N -> N.lor mask (2 ^ k) = (mask + 2 ^ k)%N.
Proof.
  intros H.
  assert (Hland : N.land mask (2 ^ k) = 0%N).
  { apply N.bits_inj. intros n. rewrite N.land_spec, N.bits_0, N.pow2_bits_eqb.
    destruct (N.eqb_spec k n) as [<-|]; [|apply andb_false_r].
    rewrite andb_true_r. destruct (N.eq_dec mask 0) as [->|Hnz]; [apply N.bits_0|].
    apply N.bits_above_log2. apply N.log2_lt_pow2; lia. }
  rewrite <- N.lxor_lor by exact Hland. symmetry. apply N.add_nocarry_lxor. exact Hland.
Qed.

(* the model's running word (base b, mask so far) over the remaining ascending numbers *)
Lemma nack_words_take b : forall l mask,
  asc (b :: l) -> (forall x, In x l -> (x < 65536)%N) ->
  (match l with [] => True | e :: _ => (mask < 2 ^ (e - b - 1))%N end) ->
  nack_words (Some b) mask l =
  let '(blp, rest) := nack_take b l in
  (b, (mask + blp)%N) :: match rest with [] => [] | p :: r => nack_words (Some p) 0%N r end.
Proof.
  induction l as [|e r IH]; intros mask Hasc Hlt Hmask.
  - cbn [nack_words nack_take]. rewrite N.add_0_r. reflexivity.
  - cbn [nack_words nack_take].
    assert (Hbe : (b < e)%N) by (apply (asc_head_lt _ _ Hasc); now left).
    assert (He : (e < 65536)%N) by (apply Hlt; now left).
    replace ((e + 65536 - b) mod 65536)%N with (e - b)%N by lia.
    destruct (N.ltb_spec 16 (e - b)) as [Hfar|Hnear].
    + destruct (N.leb_spec e (b + 16)); [lia|]. rewrite N.add_0_r. reflexivity.
    + destruct (N.leb_spec e (b + 16)); [|lia].
      destruct (N.ltb_spec 0 (e - b)); [|lia].
      rewrite lor_pow2_disjoint by exact Hmask.
      assert (Hasc' : asc (b :: r)).
      { cbn [asc] in *. destruct Hasc as [_ [Her Hr]]. destruct r as [|w r']; [cbn; auto|]. split; [lia|exact Hr]. }
      rewrite IH; [| exact Hasc' | intros x Hx; apply Hlt; now right |].
      * destruct (nack_take b r) as [blp rest]. f_equal. f_equal. lia.
      * destruct r as [|w r']; [exact I|]. cbn [asc] in Hasc. destruct Hasc as [_ [Hew _]].
        assert (2 ^ (e - b - 1) < 2 ^ (w - b - 1))%N by (apply N.pow_lt_mono_r; lia).
        assert (2 ^ (w - b - 1) = 2 * 2 ^ (w - b - 1 - 1))%N
          by (rewrite <- N.pow_succ_r'; f_equal; lia).
        assert (2 ^ (e - b - 1) <= 2 ^ (w - b - 1 - 1))%N by (apply N.pow_le_mono_r; lia).
        lia.
Qed.

Lemma nack_take_rest b l : length (snd (nack_take b l)) <= length l.
Proof.
  induction l as [|x r IH]; cbn [nack_take]; [cbn; lia|].
  destruct (x <=? b + 16)%N; [|cbn; lia]. destruct (nack_take b r) as [blp rest]. cbn [snd length] in *. lia.
Qed.

Lemma nack_take_asc b l : asc (b :: l) -> asc (snd (nack_take b l)) /\ (forall x, In x (snd (nack_take b l)) -> In x l).
Proof.
  induction l as [|x r IH]; intros Hasc; cbn [nack_take]; [cbn; auto|].
  destruct (x <=? b + 16)%N.
  - assert (Hasc' : asc (b :: r)).
    { cbn [asc] in *. destruct Hasc as [Hbx [Hxr Hr]]. destruct r as [|w r']; [cbn; auto|]. split; [lia|exact Hr]. }
    destruct (IH Hasc') as [Ha Hi]. destruct (nack_take b r) as [blp rest]. cbn [snd] in *.
    split; [exact Ha|]. intros y Hy. right. auto.
  - cbn [snd]. split; [apply Hasc|auto].
Qed.

Theorem nack_words_rfc l : forall fuel,
  length l <= fuel -> asc l -> (forall x, In x l -> (x < 65536)%N) ->
  nack_words None 0%N l = rfc_nack_words fuel l.
Proof.
  intros fuel. revert l. induction fuel as [|f IH]; intros l Hf Hasc Hlt.
  - destruct l; [reflexivity|cbn [length] in Hf; lia].
  - destruct l as [|p r]; [reflexivity|]. cbn [nack_words rfc_nack_words].
    rewrite nack_words_take; [| exact Hasc | intros x Hx; apply Hlt; now right |].
    + pose proof (nack_take_rest p r) as Hr. destruct (nack_take_asc p r Hasc) as [Ha Hi].
      destruct (nack_take p r) as [blp rest]. cbn [snd] in *. rewrite N.add_0_l. f_equal.
      destruct rest as [|q r']; [destruct f; reflexivity|].
      assert (E : nack_words None 0%N (q :: r') = nack_words (Some q) 0%N r') by reflexivity.
      rewrite <- E. apply IH; [cbn [length] in *; lia|exact Ha|].
      intros x Hx. apply Hlt. right. apply Hi. exact Hx.
    + destruct r as [|e r']; [exact I|].
      assert (2 ^ (e - p - 1) <> 0)%N by (apply N.pow_nonzero; lia). lia.
Qed.
