(* Decoding the greedy NACK words gives back the ascending list they were built from. *)
From RtcpV Require Export Proofs.NackDecode.

(* the bitmask of an ascending list of numbers in (pid + k - 1, pid + 16], as nack_take builds it *)
Fixpoint mask_of (pid : N) (l : list N) : N :=
  match l with [] => 0%N | x :: r => (2 ^ (x - pid - 1) + mask_of pid r)%N end.

Lemma nack_take_split pid l :
  asc (pid :: l) ->
  exists taken, l = taken ++ snd (nack_take pid l) /\ fst (nack_take pid l) = mask_of pid taken /\
                (forall x, In x taken -> (pid < x <= pid + 16)%N) /\ asc taken /\
                (match snd (nack_take pid l) with [] => True | y :: _ => (pid + 16 < y)%N end).
Proof.
  induction l as [|x r IH]; intros Hasc.
  - exists []. cbn. split; [reflexivity|]. split; [reflexivity|]. split; [intros y []|]. split; exact I.
  - cbn [nack_take]. assert (Hpx : (pid < x)%N) by (apply (asc_head_lt _ _ Hasc); now left).
    destruct (N.leb_spec x (pid + 16)) as [Hle|Hgt].
    + assert (Hasc' : asc (pid :: r)).
      { cbn [asc] in *. destruct Hasc as [_ [Hxr Hr]]. destruct r as [|w r']; [cbn; auto|]. split; [lia|exact Hr]. }
      destruct (IH Hasc') as [taken [Hl [Hm [Hin [Hta Hrest]]]]].
      destruct (nack_take pid r) as [blp rest]. cbn [fst snd] in *.
      exists (x :: taken). split; [cbn [app]; f_equal; exact Hl|]. split; [cbn [mask_of]; rewrite Hm; reflexivity|].
      split; [intros y [<-|Hy]; [lia|auto]|]. split; [|exact Hrest].
      cbn [asc]. split; [|exact Hta]. destruct taken as [|t ts]; [exact I|].
      assert (In t r) by (rewrite Hl; now left). pose proof (asc_head_lt x r (proj2 Hasc) t H). exact H0.
    + exists []. cbn [fst snd app mask_of]. split; [reflexivity|]. split; [reflexivity|]. split; [intros y []|]. split; [exact I|lia].
Qed.

(* bit j-1 of the mask of an ascending list whose elements are all >= pid + k *)
Lemma mask_of_shape pid l k :
  1 <= k -> asc l -> (forall x, In x l -> (pid + N.of_nat k <= x <= pid + 16)%N) ->
  exists m, mask_of pid l = ((match l with x :: _ => if (x =? pid + N.of_nat k)%N then 2 ^ N.of_nat (k - 1) else 0 | [] => 0 end)
                            + 2 ^ N.of_nat k * m)%N.
Proof.
  intros Hk. induction l as [|x r IH]; intros Hasc Hin.
  - exists 0%N. cbn. lia.
  - assert (Hx : (pid + N.of_nat k <= x <= pid + 16)%N) by (apply Hin; now left).
    assert (Hr : forall y, In y r -> (pid + N.of_nat k < y <= pid + 16)%N).
    { intros y Hy. pose proof (asc_head_lt x r Hasc y Hy). specialize (Hin y (or_intror Hy)). lia. }
    (* every later element contributes a multiple of 2^k *)
    assert (Hm : exists m, mask_of pid r = (2 ^ N.of_nat k * m)%N).
    { clear IH Hin Hasc Hx. induction r as [|y r IHr]; [exists 0%N; cbn; lia|].
      destruct IHr as [m Hm]; [intros z Hz; apply Hr; now right|].
      specialize (Hr y (or_introl eq_refl)). cbn [mask_of]. rewrite Hm.
      exists (2 ^ (y - pid - 1 - N.of_nat k) + m)%N.
      rewrite N.mul_add_distr_l. f_equal. rewrite <- N.pow_add_r. f_equal. lia. }
    destruct Hm as [m Hm]. cbn [mask_of]. rewrite Hm.
    destruct (N.eqb_spec x (pid + N.of_nat k)) as [->|Hne].
    + exists m. f_equal. f_equal. lia.
    + exists (2 ^ (x - pid - 1 - N.of_nat k) + m)%N. rewrite N.mul_add_distr_l, N.add_0_l. f_equal.
      rewrite <- N.pow_add_r. f_equal. lia.
Qed.

Lemma bit_of_shape low a m k : 1 <= k ->
  (low < 2 ^ N.of_nat (k - 1))%N -> (a = 0 \/ a = 2 ^ N.of_nat (k - 1))%N ->
  bit_set (low + (a + 2 ^ N.of_nat k * m)) k = negb (a =? 0)%N.
Proof.
  intros Hk Hlow Ha. unfold bit_set.
  assert (Hp : (2 ^ N.of_nat k = 2 * 2 ^ N.of_nat (k - 1))%N).
  { rewrite <- N.pow_succ_r'. f_equal. lia. }
  assert (Hnz : (2 ^ N.of_nat (k - 1) <> 0)%N) by (apply N.pow_nonzero; lia).
  rewrite Hp. destruct Ha as [->| ->].
  - replace (low + (0 + 2 * 2 ^ N.of_nat (k - 1) * m))%N with (low + 2 * m * 2 ^ N.of_nat (k - 1))%N by lia.
    rewrite N.div_add by exact Hnz. rewrite (N.div_small low) by exact Hlow.
    replace (0 =? 0)%N with true by reflexivity. cbn [negb]. apply N.eqb_neq. lia.
  - replace (low + (2 ^ N.of_nat (k - 1) + 2 * 2 ^ N.of_nat (k - 1) * m))%N
      with (low + (1 + 2 * m) * 2 ^ N.of_nat (k - 1))%N by lia.
    rewrite N.div_add by exact Hnz. rewrite (N.div_small low) by exact Hlow.
    replace (2 ^ N.of_nat (k - 1) =? 0)%N with false by (symmetry; apply N.eqb_neq; exact Hnz). cbn [negb]. apply N.eqb_eq. lia.
Qed.

Lemma bits_from_mask pid l : forall k low,
  1 <= k <= 17 -> (low < 2 ^ N.of_nat (k - 1))%N -> asc l ->
  (forall x, In x l -> (pid + N.of_nat k <= x <= pid + 16)%N) -> (forall x, In x l -> (x < 65536)%N) ->
  bits_from pid (low + mask_of pid l) k = l.
Proof.
  intros k. remember (17 - k) as d eqn:Hd. revert k Hd l.
  induction d as [|d IH]; intros k Hd l low Hk Hlow Hasc Hin Hlt.
  - assert (k = 17) by lia. subst k. rewrite bits_from_17.
    destruct l as [|x r]; [reflexivity|]. specialize (Hin x (or_introl eq_refl)). lia.
  - rewrite bits_from_step by lia.
    destruct (mask_of_shape pid l k ltac:(lia) Hasc Hin) as [m Hm]. rewrite Hm at 1.
    rewrite bit_of_shape; [|lia|exact Hlow|destruct l as [|x r]; [now left|destruct (x =? pid + N.of_nat k)%N; [now right|now left]]].
    assert (Hpow : (2 ^ N.of_nat (k + 1 - 1) = 2 * 2 ^ N.of_nat (k - 1))%N).
    { rewrite <- N.pow_succ_r'. f_equal. lia. }
    destruct l as [|x r].
    + replace (0 =? 0)%N with true by reflexivity. cbn [negb app].
      apply (IH (k + 1)); try lia; try (rewrite Hpow; lia); try assumption; try (intros y []).
    + destruct (N.eqb_spec x (pid + N.of_nat k)) as [Hx|Hx].
      * replace (2 ^ N.of_nat (k - 1) =? 0)%N with false
          by (symmetry; apply N.eqb_neq; apply N.pow_nonzero; lia). cbn [negb app].
        assert (Hxl : (x < 65536)%N) by (apply Hlt; now left).
        rewrite <- Hx. rewrite N.mod_small by exact Hxl. f_equal.
        cbn [mask_of]. rewrite Hx. replace (pid + N.of_nat k - pid - 1)%N with (N.of_nat (k - 1)) by lia.
        rewrite N.add_assoc. apply (IH (k + 1)); try lia; try exact (proj2 Hasc).
        -- intros y Hy. pose proof (asc_head_lt x r Hasc y Hy). specialize (Hin y (or_intror Hy)). lia.
        -- intros y Hy. apply Hlt. now right.
      * replace (0 =? 0)%N with true by reflexivity. cbn [negb app]. apply (IH (k + 1)); try lia; try assumption.
        intros y Hy. pose proof (Hin x (or_introl eq_refl)) as Hinx. specialize (Hin y Hy). clear Hm Hpow Hlow.
        destruct Hy as [<-|Hy]; [lia|]. pose proof (asc_head_lt x r Hasc y Hy). lia.
Qed.

Lemma mask_of_bound pid l : forall lo,
  asc l -> (forall x, In x l -> (lo < x <= pid + 16)%N) -> (pid <= lo <= pid + 16)%N ->
  (mask_of pid l + 2 ^ (lo - pid) <= 2 ^ 16)%N.
Proof.
  induction l as [|x r IH]; intros lo Hasc Hin Hlo.
  - cbn [mask_of]. rewrite N.add_0_l. apply N.pow_le_mono_r; lia.
  - assert (Hx : (lo < x <= pid + 16)%N) by (apply Hin; now left).
    assert (Hr : (mask_of pid r + 2 ^ (x - pid) <= 2 ^ 16)%N).
    { apply IH; [exact (proj2 Hasc)| |lia]. intros y Hy. pose proof (asc_head_lt x r Hasc y Hy).
      specialize (Hin y (or_intror Hy)). lia. }
    cbn [mask_of].
    assert (H1 : (2 ^ (lo - pid) <= 2 ^ (x - pid - 1))%N) by (apply N.pow_le_mono_r; lia).
    assert (H2 : (2 ^ (x - pid) = 2 * 2 ^ (x - pid - 1))%N) by (rewrite <- N.pow_succ_r'; f_equal; lia).
    lia.
Qed.

(* decoding one greedy word *)
Lemma nack_word_roundtrip pid l :
  asc (pid :: l) -> (pid < 65536)%N -> (forall x, In x l -> (x < 65536)%N) ->
  (fst (nack_take pid l) < 65536)%N /\
  exists taken, l = taken ++ snd (nack_take pid l) /\
                nack_word_seqs (be16 pid ++ be16 (fst (nack_take pid l))) = pid :: taken.
Proof.
  intros Hasc Hp Hlt. destruct (nack_take_split pid l Hasc) as [taken [Hl [Hm [Hin [Hta _]]]]].
  assert (Hb : (mask_of pid taken < 65536)%N).
  { pose proof (mask_of_bound pid taken pid Hta ltac:(intros x Hx; specialize (Hin x Hx); lia) ltac:(lia)) as H.
    rewrite N.sub_diag in H. change (2 ^ 0)%N with 1%N in H. change (2 ^ 16)%N with 65536%N in H. lia. }
  rewrite Hm. split; [exact Hb|]. exists taken. split; [exact Hl|].
  rewrite nack_word_seqs_bits.
  assert (E1 : beN (be16 pid ++ be16 (mask_of pid taken)) 0 2 = pid).
  { unfold beN, sub, be16. cbn [app skipn firstn]. rewrite be_dec_2. lia. }
  assert (E2 : beN (be16 pid ++ be16 (mask_of pid taken)) 2 2 = mask_of pid taken).
  { unfold beN, sub, be16. cbn [app skipn firstn]. rewrite be_dec_2. lia. }
  rewrite E1, E2. f_equal.
  replace (mask_of pid taken) with (0 + mask_of pid taken)%N by lia.
  apply bits_from_mask; try lia.
  - exact Hta.
  - intros x Hx. specialize (Hin x Hx). lia.
  - intros x Hx. apply Hlt. rewrite Hl. apply in_or_app. now left.
Qed.

(* decoding all greedy words of an ascending list gives the list back *)
Theorem nack_roundtrip l : forall fuel,
  length l <= fuel -> asc l -> (forall x, In x l -> (x < 65536)%N) ->
  flat_map nack_word_seqs (map (fun w => be16 (fst w) ++ be16 (snd w)) (rfc_nack_words fuel l)) = l.
Proof.
  intros fuel. revert l. induction fuel as [|f IH]; intros l Hf Hasc Hlt.
  - destruct l; [reflexivity|cbn [length] in Hf; lia].
  - destruct l as [|p r]; [reflexivity|]. cbn [rfc_nack_words].
    assert (Hp : (p < 65536)%N) by (apply Hlt; now left).
    destruct (nack_word_roundtrip p r Hasc Hp ltac:(intros x Hx; apply Hlt; now right)) as [Hb [taken [Hl Hw]]].
    pose proof (nack_take_rest p r) as Hlen. destruct (nack_take_asc p r Hasc) as [Ha Hi].
    destruct (nack_take p r) as [blp rest]. cbn [fst snd] in *.
    cbn [map flat_map fst snd]. rewrite Hw. cbn [app]. f_equal.
    rewrite IH; [symmetry; exact Hl|cbn [length] in Hf; lia|exact Ha|]. intros x Hx. apply Hlt. right. apply Hi. exact Hx.
Qed.
