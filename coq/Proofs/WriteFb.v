(* Feedback packets: FCI writers and the feedback writer produce exactly the RFC image. *)
From RtcpV Require Export Proofs.WriteSimple Model.Feedback.

(* ---------------------------------------------------------------- words written one after another *)

Lemma write_words4_ok ws : forall (done rest : bytes) i,
  i = length done -> Forall (fun w => length w = 4) ws -> 4 * length ws <= length rest ->
  write_words4 ws i (done ++ rest) =
    Ok (i + 4 * length ws, (done ++ concat ws) ++ skipn (4 * length ws) rest).
Proof.
  induction ws as [|w ws IH]; intros done rest i Hi Hf Hfit; cbn [write_words4 length concat].
  - rewrite app_nil_r. cbn [skipn Nat.mul]. rewrite Nat.add_0_r. reflexivity.
  - inversion Hf as [|? ? Hw Hws]; subst. cbn [length] in Hfit.
    rewrite copy_at by lia. cbn [bind].
    rewrite IH by (rewrite ?app_length, ?skipn_length; lia || assumption).
    rewrite skipn_skipn, Hw. replace (4 * S (length ws)) with (4 + 4 * length ws) by lia.
    rewrite <- !app_assoc. rewrite Nat.add_assoc. reflexivity.
Qed.

Lemma concat_words4_length (ws : list bytes) : Forall (fun w => length w = 4) ws -> length (concat ws) = 4 * length ws.
Proof.
  induction 1 as [|w ws Hw Hws IH]; [reflexivity|]. cbn [concat length]. rewrite app_length, IH, Hw. lia.
Qed.

(* ---------------------------------------------------------------- SLI *)

Lemma sli_encode_rfc e : sli_encode e = rfc_sli_word e.
Proof.
  destruct e as [[start count] pid]. unfold sli_encode, rfc_sli_word, be32.
  f_equal; [|f_equal; [|f_equal; [|f_equal]]]; lia.
Qed.

Lemma sli_write_ok es : forall (done rest : bytes) i,
  i = length done -> 4 * length es <= length rest ->
  sli_write es i (done ++ rest) =
    Ok (i + 4 * length es, (done ++ concat (map rfc_sli_word es)) ++ skipn (4 * length es) rest).
Proof.
  induction es as [|e es IH]; intros done rest i Hi Hfit; cbn [sli_write length map concat].
  - rewrite app_nil_r. cbn [skipn Nat.mul]. rewrite Nat.add_0_r. reflexivity.
  - cbn [length] in Hfit. rewrite <- sli_encode_rfc. destruct e as [[start count] pid].
    unfold sli_encode at 1. cbv beta iota zeta.
    rewrite set_at_cur by lia. cbn [bind].
    rewrite set_at_cur by len. cbn [bind]. rewrite skipn_skipn.
    rewrite set_at_cur by len. cbn [bind]. rewrite skipn_skipn.
    rewrite set_at_cur by len. cbn [bind]. rewrite skipn_skipn.
    rewrite IH by len. rewrite skipn_skipn.
    replace (4 * S (length es)) with (4 + 4 * length es) by lia.
    unfold sli_encode. rewrite <- !app_assoc. cbn [app Nat.add].
    replace (i + 4 + 4 * length es) with (i + S (S (S (S (4 * length es))))) by lia. reflexivity.
Qed.

(* ---------------------------------------------------------------- FIR *)

Definition fir_entry (kv : N * N) : bytes := be32 (fst kv) ++ [snd kv; 0; 0; 0]%N.

Lemma fir_write_ok m : forall (done rest : bytes) i,
  i = length done -> 8 * length m <= length rest ->
  fir_write m i (done ++ rest) =
    Ok (i + 8 * length m, (done ++ concat (map fir_entry m)) ++ skipn (8 * length m) rest).
Proof.
  induction m as [|[k v] m IH]; intros done rest i Hi Hfit; cbn [fir_write length map concat].
  - rewrite app_nil_r. cbn [skipn Nat.mul]. rewrite Nat.add_0_r. reflexivity.
  - cbn [length] in Hfit. rewrite copy_at by len. cbn [bind].
    rewrite copy_at by len. cbn [bind]. rewrite skipn_skipn.
    rewrite IH by len. rewrite skipn_skipn.
    replace (8 * S (length m)) with (8 + 8 * length m) by lia.
    unfold fir_entry. cbn [fst snd]. rewrite <- !app_assoc. cbn [app length be32_length Nat.add].
    rewrite be32_length.
    replace (i + 8 + 8 * length m) with (i + S (S (S (S (S (S (S (S (8 * length m))))))))) by lia.
    replace (4 + 4 + 8 * length m) with (S (S (S (S (S (S (S (S (8 * length m))))))))) by lia. reflexivity.
Qed.

Lemma concat_fir_length m : length (concat (map fir_entry m)) = 8 * length m.
Proof. induction m as [|kv m IH]; [reflexivity|]. cbn [map concat length]. rewrite app_length, IH. unfold fir_entry.
  rewrite app_length, be32_length. cbn [length]. lia. Qed.

(* ---------------------------------------------------------------- RPSI *)

Lemma zero_fill_ok k : forall (done rest : bytes) i e fuel,
  i = length done -> e = i + k -> k <= length rest -> k < fuel ->
  zero_fill_loop fuel i e (done ++ rest) = Ok (e, (done ++ zeros k) ++ skipn k rest).
Proof.
  induction k as [|k IH]; intros done rest i e fuel Hi He Hfit Hf.
  - destruct fuel; [lia|]. cbn [zero_fill_loop]. destruct (Nat.ltb_spec i e); [lia|].
    cbn [zeros repeat skipn]. rewrite app_nil_r. replace e with i by lia. reflexivity.
  - destruct fuel; [lia|]. cbn [zero_fill_loop]. destruct (Nat.ltb_spec i e); [|lia].
    rewrite set_at_cur by lia. cbn [bind].
    rewrite (IH (done ++ [0%N]) (skipn 1 rest) (i + 1) e fuel) by len.
    rewrite skipn_skipn. unfold zeros. cbn [repeat]. rewrite <- !app_assoc. cbn [app Nat.add]. reflexivity.
Qed.

Definition mask_body (f : N -> N) (bits : bytes) : bytes :=
  match bits with [] => [] | _ => removelast bits ++ [f (last bits 0%N)] end.
Definition rpsi_body (bits : bytes) (ov : N) : bytes := mask_body (fun b => (b / 2 ^ ov * 2 ^ ov)%N) bits.

Lemma rpsi_body_snoc pre x ov : rpsi_body (pre ++ [x]) ov = pre ++ [(x / 2 ^ ov * 2 ^ ov)%N].
Proof.
  unfold rpsi_body, mask_body. destruct (pre ++ [x]) eqn:E; [destruct pre; discriminate|]. rewrite <- E.
  rewrite removelast_last, last_last. reflexivity.
Qed.

(* buf[idx - 1] &= !bitmask, when the bit string is not empty *)
Lemma mask_last_step (done bits rest : bytes) i (f : N -> N) :
  i = length done + length bits ->
  (match bits with
   | [] => Ok (done ++ bits ++ rest)
   | _ :: _ => b <- @idx werr (done ++ bits ++ rest) (i - 1) ;; set_at (done ++ bits ++ rest) (i - 1) (f b)
   end) =
  Ok (done ++ mask_body f bits ++ rest).
Proof.
  intros Hi. unfold mask_body. destruct bits as [|b0 bits']; [reflexivity|].
  assert (Hne : b0 :: bits' <> []) by congruence.
  destruct (exists_last Hne) as [pre [x Hsnoc]]. rewrite Hsnoc in *. clear Hsnoc Hne.
  rewrite app_length in Hi. cbn [length] in Hi.
  destruct (pre ++ [x]) eqn:E; [destruct pre; discriminate|]. rewrite <- E. rewrite removelast_last, last_last.
  replace (done ++ (pre ++ [x]) ++ rest) with ((done ++ pre) ++ [x] ++ rest) by (rewrite <- !app_assoc; reflexivity).
  rewrite idx_app_r by len. replace (i - 1 - length (done ++ pre)) with 0 by len.
  cbn [app idx nth_error bind].
  change (x :: rest) with ([x] ++ rest). rewrite set_at_cur by len. cbn [bind skipn app].
  rewrite <- !app_assoc. reflexivity.
Qed.

Lemma rpsi_write_ok pt bits ov (rest : bytes) :
  (ov <= 8)%N -> pad4 (2 + length bits) <= length rest ->
  rpsi_write pt bits ov rest =
    Ok (pad4 (2 + length bits), rfc_rpsi pt bits ov ++ skipn (pad4 (2 + length bits)) rest).
Proof.
  intros Hov Hfit. unfold rpsi_write.
  pose proof (pad4_ge (2 + length bits)) as Hge. pose proof (pad4_lt (2 + length bits)) as Hlt.
  set (e := pad4 (2 + length bits)) in *.
  rewrite usub_ok by lia. cbn [bind]. rewrite usub_ok by lia. cbn [bind].
  assert (Hfill : (4 - (2 + length bits) mod 4) mod 4 = e - length bits - 2) by (unfold e, pad4; lia).
  change rest with ([] ++ rest) at 1.
  rewrite (set_at_cur [] rest) by (cbn [length]; lia). cbn [bind].
  rewrite set_at_cur by len. cbn [bind]. rewrite skipn_skipn.
  rewrite copy_at by len. cbn [bind]. rewrite skipn_skipn.
  rewrite N.mod_small by lia.
  set (tb := N.of_nat (8 * (e - length bits - 2) + N.to_nat ov)).
  assert (Htb : tb = (N.of_nat (8 * (e - length bits - 2)) + ov)%N) by (unfold tb; lia).
  replace (((([] ++ [tb]) ++ [pt]) ++ bits) ++ skipn (1 + 1 + length bits) rest)
    with ([tb; pt] ++ bits ++ skipn (1 + 1 + length bits) rest) by (rewrite <- !app_assoc; reflexivity).
  rewrite (mask_last_step [tb; pt] bits _ (2 + length bits) (fun b => (b / 2 ^ ov * 2 ^ ov)%N)) by (cbn [length]; lia).
  cbn [bind].
  change (mask_body (fun b => (b / 2 ^ ov * 2 ^ ov)%N) bits) with (rpsi_body bits ov).
  assert (Hbl : length (rpsi_body bits ov) = length bits).
  { clear. destruct bits as [|b bits' _] using rev_ind; [reflexivity|].
    rewrite rpsi_body_snoc. rewrite !app_length. reflexivity. }
  remember (rpsi_body bits ov) as body eqn:Hbody.
  replace ([tb; pt] ++ body ++ skipn (1 + 1 + length bits) rest)
    with (([tb; pt] ++ body) ++ skipn (1 + 1 + length bits) rest) by (rewrite <- !app_assoc; reflexivity).
  rewrite (zero_fill_ok (e - length bits - 2)) by len. rewrite skipn_skipn.
  unfold rfc_rpsi. rewrite Hfill.
  change (match bits with [] => [] | _ :: _ => removelast bits ++ [(last bits 0 / 2 ^ ov * 2 ^ ov)%N] end) with (rpsi_body bits ov).
  rewrite <- Hbody. rewrite <- Htb.
  replace (1 + 1 + length bits + (e - length bits - 2)) with e by lia.
  rewrite <- !app_assoc. reflexivity.
Qed.

Lemma rfc_rpsi_length pt bits ov : length (rfc_rpsi pt bits ov) = pad4 (2 + length bits).
Proof.
  unfold rfc_rpsi.
  change (match bits with [] => [] | _ :: _ => removelast bits ++ [(last bits 0 / 2 ^ ov * 2 ^ ov)%N] end) with (rpsi_body bits ov).
  destruct bits as [|b bits' _] using rev_ind.
  - reflexivity.
  - rewrite rpsi_body_snoc. repeat rewrite ?app_length, ?zeros_length. cbn [length]. unfold pad4. lia.
Qed.
