(* Every builder (leaf packets, third-party writers, nested compounds) writes exactly its RFC image,
   announces exactly that size, and touches nothing else: the common core of C06, C07, C17, C14. *)
From RtcpV Require Export Proofs.WriteSdes.

(* values a caller can actually pass: NACK sequence numbers are u16; the third-party writer is used
   with a 5-bit count and a word-aligned payload (what C19 quantifies over) *)
Fixpoint member_wf (m : member) : Prop :=
  match m with
  | MFb c => fci_wf (fb_c_fci c)
  | MCustom c => (cu_count c < 32)%N /\ length (cu_payload c) mod 4 = 0
  | MCompound ms => (fix all (ms : list member) : Prop :=
                       match ms with [] => True | m :: r => member_wf m /\ all r end) ms
  | _ => True
  end.

Lemma member_wf_compound ms : member_wf (MCompound ms) <-> Forall member_wf ms.
Proof.
  induction ms as [|m r IH]; cbn [member_wf]; [split; auto|].
  split; [intros [H1 H2]; constructor; [exact H1|apply IH; exact H2]|].
  intros H. inversion H; subst. split; [assumption|apply IH; assumption].
Qed.

(* induction over the nested inductive *)
Lemma member_ind' (P : member -> Prop) :
  (forall c, P (MSr c)) -> (forall c, P (MRr c)) -> (forall c, P (MApp c)) -> (forall c, P (MBye c)) ->
  (forall c, P (MSdes c)) -> (forall c, P (MFb c)) -> (forall c, P (MUnk c)) -> (forall c, P (MCustom c)) ->
  (forall ms, Forall P ms -> P (MCompound ms)) -> forall m, P m.
Proof.
  intros H1 H2 H3 H4 H5 H6 H7 H8 H9.
  fix IH 1. intros m. destruct m as [c|c|c|c|c|c|c|c|ms].
  - apply H1. - apply H2. - apply H3. - apply H4. - apply H5. - apply H6. - apply H7. - apply H8.
  - apply H9. induction ms as [|m ms IHms]; constructor; [apply IH|exact IHms].
Qed.

(* the contract of a writer *)
Definition writes_image (m : member) : Prop :=
  forall n, m_calc m = Ok n ->
    length (rfc_image m) = n /\ n mod 4 = 0 /\
    forall s : bytes, length s = n -> m_write_unchecked m s = Ok (n, rfc_image m).

Lemma pad_mod4 p : (p mod 4 = 0)%N -> N.to_nat p mod 4 = 0. Proof. lia. Qed.

Ltac imglen :=
  unfold rfc_header;
  repeat rewrite ?app_length, ?concat_rb_length, ?concat_be32_length, ?rfc_trailer_length, ?be32_length,
         ?be64_length, ?be16_length, ?zeros_length;
  cbn [length]; lia.

Lemma leaf_sr c : writes_image (MSr c).
Proof.
  intros n Hc. cbn [m_calc m_write_unchecked rfc_image] in *. pose proof (sr_calc_ok c n Hc) as [Hnb [Hp [_ Hn]]].
  split; [|split; [apply pad_mod4 in Hp; lia|intros s Hs; apply sr_write_ok; assumption]].
  unfold rfc_sr. imglen.
Qed.

Lemma leaf_rr c : writes_image (MRr c).
Proof.
  intros n Hc. cbn [m_calc m_write_unchecked rfc_image] in *. pose proof (rr_calc_ok c n Hc) as [Hnb [Hp [_ Hn]]].
  split; [|split; [apply pad_mod4 in Hp; lia|intros s Hs; apply rr_write_ok; assumption]].
  unfold rfc_rr. imglen.
Qed.

Lemma leaf_app c : writes_image (MApp c).
Proof.
  intros n Hc. cbn [m_calc m_write_unchecked rfc_image] in *.
  pose proof (app_calc_ok c n Hc) as [_ [Hnl [_ [Hd [Hp Hn]]]]].
  split; [|split; [apply pad_mod4 in Hp; lia|intros s Hs; apply app_write_ok; assumption]].
  unfold rfc_app. imglen.
Qed.

Lemma leaf_bye c : writes_image (MBye c).
Proof.
  intros n Hc. cbn [m_calc m_write_unchecked rfc_image] in *.
  pose proof (bye_calc_ok c n Hc) as [Hns [Hp [Hrl Hn]]].
  split; [|split; [|intros s Hs; apply bye_write_ok; assumption]].
  - unfold rfc_bye. imglen.
  - apply pad_mod4 in Hp. destruct (bye_c_reason c) as [|x r] eqn:Hr.
    + cbn [rfc_reason length] in Hn. lia.
    + rewrite rfc_reason_length in Hn by congruence. pose proof (pad4_mod (1 + length (x :: r))). lia.
Qed.

Lemma leaf_sdes c : writes_image (MSdes c).
Proof.
  intros n Hc. cbn [m_calc m_write_unchecked rfc_image] in *.
  pose proof (sdes_calc_ok c n Hc) as [Hnc [Hp [_ [Hm Hn]]]].
  split; [|split; [apply pad_mod4 in Hp; lia|intros s Hs; apply sdes_write_ok; assumption]].
  unfold rfc_sdes. imglen.
Qed.

Lemma leaf_fb c : fci_wf (fb_c_fci c) -> writes_image (MFb c).
Proof.
  intros Hwf n Hc. cbn [m_calc m_write_unchecked rfc_image] in *.
  pose proof (fb_calc_ok c n Hc) as [Hp [Hk [k [Hfc Hn]]]].
  destruct (fci_write_ok (fb_c_fci c) k (repeat 0%N (pad4 k)) Hwf Hfc) as [Hl _]; [rewrite repeat_length; lia|].
  split; [|split; [apply pad_mod4 in Hp; pose proof (pad4_mod k); lia|intros s Hs; apply fb_write_ok; assumption]].
  unfold rfc_fb. rewrite !app_length, Hl. imglen.
Qed.

Lemma raw_length pt pad cnt payload : length (rfc_raw pt pad cnt payload) = 4 + length payload + N.to_nat pad.
Proof. unfold rfc_raw. imglen. Qed.

Lemma leaf_unk c : writes_image (MUnk c).
Proof.
  intros n Hc. cbn [m_calc m_write_unchecked rfc_image] in *.
  pose proof (unk_calc_ok c n Hc) as [Hcnt [Hp [Hd Hn]]].
  split; [rewrite raw_length; lia|split; [apply pad_mod4 in Hp; lia|intros s Hs; apply unk_write_ok; assumption]].
Qed.

Lemma leaf_custom c : (cu_count c < 32)%N -> length (cu_payload c) mod 4 = 0 -> writes_image (MCustom c).
Proof.
  intros Hcnt Hpm n Hc. cbn [m_calc m_write_unchecked rfc_image] in *.
  pose proof (custom_calc_ok c n Hc) as [Hp Hn].
  split; [rewrite raw_length; lia|split; [apply pad_mod4 in Hp; lia|intros s Hs; apply custom_write_ok; assumption]].
Qed.

(* ---------------------------------------------------------------- compounds *)

(* the two local fixpoints of m_calc / m_write_unchecked, named *)
Definition compound_calc (ms : list member) : wres nat := m_calc (MCompound ms).
Definition compound_write (ms : list member) (offset : nat) (buf : bytes) : wres (nat * bytes) :=
  (fix go (ms : list member) (offset : nat) (buf : bytes) : wres (nat * bytes) :=
     match ms with
     | [] => Ok (offset, buf)
     | m :: r =>
         match m_calc m with
         | Ok req => '(w, buf) <- with_sub buf offset (offset + req) (m_write_unchecked m) ;; go r (offset + w) buf
         | Fuel => Fuel
         | _ => Panic
         end
     end) ms offset buf.

Lemma compound_write_unfold ms s : m_write_unchecked (MCompound ms) s = compound_write ms 0 s.
Proof. reflexivity. Qed.

Lemma compound_calc_cons m r :
  compound_calc (m :: r) =
  (n <- m_calc m ;;
   if (match r with [] => false | _ => true end) && (0 <? match m_padding m with Some p => p | None => 0%N end)%N
   then Err NonLastCompoundPacketPadding
   else k <- compound_calc r ;; Ok (n + k)).
Proof. reflexivity. Qed.

Lemma compound_calc_ok ms : forall n,
  compound_calc ms = Ok n ->
  Forall (fun m => exists k, m_calc m = Ok k) ms /\
  (Forall writes_image ms -> n = length (concat (map rfc_image ms)) /\ n mod 4 = 0).
Proof.
  induction ms as [|m r IH]; intros n H.
  - injection H as <-. split; [constructor|]. intros _. split; reflexivity.
  - rewrite compound_calc_cons in H. apply bind_ok_inv in H. destruct H as [k [Hk H]].
    destruct (_ && _); [discriminate|]. apply bind_ok_inv in H. destruct H as [j [Hj [= <-]]].
    destruct (IH j Hj) as [Hf Hl]. split; [constructor; eauto|].
    intros Hw. inversion Hw as [|? ? Hwm Hwr]; subst. destruct (Hl Hwr) as [-> Hmod].
    destruct (Hwm k Hk) as [Hlen [Hkm _]]. cbn [map concat]. rewrite app_length, Hlen. split; [reflexivity|lia].
Qed.

Lemma compound_write_ok ms : forall (done rest : bytes) offset,
  Forall writes_image ms -> Forall (fun m => exists k, m_calc m = Ok k) ms ->
  offset = length done -> length (concat (map rfc_image ms)) <= length rest ->
  compound_write ms offset (done ++ rest) =
    Ok (offset + length (concat (map rfc_image ms)),
        (done ++ concat (map rfc_image ms)) ++ skipn (length (concat (map rfc_image ms))) rest).
Proof.
  induction ms as [|m r IH]; intros done rest offset Hw Hc Ho Hfit.
  - cbn [compound_write map concat length skipn]. rewrite app_nil_r, Nat.add_0_r. reflexivity.
  - inversion Hw as [|? ? Hwm Hwr]; subst. inversion Hc as [|? ? [k Hk] Hcr]; subst.
    destruct (Hwm k Hk) as [Hlen [_ Hwrite]]. cbn [map concat] in *. rewrite app_length, Hlen in Hfit.
    change (compound_write (m :: r) (length done) (done ++ rest)) with
      (match m_calc m with
       | Ok req => '(w, buf) <- with_sub (done ++ rest) (length done) (length done + req) (m_write_unchecked m) ;;
                   compound_write r (length done + w) buf
       | Fuel => Fuel
       | _ => Panic
       end).
    rewrite Hk. rewrite with_sub_at by lia. replace (length done + k - length done) with k by lia.
    rewrite Hwrite by (rewrite firstn_length; lia). cbn [bind].
    rewrite app_assoc.
    rewrite IH by (auto; rewrite ?app_length, ?skipn_length; lia).
    rewrite skipn_skipn, !app_length, Hlen. rewrite Nat.add_assoc. rewrite <- !app_assoc. reflexivity.
Qed.

Theorem member_writes_image m : member_wf m -> writes_image m.
Proof.
  induction m as [c|c|c|c|c|c|c|c|ms IH] using member_ind'; intros Hwf.
  - apply leaf_sr. - apply leaf_rr. - apply leaf_app. - apply leaf_bye. - apply leaf_sdes.
  - apply leaf_fb. exact Hwf. - apply leaf_unk. - destruct Hwf. apply leaf_custom; assumption.
  - apply member_wf_compound in Hwf.
    assert (Hall : Forall writes_image ms).
    { rewrite Forall_forall in *. intros x Hx. apply IH; [exact Hx|apply Hwf; exact Hx]. }
    intros n Hc. destruct (compound_calc_ok ms n Hc) as [Hf Hl]. destruct (Hl Hall) as [Hn Hmod].
    cbn [rfc_image]. split; [symmetry; exact Hn|split; [exact Hmod|]].
    intros s Hs. rewrite compound_write_unfold. change s with ([] ++ s).
    rewrite compound_write_ok by (auto; cbn [length]; lia).
    cbn [app Nat.add]. rewrite skipn_all_nil by lia. rewrite app_nil_r, <- Hn. reflexivity.
Qed.

(* m_calc is a value or an error *)
Lemma calc_total m : forall r, m_calc m = r -> r <> Panic /\ r <> Fuel.
Proof.
  assert (Hbind : forall A B (r : wres A) (f : A -> wres B),
             (r <> Panic /\ r <> Fuel) -> (forall a, f a <> Panic /\ f a <> Fuel) -> bind r f <> Panic /\ bind r f <> Fuel).
  { intros A B r f [H1 H2] Hf. destruct r; cbn [bind]; auto; split; congruence. }
  assert (Hcp : forall p, check_padding p <> Panic /\ check_padding p <> Fuel)
    by (intros p; unfold check_padding; destruct (negb _); split; congruence).
  assert (Hrbs : forall bs, rbs_calc bs <> Panic /\ rbs_calc bs <> Fuel).
  { induction bs as [|b bs IHb]; cbn [rbs_calc]; [split; congruence|]. apply Hbind.
    - unfold rb_calc. destruct (negb _); split; congruence.
    - intros a. apply Hbind; [exact IHb|intros; split; congruence]. }
  assert (Hitem : forall it, item_calc it <> Panic /\ item_calc it <> Fuel).
  { intros it. unfold item_calc. destruct (_ =? _)%N.
    - destruct (255 <? _); [split; congruence|]. destruct (255 <? _); split; congruence.
    - destruct (255 <? _); split; congruence. }
  assert (Hitems : forall its, items_calc its <> Panic /\ items_calc its <> Fuel).
  { induction its as [|it its IHi]; cbn [items_calc]; [split; congruence|]. apply Hbind; [apply Hitem|].
    intros a. apply Hbind; [exact IHi|intros; split; congruence]. }
  assert (Hchunks : forall cs, chunks_calc cs <> Panic /\ chunks_calc cs <> Fuel).
  { induction cs as [|c cs IHc]; cbn [chunks_calc]; [split; congruence|]. apply Hbind.
    - unfold chunk_calc. apply Hbind; [apply Hitems|intros; split; congruence].
    - intros a. apply Hbind; [exact IHc|intros; split; congruence]. }
  induction m as [c|c|c|c|c|c|c|c|ms IH] using member_ind'; intros r <-; try (cbn [m_calc]; fail 0 || idtac);
    [cbn [m_calc]|cbn [m_calc]|cbn [m_calc]|cbn [m_calc]|cbn [m_calc]|cbn [m_calc]|cbn [m_calc]|cbn [m_calc]|].
  - unfold sr_calc. destruct (31 <? _); [split; congruence|]. apply Hbind; [apply Hcp|]. intros _.
    apply Hbind; [apply Hrbs|intros; split; congruence].
  - unfold rr_calc. destruct (31 <? _); [split; congruence|]. apply Hbind; [apply Hcp|]. intros _.
    apply Hbind; [apply Hrbs|intros; split; congruence].
  - unfold app_calc. destruct (31 <? _)%N; [split; congruence|]. destruct (_ || _); [split; congruence|].
    destruct (negb _); [split; congruence|]. apply Hbind; [apply Hcp|intros; split; congruence].
  - unfold bye_calc. destruct (31 <? _); [split; congruence|]. apply Hbind; [apply Hcp|]. intros _.
    destruct (bye_c_reason c); [split; congruence|]. destruct (255 <? _); split; congruence.
  - unfold sdes_calc. destruct (31 <? _); [split; congruence|]. apply Hbind; [apply Hcp|]. intros _.
    apply Hbind; [apply Hchunks|intros; split; congruence].
  - unfold fb_calc. apply Hbind; [apply Hcp|]. intros _. destruct (negb _); [split; congruence|].
    apply Hbind; [|intros; split; congruence].
    destruct (fb_c_fci c) as [a|a|a|pt bits ov|]; cbn [fci_calc]; try (split; congruence).
    + destruct (_ <? _)%N; split; congruence.
    + destruct (_ <? _)%N; split; congruence.
    + destruct (_ <? _)%N; [split; congruence|]. destruct (_ || _); split; congruence.
  - unfold unk_calc. destruct (31 <? _)%N; [split; congruence|]. apply Hbind; [apply Hcp|]. intros _.
    destruct (negb _); split; congruence.
  - unfold custom_calc. apply Hbind; [apply Hcp|intros; split; congruence].
  - change (compound_calc ms <> Panic /\ compound_calc ms <> Fuel).
    induction IH as [|m r Hm Hr IHr]; [cbn; split; congruence|].
    rewrite compound_calc_cons. apply Hbind; [apply (Hm _ eq_refl)|]. intros a.
    destruct (_ && _); [split; congruence|]. apply Hbind; [exact IHr|intros; split; congruence].
Qed.

(* ---------------------------------------------------------------- C06 + C07 + C17 in one statement *)

Theorem write_into_spec m (buf : bytes) :
  member_wf m ->
  match m_calc m with
  | Ok n =>
      n mod 4 = 0 /\ length (rfc_image m) = n /\
      (n <= length buf -> m_write_into m buf = (Ok n, rfc_image m ++ skipn n buf)) /\
      (length buf < n -> m_write_into m buf = (Err (OutputTooSmall n), buf))
  | Err e => m_write_into m buf = (Err e, buf)
  | Panic => False
  | Fuel => False
  end.
Proof.
  intros Hwf. pose proof (member_writes_image m Hwf) as Hw. pose proof (calc_total m _ eq_refl) as [Hp Hf].
  destruct (m_calc m) as [n|e| |] eqn:Hc; try congruence.
  - destruct (Hw n Hc) as [Hlen [Hmod Hwr]]. split; [exact Hmod|]. split; [exact Hlen|]. split.
    + intros Hn. unfold m_write_into. apply write_into_ok; [exact Hc|exact Hn|exact Hwr].
    + intros Hn. unfold m_write_into. apply write_into_small; assumption.
  - unfold m_write_into. apply write_into_err. exact Hc.
Qed.

(* the bare SDES chunk and item builders *)
Theorem chunk_write_into_spec c (buf : bytes) :
  match chunk_calc c with
  | Ok n =>
      n mod 4 = 0 /\ length (rfc_chunk c) = n /\
      (n <= length buf -> chunk_write_into c buf = (Ok n, rfc_chunk c ++ skipn n buf)) /\
      (length buf < n -> chunk_write_into c buf = (Err (OutputTooSmall n), buf))
  | Err e => chunk_write_into c buf = (Err e, buf)
  | Panic => False
  | Fuel => False
  end.
Proof.
  destruct (chunk_calc c) as [n|e| |] eqn:Hc.
  - pose proof (chunk_calc_ok c n Hc) as [Hn [Hmod _]]. split; [exact Hmod|]. split; [symmetry; exact Hn|]. split.
    + intros Hfit. unfold chunk_write_into. apply write_into_ok; [exact Hc|exact Hfit|].
      intros s Hs. rewrite (chunk_write_ok c n s Hc) by lia. rewrite skipn_all_nil by lia. rewrite app_nil_r. reflexivity.
    + intros Hs. unfold chunk_write_into. apply write_into_small; assumption.
  - unfold chunk_write_into. apply write_into_err. exact Hc.
  - unfold chunk_calc in Hc. destruct (items_calc (ch_c_items c)) eqn:Hi; cbn [bind] in Hc; try discriminate.
    exfalso. revert Hi. generalize (ch_c_items c). induction l as [|it its IH]; cbn [items_calc]; [discriminate|].
    unfold item_calc at 1. destruct (_ =? _)%N.
    + destruct (255 <? _); [discriminate|]. destruct (255 <? _); [discriminate|]. cbn [bind].
      destruct (items_calc its); cbn [bind]; try discriminate. intros _. apply IH. reflexivity.
    + destruct (255 <? _); [discriminate|]. cbn [bind].
      destruct (items_calc its); cbn [bind]; try discriminate. intros _. apply IH. reflexivity.
  - unfold chunk_calc in Hc. destruct (items_calc (ch_c_items c)) eqn:Hi; cbn [bind] in Hc; try discriminate.
    exfalso. revert Hi. generalize (ch_c_items c). induction l as [|it its IH]; cbn [items_calc]; [discriminate|].
    unfold item_calc at 1. destruct (_ =? _)%N.
    + destruct (255 <? _); [discriminate|]. destruct (255 <? _); [discriminate|]. cbn [bind].
      destruct (items_calc its); cbn [bind]; try discriminate. intros _. apply IH. reflexivity.
    + destruct (255 <? _); [discriminate|]. cbn [bind].
      destruct (items_calc its); cbn [bind]; try discriminate. intros _. apply IH. reflexivity.
Qed.

Theorem item_write_into_spec it (buf : bytes) :
  match item_calc it with
  | Ok n =>
      length (rfc_item it) = n /\
      (n <= length buf -> item_write_into it buf = (Ok n, rfc_item it ++ skipn n buf)) /\
      (length buf < n -> item_write_into it buf = (Err (OutputTooSmall n), buf))
  | Err e => item_write_into it buf = (Err e, buf)
  | Panic => False
  | Fuel => False
  end.
Proof.
  destruct (item_calc it) as [n|e| |] eqn:Hc.
  - pose proof (item_calc_ok it n Hc) as [Hn _]. split; [symmetry; exact Hn|]. split.
    + intros Hfit. unfold item_write_into. apply write_into_ok; [exact Hc|exact Hfit|].
      intros s Hs. rewrite (item_write_ok it n s Hc) by lia. rewrite skipn_all_nil by lia. rewrite app_nil_r. reflexivity.
    + intros Hs. unfold item_write_into. apply write_into_small; assumption.
  - unfold item_write_into. apply write_into_err. exact Hc.
  - unfold item_calc in Hc. destruct (_ =? _)%N; repeat (destruct (255 <? _); try discriminate).
  - unfold item_calc in Hc. destruct (_ =? _)%N; repeat (destruct (255 <? _); try discriminate).
Qed.

Example write_into_nonvacuous :
  let m := MCompound [MRr (mk_rr 7 0 []); MFb (mk_fb Transport 4 1 2 (FNack [5; 6; 30; 5]%N))] in
  member_wf m /\ exists n, m_calc m = Ok n.
Proof.
  cbv zeta. split.
  - cbn. repeat split; auto. intros x [H|[H|[H|[H|[]]]]]; subst; lia.
  - eexists. vm_compute. reflexivity.
Qed.
