(* C13: trailing padding is transparent to packet contents. *)
From RtcpV Require Export Proofs.C05.

Definition legal_pad (p : nat) : Prop := 4 <= p <= 252 /\ p mod 4 = 0.

(* an accepted, unpadded packet *)
Record unpadded (min : nat) (l : bytes) (b0 b1 c d : N) (rest : bytes) : Prop := {
  up_shape : l = b0 :: b1 :: c :: d :: rest;
  up_len : length l = hdr_len c d;
  up_min : min <= length l;
  up_ver : (b0 / 64 = 2)%N;
  up_nop : ((b0 / 32) mod 2 = 0)%N
}.

Lemma accepted_unpadded min pt l :
  4 <= min -> check_packet min pt l = Ok tt -> ((nth 0 l 0 / 32) mod 2 = 0)%N ->
  exists b0 c d rest, unpadded min l b0 pt c d rest.
Proof.
  intros Hmin Hc Hp. apply check_packet_iff in Hc; [|exact Hmin]. apply well_framed_conditions in Hc.
  destruct Hc as [a [b [c [d [r [Hl [Hm [Hv [Hb [Hlen _]]]]]]]]]]. subst b. exists a, c, d, r.
  constructor; auto. rewrite Hl in Hp. exact Hp.
Qed.

Section Padded.
  Variables (min : nat) (l : bytes) (b0 b1 c d : N) (rest : bytes) (p : nat).
  Hypothesis U : unpadded min l b0 b1 c d rest.
  Hypothesis Hp : legal_pad p.
  Hypothesis Hmax : (N.of_nat (length l + p) <= 262144)%N.
  Hypothesis Hmin4 : 4 <= min.

  Let n := length l.
  Let pl := pad_packet l p.

  Lemma n_facts : n = 4 + length rest /\ n mod 4 = 0 /\ 4 <= n.
  Proof.
    pose proof (up_len _ _ _ _ _ _ _ U) as H. pose proof (up_shape _ _ _ _ _ _ _ U) as Hs. unfold n.
    assert (Hl : length l = 4 + length rest) by (rewrite Hs; reflexivity).
    rewrite Hl in *. unfold hdr_len in H. lia.
  Qed.

  Lemma pl_shape :
    pl = (b0 + 32)%N :: b1 :: be16 (N.of_nat ((n + p) / 4 - 1)) ++ rest ++ zeros (p - 1) ++ [N.of_nat p].
  Proof. unfold pl, pad_packet, n. rewrite (up_shape _ _ _ _ _ _ _ U). reflexivity. Qed.

  Lemma pl_length : length pl = n + p.
  Proof.
    rewrite pl_shape. destruct n_facts as [Hn _]. destruct Hp as [Hr _].
    cbn [length]. rewrite !app_length, be16_length, zeros_length. cbn [length]. lia.
  Qed.

  Lemma pl_last : last pl 0%N = N.of_nat p.
  Proof.
    rewrite pl_shape.
    change ((b0 + 32)%N :: b1 :: be16 (N.of_nat ((n + p) / 4 - 1)) ++ rest ++ zeros (p - 1) ++ [N.of_nat p])
      with ([(b0 + 32)%N; b1] ++ be16 (N.of_nat ((n + p) / 4 - 1)) ++ rest ++ zeros (p - 1) ++ [N.of_nat p]).
    rewrite !app_assoc. apply last_snoc.
  Qed.

  Lemma pl_check pt : b1 = pt -> check_packet min pt pl = Ok tt.
  Proof.
    intros Hpt. apply check_packet_iff; [exact Hmin4|].
    destruct n_facts as [Hn [Hmod H4]]. destruct Hp as [Hr Hpm].
    pose proof pl_length as Hl. pose proof pl_last as Hlast. revert Hl Hlast. rewrite pl_shape. unfold be16. cbn [app].
    intros Hl Hlast. rewrite well_framed_cons. cbv zeta. rewrite Hl, Hlast.
    pose proof (up_ver _ _ _ _ _ _ _ U) as Hv. pose proof (up_nop _ _ _ _ _ _ _ U) as Hnp. pose proof (up_min _ _ _ _ _ _ _ U) as Hm. unfold n in *.
    replace (((b0 + 32) / 32) mod 2 =? 1)%N with true by (symmetry; apply N.eqb_eq; lia).
    repeat (apply andb_true_iff; split); try (apply Nat.leb_le; lia); try (apply N.eqb_eq; lia);
      try (apply Nat.eqb_eq; unfold hdr_len; lia); try (apply Nat.ltb_lt; lia).
  Qed.

  Lemma pl_count : parse_count pl = parse_count l.
  Proof.
    rewrite pl_shape, (up_shape _ _ _ _ _ _ _ U). rewrite !parse_count_cons. f_equal.
    pose proof (up_nop _ _ _ _ _ _ _ U). lia.
  Qed.

  Lemma pl_padding : parse_padding pl = Ok (Some (N.of_nat p)).
  Proof.
    pose proof pl_length as Hl. pose proof pl_last as Hlast. revert Hl Hlast. rewrite pl_shape. unfold be16. cbn [app].
    intros Hl Hlast. destruct n_facts as [Hn [Hmod H4]]. destruct Hp as [Hr Hpm].
    rewrite parse_padding_cons by (rewrite Hl; unfold hdr_len; lia). rewrite Hlast.
    pose proof (up_nop _ _ _ _ _ _ _ U).
    replace (negb (((b0 + 32) / 32) mod 2 =? 0)%N) with true; [reflexivity|].
    symmetry. apply negb_true_iff. apply N.eqb_neq. lia.
  Qed.

  Lemma l_padding : parse_padding l = Ok None.
  Proof.
    rewrite (up_shape _ _ _ _ _ _ _ U). rewrite parse_padding_cons by (rewrite <- (up_shape _ _ _ _ _ _ _ U); apply (up_len _ _ _ _ _ _ _ U)).
    rewrite (up_nop _ _ _ _ _ _ _ U). reflexivity.
  Qed.

  (* everything after the header and before the trailer is unchanged *)
  Lemma pl_skipn4 : skipn 4 pl = rest ++ zeros (p - 1) ++ [N.of_nat p].
  Proof. rewrite pl_shape. reflexivity. Qed.
  Lemma l_skipn4 : skipn 4 l = rest.
  Proof. rewrite (up_shape _ _ _ _ _ _ _ U). reflexivity. Qed.

  Lemma pl_slice lo hi : 4 <= lo -> lo <= hi -> hi <= n -> @slice perr pl lo hi = slice l lo hi.
  Proof.
    intros H1 H2 H3. destruct n_facts as [Hn _]. pose proof pl_length as Hl.
    rewrite !slice_ok by (unfold n in *; lia). f_equal.
    replace lo with (4 + (lo - 4)) by lia. rewrite <- !skipn_skipn, pl_skipn4, l_skipn4.
    rewrite skipn_app. rewrite firstn_app. rewrite skipn_length.
    replace (hi - (4 + (lo - 4)) - (length rest - (lo - 4))) with 0 by lia. cbn [firstn]. rewrite app_nil_r. reflexivity.
  Qed.

  Lemma pl_idx i : 4 <= i -> i < n -> @idx perr pl i = idx l i.
  Proof.
    intros H1 H2. destruct n_facts as [Hn _]. unfold idx.
    replace i with (4 + (i - 4)) by lia.
    rewrite <- (firstn_skipn 4 pl), <- (firstn_skipn 4 l).
    rewrite !nth_error_app2 by (rewrite firstn_length; pose proof pl_length as Hq; unfold n in *; lia).
    rewrite !firstn_length. pose proof pl_length as Hl.
    replace (4 + (i - 4) - Nat.min 4 (length pl)) with (i - 4) by lia.
    replace (4 + (i - 4) - Nat.min 4 (length l)) with (i - 4) by (unfold n in *; lia).
    rewrite pl_skipn4, l_skipn4. rewrite nth_error_app1 by lia. reflexivity.
  Qed.

  Lemma pl_tail4_slice lo hi : lo <= hi -> 4 + hi <= n ->
    (t <- @tail_from perr pl 4 ;; slice t lo hi) = (t <- tail_from l 4 ;; slice t lo hi).
  Proof.
    intros H1 H2. destruct n_facts as [Hn _]. pose proof pl_length as Hl.
    rewrite !tail_from_ok by (unfold n in *; lia). cbn [bind]. rewrite pl_skipn4, l_skipn4.
    rewrite !slice_ok by (rewrite ?app_length; lia). f_equal.
    rewrite skipn_app, firstn_app, skipn_length. replace (hi - lo - (length rest - lo)) with 0 by lia.
    cbn [firstn]. rewrite app_nil_r. reflexivity.
  Qed.
  Lemma pl_hdr_length : (h <- header_data pl ;; parse_length h) = Ok (n + p).
  Proof.
    destruct n_facts as [Hn [Hmod H4]]. destruct Hp as [Hr Hpm]. pose proof pl_length as Hl.
    unfold header_data. rewrite slice_ok by lia. cbn [bind skipn Nat.sub]. rewrite pl_shape. unfold be16. cbn [app firstn].
    rewrite parse_length_cons. f_equal. unfold n in *. lia.
  Qed.

  Lemma l_hdr_length : (h <- header_data l ;; parse_length h) = Ok n.
  Proof.
    destruct n_facts as [Hn [Hmod H4]]. unfold header_data. rewrite slice_ok by (unfold n in *; lia). cbn [bind skipn Nat.sub].
    rewrite (up_shape _ _ _ _ _ _ _ U). cbn [firstn]. rewrite parse_length_cons. f_equal.
    pose proof (up_len _ _ _ _ _ _ _ U) as H. unfold hdr_len in H. unfold n. lia.
  Qed.

  Lemma pl_idx_pad i : n <= i -> i + 1 < n + p -> @idx perr pl i = Ok 0%N.
  Proof.
    intros H1 H2. destruct n_facts as [Hn _]. unfold idx.
    replace i with (4 + (i - 4)) by lia.
    rewrite <- (firstn_skipn 4 pl).
    rewrite !nth_error_app2 by (rewrite firstn_length; pose proof pl_length as Hq; unfold n in *; lia).
    rewrite !firstn_length. pose proof pl_length as Hl.
    replace (4 + (i - 4) - Nat.min 4 (length pl)) with (i - 4) by lia.
    rewrite pl_skipn4. rewrite nth_error_app2 by lia. rewrite nth_error_app1 by (rewrite zeros_length; lia).
    unfold zeros. rewrite nth_error_repeat by lia. reflexivity.
  Qed.
End Padded.

(* the content accessors: everything obs_view reports except the header and the padding *)
Definition content (p : packet_view) : list kv := skipn 2 (obs_view p).

Definition pbit_clear (l : bytes) : Prop := ((nth 0 l 0 / 32) mod 2 = 0)%N.

Lemma typed_check v l p : v <> VUnknown -> typed_parse v l = Ok p ->
  check_packet (variant_min v) (variant_pt v) l = Ok tt /\ body_ok v l /\ p = mk_pkt v l (pk_chunks p).
Proof.
  intros Hv H. destruct (typed_framed v l p Hv H) as [Hc [Hb [Hd Hpv]]]. split; [exact Hc|]. split; [exact Hb|].
  destruct p as [pv pd pc]. cbn [pk_data pk_variant pk_chunks] in *. subst. reflexivity.
Qed.

Section PerType.
  Variables (l : bytes) (p : nat).
  Hypothesis Hp : legal_pad p.
  Hypothesis Hmax : (N.of_nat (length l + p) <= 262144)%N.
  Hypothesis Hclear : pbit_clear l.

  (* SR and RR *)
  Lemma rb_views_same min b0 b1 c d rest :
    unpadded min l b0 b1 c d rest -> 4 <= min -> min + N.to_nat (b0 mod 32) * 24 <= length l ->
    obs_rbs min (pad_packet l p) = obs_rbs min l.
  Proof.
    intros U Hmin Hbody. unfold obs_rbs, report_blocks.
    rewrite (pl_count min l b0 b1 c d rest p U Hmax Hmin).
    assert (Hc : parse_count l = Ok (b0 mod 32)%N) by (rewrite (up_shape _ _ _ _ _ _ _ U); reflexivity).
    rewrite Hc. cbn [bind]. rewrite (pl_slice min l b0 b1 c d rest p U Hp Hmax Hmin) by lia. reflexivity.
  Qed.

  Theorem sr_padding_transparent v :
    typed_parse VSr l = Ok v ->
    typed_parse VSr (pad_packet l p) = Ok (mk_pkt VSr (pad_packet l p) []) /\
    parse_padding (pad_packet l p) = Ok (Some (N.of_nat p)) /\
    content (mk_pkt VSr (pad_packet l p) []) = content (mk_pkt VSr l []).
  Proof.
    intros H. destruct (typed_check VSr l v ltac:(congruence) H) as [Hc [Hb _]]. cbn [variant_min variant_pt body_ok] in *.
    assert (Hmin : 4 <= 28) by lia.
    destruct (accepted_unpadded 28 SR_PT l Hmin Hc Hclear) as [b0 [c [d [rest U]]]].
    assert (Hcount : N.to_nat (b0 mod 32) = count_of l) by (rewrite (up_shape _ _ _ _ _ _ _ U); reflexivity).
    pose proof (pl_check 28 l b0 SR_PT c d rest p U Hp Hmax Hmin SR_PT eq_refl) as Hpc.
    pose proof (pl_length 28 l b0 SR_PT c d rest p U Hp Hmax Hmin) as Hpl.
    split; [|split; [apply (pl_padding 28 l b0 SR_PT c d rest p U Hp Hmax Hmin)|]].
    - cbn [typed_parse]. unfold sr_parse, SR_MIN. rewrite Hpc. cbn [bind].
      rewrite (pl_count 28 l b0 SR_PT c d rest p U Hmax Hmin).
      assert (Hcnt : parse_count l = Ok (b0 mod 32)%N) by (rewrite (up_shape _ _ _ _ _ _ _ U); reflexivity).
      rewrite Hcnt. cbn [bind]. rewrite Hpl. unfold RB_SIZE.
      destruct (Nat.ltb_spec (length l + p) (28 + N.to_nat (b0 mod 32) * 24)); [lia|reflexivity].
    - unfold content, obs_view. cbn [pk_variant pk_data skipn].
      rewrite (pl_count 28 l b0 SR_PT c d rest p U Hmax Hmin).
      unfold parse_ssrc, sr_ntp, sr_rtp, sr_packet_count, sr_octet_count.
      pose proof (up_min _ _ _ _ _ _ _ U) as Hm.
      rewrite !(pl_slice 28 l b0 SR_PT c d rest p U Hp Hmax Hmin) by lia.
      unfold SR_MIN. rewrite (rb_views_same 28 b0 SR_PT c d rest U Hmin) by lia. reflexivity.
  Qed.

  Theorem rr_padding_transparent v :
    typed_parse VRr l = Ok v ->
    typed_parse VRr (pad_packet l p) = Ok (mk_pkt VRr (pad_packet l p) []) /\
    parse_padding (pad_packet l p) = Ok (Some (N.of_nat p)) /\
    content (mk_pkt VRr (pad_packet l p) []) = content (mk_pkt VRr l []).
  Proof.
    intros H. destruct (typed_check VRr l v ltac:(congruence) H) as [Hc [Hb _]]. cbn [variant_min variant_pt body_ok] in *.
    assert (Hmin : 4 <= 8) by lia.
    destruct (accepted_unpadded 8 RR_PT l Hmin Hc Hclear) as [b0 [c [d [rest U]]]].
    assert (Hcount : N.to_nat (b0 mod 32) = count_of l) by (rewrite (up_shape _ _ _ _ _ _ _ U); reflexivity).
    pose proof (pl_check 8 l b0 RR_PT c d rest p U Hp Hmax Hmin RR_PT eq_refl) as Hpc.
    pose proof (pl_length 8 l b0 RR_PT c d rest p U Hp Hmax Hmin) as Hpl.
    split; [|split; [apply (pl_padding 8 l b0 RR_PT c d rest p U Hp Hmax Hmin)|]].
    - cbn [typed_parse]. unfold rr_parse, RR_MIN. rewrite Hpc. cbn [bind].
      rewrite (pl_count 8 l b0 RR_PT c d rest p U Hmax Hmin).
      assert (Hcnt : parse_count l = Ok (b0 mod 32)%N) by (rewrite (up_shape _ _ _ _ _ _ _ U); reflexivity).
      rewrite Hcnt. cbn [bind]. rewrite Hpl. unfold RB_SIZE.
      destruct (Nat.ltb_spec (length l + p) (8 + N.to_nat (b0 mod 32) * 24)); [lia|reflexivity].
    - unfold content, obs_view. cbn [pk_variant pk_data skipn].
      rewrite (pl_count 8 l b0 RR_PT c d rest p U Hmax Hmin). unfold parse_ssrc.
      pose proof (up_min _ _ _ _ _ _ _ U) as Hm.
      rewrite !(pl_slice 8 l b0 RR_PT c d rest p U Hp Hmax Hmin) by lia.
      unfold RR_MIN. rewrite (rb_views_same 8 b0 RR_PT c d rest U Hmin) by lia. reflexivity.
  Qed.

  (* APP *)
  Theorem app_padding_transparent v :
    typed_parse VApp l = Ok v ->
    typed_parse VApp (pad_packet l p) = Ok (mk_pkt VApp (pad_packet l p) []) /\
    parse_padding (pad_packet l p) = Ok (Some (N.of_nat p)) /\
    content (mk_pkt VApp (pad_packet l p) []) = content (mk_pkt VApp l []).
  Proof.
    intros H. destruct (typed_check VApp l v ltac:(congruence) H) as [Hc _]. cbn [variant_min variant_pt] in *.
    assert (Hmin : 4 <= 12) by lia.
    destruct (accepted_unpadded 12 APP_PT l Hmin Hc Hclear) as [b0 [c [d [rest U]]]].
    pose proof (pl_check 12 l b0 APP_PT c d rest p U Hp Hmax Hmin APP_PT eq_refl) as Hpc.
    pose proof (pl_length 12 l b0 APP_PT c d rest p U Hp Hmax Hmin) as Hpl.
    pose proof (pl_padding 12 l b0 APP_PT c d rest p U Hp Hmax Hmin) as Hpp.
    pose proof (l_padding 12 l b0 APP_PT c d rest U) as Hlp.
    pose proof (up_min _ _ _ _ _ _ _ U) as Hm.
    split; [|split; [exact Hpp|]].
    - cbn [typed_parse]. unfold app_parse, APP_MIN. rewrite Hpc. reflexivity.
    - unfold content, obs_view. cbn [pk_variant pk_data skipn]. unfold parse_ssrc, app_name, app_data.
      rewrite !(pl_slice 12 l b0 APP_PT c d rest p U Hp Hmax Hmin) by lia.
      rewrite Hpp, Hlp. cbn [bind]. rewrite Hpl, Nat2N.id.
      rewrite !usub_ok by lia. cbn [bind]. replace (length l + p - p) with (length l) by lia.
      replace (length l - N.to_nat 0) with (length l) by lia.
      rewrite (pl_slice 12 l b0 APP_PT c d rest p U Hp Hmax Hmin) by lia. reflexivity.
  Qed.

  (* feedback: both kinds *)
  Theorem fb_padding_transparent k v :
    let vv := match k with Transport => VTfb | Payload => VPfb end in
    typed_parse vv l = Ok v ->
    typed_parse vv (pad_packet l p) = Ok (mk_pkt vv (pad_packet l p) []) /\
    parse_padding (pad_packet l p) = Ok (Some (N.of_nat p)) /\
    content (mk_pkt vv (pad_packet l p) []) = content (mk_pkt vv l []).
  Proof.
    intros vv H.
    assert (Hc : check_packet 12 (fb_pt k) l = Ok tt).
    { unfold vv in H. destruct k; cbn [typed_parse] in H; unfold fb_parse, FB_MIN in H;
        destruct (check_packet 12 _ l) as [[]| | |]; cbn [bind] in H; try discriminate; reflexivity. }
    assert (Hmin : 4 <= 12) by lia.
    destruct (accepted_unpadded 12 (fb_pt k) l Hmin Hc Hclear) as [b0 [c [d [rest U]]]].
    pose proof (pl_check 12 l b0 (fb_pt k) c d rest p U Hp Hmax Hmin (fb_pt k) eq_refl) as Hpc.
    pose proof (pl_length 12 l b0 (fb_pt k) c d rest p U Hp Hmax Hmin) as Hpl.
    pose proof (pl_padding 12 l b0 (fb_pt k) c d rest p U Hp Hmax Hmin) as Hpp.
    pose proof (l_padding 12 l b0 (fb_pt k) c d rest U) as Hlp.
    pose proof (up_min _ _ _ _ _ _ _ U) as Hm.
    split; [|split; [exact Hpp|]].
    - unfold vv. destruct k; cbn [typed_parse]; unfold fb_parse, FB_MIN; rewrite Hpc; reflexivity.
    - assert (Hsame : obs_fcis k (pad_packet l p) = obs_fcis k l /\
                      fb_sender_ssrc (pad_packet l p) = fb_sender_ssrc l /\ fb_media_ssrc (pad_packet l p) = fb_media_ssrc l).
      { split; [|split].
        - unfold obs_fcis. f_equal. apply map_ext. intros t. unfold parse_fci.
          rewrite (pl_count 12 l b0 (fb_pt k) c d rest p U Hmax Hmin). unfold fci_slice. rewrite Hpp, Hlp. cbn [bind].
          rewrite Hpl, Nat2N.id. rewrite !usub_ok by lia. cbn [bind].
          replace (length l + p - p) with (length l) by lia. replace (length l - N.to_nat 0) with (length l) by lia.
          rewrite (pl_slice 12 l b0 (fb_pt k) c d rest p U Hp Hmax Hmin) by lia. reflexivity.
        - unfold fb_sender_ssrc, parse_ssrc. rewrite (pl_slice 12 l b0 (fb_pt k) c d rest p U Hp Hmax Hmin) by lia. reflexivity.
        - unfold fb_media_ssrc, parse_ssrc.
          pose proof (pl_tail4_slice 12 l b0 (fb_pt k) c d rest p U Hp Hmax Hmin 4 8 ltac:(lia) ltac:(lia)) as Ht.
          pose proof (pl_length 12 l b0 (fb_pt k) c d rest p U Hp Hmax Hmin) as Hpl'.
          rewrite !tail_from_ok in * by lia. cbn [bind] in *. rewrite Ht. reflexivity. }
      destruct Hsame as [E1 [E2 E3]].
      unfold content, obs_view, vv. destruct k; cbn [pk_variant pk_data skipn]; rewrite E1, E2, E3; reflexivity.
  Qed.
  (* BYE *)
  Theorem bye_padding_transparent v :
    typed_parse VBye l = Ok v ->
    typed_parse VBye (pad_packet l p) = Ok (mk_pkt VBye (pad_packet l p) []) /\
    parse_padding (pad_packet l p) = Ok (Some (N.of_nat p)) /\
    content (mk_pkt VBye (pad_packet l p) []) = content (mk_pkt VBye l []).
  Proof.
    intros H. destruct (typed_check VBye l v ltac:(congruence) H) as [Hc _]. cbn [variant_min variant_pt] in *.
    assert (Hmin : 4 <= 4) by lia.
    destruct (accepted_unpadded 4 BYE_PT l Hmin Hc Hclear) as [b0 [c [d [rest U]]]].
    pose proof (pl_check 4 l b0 BYE_PT c d rest p U Hp Hmax Hmin BYE_PT eq_refl) as Hpc.
    pose proof (pl_length 4 l b0 BYE_PT c d rest p U Hp Hmax Hmin) as Hpl.
    pose proof (pl_padding 4 l b0 BYE_PT c d rest p U Hp Hmax Hmin) as Hpp.
    pose proof (l_padding 4 l b0 BYE_PT c d rest U) as Hlp.
    pose proof (pl_count 4 l b0 BYE_PT c d rest p U Hmax Hmin) as Hcnt.
    pose proof (pl_hdr_length 4 l b0 BYE_PT c d rest p U Hp Hmax Hmin) as Hph.
    pose proof (l_hdr_length 4 l b0 BYE_PT c d rest p U Hmax Hmin) as Hlh.
    assert (Hcl : parse_count l = Ok (b0 mod 32)%N) by (rewrite (up_shape _ _ _ _ _ _ _ U); reflexivity).
    destruct Hp as [Hr Hpm].
    cbn [typed_parse] in H. unfold bye_parse, BYE_MIN in H. rewrite Hc, Hcl in H. cbn [bind] in H.
    set (off := 4 + 4 * N.to_nat (b0 mod 32)) in *.
    destruct (Nat.ltb_spec (length l) off) as [|Hoff]; [discriminate|].
    split; [|split; [exact Hpp|]].
    - cbn [typed_parse]. unfold bye_parse, BYE_MIN. rewrite Hpc, Hcnt, Hcl. cbn [bind]. fold off. rewrite Hpl.
      destruct (Nat.ltb_spec (length l + p) off); [lia|]. destruct (Nat.ltb_spec off (length l + p)); [|lia].
      destruct (Nat.ltb_spec off (length l)) as [Hlt|Hge].
      + rewrite (pl_idx 4 l b0 BYE_PT c d rest p U (conj Hr Hpm) Hmax Hmin) by lia.
        destruct (idx l off) as [rl| | |]; cbn [bind] in *; try discriminate.
        destruct (Nat.ltb_spec (length l) (off + 1 + N.to_nat rl)); [discriminate|].
        destruct (Nat.ltb_spec (length l + p) (off + 1 + N.to_nat rl)); [lia|reflexivity].
      + rewrite (pl_idx_pad 4 l b0 BYE_PT c d rest p U (conj Hr Hpm) Hmax Hmin) by lia. cbn [bind].
        destruct (Nat.ltb_spec (length l + p) (off + 1 + N.to_nat 0)); [lia|reflexivity].
    - unfold content, obs_view. cbn [pk_variant pk_data skipn]. f_equal; [|f_equal].
      + unfold bye_ssrcs. rewrite Hcnt, Hcl. cbn [bind].
        rewrite (pl_slice 4 l b0 BYE_PT c d rest p U (conj Hr Hpm) Hmax Hmin) by lia. reflexivity.
      + unfold bye_reason. rewrite Hcnt, Hcl. cbn [bind].
        unfold header_data in *. rewrite slice_ok in Hph, Hlh |- * by lia. rewrite slice_ok by lia. cbn [bind] in *.
        rewrite Hph, Hlh, Hpp, Hlp. cbn [bind]. rewrite Nat2N.id.
        replace (N.to_nat (b0 mod 32) * 4 + 4) with off by (unfold off; lia).
        replace (off + 1 + N.to_nat 0) with (off + 1) by lia.
        destruct (Nat.ltb_spec (length l + p) (off + 1 + p)), (Nat.ltb_spec (length l) (off + 1)); try lia; [reflexivity|].
        replace (length l + p - (off + 1 + p)) with (length l - (off + 1)) by lia.
        destruct (Nat.eqb_spec (length l - (off + 1)) 0); [reflexivity|].
        rewrite (pl_idx 4 l b0 BYE_PT c d rest p U (conj Hr Hpm) Hmax Hmin) by lia.
        destruct (Nat.ltb_spec off (length l)); [|lia].
        destruct (idx l off) as [rl| | |]; cbn [bind] in *; try reflexivity.
        destruct (Nat.ltb_spec (length l) (off + 1 + N.to_nat rl)); [discriminate|].
        rewrite (pl_slice 4 l b0 BYE_PT c d rest p U (conj Hr Hpm) Hmax Hmin) by lia. reflexivity.
  Qed.
End PerType.

(* ---------------------------------------------------------------- SDES *)

(* the chunk walk reads only the bytes between the offset and the end position *)
Lemma chunks_loop_ext f1 : forall f2 d1 d2 e off,
  (forall o, off <= o -> o <= e -> @slice perr d1 o e = slice d2 o e) ->
  e - off < f1 -> e - off < f2 ->
  chunks_loop f1 d1 e off = chunks_loop f2 d2 e off.
Proof.
  induction f1 as [|f1 IH]; intros f2 d1 d2 e off Hs H1 H2; [lia|].
  destruct f2 as [|f2]; [lia|]. cbn [chunks_loop].
  destruct (Nat.ltb_spec off e) as [Hlt|Hge]; [|reflexivity].
  rewrite (Hs off) by lia.
  destruct (slice d2 off e) as [s| | |]; cbn [bind]; try reflexivity.
  pose proof (chunk_parse_post off s) as Hpost.
  destruct (chunk_parse off s) as [[c sz]| | |] eqn:Ecp; cbn [bind]; try reflexivity.
  cbn [post fst snd] in Hpost. destruct Hpost as [[Hsz _] _].
  destruct (Nat.le_gt_cases (off + sz) e) as [Hin|Hout].
  - rewrite (IH f2 d1 d2 e (off + sz)); [reflexivity| |lia|lia].
    intros o Ho1 Ho2. apply Hs; lia.
  - (* past the end: both walks stop *)
    destruct f1 as [|f1], f2 as [|f2]; try lia; cbn [chunks_loop];
      destruct (Nat.ltb_spec (off + sz) e); try lia; reflexivity.
Qed.

Section SdesPadded.
  Variables (l : bytes) (p : nat).
  Hypothesis Hp : legal_pad p.
  Hypothesis Hmax : (N.of_nat (length l + p) <= 262144)%N.
  Hypothesis Hclear : pbit_clear l.

  Theorem sdes_padding_transparent v :
    typed_parse VSdes l = Ok v ->
    typed_parse VSdes (pad_packet l p) = Ok (mk_pkt VSdes (pad_packet l p) (pk_chunks v)) /\
    parse_padding (pad_packet l p) = Ok (Some (N.of_nat p)) /\
    content (mk_pkt VSdes (pad_packet l p) (pk_chunks v)) = content v.
  Proof.
    intros H. destruct (typed_check VSdes l v ltac:(congruence) H) as [Hc [_ Hv]]. cbn [variant_min variant_pt] in *.
    assert (Hmin : 4 <= 4) by lia.
    destruct (accepted_unpadded 4 SDES_PT l Hmin Hc Hclear) as [b0 [c [d [rest U]]]].
    pose proof (pl_check 4 l b0 SDES_PT c d rest p U Hp Hmax Hmin SDES_PT eq_refl) as Hpc.
    pose proof (pl_length 4 l b0 SDES_PT c d rest p U Hp Hmax Hmin) as Hpl.
    pose proof (pl_padding 4 l b0 SDES_PT c d rest p U Hp Hmax Hmin) as Hpp.
    pose proof (l_padding 4 l b0 SDES_PT c d rest U) as Hlp.
    pose proof (up_min _ _ _ _ _ _ _ U) as Hm.
    split; [|split; [exact Hpp|]].
    - cbn [typed_parse] in *. unfold sdes_parse, SDES_MIN in *. rewrite Hc, Hlp in H. rewrite Hpc, Hpp. cbn [bind] in *.
      rewrite Hpl, Nat2N.id. rewrite usub_ok in H |- * by lia. cbn [bind] in *.
      replace (length l + p - p) with (length l) by lia. replace (length l - N.to_nat 0) with (length l) in H by lia.
      destruct Hp as [Hr Hpm]. destruct (Nat.ltb_spec 4 (length l + p)); [|lia].
      assert (Hcs : chunks_loop (S (length l + p)) (pad_packet l p) (length l) 4 = Ok (pk_chunks v)).
      { destruct (Nat.ltb_spec 4 (length l)) as [Hlt|Hge].
        - rewrite (chunks_loop_ext _ (S (length l)) _ l); [| |lia|lia].
          + destruct (chunks_loop (S (length l)) l (length l) 4) as [cs| | |]; cbn [bind] in H; try discriminate.
            injection H as <-. reflexivity.
          + intros o Ho1 Ho2. apply (pl_slice 4 l b0 SDES_PT c d rest p U (conj Hr Hpm) Hmax Hmin); lia.
        - injection H as <-. cbn [pk_chunks chunks_loop]. destruct (Nat.ltb_spec 4 (length l)); [lia|reflexivity]. }
      rewrite Hcs. reflexivity.
    - rewrite Hv at 2. unfold content, obs_view. cbn [pk_variant pk_data pk_chunks skipn]. reflexivity.
  Qed.
End SdesPadded.

(* ---------------------------------------------------------------- all typed parsers at once *)

Lemma typed_no_chunks v l pv : v <> VSdes -> typed_parse v l = Ok pv -> pk_chunks pv = [].
Proof.
  intros Hv H. destruct v; try congruence; cbn [typed_parse] in H;
    apply bind_ok_inv in H; destruct H as [x [_ H2]]; injection H2 as <-; reflexivity.
Qed.

Theorem padding_transparent v l p pv :
  v <> VUnknown -> legal_pad p -> (N.of_nat (length l + p) <= 262144)%N -> pbit_clear l ->
  typed_parse v l = Ok pv ->
  exists pv', typed_parse v (pad_packet l p) = Ok pv' /\
              pk_data pv' = pad_packet l p /\
              parse_padding (pk_data pv') = Ok (Some (N.of_nat p)) /\
              content pv' = content pv.
Proof.
  intros Hv Hp Hmax Hclear H.
  assert (Hdec : v = VSdes \/ v <> VSdes) by (destruct v; (left; reflexivity) || (right; discriminate)).
  destruct Hdec as [->|Hns].
  - destruct (sdes_padding_transparent l p Hp Hmax Hclear pv H) as [H1 [H2 H3]].
    eexists. split; [exact H1|]. cbn [pk_data]. auto.
  - pose proof (typed_no_chunks v l pv Hns H) as Hnc.
    destruct (typed_check v l pv Hv H) as [_ [_ Hpv]]. rewrite Hnc in Hpv. rewrite Hpv.
    destruct v; try congruence.
    + destruct (app_padding_transparent l p Hp Hmax Hclear pv H) as [H1 [H2 H3]]. eexists. split; [exact H1|]. cbn [pk_data]. auto.
    + destruct (bye_padding_transparent l p Hp Hmax Hclear pv H) as [H1 [H2 H3]]. eexists. split; [exact H1|]. cbn [pk_data]. auto.
    + destruct (rr_padding_transparent l p Hp Hmax Hclear pv H) as [H1 [H2 H3]]. eexists. split; [exact H1|]. cbn [pk_data]. auto.
    + destruct (sr_padding_transparent l p Hp Hmax Hclear pv H) as [H1 [H2 H3]]. eexists. split; [exact H1|]. cbn [pk_data]. auto.
    + destruct (fb_padding_transparent l p Hp Hmax Hclear Transport pv H) as [H1 [H2 H3]]. eexists. split; [exact H1|]. cbn [pk_data]. auto.
    + destruct (fb_padding_transparent l p Hp Hmax Hclear Payload pv H) as [H1 [H2 H3]]. eexists. split; [exact H1|]. cbn [pk_data]. auto.
Qed.

(* the premises are satisfiable: an SDES packet with one CNAME item, a BYE with a reason, and a NACK *)
Example padding_premises_hold :
  let sdes := [129; 202; 0; 2; 0; 0; 0; 9; 1; 2; 97; 98]%N in
  let bye := [129; 203; 0; 2; 0; 0; 0; 9; 2; 104; 105; 0]%N in
  let nack := [129; 205; 0; 3; 0; 0; 0; 1; 0; 0; 0; 2; 0; 7; 0; 5]%N in
  legal_pad 8 /\
  (pbit_clear sdes /\ exists pv, typed_parse VSdes sdes = Ok pv /\ pk_chunks pv <> []) /\
  (pbit_clear bye /\ exists pv, typed_parse VBye bye = Ok pv) /\
  (pbit_clear nack /\ exists pv, typed_parse VTfb nack = Ok pv).
Proof.
  cbv zeta. split; [unfold legal_pad; split; [lia|reflexivity]|].
  split; [split; [reflexivity|eexists; split; [vm_compute; reflexivity|cbn [pk_chunks]; discriminate]]|].
  split; (split; [reflexivity|eexists; vm_compute; reflexivity]).
Qed.

(* [pad_packet] applied to an unpadded image of the independent encoder is the encoder's image of the same
   packet with padding: the statement above therefore covers every (image, padding) pair the encoder defines *)
Theorem pad_packet_image pt cnt n (body : bytes) p :
  4 + length body = n -> legal_pad p ->
  pad_packet (image pt 0 cnt n body) p = image pt (N.of_nat p) cnt (n + p) body.
Proof.
  intros Hn [Hp Hm]. unfold image, rfc_header, rfc_trailer, pad_packet.
  replace (0 <? 0)%N with false by reflexivity. replace (0 <? N.of_nat p)%N with true by (symmetry; apply N.ltb_lt; lia).
  unfold be16. cbn [app]. rewrite app_nil_r.
  assert (Hl : length ((128 + 0 + cnt)%N :: pt :: (N.of_nat (n / 4 - 1) / 256 mod 256)%N :: (N.of_nat (n / 4 - 1) mod 256)%N :: body) = n)
    by (cbn [length]; lia).
  rewrite Hl. rewrite Nat2N.id. replace (128 + 0 + cnt + 32)%N with (128 + 32 + cnt)%N by lia. reflexivity.
Qed.
