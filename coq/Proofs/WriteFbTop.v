(* The feedback packet writer produces exactly the RFC image. *)
From RtcpV Require Export Proofs.NackFir.

Definition fci_wf (f : fci_cfg) : Prop :=
  match f with FNack adds => forall x, In x adds -> (x < 65536)%N | _ => True end.

Lemma nack_encode_len w : length (nack_encode w) = 4. Proof. reflexivity. Qed.

Lemma fci_write_ok f k (rest : bytes) :
  fci_wf f -> fci_calc f = Ok k -> pad4 k <= length rest ->
  length (rfc_fci f) = pad4 k /\
  fci_write f rest = Ok (pad4 k, rfc_fci f ++ skipn (pad4 k) rest).
Proof.
  intros Hwf Hc Hfit. destruct f as [adds|adds|es|pt bits ov|]; cbn [fci_calc fci_write rfc_fci] in *.
  - (* NACK *)
    destruct (65533 <? N.of_nat (length (nack_words None 0%N (nack_set adds))))%N; [discriminate|]. injection Hc as <-.
    destruct (nack_set_spec adds) as [Hasc Hin].
    rewrite (nack_words_rfc (nack_set adds) (length (nack_set adds))) in *
      by (auto; intros x Hx; apply Hwf; apply Hin; exact Hx).
    rewrite nack_set_rfc in *.
    set (ws := rfc_nack_words (length (rfc_set adds)) (rfc_set adds)) in *.
    assert (Hf : Forall (fun w => length w = 4) (map nack_encode ws))
      by (apply Forall_forall; intros w Hw; apply in_map_iff in Hw; destruct Hw as [x [<- _]]; reflexivity).
    assert (Hmap : map (fun w => be16 (fst w) ++ be16 (snd w)) ws = map nack_encode ws) by reflexivity.
    rewrite Hmap. rewrite pad4_id in * by lia.
    assert (Hl : length (concat (map nack_encode ws)) = length ws * 4)
      by (rewrite concat_words4_length by exact Hf; rewrite map_length; lia).
    split; [exact Hl|].
    change rest with ([] ++ rest) at 1. rewrite write_words4_ok by (auto; rewrite map_length; lia).
    rewrite map_length. cbn [app Nat.add]. f_equal. f_equal; [lia|]. f_equal. f_equal. lia.
  - (* FIR *)
    destruct (32766 <? N.of_nat (length (fir_map adds)))%N; [discriminate|]. injection Hc as <-.
    rewrite pad4_id in * by lia. rewrite fir_map_rfc in *.
    assert (Hmap : map (fun kv => be32 (fst kv) ++ [snd kv; 0; 0; 0]%N) (rfc_fir_map adds) =
                   map fir_entry (rfc_fir_map adds)) by reflexivity.
    rewrite Hmap. split; [rewrite concat_fir_length; lia|].
    change rest with ([] ++ rest) at 1. rewrite fir_write_ok by (cbn [length]; lia).
    cbn [app Nat.add]. f_equal. f_equal; [lia|]. f_equal. f_equal. lia.
  - (* SLI *)
    injection Hc as <-. rewrite pad4_id in * by lia.
    assert (Hl : length (concat (map rfc_sli_word es)) = 4 * length es).
    { rewrite (concat_words4_length (map rfc_sli_word es)); [rewrite map_length; reflexivity|].
      apply Forall_forall. intros w Hw.
      apply in_map_iff in Hw. destruct Hw as [[[a b] c] [<- _]]. reflexivity. }
    split; [exact Hl|].
    change rest with ([] ++ rest) at 1. rewrite sli_write_ok by (cbn [length]; lia). reflexivity.
  - (* RPSI *)
    destruct (127 <? pt)%N; [discriminate|].
    destruct (N.ltb_spec 8 ov); cbn [orb] in Hc; [discriminate|].
    destruct (match bits with [] => true | _ :: _ => false end && (0 <? ov)%N); [discriminate|].
    injection Hc as <-. rewrite pad4_id in * by apply pad4_mod.
    split; [apply rfc_rpsi_length|]. apply rpsi_write_ok; assumption.
  - (* PLI *)
    injection Hc as <-. split; reflexivity.
Qed.

Lemma fb_calc_ok c n :
  fb_calc c = Ok n ->
  (fb_c_padding c mod 4 = 0)%N /\ fci_kind (fci_cfg_type (fb_c_fci c)) = fb_c_kind c /\
  exists k, fci_calc (fb_c_fci c) = Ok k /\ n = 12 + pad4 k + N.to_nat (fb_c_padding c).
Proof.
  unfold fb_calc, FB_MIN. intros H. apply bind_ok_inv in H. destruct H as [[] [Hp H]]. apply check_padding_ok in Hp.
  destruct (fb_kind_eqb (fci_kind (fci_cfg_type (fb_c_fci c))) (fb_c_kind c)) eqn:Hk; cbn [negb] in H; [|discriminate].
  apply bind_ok_inv in H. destruct H as [k [Hc [= <-]]].
  split; [exact Hp|]. split; [|eauto].
  destruct (fci_kind (fci_cfg_type (fb_c_fci c))), (fb_c_kind c); cbn in Hk; congruence.
Qed.

Lemma fb_format_lt f : (fci_format (fci_cfg_type f) < 32)%N.
Proof. destruct f; cbn; lia. Qed.

Theorem fb_write_ok c n (s : bytes) :
  fci_wf (fb_c_fci c) -> fb_calc c = Ok n -> length s = n -> fb_write_unchecked c s = Ok (n, rfc_fb c).
Proof.
  intros Hwf Hc Hs. apply fb_calc_ok in Hc. destruct Hc as [Hp [Hk [k [Hfc Hn]]]].
  unfold fb_write_unchecked. rewrite Hk.
  replace (fb_kind_eqb (fb_c_kind c) (fb_c_kind c)) with true by (destruct (fb_c_kind c); reflexivity). cbn [negb].
  rewrite write_header_ok by lia. cbn [bind]. rewrite Hs.
  rewrite hdr_bytes_rfc by apply fb_format_lt.
  remember (rfc_header (fb_pt (fb_c_kind c)) (fb_c_padding c) (fci_format (fci_cfg_type (fb_c_fci c))) n) as hdr eqn:Hhdr.
  assert (Hh : length hdr = 4) by (subst hdr; reflexivity).
  rewrite (copy_at hdr) by len. cbn [bind]. rewrite skipn_skipn.
  rewrite (copy_at (hdr ++ _)) by len. cbn [bind]. rewrite skipn_skipn.
  rewrite with_tail_at by len.
  destruct (fci_write_ok (fb_c_fci c) k (skipn (4 + length (be32 (fb_c_sender c)) + length (be32 (fb_c_media c))) s) Hwf Hfc)
    as [Hl Hw]; [len|]. rewrite Hw. cbn [bind]. rewrite skipn_skipn.
  rewrite app_assoc. rewrite trailer_at_end by len. cbn [bind].
  f_equal. f_equal; [lia|]. subst hdr. unfold rfc_fb. rewrite Hl, <- Hn.
  assert (Hpt : fb_pt (fb_c_kind c) = match fb_c_kind c with Transport => 205%N | Payload => 206%N end)
    by (destruct (fb_c_kind c); reflexivity).
  assert (Hfmt : fci_format (fci_cfg_type (fb_c_fci c)) =
                 match fb_c_fci c with FNack _ => 1 | FPli => 1 | FSli _ => 2 | FRpsi _ _ _ => 3 | FFir _ => 4 end%N)
    by (destruct (fb_c_fci c); reflexivity).
  rewrite Hpt, Hfmt. rewrite <- !app_assoc. reflexivity.
Qed.
