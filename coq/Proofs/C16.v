(* C16: builders accept exactly the representable configurations, and name a violated rule. *)
From RtcpV Require Export Spec.Ref Proofs.Members.

Definition accepts_iff (m : member) : Prop :=
  ((exists n, m_calc m = Ok n) <-> violations m = []) /\
  (forall e, m_calc m = Err e -> In e (violations m)).

Lemma app_nil_iff {A} (a b : list A) : a ++ b = [] <-> a = [] /\ b = [].
Proof. split; [apply app_eq_nil|intros [-> ->]; reflexivity]. Qed.

Lemma pad_viol_spec p :
  (check_padding p = Ok tt /\ pad_violations p = []) \/
  (check_padding p = Err (InvalidPadding p) /\ pad_violations p = [InvalidPadding p]).
Proof.
  unfold check_padding, pad_violations. destruct (N.eqb_spec (p mod 4) 0); cbn [negb]; [left|right]; auto.
Qed.

Lemma rbs_viol_spec bs :
  (exists n, rbs_calc bs = Ok n /\ flat_map rb_violations bs = []) \/
  (exists e, rbs_calc bs = Err e /\ In e (flat_map rb_violations bs)).
Proof.
  induction bs as [|b bs IH]; cbn [rbs_calc flat_map]; [left; eauto|].
  unfold rb_calc. unfold rb_violations at 1 3.
  destruct (N.eqb_spec (rb_c_cumulative b / 16777216) 0) as [Hz|Hnz]; cbn [negb bind].
  - destruct (N.ltb_spec 16777215 (rb_c_cumulative b)) as [G|G]; [exfalso; lia|]. cbn [app].
    destruct IH as [[n [Hn Hv]]|[e [He Hin]]].
    + rewrite Hn. cbn [bind]. left. eauto.
    + rewrite He. cbn [bind]. right. eauto.
  - destruct (N.ltb_spec 16777215 (rb_c_cumulative b)) as [G|G]; [|exfalso; lia].
    right. eexists. split; [reflexivity|]. now left.
Qed.

Ltac viol_nil := repeat (rewrite app_nil_iff); cbn [app]; intuition (try discriminate; try congruence).

Lemma c16_sr c : accepts_iff (MSr c).
Proof.
  unfold accepts_iff. cbn [m_calc violations]. unfold sr_calc.
  destruct (Nat.ltb_spec 31 (length (sr_c_blocks c))) as [Hgt|Hle].
  - split; [split; [intros [n H]; discriminate|intros H; discriminate]|]. intros e [= <-]. now left.
  - cbn [app]. destruct (pad_viol_spec (sr_c_padding c)) as [[-> ->]|[-> ->]]; cbn [bind app].
    + destruct (rbs_viol_spec (sr_c_blocks c)) as [[n [-> Hv]]|[e [-> Hin]]]; cbn [bind]; rewrite ?Hv.
      * split; [split; eauto|]. intros e; discriminate.
      * split; [split; [intros [n H]; discriminate|intros H; rewrite H in Hin; contradiction]|]. intros e' [= <-]. exact Hin.
    + split; [split; [intros [n H]; discriminate|discriminate]|]. intros e [= <-]. now left.
Qed.

Lemma c16_rr c : accepts_iff (MRr c).
Proof.
  unfold accepts_iff. cbn [m_calc violations]. unfold rr_calc.
  destruct (Nat.ltb_spec 31 (length (rr_c_blocks c))) as [Hgt|Hle].
  - split; [split; [intros [n H]; discriminate|intros H; discriminate]|]. intros e [= <-]. now left.
  - cbn [app]. destruct (pad_viol_spec (rr_c_padding c)) as [[-> ->]|[-> ->]]; cbn [bind app].
    + destruct (rbs_viol_spec (rr_c_blocks c)) as [[n [-> Hv]]|[e [-> Hin]]]; cbn [bind]; rewrite ?Hv.
      * split; [split; eauto|]. intros e; discriminate.
      * split; [split; [intros [n H]; discriminate|intros H; rewrite H in Hin; contradiction]|]. intros e' [= <-]. exact Hin.
    + split; [split; [intros [n H]; discriminate|discriminate]|]. intros e [= <-]. now left.
Qed.

Lemma c16_app c : accepts_iff (MApp c).
Proof.
  unfold accepts_iff. cbn [m_calc violations]. unfold app_calc, is_ascii.
  destruct (N.ltb_spec 31 (app_c_subtype c)) as [G1|G1].
  - split; [split; [intros [n H]; discriminate|discriminate]|]. intros e [= <-]. now left.
  - cbn [app]. destruct ((4 <? length (app_c_name c)) || negb (forallb (fun b => (b <? 128)%N) (app_c_name c))) eqn:G2.
    + split; [split; [intros [n H]; discriminate|discriminate]|]. intros e [= <-]. now left.
    + cbn [app]. destruct (Nat.eqb_spec (length (app_c_data c) mod 4) 0) as [G3|G3]; cbn [negb app].
      * destruct (pad_viol_spec (app_c_padding c)) as [[-> ->]|[-> ->]]; cbn [bind].
        -- split; [split; eauto|]. intros e; discriminate.
        -- split; [split; [intros [n H]; discriminate|discriminate]|]. intros e [= <-]. now left.
      * split; [split; [intros [n H]; discriminate|discriminate]|]. intros e [= <-]. now left.
Qed.

Lemma c16_bye c : accepts_iff (MBye c).
Proof.
  unfold accepts_iff. cbn [m_calc violations]. unfold bye_calc.
  destruct (Nat.ltb_spec 31 (length (bye_c_sources c))) as [G1|G1].
  - split; [split; [intros [n H]; discriminate|discriminate]|]. intros e [= <-]. now left.
  - cbn [app]. destruct (pad_viol_spec (bye_c_padding c)) as [[-> ->]|[-> ->]]; cbn [bind app].
    + destruct (bye_c_reason c) as [|x r] eqn:Hr.
      * cbn [length]. replace (255 <? 0) with false by reflexivity. split; [split; eauto|]. intros e; discriminate.
      * destruct (Nat.ltb_spec 255 (length (x :: r))) as [G2|G2].
        -- split; [split; [intros [n H]; discriminate|discriminate]|]. intros e [= <-]. now left.
        -- split; [split; eauto|]. intros e; discriminate.
    + split; [split; [intros [n H]; discriminate|discriminate]|]. intros e [= <-]. now left.
Qed.

Lemma item_viol_spec it :
  (exists n, item_calc it = Ok n /\ item_violations it = []) \/
  (exists e, item_calc it = Err e /\ In e (item_violations it)).
Proof.
  unfold item_calc, item_violations, PRIV. destruct (it_c_type it =? 8)%N.
  - destruct (Nat.ltb_spec 255 (length (it_c_prefix it) + 1)) as [G1|G1].
    + destruct (Nat.ltb_spec 254 (length (it_c_prefix it))); [|lia]. right. eexists. split; [reflexivity|]. now left.
    + destruct (Nat.ltb_spec 254 (length (it_c_prefix it))); [lia|]. cbn [app].
      destruct (Nat.ltb_spec 255 (length (it_c_prefix it) + 1 + length (it_c_value it))) as [G2|G2].
      * destruct (Nat.ltb_spec 254 (length (it_c_prefix it) + length (it_c_value it))); [|lia].
        right. eexists. split; [reflexivity|]. left. f_equal. rewrite N.mod_small by lia. reflexivity.
      * destruct (Nat.ltb_spec 254 (length (it_c_prefix it) + length (it_c_value it))); [lia|]. left. eauto.
  - destruct (Nat.ltb_spec 255 (length (it_c_value it))); [right; eexists; split; [reflexivity|now left]|left; eauto].
Qed.

Lemma items_viol_spec its :
  (exists n, items_calc its = Ok n /\ flat_map item_violations its = []) \/
  (exists e, items_calc its = Err e /\ In e (flat_map item_violations its)).
Proof.
  induction its as [|it its IH]; cbn [items_calc flat_map]; [left; eauto|].
  destruct (item_viol_spec it) as [[n [Hn Hv]]|[e [He Hin]]]; [rewrite Hn|rewrite He]; cbn [bind].
  - rewrite Hv. cbn [app]. destruct IH as [[k [-> Hk]]|[e [-> Hin]]]; cbn [bind]; [left; eauto|right; eauto].
  - right. eexists. split; [reflexivity|]. apply in_or_app. now left.
Qed.

Lemma chunks_viol_spec cs :
  (exists n, chunks_calc cs = Ok n /\ flat_map (fun ch => flat_map item_violations (ch_c_items ch)) cs = []) \/
  (exists e, chunks_calc cs = Err e /\ In e (flat_map (fun ch => flat_map item_violations (ch_c_items ch)) cs)).
Proof.
  induction cs as [|c cs IH]; cbn [chunks_calc flat_map]; [left; eauto|]. unfold chunk_calc.
  destruct (items_viol_spec (ch_c_items c)) as [[n [Hn Hv]]|[e [He Hin]]]; [rewrite Hn|rewrite He]; cbn [bind].
  - rewrite Hv. cbn [app]. destruct IH as [[k [-> Hk]]|[e [-> Hin]]]; cbn [bind]; [left; eauto|right; eauto].
  - right. eexists. split; [reflexivity|]. apply in_or_app. now left.
Qed.

Lemma c16_sdes c : accepts_iff (MSdes c).
Proof.
  unfold accepts_iff. cbn [m_calc violations]. unfold sdes_calc.
  destruct (Nat.ltb_spec 31 (length (sdes_c_chunks c))) as [G1|G1].
  - split; [split; [intros [n H]; discriminate|discriminate]|]. intros e [= <-]. now left.
  - cbn [app]. destruct (pad_viol_spec (sdes_c_padding c)) as [[-> ->]|[-> ->]]; cbn [bind app].
    + destruct (chunks_viol_spec (sdes_c_chunks c)) as [[n [-> Hv]]|[e [-> Hin]]]; cbn [bind]; rewrite ?Hv.
      * split; [split; eauto|]. intros e; discriminate.
      * split; [split; [intros [n H]; discriminate|intros H; rewrite H in Hin; contradiction]|]. intros e' [= <-]. exact Hin.
    + split; [split; [intros [n H]; discriminate|discriminate]|]. intros e [= <-]. now left.
Qed.

Lemma c16_unk c : accepts_iff (MUnk c).
Proof.
  unfold accepts_iff. cbn [m_calc violations]. unfold unk_calc.
  destruct (N.ltb_spec 31 (unk_c_count c)) as [G1|G1].
  - split; [split; [intros [n H]; discriminate|discriminate]|]. intros e [= <-]. now left.
  - cbn [app]. destruct (pad_viol_spec (unk_c_padding c)) as [[-> ->]|[-> ->]]; cbn [bind app].
    + destruct (Nat.eqb_spec (length (unk_c_data c) mod 4) 0) as [G3|G3]; cbn [negb].
      * split; [split; eauto|]. intros e; discriminate.
      * split; [split; [intros [n H]; discriminate|discriminate]|]. intros e [= <-]. now left.
    + split; [split; [intros [n H]; discriminate|discriminate]|]. intros e [= <-]. now left.
Qed.

Lemma c16_custom c : accepts_iff (MCustom c).
Proof.
  unfold accepts_iff. cbn [m_calc violations]. unfold custom_calc.
  destruct (pad_viol_spec (cu_padding c)) as [[-> ->]|[-> ->]]; cbn [bind].
  - split; [split; eauto|]. intros e; discriminate.
  - split; [split; [intros [n H]; discriminate|discriminate]|]. intros e [= <-]. now left.
Qed.

Lemma c16_fb c : fci_wf (fb_c_fci c) -> accepts_iff (MFb c).
Proof.
  intros Hwf. unfold accepts_iff. cbn [m_calc violations]. unfold fb_calc.
  destruct (pad_viol_spec (fb_c_padding c)) as [[-> ->]|[-> ->]]; cbn [bind app].
  2:{ split; [split; [intros [n H]; discriminate|discriminate]|]. intros e [= <-]. now left. }
  unfold fci_violations.
  assert (Hkind : fb_kind_eqb (fci_kind (fci_cfg_type (fb_c_fci c))) (fb_c_kind c) =
                  fb_kind_eqb (match fb_c_fci c with FNack _ => Transport | _ => Payload end) (fb_c_kind c))
    by (destruct (fb_c_fci c); reflexivity).
  rewrite Hkind.
  destruct (fb_kind_eqb (match fb_c_fci c with FNack _ => Transport | _ => Payload end) (fb_c_kind c)); cbn [negb app].
  2:{ split; [split; [intros [n H]; discriminate|discriminate]|]. intros e [= <-]. now left. }
  destruct (fb_c_fci c) as [adds|adds|es|pt bits ov|] eqn:Hf; cbn [fci_calc].
  - (* NACK *)
    destruct (nack_set_spec adds) as [Hasc Hin].
    rewrite (nack_words_rfc (nack_set adds) (length (nack_set adds)))
      by (auto; intros x Hx; apply Hwf; apply Hin; exact Hx).
    rewrite nack_set_rfc.
    destruct (65533 <? N.of_nat (length (rfc_nack_words (length (rfc_set adds)) (rfc_set adds))))%N; cbn [bind].
    + split; [split; [intros [n H]; discriminate|discriminate]|]. intros e [= <-]. now left.
    + split; [split; eauto|]. intros e; discriminate.
  - rewrite fir_map_rfc. destruct (32766 <? N.of_nat (length (rfc_fir_map adds)))%N; cbn [bind].
    + split; [split; [intros [n H]; discriminate|discriminate]|]. intros e [= <-]. now left.
    + split; [split; eauto|]. intros e; discriminate.
  - cbn [bind]. split; [split; eauto|]. intros e; discriminate.
  - destruct (N.ltb_spec 127 pt) as [G1|G1]; cbn [app bind].
    + split; [split; [intros [n H]; discriminate|discriminate]|]. intros e [= <-]. now left.
    + assert (Hsame : ((8 <? ov)%N || match bits with [] => true | _ :: _ => false end && (0 <? ov)%N) =
                      ((8 <? ov)%N || match bits with [] => (0 <? ov)%N | _ :: _ => false end))
        by (destruct bits; [rewrite andb_true_l|rewrite andb_false_l]; reflexivity).
      rewrite Hsame. destruct ((8 <? ov)%N || match bits with [] => (0 <? ov)%N | _ :: _ => false end); cbn [bind].
      * split; [split; [intros [n H]; discriminate|discriminate]|]. intros e [= <-]. now left.
      * split; [split; eauto|]. intros e; discriminate.
  - cbn [bind]. split; [split; eauto|]. intros e; discriminate.
Qed.

(* ---------------------------------------------------------------- compounds *)

Definition compound_violations (ms : list member) : list werr := violations (MCompound ms).

Lemma compound_violations_cons m r :
  compound_violations (m :: r) =
  violations m ++
  (match r, m_padding m with
   | _ :: _, Some p => if (0 <? p)%N then [NonLastCompoundPacketPadding] else []
   | _, _ => []
   end) ++ compound_violations r.
Proof. reflexivity. Qed.

Lemma c16_compound ms : Forall accepts_iff ms -> accepts_iff (MCompound ms).
Proof.
  intros Hall. unfold accepts_iff. change (m_calc (MCompound ms)) with (compound_calc ms).
  change (violations (MCompound ms)) with (compound_violations ms).
  induction Hall as [|m r [Hm1 Hm2] Hr [IH1 IH2]].
  - split; [split; [reflexivity|intros _; exists 0; reflexivity]|]. intros e; discriminate.
  - rewrite compound_calc_cons, compound_violations_cons.
    destruct (m_calc m) as [n|e| |] eqn:Hc; cbn [bind].
    + assert (Hv : violations m = []) by (apply Hm1; eauto). rewrite Hv. cbn [app].
      assert (Hpadrule :
        ((match r with [] => false | _ :: _ => true end) &&
         (0 <? match m_padding m with Some p => p | None => 0%N end)%N) =
        match (match r, m_padding m with
               | _ :: _, Some p => if (0 <? p)%N then [NonLastCompoundPacketPadding] else []
               | _, _ => []
               end) with [] => false | _ => true end).
      { destruct r; [reflexivity|]. destruct (m_padding m) as [p|]; [|reflexivity]. cbn [andb]. destruct (0 <? p)%N; reflexivity. }
      rewrite Hpadrule.
      destruct (match r, m_padding m with
                | _ :: _, Some p => if (0 <? p)%N then [NonLastCompoundPacketPadding] else []
                | _, _ => []
                end) as [|w ws] eqn:Hrule.
      * cbn [app]. destruct (compound_calc r) as [k|e| |] eqn:Hk; cbn [bind].
        -- split; [split; [intros _; apply IH1; eauto|eauto]|]. intros e; discriminate.
        -- split; [split; [intros [x H]; discriminate|intros H; exfalso; apply IH1 in H; destruct H; discriminate]|].
           intros e' [= <-]. apply IH2. reflexivity.
        -- split; [split; [intros [x H]; discriminate|intros H; exfalso; apply IH1 in H; destruct H; discriminate]|].
           intros e'; discriminate.
        -- split; [split; [intros [x H]; discriminate|intros H; exfalso; apply IH1 in H; destruct H; discriminate]|].
           intros e'; discriminate.
      * split; [split; [intros [x H]; discriminate|discriminate]|].
        intros e [= <-]. apply in_or_app. left.
        destruct r; [discriminate|]. destruct (m_padding m) as [p|]; [|discriminate].
        destruct (0 <? p)%N; [|discriminate]. injection Hrule as <- <-. now left.
    + split; [split; [intros [x H]; discriminate|]|].
      * intros H. apply app_eq_nil in H. destruct H as [H _]. exfalso. apply Hm1 in H. destruct H; discriminate.
      * intros e' [= <-]. apply in_or_app. left. apply Hm2. reflexivity.
    + split; [split; [intros [x H]; discriminate|]|]; [|intros; discriminate].
      intros H. apply app_eq_nil in H. destruct H as [H _]. exfalso. apply Hm1 in H. destruct H; discriminate.
    + split; [split; [intros [x H]; discriminate|]|]; [|intros; discriminate].
      intros H. apply app_eq_nil in H. destruct H as [H _]. exfalso. apply Hm1 in H. destruct H; discriminate.
Qed.

Theorem builders_accept_exactly_representable m : member_wf m -> accepts_iff m.
Proof.
  induction m as [c|c|c|c|c|c|c|c|ms IH] using member_ind'; intros Hwf.
  - apply c16_sr. - apply c16_rr. - apply c16_app. - apply c16_bye. - apply c16_sdes.
  - apply c16_fb. exact Hwf. - apply c16_unk. - apply c16_custom.
  - apply member_wf_compound in Hwf. apply c16_compound.
    rewrite Forall_forall in *. intros x Hx. apply IH; [exact Hx|apply Hwf; exact Hx].
Qed.

Theorem accepts_iff_representable m :
  member_wf m -> ((exists n, m_calc m = Ok n) <-> representable m = true).
Proof.
  intros Hwf. destruct (builders_accept_exactly_representable m Hwf) as [H _]. rewrite H.
  unfold representable. destruct (violations m); split; congruence.
Qed.

Theorem rejection_names_a_violated_rule m e :
  member_wf m -> m_calc m = Err e -> In e (violations m).
Proof. intros Hwf. apply (builders_accept_exactly_representable m Hwf). Qed.

(* the known finding D13: nothing limits the total size *)
Theorem oversize_is_accepted :
  exists m n, member_wf m /\ m_calc m = Ok n /\ (262144 < N.of_nat n)%N /\ representable m = true.
Proof.
  set (k := N.to_nat 262144).
  assert (Hk : k mod 4 = 0) by (unfold k; lia).
  exists (MApp (mk_app 1 0 0 [] (repeat 0%N k))), (12 + 0 + k).
  assert (Hc : m_calc (MApp (mk_app 1 0 0 [] (repeat 0%N k))) = Ok (12 + 0 + k)).
  { cbn [m_calc]. unfold app_calc. cbn [app_c_subtype app_c_name app_c_data app_c_padding length is_ascii forallb].
    replace (31 <? 0)%N with false by reflexivity. replace (4 <? 0) with false by reflexivity. cbn [orb negb].
    rewrite repeat_length. destruct (Nat.eqb_spec (k mod 4) 0); [|contradiction]. cbn [negb].
    unfold check_padding. replace (0 mod 4 =? 0)%N with true by reflexivity. cbn [negb bind]. reflexivity. }
  split; [exact I|]. split; [exact Hc|]. split; [unfold k; lia|].
  apply accepts_iff_representable; [exact I|eauto].
Qed.

(* with the total-size rule included, the statement holds outside the known class (DESIGN.md, D13) *)
Theorem accepts_iff_representable_full m :
  member_wf m -> m_oversize m = false ->
  ((exists n, m_calc m = Ok n) <-> representable_full m = true).
Proof.
  intros Hwf Hs. rewrite accepts_iff_representable by exact Hwf.
  unfold representable_full. rewrite Hs. cbn [negb]. rewrite andb_true_r. reflexivity.
Qed.
