(* Reading fields back out of an image written as a concatenation of segments. *)
From RtcpV Require Export Proofs.Buf.

Section Read.
  Context {E : Type}.

  Lemma slice_skip (a r : bytes) lo hi :
    length a <= lo -> lo <= hi -> @slice E (a ++ r) lo hi = slice r (lo - length a) (hi - length a).
  Proof.
    intros Ha Hle. unfold slice. rewrite app_length.
    destruct (Nat.ltb_spec hi lo); [lia|]. destruct (Nat.ltb_spec (hi - length a) (lo - length a)); [lia|].
    destruct (Nat.ltb_spec (length a + length r) hi), (Nat.ltb_spec (length r) (hi - length a)); try lia; [reflexivity|].
    rewrite (skipn_app_len a r lo (lo - length a)) by lia. f_equal. f_equal. lia.
  Qed.

  Lemma slice_take (a r : bytes) hi : hi = length a -> @slice E (a ++ r) 0 hi = Ok a.
  Proof.
    intros ->. rewrite slice_ok by (rewrite ?app_length; lia). cbn [skipn]. rewrite Nat.sub_0_r.
    rewrite firstn_app_len by reflexivity. reflexivity.
  Qed.

  Lemma slice_take_all (a : bytes) hi : hi = length a -> @slice E a 0 hi = Ok a.
  Proof. intros ->. rewrite slice_ok by lia. cbn [skipn]. rewrite Nat.sub_0_r, firstn_all. reflexivity. Qed.

  Lemma idx_skip (a r : bytes) i : length a <= i -> @idx E (a ++ r) i = idx r (i - length a).
  Proof. apply idx_app_r. Qed.

  Lemma idx_head b (r : bytes) : @idx E (b :: r) 0 = Ok b.
  Proof. reflexivity. Qed.

  Lemma tail_from_skip (a r : bytes) lo : length a <= lo -> @tail_from E (a ++ r) lo = tail_from r (lo - length a).
  Proof.
    intros H. unfold tail_from. rewrite app_length.
    destruct (Nat.ltb_spec (length a + length r) lo), (Nat.ltb_spec (length r) (lo - length a)); try lia; [reflexivity|].
    rewrite (skipn_app_len a r lo (lo - length a)) by lia. reflexivity.
  Qed.
End Read.

Lemma last_app_nonempty {A} (a b : list A) d : b <> [] -> last (a ++ b) d = last b d.
Proof.
  intros Hb. induction a as [|x a IH]; [reflexivity|]. cbn [app].
  destruct (a ++ b) as [|y t] eqn:Hab.
  - destruct a; cbn in Hab; [congruence|discriminate].
  - change (last (x :: y :: t) d) with (last (y :: t) d). exact IH.
Qed.

Lemma last_snoc {A} (a : list A) x d : last (a ++ [x]) d = x.
Proof. rewrite last_app_nonempty by congruence. reflexivity. Qed.

Lemma rfc_trailer_last p : (0 < p)%N -> last (rfc_trailer p) 0%N = p.
Proof. intros H. unfold rfc_trailer. destruct (N.ltb_spec 0 p); [|lia]. apply last_snoc. Qed.

Lemma rfc_trailer_nonempty p : (0 < p)%N -> rfc_trailer p <> [].
Proof. intros H. unfold rfc_trailer. destruct (N.ltb_spec 0 p); [|lia]. destruct (zeros (N.to_nat p - 1)); discriminate. Qed.

Lemma rfc_trailer_zero : rfc_trailer 0 = [].
Proof. reflexivity. Qed.
