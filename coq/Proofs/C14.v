(* C14: a compound is the concatenation of its members and parses back to them. *)
From RtcpV Require Export Proofs.C19 Proofs.ParseTotal.

(* ---------------------------------------------------------------- when the builder accepts *)

Fixpoint only_last_padded (ms : list member) : Prop :=
  match ms with
  | [] => True
  | m :: r => (match r with [] => True | _ => match m_padding m with Some p => (p = 0)%N | None => True end end) /\
              only_last_padded r
  end.

Theorem compound_accepts_iff ms :
  (exists n, compound_calc ms = Ok n) <->
  (Forall (fun m => exists k, m_calc m = Ok k) ms /\ only_last_padded ms).
Proof.
  induction ms as [|m r IH].
  - split; [intros _; split; [constructor|exact I]|intros _; exists 0; reflexivity].
  - rewrite compound_calc_cons. split.
    + intros [n H]. apply bind_ok_inv in H. destruct H as [k [Hk H]].
      destruct ((match r with [] => false | _ :: _ => true end) &&
                (0 <? match m_padding m with Some p => p | None => 0%N end)%N) eqn:Hp; [discriminate|].
      apply bind_ok_inv in H. destruct H as [j [Hj _]].
      destruct (proj1 IH (ex_intro _ j Hj)) as [Hf Ho]. split; [constructor; eauto|].
      cbn [only_last_padded]. split; [|exact Ho].
      destruct r; [exact I|]. cbn [andb] in Hp. destruct (m_padding m) as [p|]; [|exact I].
      apply N.ltb_ge in Hp. lia.
    + intros [Hf [Hpad Ho]]. inversion Hf as [|? ? [k Hk] Hfr]; subst.
      destruct (proj2 IH (conj Hfr Ho)) as [j Hj]. exists (k + j). rewrite Hk. cbn [bind].
      assert (Hp : (match r with [] => false | _ :: _ => true end) &&
                   (0 <? match m_padding m with Some p => p | None => 0%N end)%N = false).
      { destruct r; [reflexivity|]. cbn [andb]. destruct (m_padding m) as [p|]; [subst p|]; reflexivity. }
      rewrite Hp, Hj. reflexivity.
Qed.

(* ---------------------------------------------------------------- size and bytes *)

Theorem compound_size_and_bytes ms n (buf : bytes) :
  Forall member_wf ms -> compound_calc ms = Ok n -> n <= length buf ->
  n = list_sum (map (fun m => length (rfc_image m)) ms) /\
  Forall (fun m => m_calc m = Ok (length (rfc_image m))) ms /\
  m_write_into (MCompound ms) buf = (Ok n, concat (map rfc_image ms) ++ skipn n buf).
Proof.
  intros Hwf Hc Hn.
  assert (Hwfc : member_wf (MCompound ms)) by (apply member_wf_compound; exact Hwf).
  pose proof (write_into_spec (MCompound ms) buf Hwfc) as H. change (m_calc (MCompound ms)) with (compound_calc ms) in H.
  rewrite Hc in H. destruct H as [_ [Hlen [Hw _]]]. cbn [rfc_image] in *.
  split; [|split; [|apply Hw; exact Hn]].
  - rewrite <- Hlen. clear. induction ms as [|m r IH]; [reflexivity|]. cbn [map concat list_sum]. rewrite app_length, IH. reflexivity.
  - destruct (compound_calc_ok ms n Hc) as [Hf _]. rewrite Forall_forall in *. intros m Hm.
    destruct (Hf m Hm) as [k Hk]. destruct (member_writes_image m (Hwf m Hm) k Hk) as [Hl _]. rewrite Hl. exact Hk.
Qed.

(* ---------------------------------------------------------------- parsing back *)

(* the non-compound members, in order *)
Fixpoint leaves (m : member) : list member :=
  match m with
  | MCompound ms => flat_map leaves ms
  | _ => [m]
  end.

Lemma image_is_leaf_images m : rfc_image m = concat (map rfc_image (leaves m)).
Proof.
  induction m as [c|c|c|c|c|c|c|c|ms IH] using member_ind'; cbn [leaves rfc_image map concat]; rewrite ?app_nil_r; try reflexivity.
  induction IH as [|m r Hm Hr IHr]; [reflexivity|]. cbn [map concat flat_map]. rewrite map_app, concat_app, <- Hm, <- IHr. reflexivity.
Qed.

(* an image that starts with an RTCP header announcing its own length *)
Definition self_framed (img : bytes) : Prop :=
  4 <= length img /\ 4 * (N.to_nat (beN img 2 2) + 1) = length img.

Lemma header_self_framed pt pad cnt n rest :
  length (rfc_header pt pad cnt n ++ rest) = n -> n mod 4 = 0 -> 4 <= n -> (N.of_nat n <= 262144)%N ->
  self_framed (rfc_header pt pad cnt n ++ rest).
Proof.
  intros Hl Hm H4 Hmax. split; [lia|]. rewrite Hl. unfold rfc_header, beN, sub, be16. cbn [app skipn firstn].
  rewrite be_dec_2. lia.
Qed.

(* consecutive tiles of the given lengths starting at off *)
Fixpoint tiles_from (off : nat) (lens : list nat) : list (nat * nat) :=
  match lens with [] => [] | n :: r => (off, n) :: tiles_from (off + n) r end.

Lemma beN_app_skip (pre img post : bytes) : beN (pre ++ img ++ post) (length pre + 2) 2 = beN (img ++ post) 2 2.
Proof. unfold beN, sub. rewrite (skipn_app_len pre _ (length pre + 2) 2) by lia. reflexivity. Qed.

Lemma beN_prefix (img post : bytes) : 4 <= length img -> beN (img ++ post) 2 2 = beN img 2 2.
Proof.
  intros H. unfold beN, sub. rewrite skipn_app. rewrite firstn_app. rewrite skipn_length.
  replace (2 - (length img - 2)) with 0 by lia. cbn [firstn]. rewrite app_nil_r. reflexivity.
Qed.

Lemma concat_tiling imgs : forall (pre : bytes),
  Forall self_framed imgs ->
  is_tiling (pre ++ concat imgs) (length pre) (tiles_from (length pre) (map (@length N) imgs)).
Proof.
  induction imgs as [|img r IH]; intros pre Hf.
  - cbn [concat map tiles_from]. rewrite app_nil_r. constructor.
  - inversion Hf as [|? ? [H4 Hlen] Hfr]; subst. cbn [concat map tiles_from].
    apply tiling_step.
    + rewrite !app_length. lia.
    + rewrite beN_app_skip, beN_prefix by exact H4. lia.
    + rewrite !app_length. lia.
    + specialize (IH (pre ++ img) Hfr). rewrite app_length in IH. rewrite <- app_assoc in IH. exact IH.
Qed.

Lemma iter_spec_concat imgs : forall (pre : bytes) (post : bytes),
  iter_spec (pre ++ concat imgs ++ post) (tiles_from (length pre) (map (@length N) imgs)) =
  (fix go (l : list bytes) : list (pres packet_view) :=
     match l with [] => [] | i :: r => let p := packet_parse i in p :: (if is_ok p then go r else []) end) imgs.
Proof.
  induction imgs as [|img r IH]; intros pre post; [reflexivity|].
  cbn [concat map tiles_from iter_spec].
  assert (Hsub : sub (pre ++ (img ++ concat r) ++ post) (length pre) (length img) = img).
  { unfold sub. rewrite (skipn_app_len pre _ (length pre) 0) by lia. cbn [skipn]. rewrite <- app_assoc.
    apply firstn_app_len. reflexivity. }
  rewrite Hsub. cbv zeta. f_equal. destruct (is_ok (packet_parse img)); [|reflexivity].
  specialize (IH (pre ++ img) post). rewrite app_length in IH. rewrite <- !app_assoc in *. exact IH.
Qed.

(* what iterating the written compound yields: the generic parser on each member's own image, in order,
   cut after the first member whose image the generic parser rejects *)
Definition members_parsed (imgs : list bytes) : list (pres packet_view) :=
  (fix go (l : list bytes) : list (pres packet_view) :=
     match l with [] => [] | i :: r => let p := packet_parse i in p :: (if is_ok p then go r else []) end) imgs.

Theorem compound_parses_back m :
  leaves m <> [] -> Forall (fun x => self_framed (rfc_image x)) (leaves m) ->
  exists c, compound_parse (rfc_image m) = Ok c /\
            forall k, nexts k c = Ok (expected_nexts k (members_parsed (map rfc_image (leaves m)))).
Proof.
  intros Hne Hf. rewrite image_is_leaf_images.
  set (imgs := map rfc_image (leaves m)).
  assert (Hfi : Forall self_framed imgs) by (unfold imgs; apply Forall_forall; intros i Hi;
    apply in_map_iff in Hi; destruct Hi as [x [<- Hx]]; rewrite Forall_forall in Hf; auto).
  pose proof (concat_tiling imgs [] Hfi) as Ht. cbn [app length] in Ht.
  assert (Hnonempty : concat imgs <> []).
  { unfold imgs. destruct (leaves m) as [|x r]; [congruence|]. cbn [map concat].
    inversion Hf as [|? ? [H4 _] _]; subst. destruct (rfc_image x); cbn [length] in H4; [lia|discriminate]. }
  destruct (proj2 (compound_accepts_iff_tiled (concat imgs)) (conj Hnonempty (ex_intro _ _ Ht))) as [c Hc].
  exists c. split; [exact Hc|]. intros k.
  rewrite (compound_iteration_total (concat imgs) c _ Hc (proj2 (tiling_of_iff _ _) (conj Hnonempty Ht))).
  f_equal. f_equal. pose proof (iter_spec_concat imgs [] []) as Hi. cbn [app length] in Hi. rewrite app_nil_r in Hi. exact Hi.
Qed.

(* every leaf the crate's own builders produce (below 65536 words) is self framed *)
Lemma leaf_self_framed m n :
  (match m with MCompound _ => False | _ => True end) -> member_wf m -> m_calc m = Ok n -> (N.of_nat n <= 262144)%N ->
  self_framed (rfc_image m).
Proof.
  intros Hleaf Hwf Hc Hmax. destruct (member_writes_image m Hwf n Hc) as [Hlen [Hmod _]].
  assert (H4 : 4 <= n).
  { destruct m; cbn [m_calc] in Hc; try contradiction.
    - apply sr_calc_ok in Hc. lia. - apply rr_calc_ok in Hc. lia. - apply app_calc_ok in Hc. lia.
    - apply bye_calc_ok in Hc. lia. - apply sdes_calc_ok in Hc. lia.
    - apply fb_calc_ok in Hc. destruct Hc as [_ [_ [k [_ Hn]]]]. lia.
    - apply unk_calc_ok in Hc. lia. - apply custom_calc_ok in Hc. lia. }
  destruct m; try contradiction; cbn [rfc_image m_calc] in *;
    try (match goal with H : app_calc _ = Ok _ |- _ => pose proof (app_calc_ok _ _ H) as [_ [Hnl _]] end);
    unfold rfc_sr, rfc_rr, rfc_app, rfc_bye, rfc_sdes, rfc_fb, rfc_raw in *; cbv zeta in *;
    match goal with
    | Hl : length (rfc_header ?pt ?pad ?cnt ?t ++ ?rest) = n |- _ =>
        assert (Ht : t = n) by (rewrite <- Hl; unfold rfc_header;
                                 repeat rewrite ?app_length, ?concat_rb_length, ?concat_be32_length, ?rfc_trailer_length,
                                   ?be32_length, ?be64_length, ?be16_length, ?zeros_length; cbn [length]; lia);
        rewrite Ht in *; apply header_self_framed; assumption
    end.
Qed.
