(* The NACK entry iterator, run to exhaustion, yields exactly the RFC 4585 expansion of each word. *)
From RtcpV Require Export Proofs.C15.

Definition bit_set (blp : N) (j : nat) : bool := ((blp / 2 ^ N.of_nat (j - 1)) mod 2 =? 1)%N.

Definition bits_from (pid blp : N) (k : nat) : list N :=
  flat_map (fun j => if bit_set blp j then [((pid + N.of_nat j) mod 65536)%N] else []) (seq k (17 - k)).

Lemma nack_word_seqs_bits w : nack_word_seqs w = beN w 0 2 :: bits_from (beN w 0 2) (beN w 2 2) 1.
Proof. reflexivity. Qed.

Lemma bits_from_17 pid blp : bits_from pid blp 17 = [].
Proof. reflexivity. Qed.

Lemma bits_from_step pid blp k :
  1 <= k <= 16 ->
  bits_from pid blp k =
  (if bit_set blp k then [((pid + N.of_nat k) mod 65536)%N] else []) ++ bits_from pid blp (k + 1).
Proof.
  intros Hk. unfold bits_from. replace (17 - k) with (S (17 - (k + 1))) by lia. cbn [seq flat_map].
  replace (S k) with (k + 1) by lia. reflexivity.
Qed.

(* the inner scan: the next set bit at or after k *)
Lemma nack_scan_spec fuel : forall base mask k,
  1 <= k <= 16 -> 17 - k <= fuel ->
  (bits_from base mask k = [] /\ nack_scan fuel base mask k = (None, 17)) \/
  (exists j, k <= j <= 16 /\
     nack_scan fuel base mask k = (Some ((base + N.of_nat j) mod 65536)%N, j + 1) /\
     bits_from base mask k = ((base + N.of_nat j) mod 65536)%N :: bits_from base mask (j + 1)).
Proof.
  induction fuel as [|f IH]; intros base mask k Hk Hf; [lia|]. cbn [nack_scan].
  rewrite (bits_from_step base mask k Hk).
  assert (Htest : negb (((mask / 2 ^ N.of_nat (k - 1)) mod 2) =? 0)%N = bit_set mask k).
  { unfold bit_set. generalize (mask / 2 ^ N.of_nat (k - 1))%N. intros x.
    assert (Hb : (x mod 2 = 0 \/ x mod 2 = 1)%N) by lia.
    destruct Hb as [Hb|Hb]; rewrite Hb; reflexivity. }
  rewrite Htest. destruct (bit_set mask k); cbn [app].
  - right. exists k. split; [lia|]. split; reflexivity.
  - destruct (Nat.ltb_spec 16 (k + 1)) as [Hend|Hmore].
    + left. assert (k = 16) by lia. subst k. split; reflexivity.
    + destruct (IH base mask (k + 1) ltac:(lia) ltac:(lia)) as [[He Hs]|[j [Hj [Hs He]]]].
      * left. split; assumption.
      * right. exists j. split; [lia|]. split; assumption.
Qed.

(* ---------------------------------------------------------------- the iterator state *)

Definition word_at (data : bytes) (i : nat) : bytes := firstn 4 (skipn (4 * i) data).
Definition has_word (data : bytes) (i : nat) : Prop := 4 * i + 3 < length data.

(* everything the iterator still has to yield from state (i, k) *)
Definition remaining (data : bytes) (i k : nat) : list N :=
  (if k =? 0 then [] else bits_from (beN (word_at data i) 0 2) (beN (word_at data i) 2 2) k) ++
  flat_map nack_word_seqs (words 4 (length data) (skipn (4 * (if k =? 0 then i else i + 1)) data)).

Definition valid_state (data : bytes) (i k : nat) : Prop := k = 0 \/ (1 <= k <= 17 /\ has_word data i).

Lemma words_cons (data : bytes) i fuel :
  has_word data i -> length data - 4 * i <= fuel ->
  words 4 fuel (skipn (4 * i) data) = word_at data i :: words 4 (length data) (skipn (4 * (i + 1)) data).
Proof.
  intros Hw Hf. destruct fuel as [|fuel]; [unfold has_word in Hw; lia|]. cbn [words]. rewrite skipn_length.
  unfold has_word in Hw. destruct (Nat.ltb_spec (length data - 4 * i) 4); [lia|]. unfold word_at. f_equal.
  rewrite skipn_skipn. replace (4 * i + 4) with (4 * (i + 1)) by lia.
  apply words_fuel; [lia|rewrite skipn_length; lia|rewrite skipn_length; lia].
Qed.

Lemma words_none (data : bytes) i fuel : ~ has_word data i -> words 4 fuel (skipn (4 * i) data) = [].
Proof.
  intros Hw. destruct fuel; [reflexivity|]. cbn [words]. rewrite skipn_length. unfold has_word in Hw.
  destruct (Nat.ltb_spec (length data - 4 * i) 4); [reflexivity|lia].
Qed.

Lemma read_word (data : bytes) i :
  has_word data i ->
  (e <- tail_from data (i * 4) ;; sb <- slice e 0 2 ;; base <- be_dec_exact 2 sb ;;
   sm <- slice e 2 4 ;; mask <- be_dec_exact 2 sm ;; @Ok perr _ (base, mask)) =
  Ok (beN (word_at data i) 0 2, beN (word_at data i) 2 2).
Proof.
  intros Hw. unfold has_word in Hw. replace (i * 4) with (4 * i) by lia.
  rewrite tail_from_ok by lia. cbn [bind]. rewrite slice_ok by (rewrite ?skipn_length; lia). cbn [bind].
  rewrite be_dec_exact_ok by (rewrite firstn_length, skipn_length, skipn_length; lia). cbn [bind].
  rewrite slice_ok by (rewrite ?skipn_length; lia). cbn [bind].
  rewrite be_dec_exact_ok by (rewrite firstn_length, skipn_length, skipn_length; lia). cbn [bind].
  unfold beN, sub, word_at. f_equal. f_equal.
  - change (skipn 0 (skipn (4 * i) data)) with (skipn (4 * i) data).
    change (skipn 0 (firstn 4 (skipn (4 * i) data))) with (firstn 4 (skipn (4 * i) data)).
    rewrite firstn_firstn. reflexivity.
  - rewrite skipn_firstn_comm. rewrite firstn_firstn. reflexivity.
Qed.

(* one call of next() *)
Lemma nack_next_spec (data : bytes) : forall fuel i k,
  valid_state data i k -> length data < fuel ->
  (exists i' k', nack_next fuel data i k = Ok (None, (i', k')) /\ remaining data i k = [] /\
                 valid_state data i' k' /\ remaining data i' k' = []) \/
  (exists v i' k', nack_next fuel data i k = Ok (Some v, (i', k')) /\
                   remaining data i k = v :: remaining data i' k' /\ valid_state data i' k').
Proof.
  (* the case of a fresh word: state (i, 0) *)
  assert (Hzero : forall fuel i, 1 <= fuel ->
    (exists i' k', nack_next fuel data i 0 = Ok (None, (i', k')) /\ remaining data i 0 = [] /\
                   valid_state data i' k' /\ remaining data i' k' = []) \/
    (exists v i' k', nack_next fuel data i 0 = Ok (Some v, (i', k')) /\
                     remaining data i 0 = v :: remaining data i' k' /\ valid_state data i' k')).
  { intros fuel i Hf. destruct fuel as [|f]; [lia|]. cbn [nack_next].
    replace (16 <? 0) with false by reflexivity. cbv beta iota.
    destruct (Nat.leb_spec (length data) (i * 4 + 3)) as [Hend|Hmore].
    - left. exists i, 0. assert (Hnw : ~ has_word data i) by (unfold has_word; lia).
      unfold remaining. cbn [Nat.eqb app]. rewrite words_none by exact Hnw. repeat split; auto. left. reflexivity.
    - right. assert (Hw : has_word data i) by (unfold has_word; lia).
      pose proof (read_word data i Hw) as Hr.
      destruct (tail_from data (i * 4)) as [e| | |]; cbn [bind] in Hr |- *; try discriminate.
      destruct (slice e 0 2) as [sb| | |]; cbn [bind] in Hr |- *; try discriminate.
      destruct (be_dec_exact 2 sb) as [base| | |]; cbn [bind] in Hr |- *; try discriminate.
      destruct (slice e 2 4) as [sm| | |]; cbn [bind] in Hr |- *; try discriminate.
      destruct (be_dec_exact 2 sm) as [mask| | |]; cbn [bind] in Hr |- *; try discriminate.
      injection Hr as -> ->. replace (0 =? 0) with true by reflexivity.
      eexists _, i, 1. split; [reflexivity|]. split; [|right; split; [lia|exact Hw]].
      unfold remaining. cbn [Nat.eqb app]. rewrite words_cons by (assumption || lia).
      cbn [flat_map]. rewrite nack_word_seqs_bits. cbn [app]. reflexivity. }
  intros fuel i k Hv Hf0. destruct Hv as [->|[Hk Hw]]; [apply Hzero; lia|].
  assert (Hf : 2 <= fuel) by (unfold has_word in Hw; lia).
  destruct fuel as [|f]; [lia|].
  destruct (Nat.eq_dec k 17) as [->|Hne].
  - (* k = 17: move on to the next word *)
    assert (Hrem : remaining data i 17 = remaining data (i + 1) 0).
    { unfold remaining. cbn [Nat.eqb app]. rewrite bits_from_17. reflexivity. }
    assert (Hn : nack_next (S f) data i 17 = nack_next (S f) data (i + 1) 0) by reflexivity.
    rewrite Hrem, Hn. apply Hzero. lia.
  - (* 1 <= k <= 16: scan the rest of the current word *)
    cbn [nack_next]. destruct (Nat.ltb_spec 16 k) as [H17|Hle]; [lia|].
    cbv beta iota. unfold has_word in Hw. destruct (Nat.leb_spec (length data) (i * 4 + 3)); [lia|].
    pose proof (read_word data i ltac:(unfold has_word; lia)) as Hr.
    destruct (tail_from data (i * 4)) as [e| | |]; cbn [bind] in Hr |- *; try discriminate.
    destruct (slice e 0 2) as [sb| | |]; cbn [bind] in Hr |- *; try discriminate.
    destruct (be_dec_exact 2 sb) as [base| | |]; cbn [bind] in Hr |- *; try discriminate.
    destruct (slice e 2 4) as [sm| | |]; cbn [bind] in Hr |- *; try discriminate.
    destruct (be_dec_exact 2 sm) as [mask| | |]; cbn [bind] in Hr |- *; try discriminate.
    injection Hr as -> ->. destruct (Nat.eqb_spec k 0); [lia|].
    set (base := beN (word_at data i) 0 2). set (mask := beN (word_at data i) 2 2).
    destruct (nack_scan_spec 17 base mask k ltac:(lia) ltac:(lia)) as [[He Hs]|[j [Hj [Hs He]]]]; rewrite Hs.
    + (* no more bits: next() continues with the next word *)
      assert (Hrem : remaining data i k = remaining data (i + 1) 0).
      { unfold remaining. destruct (Nat.eqb_spec k 0); [lia|]. fold base mask. rewrite He. reflexivity. }
      rewrite Hrem.
      destruct f as [|f']; [lia|].
      assert (Hn : nack_next (S f') data i 17 = nack_next (S f') data (i + 1) 0) by reflexivity.
      rewrite Hn. apply Hzero. lia.
    + right. eexists _, i, (j + 1). split; [reflexivity|]. split; [|right; split; [lia|unfold has_word; lia]].
      unfold remaining. destruct (Nat.eqb_spec k 0); [lia|]. destruct (Nat.eqb_spec (j + 1) 0); [lia|].
      fold base mask. rewrite He. reflexivity.
Qed.

(* run to exhaustion *)
Lemma nack_run_spec (data : bytes) : forall fuel i k,
  valid_state data i k -> length (remaining data i k) < fuel ->
  exists i' k', nack_run fuel data i k = Ok (remaining data i k, (i', k')) /\
                valid_state data i' k' /\ remaining data i' k' = [].
Proof.
  induction fuel as [|f IH]; intros i k Hv Hf; [lia|]. cbn [nack_run].
  destruct (nack_next_spec data (S (length data)) i k Hv ltac:(lia)) as
    [[i' [k' [Hn [Hr [Hv' Hr']]]]]|[v [i' [k' [Hn [Hr Hv']]]]]]; rewrite Hn; cbn [bind].
  - exists i', k'. rewrite Hr. auto.
  - rewrite Hr in Hf. cbn [length] in Hf. destruct (IH i' k' Hv' ltac:(lia)) as [i2 [k2 [Hrun [Hv2 Hr2]]]].
    rewrite Hrun. cbn [bind]. exists i2, k2. rewrite Hr. auto.
Qed.

Lemma nack_word_seqs_length w : length (nack_word_seqs w) <= 17.
Proof.
  rewrite nack_word_seqs_bits. cbn [length]. unfold bits_from.
  assert (H : forall l, length (flat_map (fun j => if bit_set (beN w 2 2) j
              then [((beN w 0 2 + N.of_nat j) mod 65536)%N] else []) l) <= length l).
  { induction l as [|x l IHl]; [cbn; lia|]. cbn [flat_map length]. rewrite app_length. destruct (bit_set _ x); cbn [length]; lia. }
  specialize (H (seq 1 (17 - 1))). rewrite seq_length in H. lia.
Qed.

Lemma remaining_total_length (data : bytes) : length (remaining data 0 0) <= 17 * (length data / 4).
Proof.
  unfold remaining. cbn [Nat.eqb app Nat.mul skipn].
  assert (H : forall ws : list bytes, length (flat_map nack_word_seqs ws) <= 17 * length ws).
  { induction ws as [|w ws IHw]; [cbn; lia|]. cbn [flat_map length]. rewrite app_length.
    pose proof (nack_word_seqs_length w). lia. }
  specialize (H (words 4 (length data) data)). rewrite words_length in H by lia. exact H.
Qed.

Theorem nack_decoding (fci : bytes) base :
  obs_pres (obs_fci_view base TNack) (fci_parse_raw TNack fci) = fci_ref TNack base fci.
Proof.
  cbn [fci_parse_raw fci_ref obs_pres obs_res obs_fci_view].
  pose proof (remaining_total_length fci) as Hlen.
  destruct (nack_run_spec fci (S (5 * length fci)) 0 0 (or_introl eq_refl) ltac:(lia)) as [i' [k' [Hrun [Hv Hr]]]].
  unfold nack_entries, nack_post. rewrite Hrun. cbn [bind].
  (* three more calls after exhaustion *)
  assert (Hnone : forall i k, valid_state fci i k -> remaining fci i k = [] ->
            exists i2 k2, nack_next (S (length fci)) fci i k = Ok (None, (i2, k2)) /\
                          valid_state fci i2 k2 /\ remaining fci i2 k2 = []).
  { intros i k Hvs Hrs. destruct (nack_next_spec fci (S (length fci)) i k Hvs ltac:(lia)) as
      [[i2 [k2 [Hn [_ [Hv2 Hr2]]]]]|[v [i2 [k2 [_ [Hr2 _]]]]]]; [eauto|]. rewrite Hrs in Hr2. discriminate. }
  destruct (Hnone i' k' Hv Hr) as [i1 [k1 [Hn1 [Hv1 Hr1]]]]. rewrite Hn1. cbn [bind].
  destruct (Hnone i1 k1 Hv1 Hr1) as [i2 [k2 [Hn2 [Hv2 Hr2]]]]. rewrite Hn2. cbn [bind].
  destruct (Hnone i2 k2 Hv2 Hr2) as [i3 [k3 [Hn3 _]]]. rewrite Hn3. cbn [bind].
  unfold remaining. cbn [Nat.eqb app Nat.mul skipn]. cbv [obs_pres obs_res obs_list okO]. reflexivity.
Qed.

(* ---------------------------------------------------------------- all five FCI types, raw strings *)

Theorem fci_decoding t (fci : bytes) base :
  wfb fci -> obs_pres (obs_fci_view base t) (fci_parse_raw t fci) = fci_ref t base fci.
Proof.
  intros Hwf. destruct t.
  - apply nack_decoding. - apply fir_decoding. - apply sli_decoding; exact Hwf.
  - apply rpsi_decoding. - apply pli_decoding.
Qed.

(* ---------------------------------------------------------------- parse_fci::<F>() on an accepted feedback packet *)

Lemma framed_fci_slice (d : bytes) :
  framed 12 d -> fci_slice d = Ok (sub d 12 (length d - ref_pad_len d - 12)).
Proof.
  intros F. unfold fci_slice. pose proof (fr_pad _ _ F) as Hp. destruct (fr_hdr _ _ F) as [a [b [c [e [r [Hd Hl]]]]]].
  assert (Hpb : parse_padding d = Ok (if ((a / 32) mod 2 =? 1)%N then Some (last d 0%N) else None)).
  { rewrite Hd at 1. rewrite parse_padding_cons by (rewrite <- Hd; exact Hl). rewrite <- Hd.
    assert (Hb : ((a / 32) mod 2 = 0 \/ (a / 32) mod 2 = 1)%N) by lia. destruct Hb as [Hb|Hb]; rewrite Hb; reflexivity. }
  rewrite Hpb in Hp |- *. cbn [bind post] in *.
  assert (Hrp : ref_pad_len d = N.to_nat (match (if ((a / 32) mod 2 =? 1)%N then Some (last d 0%N) else None) with
                                          | Some p => p | None => 0%N end)).
  { unfold ref_pad_len, byte_at. rewrite Hd at 1. cbn [nth]. destruct ((a / 32) mod 2 =? 1)%N; reflexivity. }
  rewrite <- Hrp.
  assert (Hfit : 12 + ref_pad_len d <= length d).
  { rewrite Hrp. destruct ((a / 32) mod 2 =? 1)%N; [destruct Hp as [_ [H _]]; exact H|]. pose proof (fr_len _ _ F). cbn. lia. }
  rewrite usub_ok by lia. cbn [bind]. rewrite slice_ok by lia. unfold sub.
  replace (length d - ref_pad_len d - 12) with (length d - ref_pad_len d - 12) by reflexivity. reflexivity.
Qed.

Theorem fb_fci_decoding k (d : bytes) :
  framed 12 d -> wfb d -> obs_fcis k d = fb_fci_ref k d.
Proof.
  intros F Hwf. unfold obs_fcis, fb_fci_ref. f_equal. apply map_ext_in. intros t _.
  unfold parse_fci. destruct (fr_hdr _ _ F) as [a [b [c [e [r [Hd Hl]]]]]].
  assert (Hcount : parse_count d = Ok (byte_at d 0 mod 32)%N) by (rewrite Hd; reflexivity).
  assert (Hkind : fci_kind t = match t with TNack => Transport | _ => Payload end) by (destruct t; reflexivity).
  assert (Hfmt : fci_format t = match t with TNack => 1 | TPli => 1 | TSli => 2 | TRpsi => 3 | TFir => 4 end%N)
    by (destruct t; reflexivity).
  rewrite <- Hkind, <- Hfmt.
  destruct (fb_kind_eqb (fci_kind t) k); cbn [negb andb]; [|reflexivity].
  rewrite Hcount. cbn [bind]. destruct (N.eqb_spec (byte_at d 0 mod 32) (fci_format t)); cbn [negb]; [|reflexivity].
  rewrite framed_fci_slice by exact F. cbn [bind].
  apply fci_decoding. unfold sub. apply wfb_firstn. apply wfb_skipn. exact Hwf.
Qed.

(* an accepted feedback packet is framed *)
Theorem fb_accept_framed k d x : fb_parse k d = Ok x -> framed 12 d /\ x = d.
Proof.
  unfold fb_parse, FB_MIN. intros H. apply bind_ok_inv in H. destruct H as [[] [Hc [= <-]]].
  split; [|reflexivity]. eapply check_packet_framed; [|exact Hc]. lia.
Qed.
