(* Writers of APP, BYE, unknown and third-party packets produce exactly the RFC image. *)
From RtcpV Require Export Proofs.WriteReport Model.Compound.

(* ---------------------------------------------------------------- APP *)

Lemma app_calc_ok c n :
  app_calc c = Ok n ->
  (app_c_subtype c < 32)%N /\ length (app_c_name c) <= 4 /\ is_ascii (app_c_name c) = true /\
  length (app_c_data c) mod 4 = 0 /\ (app_c_padding c mod 4 = 0)%N /\
  n = 12 + N.to_nat (app_c_padding c) + length (app_c_data c).
Proof.
  unfold app_calc, APP_MIN.
  destruct (N.ltb_spec 31 (app_c_subtype c)) as [G1|G1]; [discriminate|].
  destruct (Nat.ltb_spec 4 (length (app_c_name c))) as [G2|G2]; cbn [orb]; [discriminate|].
  destruct (is_ascii (app_c_name c)); cbn [negb]; [|discriminate].
  destruct (Nat.eqb_spec (length (app_c_data c) mod 4) 0) as [G3|G3]; cbn [negb]; [|discriminate].
  intros H. apply bind_ok_inv in H. destruct H as [[] [Hp [= <-]]]. apply check_padding_ok in Hp.
  repeat split; auto; lia.
Qed.

Theorem app_write_ok c n (s : bytes) :
  app_calc c = Ok n -> length s = n -> app_write_unchecked c s = Ok (n, rfc_app c).
Proof.
  intros Hc Hs. apply app_calc_ok in Hc. destruct Hc as [Hst [Hnl [_ [Hd [Hp Hn]]]]].
  unfold app_write_unchecked. rewrite write_header_ok by lia. cbn [bind].
  rewrite hdr_bytes_rfc by exact Hst. rewrite Hs.
  remember (rfc_header APP_PT (app_c_padding c) (app_c_subtype c) n) as hdr eqn:Hhdr.
  assert (Hh : length hdr = 4) by (subst hdr; reflexivity).
  rewrite (copy_at hdr) by len. cbn [bind]. rewrite skipn_skipn.
  rewrite (copy_at (hdr ++ _)) by len. cbn [bind]. rewrite skipn_skipn.
  rewrite fill_if_at by len. cbn [bind]. rewrite skipn_skipn.
  rewrite (copy_at (((hdr ++ _) ++ _) ++ _)) by len. cbn [bind]. rewrite skipn_skipn.
  rewrite trailer_at_end by len. cbn [bind].
  f_equal. f_equal; [lia|]. subst hdr. unfold rfc_app. fold APP_PT.
  replace (12 + length (app_c_data c) + N.to_nat (app_c_padding c)) with n by lia.
  rewrite <- !app_assoc. reflexivity.
Qed.

(* ---------------------------------------------------------------- BYE *)

Lemma bye_sources_write ss : forall (done rest : bytes) i,
  i = length done -> 4 * length ss <= length rest ->
  bye_write_sources ss i (done ++ rest) =
    Ok (i + 4 * length ss, (done ++ concat (map be32 ss)) ++ skipn (4 * length ss) rest).
Proof.
  induction ss as [|x ss IH]; intros done rest i Hi Hfit; cbn [bye_write_sources length map concat].
  - rewrite app_nil_r. cbn [skipn Nat.mul]. rewrite Nat.add_0_r. reflexivity.
  - cbn [length] in Hfit. rewrite copy_at by len. cbn [bind].
    rewrite IH by len. rewrite skipn_skipn. rewrite be32_length.
    replace (4 * S (length ss)) with (4 + 4 * length ss) by lia.
    rewrite <- !app_assoc. rewrite Nat.add_assoc. reflexivity.
Qed.

Lemma concat_be32_length ss : length (concat (map be32 ss)) = 4 * length ss.
Proof. induction ss as [|x ss IH]; [reflexivity|]. cbn [map concat length]. rewrite app_length, IH, be32_length. lia. Qed.

Lemma rfc_reason_length r : r <> [] -> length (rfc_reason r) = pad4 (1 + length r).
Proof.
  intros Hr. unfold rfc_reason. destruct r as [|x r]; [congruence|].
  cbn [length]. rewrite app_length, zeros_length. cbn [length]. unfold pad4. lia.
Qed.

Lemma bye_calc_ok c n :
  bye_calc c = Ok n ->
  length (bye_c_sources c) <= 31 /\ (bye_c_padding c mod 4 = 0)%N /\ length (bye_c_reason c) <= 255 /\
  n = 4 + 4 * length (bye_c_sources c) + length (rfc_reason (bye_c_reason c)) + N.to_nat (bye_c_padding c).
Proof.
  unfold bye_calc, BYE_MIN. destruct (Nat.ltb_spec 31 (length (bye_c_sources c))) as [Hgt|Hle]; [discriminate|].
  intros H. apply bind_ok_inv in H. destruct H as [[] [Hp H]]. apply check_padding_ok in Hp.
  destruct (bye_c_reason c) as [|x r] eqn:Hr.
  - injection H as <-. cbn [rfc_reason length]. repeat split; auto; lia.
  - destruct (Nat.ltb_spec 255 (length (x :: r))) as [Hgt|Hle2]; [discriminate|]. injection H as <-.
    rewrite rfc_reason_length by congruence.
    assert (Hpm : N.to_nat (bye_c_padding c) mod 4 = 0) by lia.
    split; [lia|]. split; [exact Hp|]. split; [exact Hle2|]. unfold pad4. cbn [length] in *. lia.
Qed.

Lemma bye_reason_write r : forall (done rest : bytes) i,
  i = length done -> i mod 4 = 0 -> length r <= 255 -> length (rfc_reason r) <= length rest ->
  bye_write_reason r i (done ++ rest) =
    Ok (i + length (rfc_reason r), (done ++ rfc_reason r) ++ skipn (length (rfc_reason r)) rest).
Proof.
  intros done rest i Hi Hmod Hrl Hfit. unfold bye_write_reason. destruct r as [|x r].
  - cbn [rfc_reason length skipn]. rewrite app_nil_r, Nat.add_0_r. reflexivity.
  - rewrite rfc_reason_length in * by congruence. remember (x :: r) as rr eqn:Hrr.
    assert (Hne : rr <> []) by (subst rr; congruence).
    assert (Hl1 : 1 <= length rr) by (subst rr; cbn [length]; lia).
    assert (Hp4 : pad4 (i + 1 + length rr) = i + pad4 (1 + length rr)) by (unfold pad4; lia).
    pose proof (pad4_ge (1 + length rr)) as Hge. pose proof (pad4_lt (1 + length rr)) as Hlt.
    rewrite set_at_cur by lia. cbn [bind].
    rewrite copy_at by len. cbn [bind]. rewrite skipn_skipn.
    rewrite N.mod_small by lia.
    replace (i + 1 + length rr) with (i + 1 + length rr) by reflexivity. rewrite Hp4.
    assert (Hrfc : rfc_reason rr = (N.of_nat (length rr) :: rr) ++ zeros (pad4 (1 + length rr) - (1 + length rr))).
    { unfold rfc_reason. destruct rr as [|y rr']; [congruence|].
      replace ((4 - (1 + length (y :: rr')) mod 4) mod 4) with (pad4 (1 + length (y :: rr')) - (1 + length (y :: rr')))
        by (unfold pad4; cbn [length]; lia). reflexivity. }
    rewrite fill_if_at by len. cbn [bind]. rewrite skipn_skipn. rewrite Hrfc.
    replace (i + pad4 (1 + length rr) - (i + 1 + length rr)) with (pad4 (1 + length rr) - (1 + length rr)) by lia.
    replace (1 + length rr + (pad4 (1 + length rr) - (1 + length rr))) with (pad4 (1 + length rr)) by lia.
    rewrite <- !app_assoc. cbn [app]. reflexivity.
Qed.

Theorem bye_write_ok c n (s : bytes) :
  bye_calc c = Ok n -> length s = n -> bye_write_unchecked c s = Ok (n, rfc_bye c).
Proof.
  intros Hc Hs. apply bye_calc_ok in Hc. destruct Hc as [Hns [Hp [Hrl Hn]]].
  destruct (count_mod _ Hns) as [Hcm Hc32].
  unfold bye_write_unchecked. rewrite write_header_ok by lia. cbn [bind]. rewrite Hcm.
  rewrite hdr_bytes_rfc by exact Hc32. rewrite Hs.
  remember (rfc_header BYE_PT (bye_c_padding c) (N.of_nat (length (bye_c_sources c))) n) as hdr eqn:Hhdr.
  assert (Hh : length hdr = 4) by (subst hdr; reflexivity).
  rewrite bye_sources_write by len. cbn [bind].
  rewrite bye_reason_write by (repeat rewrite ?app_length, ?concat_be32_length; len). cbn [bind].
  rewrite !skipn_skipn.
  rewrite trailer_at_end by (repeat rewrite ?app_length, ?concat_be32_length; len). cbn [bind].
  f_equal. f_equal; [lia|]. subst hdr. unfold rfc_bye. fold BYE_PT. rewrite app_length, concat_be32_length.
  replace (4 + (4 * length (bye_c_sources c) + length (rfc_reason (bye_c_reason c))) + N.to_nat (bye_c_padding c))
    with n by lia. rewrite <- !app_assoc. reflexivity.
Qed.

(* ---------------------------------------------------------------- unknown and third-party packets *)

Lemma unk_calc_ok c n :
  unk_calc c = Ok n ->
  (unk_c_count c < 32)%N /\ (unk_c_padding c mod 4 = 0)%N /\ length (unk_c_data c) mod 4 = 0 /\
  n = 4 + length (unk_c_data c) + N.to_nat (unk_c_padding c).
Proof.
  unfold unk_calc, UNK_MIN. destruct (N.ltb_spec 31 (unk_c_count c)) as [G1|G1]; [discriminate|].
  intros H. apply bind_ok_inv in H. destruct H as [[] [Hp H]]. apply check_padding_ok in Hp.
  destruct (Nat.eqb_spec (length (unk_c_data c) mod 4) 0) as [G2|G2]; cbn [negb] in H; [|discriminate].
  injection H as <-. repeat split; auto; lia.
Qed.

(* the raw writer: header (with any type octet), payload, trailer *)
Lemma raw_image_eq pt pad cnt payload n :
  n = 4 + length payload + N.to_nat pad ->
  rfc_raw pt pad cnt payload = rfc_header pt pad cnt n ++ payload ++ rfc_trailer pad.
Proof. intros ->. reflexivity. Qed.

Theorem unk_write_ok c n (s : bytes) :
  unk_calc c = Ok n -> length s = n ->
  unk_write_unchecked c s = Ok (n, rfc_raw (unk_c_type c) (unk_c_padding c) (unk_c_count c) (unk_c_data c)).
Proof.
  intros Hc Hs. apply unk_calc_ok in Hc. destruct Hc as [Hcnt [Hp [Hd Hn]]].
  unfold unk_write_unchecked.
  rewrite write_header_ok by lia. cbn [bind]. rewrite Hs. rewrite set_type_hdr. cbn [bind].
  rewrite hdr_bytes_rfc by exact Hcnt.
  remember (rfc_header (unk_c_type c) (unk_c_padding c) (unk_c_count c) n) as hdr eqn:Hhdr.
  assert (Hh : length hdr = 4) by (subst hdr; reflexivity).
  rewrite (copy_at hdr) by len. cbn [bind]. rewrite skipn_skipn.
  rewrite trailer_at_end by len. cbn [bind].
  f_equal. f_equal; [lia|]. rewrite (raw_image_eq _ _ _ _ n) by lia. subst hdr.
  rewrite <- !app_assoc. reflexivity.
Qed.

Lemma custom_calc_ok c n :
  custom_calc c = Ok n ->
  (cu_padding c mod 4 = 0)%N /\ n = 4 + length (cu_payload c) + N.to_nat (cu_padding c).
Proof.
  unfold custom_calc. intros H. apply bind_ok_inv in H. destruct H as [[] [Hp [= <-]]].
  apply check_padding_ok in Hp. auto.
Qed.

Theorem custom_write_ok c n (s : bytes) :
  custom_calc c = Ok n -> (cu_count c < 32)%N -> length s = n ->
  custom_write_unchecked c s = Ok (n, rfc_raw (cu_pt c) (cu_padding c) (cu_count c) (cu_payload c)).
Proof.
  intros Hc Hcnt Hs. apply custom_calc_ok in Hc. destruct Hc as [Hp Hn].
  unfold custom_write_unchecked. rewrite write_header_ok by lia. cbn [bind]. rewrite Hs.
  rewrite hdr_bytes_rfc by exact Hcnt.
  remember (rfc_header (cu_pt c) (cu_padding c) (cu_count c) n) as hdr eqn:Hhdr.
  assert (Hh : length hdr = 4) by (subst hdr; reflexivity).
  rewrite (copy_at hdr) by len. cbn [bind]. rewrite skipn_skipn.
  rewrite trailer_at_end by len. cbn [bind].
  f_equal. f_equal; [lia|]. rewrite (raw_image_eq _ _ _ _ n) by lia. subst hdr.
  rewrite <- !app_assoc. reflexivity.
Qed.
