(* C05: feedback packets and their FCI survive a build-then-parse round trip. *)
From RtcpV Require Export Proofs.C05a.

Definition fb_wf (c : fb_cfg) : Prop :=
  (fb_c_padding c < 256 /\ fb_c_sender c < 4294967296 /\ fb_c_media c < 4294967296)%N /\
  fci_values_wf (fb_c_fci c).

Definition fb_fmt (c : fb_cfg) : N :=
  match fb_c_fci c with FNack _ => 1 | FPli => 1 | FSli _ => 2 | FRpsi _ _ _ => 3 | FFir _ => 4 end.
Definition fb_ptn (c : fb_cfg) : N := match fb_c_kind c with Transport => 205 | Payload => 206 end.
Definition fb_body (c : fb_cfg) : bytes := be32 (fb_c_sender c) ++ be32 (fb_c_media c) ++ rfc_fci (fb_c_fci c).

Lemma fci_wf_of_values f : fci_values_wf f -> fci_wf f.
Proof. destruct f; cbn; auto. Qed.

Lemma rfc_fb_image c n :
  n = 12 + length (rfc_fci (fb_c_fci c)) + N.to_nat (fb_c_padding c) ->
  rfc_fb c = image (fb_ptn c) (fb_c_padding c) (fb_fmt c) n (fb_body c).
Proof. intros ->. unfold rfc_fb, image, fb_body, fb_ptn, fb_fmt. rewrite <- !app_assoc. reflexivity. Qed.

Lemma fb_image_ok c n :
  fb_wf c -> fb_calc c = Ok n -> (N.of_nat n <= 262144)%N ->
  image_ok 12 (fb_c_padding c) (fb_fmt c) n (fb_body c) /\
  n = 12 + length (rfc_fci (fb_c_fci c)) + N.to_nat (fb_c_padding c) /\
  fci_kind (fci_cfg_type (fb_c_fci c)) = fb_c_kind c /\ exists k, fci_calc (fb_c_fci c) = Ok k.
Proof.
  intros [[H1 [H2 H3]] Hv] Hc Hmax. pose proof (leaf_fb c (fci_wf_of_values _ Hv) n Hc) as [Hlen [Hmod _]].
  pose proof (fb_calc_ok c n Hc) as [Hp [Hk [k [Hfc Hn]]]].
  destruct (fci_write_ok (fb_c_fci c) k (repeat 0%N (pad4 k)) (fci_wf_of_values _ Hv) Hfc) as [Hl _]; [rewrite repeat_length; lia|].
  split; [|split; [lia|split; [exact Hk|eauto]]].
  constructor; try lia.
  - unfold fb_fmt. destruct (fb_c_fci c); lia.
  - unfold fb_body. rewrite !app_length, !be32_length. lia.
Qed.

Lemma wfb_concat (ws : list bytes) : Forall wfb ws -> wfb (concat ws).
Proof. induction 1 as [|w ws Hw Hws IH]; [constructor|]. cbn [concat]. apply wfb_app. split; assumption. Qed.

Lemma wfb_rfc_fci f k : fci_values_wf f -> fci_calc f = Ok k -> wfb (rfc_fci f).
Proof.
  intros Hv Hc. destruct f as [adds|adds|es|pt bits ov|]; cbn [rfc_fci].
  - apply wfb_concat. apply Forall_forall. intros w Hw. apply in_map_iff in Hw. destruct Hw as [x [<- _]].
    apply wfb_app. split; apply wfb_be16.
  - apply wfb_concat. apply Forall_forall. intros w Hw. apply in_map_iff in Hw. destruct Hw as [[kk vv] [<- Hin]].
    cbn [fst snd]. apply wfb_app. split; [apply wfb_be32|].
    assert (Hvv : (vv < 256)%N) by (apply (Hv kk vv); apply rfc_fir_map_in; exact Hin).
    repeat (apply wfb_cons; split; [lia|]). constructor.
  - apply wfb_concat. apply Forall_forall. intros w Hw. apply in_map_iff in Hw. destruct Hw as [[[a b] c] [<- _]].
    apply wfb_be32.
  - cbn [fci_calc] in Hc. destruct (N.ltb_spec 127 pt) as [|Hpt]; [discriminate|].
    destruct (N.ltb_spec 8 ov) as [|Hov]; cbn [orb] in Hc; [discriminate|].
    unfold rfc_rpsi. cbn [fci_values_wf] in Hv.
    assert (Hfill : (4 - (2 + length bits) mod 4) mod 4 <= 3) by lia.
    apply wfb_app. split; [repeat (apply wfb_cons; split; [lia|]); constructor|].
    apply wfb_app. split; [|apply wfb_zeros].
    destruct bits as [|b bs] eqn:Eb; [constructor|]. rewrite <- Eb in *.
    apply wfb_app. split.
    + assert (Hne : bits <> []) by (subst bits; congruence).
      rewrite (app_removelast_last 0%N Hne) in Hv. apply wfb_app in Hv. tauto.
    + apply wfb_cons. split; [|constructor]. pose proof (wfb_last bits Hv).
      assert ((2 ^ ov * (last bits 0 / 2 ^ ov) <= last bits 0)%N) by (apply N.mul_div_le; apply N.pow_nonzero; lia). lia.
  - constructor.
Qed.

Lemma wfb_image pt pad cnt n body :
  (pt < 256)%N -> (pad < 256)%N -> (cnt < 32)%N -> wfb body -> wfb (image pt pad cnt n body).
Proof.
  intros Hpt Hp Hc Hb. unfold image, rfc_header, rfc_trailer.
  apply wfb_app. split.
  - apply wfb_app. split; [|apply wfb_be16].
    repeat (apply wfb_cons; split; [destruct (0 <? pad)%N; lia|]). constructor.
  - apply wfb_app. split; [exact Hb|]. destruct (0 <? pad)%N; [|constructor].
    apply wfb_app. split; [apply wfb_zeros|]. apply wfb_cons. split; [lia|constructor].
Qed.

Theorem fb_roundtrip c n :
  fb_wf c -> fb_calc c = Ok n -> (N.of_nat n <= 262144)%N ->
  (match fb_c_fci c with FFir adds => rfc_fir_map adds <> [] | FSli es => es <> [] | _ => True end) ->
  let v := match fb_c_kind c with Transport => VTfb | Payload => VPfb end in
  typed_parse v (rfc_fb c) = Ok (mk_pkt v (rfc_fb c) []) /\
  obs_view (mk_pkt v (rfc_fb c) []) = exp_fb c.
Proof.
  intros Hwf Hc Hmax Hne v. destruct (fb_image_ok c n Hwf Hc Hmax) as [Hio [Hn [Hkind [k Hfc]]]].
  pose proof Hwf as [[H1 [H2 H3]] Hv].
  rewrite (rfc_fb_image c n Hn). set (img := image (fb_ptn c) (fb_c_padding c) (fb_fmt c) n (fb_body c)).
  assert (Hlen : length img = n) by (apply image_length; apply (io_len _ _ _ _ _ Hio)).
  assert (Hcheck : check_packet 12 (fb_ptn c) img = Ok tt) by (apply image_check_packet; exact Hio).
  assert (Hparse : typed_parse v img = Ok (mk_pkt v img [])).
  { unfold v, fb_ptn in *. destruct (fb_c_kind c); cbn [typed_parse]; unfold fb_parse, FB_MIN, fb_pt, TFB_PT, PFB_PT;
      rewrite Hcheck; reflexivity. }
  split; [exact Hparse|].
  assert (Hbody : img = rfc_header (fb_ptn c) (fb_c_padding c) (fb_fmt c) n ++ be32 (fb_c_sender c) ++
                        be32 (fb_c_media c) ++ rfc_fci (fb_c_fci c) ++ rfc_trailer (fb_c_padding c)).
  { unfold img, image, fb_body. rewrite <- !app_assoc. reflexivity. }
  remember (rfc_header (fb_ptn c) (fb_c_padding c) (fb_fmt c) n) as hdr eqn:Hhdr.
  assert (Hh : length hdr = 4) by (subst hdr; reflexivity).
  assert (Esender : fb_sender_ssrc img = Ok (fb_c_sender c)).
  { rewrite Hbody. unfold fb_sender_ssrc, parse_ssrc. rewrite slice_skip by lia. rewrite Hh. cbn [Nat.sub].
    rewrite slice_take by reflexivity. cbn [bind]. rewrite be_dec_exact_ok by reflexivity.
    rewrite be_dec_be32 by exact H2. reflexivity. }
  assert (Emedia : fb_media_ssrc img = Ok (fb_c_media c)).
  { rewrite Hbody. unfold fb_media_ssrc, parse_ssrc. rewrite tail_from_skip by lia. rewrite Hh.
    replace (4 - 4) with 0 by lia. rewrite tail_from_ok by lia. cbn [bind skipn].
    rewrite slice_skip by len. rewrite be32_length. cbn [Nat.sub].
    rewrite slice_take by reflexivity. cbn [bind]. rewrite be_dec_exact_ok by reflexivity.
    rewrite be_dec_be32 by exact H3. reflexivity. }
  (* the FCI *)
  assert (Hframed : framed 12 img) by (eapply check_packet_framed; [|exact Hcheck]; lia).
  assert (Hwfi : wfb img).
  { unfold img. apply wfb_image; try lia.
    - unfold fb_ptn. destruct (fb_c_kind c); lia.
    - apply (io_cnt _ _ _ _ _ Hio).
    - unfold fb_body. apply wfb_app. split; [apply wfb_be32|]. apply wfb_app. split; [apply wfb_be32|].
      eapply wfb_rfc_fci; eauto. }
  assert (Efci : obs_fcis (fb_c_kind c) img = exp_fcis c).
  { rewrite fb_fci_decoding by assumption. unfold fb_fci_ref, exp_fcis.
    assert (Hb0 : (byte_at img 0 mod 32 = fb_fmt c)%N).
    { rewrite Hbody. subst hdr. unfold rfc_header, byte_at. cbn [app nth].
      pose proof (io_cnt _ _ _ _ _ Hio). destruct (0 <? fb_c_padding c)%N; lia. }
    assert (Hpadlen : ref_pad_len img = N.to_nat (fb_c_padding c)).
    { unfold ref_pad_len, byte_at. rewrite Hbody at 1. subst hdr. unfold rfc_header. cbn [app nth].
      pose proof (io_cnt _ _ _ _ _ Hio).
      destruct (N.ltb_spec 0 (fb_c_padding c)) as [Hpos|Hz].
      - replace (((128 + 32 + fb_fmt c) / 32) mod 2 =? 1)%N with true by (symmetry; apply N.eqb_eq; lia).
        unfold img. rewrite image_last by exact Hpos. reflexivity.
      - replace (((128 + 0 + fb_fmt c) / 32) mod 2 =? 1)%N with false by (symmetry; apply N.eqb_neq; lia). lia. }
    assert (Hsub : sub img 12 (length img - ref_pad_len img - 12) = rfc_fci (fb_c_fci c)).
    { rewrite Hpadlen, Hlen. unfold sub. rewrite Hbody.
      rewrite (skipn_app_len hdr _ 12 8) by lia. rewrite (skipn_app_len (be32 (fb_c_sender c)) _ 8 4) by (rewrite be32_length; lia).
      rewrite (skipn_app_len (be32 (fb_c_media c)) _ 4 0) by (rewrite be32_length; lia). cbn [skipn].
      apply firstn_app_len. lia. }
    rewrite Hb0, Hsub. f_equal. apply map_ext_in. intros t _.
    pose proof (fci_roundtrip (fb_c_fci c) k Hv Hfc Hne) as Hrt. unfold fb_fmt. rewrite <- Hkind.
    destruct t, (fb_c_fci c); cbn [fci_cfg_type fci_kind fb_kind_eqb andb N.eqb Pos.eqb] in *; try reflexivity; exact Hrt. }
  unfold obs_view, exp_fb. unfold v. destruct (fb_c_kind c) eqn:Ek; cbn [pk_variant pk_data]; fold img;
    unfold img at 1; rewrite (image_obs_hdr 12) by exact Hio;
    unfold img at 1; rewrite (image_parse_padding 12) by exact Hio; fold img;
    rewrite Esender, Emedia, Efci; rewrite <- Hn;
    cbv [obs_pres obs_res okPad okO okN obs_optN fb_ptn fb_fmt]; rewrite Ek; reflexivity.
Qed.

Theorem fb_build_then_parse c n (buf : bytes) :
  fb_wf c -> m_calc (MFb c) = Ok n -> (N.of_nat n <= 262144)%N -> n <= length buf ->
  (match fb_c_fci c with FFir adds => rfc_fir_map adds <> [] | FSli es => es <> [] | _ => True end) ->
  let v := match fb_c_kind c with Transport => VTfb | Payload => VPfb end in
  m_write_into (MFb c) buf = (Ok n, rfc_fb c ++ skipn n buf) /\
  packet_parse (rfc_fb c) = Ok (mk_pkt v (rfc_fb c) []) /\
  obs_view (mk_pkt v (rfc_fb c) []) = exp_fb c.
Proof.
  intros Hwf Hc Hmax Hn Hne v. cbn [m_calc] in Hc. destruct (fb_roundtrip c n Hwf Hc Hmax Hne) as [Hp Hv].
  split; [|split; [|exact Hv]].
  - unfold m_write_into. cbn [m_calc m_write_unchecked].
    apply write_into_ok; [exact Hc|exact Hn|]. intros s Hs. apply fb_write_ok; [|assumption|assumption].
    apply fci_wf_of_values. apply Hwf.
  - destruct (fb_image_ok c n Hwf Hc Hmax) as [Hio [Hn' _]]. rewrite (rfc_fb_image c n Hn') in *.
    rewrite (packet_parse_of_image _ _ _ _ _ v); [exact Hp| |apply image_length; apply (io_len _ _ _ _ _ Hio)|].
    + pose proof (io_min _ _ _ _ _ Hio). lia.
    + unfold fb_ptn, v. destruct (fb_c_kind c); reflexivity.
Qed.

(* known finding D15: an empty FIR (or SLI) builder is accepted, but its FCI does not decode *)
Theorem empty_fir_refuted :
  exists c n e, fb_wf c /\ fb_calc c = Ok n /\ parse_fci Payload TFir (rfc_fb c) = Err e.
Proof.
  exists (mk_fb Payload 0 1 2 (FFir [])). eexists. eexists.
  split; [unfold fb_wf; cbn; repeat split; try lia; intros k v []|]. split; vm_compute; reflexivity.
Qed.

Theorem empty_sli_refuted :
  exists c n e, fb_wf c /\ fb_calc c = Ok n /\ parse_fci Payload TSli (rfc_fb c) = Err e.
Proof.
  exists (mk_fb Payload 0 1 2 (FSli [])). eexists. eexists.
  split; [unfold fb_wf; cbn; repeat split; lia|]. split; vm_compute; reflexivity.
Qed.

Example fb_roundtrip_nonvacuous :
  let c := mk_fb Transport 4 1 2 (FNack [65535; 5; 6; 30; 5]%N) in
  fb_wf c /\ exists n, fb_calc c = Ok n.
Proof.
  cbv zeta. split.
  - unfold fb_wf. cbn [fb_c_padding fb_c_sender fb_c_media fb_c_fci fci_values_wf].
    split; [repeat split; lia|]. intros x [H|[H|[H|[H|[H|[]]]]]]; subst; lia.
  - eexists. vm_compute. reflexivity.
Qed.
