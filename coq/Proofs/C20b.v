(* C20, continued: the report-block builder.  Its setters are independent fields of one record: whatever the
   order of the calls and however often a setter is repeated, the block that is added is the one holding the last
   value of each field (the harness builds report blocks through four different call orders, some with a
   discarded earlier value). *)
From RtcpV Require Export Proofs.C20.

Inductive rb_op :=
| RbFraction (v : N) | RbCumulative (v : N) | RbEsn (v : N) | RbJitter (v : N) | RbLsr (v : N) | RbDlsr (v : N).

Definition rb_apply (c : rb_cfg) (o : rb_op) : rb_cfg :=
  match o with
  | RbFraction v => mk_rb (rb_c_ssrc c) v (rb_c_cumulative c) (rb_c_ext_seq c) (rb_c_jitter c) (rb_c_lsr c) (rb_c_dlsr c)
  | RbCumulative v => mk_rb (rb_c_ssrc c) (rb_c_fraction c) v (rb_c_ext_seq c) (rb_c_jitter c) (rb_c_lsr c) (rb_c_dlsr c)
  | RbEsn v => mk_rb (rb_c_ssrc c) (rb_c_fraction c) (rb_c_cumulative c) v (rb_c_jitter c) (rb_c_lsr c) (rb_c_dlsr c)
  | RbJitter v => mk_rb (rb_c_ssrc c) (rb_c_fraction c) (rb_c_cumulative c) (rb_c_ext_seq c) v (rb_c_lsr c) (rb_c_dlsr c)
  | RbLsr v => mk_rb (rb_c_ssrc c) (rb_c_fraction c) (rb_c_cumulative c) (rb_c_ext_seq c) (rb_c_jitter c) v (rb_c_dlsr c)
  | RbDlsr v => mk_rb (rb_c_ssrc c) (rb_c_fraction c) (rb_c_cumulative c) (rb_c_ext_seq c) (rb_c_jitter c) (rb_c_lsr c) v
  end.

(* ReportBlock::builder(ssrc) then the calls *)
Definition rb_of_hist (ssrc : N) (ops : list rb_op) : rb_cfg := fold_left rb_apply ops (mk_rb ssrc 0 0 0 0 0 0).

Definition rb_last (sel : rb_op -> option N) (ops : list rb_op) : N :=
  fold_left (fun acc o => match sel o with Some v => v | None => acc end) ops 0%N.

Definition final_rb (ssrc : N) (ops : list rb_op) : rb_cfg :=
  mk_rb ssrc
        (rb_last (fun o => match o with RbFraction v => Some v | _ => None end) ops)
        (rb_last (fun o => match o with RbCumulative v => Some v | _ => None end) ops)
        (rb_last (fun o => match o with RbEsn v => Some v | _ => None end) ops)
        (rb_last (fun o => match o with RbJitter v => Some v | _ => None end) ops)
        (rb_last (fun o => match o with RbLsr v => Some v | _ => None end) ops)
        (rb_last (fun o => match o with RbDlsr v => Some v | _ => None end) ops).

Theorem rb_history_is_final ssrc ops : rb_of_hist ssrc ops = final_rb ssrc ops.
Proof.
  unfold rb_of_hist, final_rb, rb_last.
  induction ops as [|o ops IH] using rev_ind; [reflexivity|].
  rewrite !fold_left_app. cbn [fold_left]. rewrite IH. destruct o; reflexivity.
Qed.

(* hence any two call sequences that end with the same last value per field add the same block: in
   particular setting LSR after DLSR or before it makes no difference *)
Corollary rb_setter_order_irrelevant ssrc ops1 ops2 :
  final_rb ssrc ops1 = final_rb ssrc ops2 -> rb_of_hist ssrc ops1 = rb_of_hist ssrc ops2.
Proof. intros H. rewrite !rb_history_is_final. exact H. Qed.

Example rb_lsr_dlsr_orders :
  rb_of_hist 7 [RbDlsr 5; RbLsr 0] = rb_of_hist 7 [RbLsr 0; RbDlsr 5] /\
  rb_c_dlsr (rb_of_hist 7 [RbLsr 9; RbDlsr 5; RbLsr 0]) = 5%N.
Proof. split; reflexivity. Qed.
