(* C08: a packet is accepted only if it is exactly and consistently framed. *)
From RtcpV Require Export Proofs.Framing Model.Run.

Definition variant_min (v : variant) : nat :=
  match v with
  | VApp => 12 | VBye => 4 | VRr => 8 | VSdes => 4 | VSr => 28 | VTfb => 12 | VPfb => 12 | VUnknown => 4
  end.

(* the count field announces no more report blocks / sources than the body holds *)
Definition count_of (l : bytes) : nat := match l with b :: _ => N.to_nat (b mod 32) | [] => 0 end.
Definition body_ok (v : variant) (l : bytes) : Prop :=
  match v with
  | VSr => 28 + 24 * count_of l <= length l
  | VRr => 8 + 24 * count_of l <= length l
  | VBye => 4 + 4 * count_of l <= length l
  | _ => True
  end.

Lemma check_ok_unit r : (exists a : unit, r = @Ok perr unit a) -> r = Ok tt.
Proof. intros [[] H]. exact H. Qed.

Lemma parse_count_count_of l n : parse_count l = Ok n -> N.to_nat n = count_of l.
Proof. destruct l as [|b r]; [discriminate|]. rewrite parse_count_cons. intros [= <-]. reflexivity. Qed.

Lemma typed_framed v l p :
  v <> VUnknown -> typed_parse v l = Ok p ->
  check_packet (variant_min v) (variant_pt v) l = Ok tt /\ body_ok v l /\ pk_data p = l /\ pk_variant p = v.
Proof.
  intros Hv H. destruct v; try congruence; cbn [typed_parse] in H;
    apply bind_ok_inv in H; destruct H as [x [H1 H2]]; injection H2 as <-; cbn [pk_data pk_variant body_ok].
  - (* App *) unfold app_parse in H1. apply bind_ok_inv in H1. destruct H1 as [[] [Hc [= <-]]]. auto.
  - (* Bye *) unfold bye_parse in H1. apply bind_ok_inv in H1. destruct H1 as [[] [Hc H1]].
    apply bind_ok_inv in H1. destruct H1 as [n [Hn H1]]. apply parse_count_count_of in Hn. rewrite <- Hn.
    unfold BYE_MIN in H1.
    destruct (Nat.ltb_spec (length l) (4 + 4 * N.to_nat n)); [discriminate|].
    split; [exact Hc|]. split; [lia|].
    destruct (Nat.ltb_spec (4 + 4 * N.to_nat n) (length l)).
    + apply bind_ok_inv in H1. destruct H1 as [rl [_ H1]].
      destruct (length l <? 4 + 4 * N.to_nat n + 1 + N.to_nat rl); [discriminate|]. now injection H1 as <-.
    + now injection H1 as <-.
  - (* Rr *) unfold rr_parse in H1. apply bind_ok_inv in H1. destruct H1 as [[] [Hc H1]].
    apply bind_ok_inv in H1. destruct H1 as [n [Hn H1]]. apply parse_count_count_of in Hn. rewrite <- Hn.
    unfold RR_MIN, RB_SIZE in H1.
    destruct (Nat.ltb_spec (length l) (8 + N.to_nat n * 24)); [discriminate|]. injection H1 as <-.
    split; [exact Hc|]. split; [lia|]. auto.
  - (* Sdes *) unfold sdes_parse in H1. apply bind_ok_inv in H1. destruct H1 as [[] [Hc H1]]. auto.
  - (* Sr *) unfold sr_parse in H1. apply bind_ok_inv in H1. destruct H1 as [[] [Hc H1]].
    apply bind_ok_inv in H1. destruct H1 as [n [Hn H1]]. apply parse_count_count_of in Hn. rewrite <- Hn.
    unfold SR_MIN, RB_SIZE in H1.
    destruct (Nat.ltb_spec (length l) (28 + N.to_nat n * 24)); [discriminate|]. injection H1 as <-.
    split; [exact Hc|]. split; [lia|]. auto.
  - (* Tfb *) unfold fb_parse in H1. apply bind_ok_inv in H1. destruct H1 as [[] [Hc [= <-]]]. auto.
  - (* Pfb *) unfold fb_parse in H1. apply bind_ok_inv in H1. destruct H1 as [[] [Hc [= <-]]]. auto.
Qed.

Lemma variant_min_ge4 v : 4 <= variant_min v.
Proof. destruct v; cbn; lia. Qed.

Theorem typed_accept_framed v l p :
  v <> VUnknown -> typed_parse v l = Ok p ->
  well_framed (variant_min v) (variant_pt v) l = true /\ body_ok v l /\ pk_data p = l /\ pk_variant p = v.
Proof.
  intros Hv H. destruct (typed_framed v l p Hv H) as [Hc R].
  split; [|exact R]. apply check_packet_iff; [apply variant_min_ge4|exact Hc].
Qed.

Theorem unknown_accept_framed l d : unknown_parse l = Ok d -> raw_framed l = true /\ d = l.
Proof.
  unfold unknown_parse, UNK_MIN. intros H.
  destruct (Nat.ltb_spec (length l) 4) as [Hs|Hs]; [discriminate|].
  destruct l as [|a [|b [|c [|d0 r]]]]; cbn [length] in Hs; try lia.
  rewrite parse_version_cons in H. cbn [bind] in H. unfold VERSION in H.
  destruct (N.eqb_spec (a / 64) 2) as [Hv|Hv]; cbn [negb] in H; [|discriminate].
  rewrite parse_length_cons in H. cbn [bind] in H.
  destruct (Nat.ltb_spec (length (a :: b :: c :: d0 :: r)) (4 * (N.to_nat (c * 256 + d0) + 1))); [discriminate|].
  destruct (Nat.ltb_spec (4 * (N.to_nat (c * 256 + d0) + 1)) (length (a :: b :: c :: d0 :: r))); [discriminate|].
  injection H as <-. split; [|reflexivity].
  unfold raw_framed. apply andb_true_iff. split; [apply N.eqb_eq; exact Hv | apply Nat.eqb_eq; lia].
Qed.

Lemma variant_of_pt_pt pt : variant_of_pt pt <> VUnknown -> variant_pt (variant_of_pt pt) = pt.
Proof.
  unfold variant_of_pt, APP_PT, BYE_PT, RR_PT, SDES_PT, SR_PT, PFB_PT, TFB_PT.
  repeat match goal with |- context[(pt =? ?k)%N] => destruct (N.eqb_spec pt k); [subst; reflexivity|] end.
  congruence.
Qed.

Theorem generic_accept_framed l p :
  packet_parse l = Ok p ->
  pk_data p = l /\
  (pk_variant p <> VUnknown ->
     well_framed (variant_min (pk_variant p)) (variant_pt (pk_variant p)) l = true /\ body_ok (pk_variant p) l /\
     nth_error l 1 = Some (variant_pt (pk_variant p))) /\
  (pk_variant p = VUnknown -> raw_framed l = true).
Proof.
  unfold packet_parse. intros H.
  destruct (Nat.ltb_spec (length l) 4) as [Hs|Hs]; [discriminate|].
  apply bind_ok_inv in H. destruct H as [pt [Hpt H]].
  destruct l as [|a [|b r]]; cbn [length] in Hs; try lia.
  rewrite parse_packet_type_cons in Hpt. injection Hpt as <-.
  destruct (variant_of_pt b) eqn:Hv;
    try (assert (Hne : variant_of_pt b <> VUnknown) by congruence;
         pose proof (variant_of_pt_pt b Hne) as Hptb; rewrite Hv in Hptb;
         apply typed_accept_framed in H; [|congruence];
         destruct H as [Hw [Hb [Hd Hpv]]]; rewrite Hpv;
         split; [exact Hd|]; split;
           [intros _; split; [exact Hw|split; [exact Hb|cbn [nth_error]; rewrite Hptb; reflexivity]] | congruence]).
  (* Unknown *)
  cbn [typed_parse] in H. apply bind_ok_inv in H. destruct H as [x [H1 [= <-]]].
  apply unknown_accept_framed in H1. destruct H1 as [Hr ->]. cbn [pk_data pk_variant].
  split; [reflexivity|]. split; [congruence|]. auto.
Qed.

(* the header accessors return exactly the header bytes *)
Theorem header_accessors a b c d r :
  obs_hdr (a :: b :: c :: d :: r) =
  OL [OS "ok"; OL [OL [OS "ok"; ON (a / 64)]; OL [OS "ok"; ON b]; OL [OS "ok"; ON (a mod 32)];
                   OL [OS "ok"; ON (a mod 32)]; OL [OS "ok"; OI (4 * (N.to_nat (c * 256 + d) + 1))]]].
Proof.
  unfold obs_hdr, header_data. rewrite slice_ok by (cbn [length]; lia).
  cbn [skipn firstn Nat.sub obs_pres obs_res].
  rewrite parse_version_cons, parse_packet_type_cons, parse_count_cons, parse_length_cons. reflexivity.
Qed.

(* what well_framed means, spelled out as the conditions the property lists *)
Theorem well_framed_conditions min pt l :
  well_framed min pt l = true ->
  exists a b c d r, l = a :: b :: c :: d :: r /\
    min <= length l /\ (a / 64 = 2)%N /\ b = pt /\ length l = 4 * (N.to_nat (c * 256 + d) + 1) /\
    (((a / 32) mod 2 = 1)%N -> (0 < last l 0)%N /\ min + N.to_nat (last l 0%N) <= length l).
Proof.
  intros H. destruct l as [|a [|b [|c [|d r]]]]; try discriminate.
  exists a, b, c, d, r. rewrite well_framed_cons in H. cbv zeta in H. bool_to_prop.
  split; [reflexivity|]. split; [assumption|]. split; [assumption|]. split; [assumption|].
  split; [assumption|]. intros Hp. rewrite Hp in *.
  match goal with H : context[(1 =? 1)%N] |- _ => change (1 =? 1)%N with true in H; cbv iota in H end.
  bool_to_prop. lia.
Qed.

Example typed_accept_nonvacuous :
  exists p, typed_parse VBye [129; 203; 0; 1; 222; 173; 190; 239]%N = Ok p.
Proof. eexists. vm_compute. reflexivity. Qed.
