(* C05, FCI level: the reference decoding of the RFC image of an FCI configuration is the configuration. *)
From RtcpV Require Export Proofs.NackRoundTrip.

Lemma words_concat k (ws : list bytes) fuel :
  0 < k -> Forall (fun w => length w = k) ws -> length ws <= fuel -> words k fuel (concat ws) = ws.
Proof.
  intros Hk. revert fuel. induction ws as [|w ws IH]; intros fuel Hf Hl.
  - destruct fuel; cbn [words concat length]; [reflexivity|]. destruct (Nat.ltb_spec 0 k); [reflexivity|lia].
  - inversion Hf as [|? ? Hw Hws]; subst. destruct fuel as [|fuel]; [cbn [length] in Hl; lia|].
    cbn [words concat]. destruct (Nat.ltb_spec (length (w ++ concat ws)) (length w)) as [Hlt|Hge];
      [rewrite app_length in Hlt; lia|].
    rewrite firstn_app_len by reflexivity. rewrite (skipn_app_len w _ (length w) 0) by lia. cbn [skipn].
    rewrite IH by (assumption || (cbn [length] in Hl; lia)). reflexivity.
Qed.

(* values a caller can pass *)
Definition fci_values_wf (f : fci_cfg) : Prop :=
  match f with
  | FNack adds => forall x, In x adds -> (x < 65536)%N
  | FFir adds => forall k v, In (k, v) adds -> (k < 4294967296 /\ v < 256)%N
  | FSli _ => True
  | FRpsi pt bits ov => wfb bits
  | FPli => True
  end.

Lemma fir_lookup_in adds k v : rfc_fir_lookup adds k = Some v -> In (k, v) adds.
Proof.
  unfold rfc_fir_lookup.
  assert (H : forall a acc, fold_left (fun acc kv => if (fst kv =? k)%N then Some (snd kv) else acc) a acc = Some v ->
                            In (k, v) a \/ acc = Some v).
  { induction a as [|[k0 v0] a IH] using rev_ind; intros acc H; [right; exact H|].
    rewrite fold_left_app in H. cbn [fold_left fst snd] in H. destruct (N.eqb_spec k0 k) as [->|Hne].
    - injection H as ->. left. apply in_or_app. right. now left.
    - destruct (IH acc H) as [Hin|Hacc]; [left; apply in_or_app; now left|right; exact Hacc]. }
  intros Hl. destruct (H adds None Hl) as [Hin|Hn]; [exact Hin|discriminate].
Qed.

Lemma rfc_fir_map_in adds k v : In (k, v) (rfc_fir_map adds) -> In (k, v) adds.
Proof. intros H. apply fir_lookup_in. apply (proj2 (rfc_fir_map_spec adds)). exact H. Qed.

(* ---------------------------------------------------------------- per FCI type *)

Theorem fci_roundtrip f k :
  fci_values_wf f -> fci_calc f = Ok k ->
  (match f with FFir adds => rfc_fir_map adds <> [] | FSli es => es <> [] | _ => True end) ->
  fci_ref (fci_cfg_type f) 12 (rfc_fci f) = exp_fci_entries f.
Proof.
  intros Hwf Hc Hne. destruct f as [adds|adds|es|pt bits ov|]; cbn [fci_cfg_type fci_ref rfc_fci exp_fci_entries].
  - (* NACK *)
    destruct (rfc_set_spec adds) as [Hasc Hin].
    set (s := rfc_set adds) in *. set (ws := rfc_nack_words (length s) s).
    assert (Hf : Forall (fun w : bytes => length w = 4) (map (fun w => be16 (fst w) ++ be16 (snd w)) ws))
      by (apply Forall_forall; intros w Hw; apply in_map_iff in Hw; destruct Hw as [x [<- _]]; reflexivity).
    rewrite words_concat; [|lia|exact Hf|].
    2:{ rewrite concat_words4_length by exact Hf. rewrite map_length. lia. }
    unfold ws. rewrite nack_roundtrip; [reflexivity|lia|exact Hasc|]. intros x Hx. apply Hwf. apply Hin. exact Hx.
  - (* FIR *)
    set (m := rfc_fir_map adds) in *.
    assert (Hf : Forall (fun w : bytes => length w = 8) (map (fun kv => be32 (fst kv) ++ [snd kv; 0; 0; 0]%N) m))
      by (apply Forall_forall; intros w Hw; apply in_map_iff in Hw; destruct Hw as [x [<- _]]; reflexivity).
    assert (Hl : length (concat (map (fun kv => be32 (fst kv) ++ [snd kv; 0; 0; 0]%N) m)) = 8 * length m)
      by (apply concat_fir_length).
    rewrite Hl. destruct m as [|e0 m'] eqn:Em; [congruence|].
    destruct (Nat.ltb_spec (8 * length (e0 :: m')) 8); [cbn [length] in *; lia|].
    rewrite words_concat; [|lia|exact Hf|rewrite map_length; lia].
    rewrite map_map.
    assert (Hmap : map (fun x : N * N => OL [ON (beN (be32 (fst x) ++ [snd x; 0; 0; 0]%N) 0 4);
                                               ON (byte_at (be32 (fst x) ++ [snd x; 0; 0; 0]%N) 4)]) (e0 :: m') =
                   map (fun kv : N * N => OL [ON (fst kv); ON (snd kv)]) (e0 :: m')).
    { apply map_ext_in. intros [kk vv] Hin. cbn [fst snd].
      assert (Hv : (kk < 4294967296 /\ vv < 256)%N).
      { apply (Hwf kk vv). apply rfc_fir_map_in. fold m. rewrite Em. exact Hin. }
      unfold beN, sub, byte_at. cbn [skipn]. rewrite firstn_app_len by reflexivity.
      rewrite be_dec_be32 by lia. unfold be32. cbn [app nth]. reflexivity. }
    rewrite Hmap. reflexivity.
  - (* SLI *)
    assert (Hf : Forall (fun w : bytes => length w = 4) (map rfc_sli_word es)).
    { apply Forall_forall. intros w Hw. apply in_map_iff in Hw. destruct Hw as [[[a b] c] [<- _]]. reflexivity. }
    assert (Hl : length (concat (map rfc_sli_word es)) = 4 * length es)
      by (rewrite concat_words4_length by exact Hf; rewrite map_length; reflexivity).
    rewrite Hl. destruct es as [|e0 es'] eqn:Ees; [congruence|].
    destruct (Nat.ltb_spec (4 * length (e0 :: es')) 4); [cbn [length] in *; lia|].
    rewrite words_concat; [|lia|exact Hf|rewrite map_length; lia].
    rewrite map_map.
    assert (Hmap : map (fun x : N * N * N => OL [ON (beN (rfc_sli_word x) 0 4 / 524288);
                                              ON ((beN (rfc_sli_word x) 0 4 / 64) mod 8192);
                                              ON (beN (rfc_sli_word x) 0 4 mod 64)]%N) (e0 :: es') =
                   map (fun e : N * N * N => OL [ON (fst (fst e) mod 8192); ON (snd (fst e) mod 8192); ON (snd e mod 64)]%N) (e0 :: es')).
    { apply map_ext. intros [[first number] pid]. cbn [fst snd].
      unfold rfc_sli_word, beN, sub. cbn [skipn]. rewrite firstn_all2 by (rewrite be32_length; lia).
      rewrite be_dec_be32 by lia.
      set (x := (first mod 8192 * 524288 + number mod 8192 * 64 + pid mod 64)%N).
      assert (E1 : (x / 524288 = first mod 8192)%N) by (unfold x; lia).
      assert (E2 : ((x / 64) mod 8192 = number mod 8192)%N) by (unfold x; lia).
      assert (E3 : (x mod 64 = pid mod 64)%N) by (unfold x; lia).
      rewrite E1, E2, E3. reflexivity. }
    rewrite Hmap. reflexivity.
  - (* RPSI *)
    cbn [fci_calc] in Hc. destruct (N.ltb_spec 127 pt) as [|Hpt]; [discriminate|].
    destruct (N.ltb_spec 8 ov) as [|Hov]; cbn [orb] in Hc; [discriminate|].
    destruct (match bits with [] => true | _ :: _ => false end && (0 <? ov)%N) eqn:Hemp; [discriminate|].
    rewrite rfc_rpsi_length.
    pose proof (pad4_ge (2 + length bits)) as Hge. pose proof (pad4_lt (2 + length bits)) as Hlt.
    destruct (Nat.ltb_spec (pad4 (2 + length bits)) 4); [unfold pad4 in *; lia|].
    assert (Hfill : (4 - (2 + length bits) mod 4) mod 4 = pad4 (2 + length bits) - (2 + length bits)) by (unfold pad4; lia).
    unfold byte_at.
    set (fill := pad4 (2 + length bits) - (2 + length bits)) in *.
    assert (E0 : nth 0 (rfc_rpsi pt bits ov) 0%N = (N.of_nat (8 * fill) + ov)%N) by (unfold rfc_rpsi; rewrite Hfill; reflexivity).
    assert (E1 : nth 1 (rfc_rpsi pt bits ov) 0%N = pt) by (unfold rfc_rpsi; reflexivity).
    rewrite E0, E1.
    assert (Hpb : N.to_nat (N.of_nat (8 * fill) + ov) = 8 * fill + N.to_nat ov) by lia. rewrite Hpb.
    assert (Hdiv : (8 * fill + N.to_nat ov) / 8 = fill + N.to_nat ov / 8) by lia.
    destruct (Nat.ltb_spec (pad4 (2 + length bits) - 2) ((8 * fill + N.to_nat ov) / 8)) as [Hbad|Hok].
    + (* only when the string is empty and ov = 8, which the builder rejects *)
      exfalso. rewrite Hdiv in Hbad. assert (Hov8 : N.to_nat ov / 8 <= 1) by lia.
      destruct (Nat.eq_dec (length bits) 0) as [Hz|Hnz].
      * apply length_zero_iff_nil in Hz. subst bits. cbn [andb length] in *.
        destruct (N.ltb_spec 0 ov); [discriminate|]. assert (ov = 0%N) by lia. subst ov.
        unfold fill, pad4 in *. cbn in *. lia.
      * unfold fill in *. lia.
    + unfold okO, okN. change (12 + 2) with 14. rewrite !Hfill. rewrite N.mod_small by lia.
      replace (pad4 (2 + length bits) - 2 - (8 * fill + N.to_nat ov) / 8) with (length bits + fill - (8 * fill + N.to_nat ov) / 8)
        by (unfold fill; lia).
      reflexivity.
  - (* PLI *) reflexivity.
Qed.
