(* C10: SDES decoding follows the RFC 3550 chunk and item tokenisation. *)
From RtcpV Require Export Proofs.C03.

(* ---------------------------------------------------------------- one item, from arbitrary bytes *)

Lemma split_item (t : bytes) len :
  2 + len <= length t -> t = nth 0 t 0%N :: nth 1 t 0%N :: firstn len (skipn 2 t) ++ skipn (2 + len) t.
Proof.
  intros H. destruct t as [|a [|b r]]; cbn [length] in H; try lia.
  cbn [nth skipn Nat.add]. rewrite firstn_skipn. reflexivity.
Qed.

(* the configuration whose RFC image is the item at the head of [t] *)
Definition item_cfg_of (t : bytes) : item_cfg :=
  let ty := nth 0 t 0%N in
  let len := N.to_nat (nth 1 t 0%N) in
  let body := firstn len (skipn 2 t) in
  if (ty =? 8)%N then
    let pl := N.to_nat (nth 2 t 0%N) in
    mk_icfg ty (firstn pl (skipn 1 body)) (skipn pl (skipn 1 body))
  else mk_icfg ty [] body.

Lemma item_cfg_of_ok (t : bytes) :
  wfb t -> 2 <= length t ->
  let ty := nth 0 t 0%N in
  let len := N.to_nat (nth 1 t 0%N) in
  2 + len <= length t ->
  (ty = 8%N -> 1 <= len /\ N.to_nat (nth 2 t 0%N) + 1 <= len) ->
  item_calc (item_cfg_of t) = Ok (2 + len) /\ t = rfc_item (item_cfg_of t) ++ skipn (2 + len) t /\
  it_c_type (item_cfg_of t) = ty.
Proof.
  intros Hw H2 ty len Hfit Hpriv.
  assert (Hlb : (nth 1 t 0 < 256)%N).
  { destruct t as [|a [|b r]]; cbn [length] in H2; try lia. cbn [nth].
    apply wfb_cons in Hw. destruct Hw as [_ Hw]. apply wfb_cons in Hw. tauto. }
  pose proof (split_item t len Hfit) as Hs. fold ty in Hs.
  set (body := firstn len (skipn 2 t)) in *.
  assert (Hbl : length body = len) by (unfold body; rewrite firstn_length, skipn_length; lia).
  unfold item_cfg_of. fold ty len body. unfold item_calc, rfc_item, PRIV.
  destruct (N.eqb_spec ty 8) as [Ht|Ht]; cbn [it_c_type it_c_prefix it_c_value].
  - destruct (Hpriv Ht) as [H1 Hpl]. set (pl := N.to_nat (nth 2 t 0%N)) in *.
    destruct (N.eqb_spec ty 8); [|contradiction].
    assert (Hb : body = nth 2 t 0%N :: skipn 1 body).
    { destruct body as [|x b'] eqn:Eb; [cbn [length] in Hbl; lia|]. cbn [skipn]. f_equal.
      assert (Hx : nth 0 body 0%N = x) by (rewrite Eb; reflexivity). rewrite <- Hx. unfold body.
      destruct t as [|a [|b [|c r]]]; cbn [length] in *; try lia. cbn [skipn nth]. destruct len; [lia|]. reflexivity. }
    assert (Hl1 : length (skipn 1 body) = len - 1) by (rewrite skipn_length; lia).
    rewrite firstn_length, !skipn_length, Hbl.
    replace (Nat.min pl (len - 1)) with pl by lia.
    destruct (Nat.ltb_spec 255 (pl + 1)); [lia|]. destruct (Nat.ltb_spec 255 (pl + 1 + (len - 1 - pl))) as [|_]; [lia|].
    split; [f_equal; lia|]. split; [|reflexivity].
    replace (1 + pl + (len - 1 - pl)) with len by lia. unfold len at 1, pl at 1. rewrite !N2Nat.id.
    cbn [app]. rewrite firstn_skipn. rewrite Hs at 1. rewrite Hb at 1. reflexivity.
  - destruct (N.eqb_spec ty 8); [contradiction|]. rewrite Hbl.
    destruct (Nat.ltb_spec 255 len); [lia|]. split; [reflexivity|]. split; [|reflexivity].
    unfold len at 1. rewrite N2Nat.id. cbn [app]. exact Hs.
Qed.

(* the reference token of the item at absolute position p, read from t = the bytes from p on *)
Definition ref_token (p : nat) (t : bytes) : ref_item :=
  let ty := nth 0 t 0%N in
  let len := N.to_nat (nth 1 t 0%N) in
  if (ty =? 8)%N then
    let pl := N.to_nat (nth 2 t 0%N) in RItem ty (p + 3 + pl) (len - 1 - pl) (Some (p + 3, pl))
  else RItem ty (p + 2) len None.

Lemma exp_item_token p (t : bytes) :
  wfb t -> 2 <= length t ->
  let ty := nth 0 t 0%N in
  let len := N.to_nat (nth 1 t 0%N) in
  2 + len <= length t ->
  (ty = 8%N -> 1 <= len /\ N.to_nat (nth 2 t 0%N) + 1 <= len) ->
  exp_item p (item_cfg_of t) = obs_ref_item (ref_token p t).
Proof.
  intros Hw H2 ty len Hfit Hpriv. unfold exp_item, ref_token, item_cfg_of. fold ty len.
  destruct (N.eqb_spec ty 8) as [Ht|Ht]; cbn [it_c_type it_c_prefix it_c_value obs_ref_item].
  - destruct (Hpriv Ht) as [H1 Hpl]. set (pl := N.to_nat (nth 2 t 0%N)) in *.
    destruct (N.eqb_spec ty 8); [|contradiction].
    rewrite firstn_length, !skipn_length, firstn_length, skipn_length.
    replace (Nat.min pl (Nat.min len (length t - 2) - 1)) with pl by lia.
    replace (Nat.min len (length t - 2) - 1 - pl) with (len - 1 - pl) by lia.
    rewrite Ht. reflexivity.
  - destruct (N.eqb_spec ty 8); [contradiction|]. rewrite firstn_length, skipn_length.
    replace (Nat.min len (length t - 2)) with len by lia. reflexivity.
Qed.

(* item_parse rejects what the RFC tokeniser rejects *)
Lemma item_parse_short (t : bytes) : length t < 2 -> exists err, item_parse t = Err err.
Proof. intros H. unfold item_parse. destruct (Nat.ltb_spec (length t) 2); [eauto|lia]. Qed.

Lemma idx_nth (t : bytes) i : i < length t -> @idx perr t i = Ok (nth i t 0%N).
Proof. apply idx_byte. Qed.

Lemma item_parse_overrun (t : bytes) :
  2 <= length t -> length t < 2 + N.to_nat (nth 1 t 0%N) -> exists err, item_parse t = Err err.
Proof.
  intros H2 H. unfold item_parse. destruct (Nat.ltb_spec (length t) 2); [lia|].
  rewrite idx_nth by lia. cbn [bind]. destruct (Nat.ltb_spec (length t) (2 + N.to_nat (nth 1 t 0%N))); [eauto|lia].
Qed.

Lemma item_parse_prefix_overrun (t : bytes) :
  wfb t -> 2 <= length t ->
  let len := N.to_nat (nth 1 t 0%N) in
  2 + len <= length t -> nth 0 t 0%N = 8%N -> 1 <= len -> len < N.to_nat (nth 2 t 0%N) + 1 ->
  exists err, item_parse t = Err err.
Proof.
  intros Hw H2 len Hfit Hty H1 Hpl.
  assert (Hlb : (nth 1 t 0 < 256)%N).
  { destruct t as [|a [|b r]]; cbn [length] in H2; try lia. cbn [nth].
    apply wfb_cons in Hw. destruct Hw as [_ Hw]. apply wfb_cons in Hw. tauto. }
  unfold item_parse. destruct (Nat.ltb_spec (length t) 2); [lia|].
  rewrite idx_nth by lia. cbn [bind]. fold len.
  destruct (Nat.ltb_spec (length t) (2 + len)); [lia|]. destruct (Nat.ltb_spec 255 len); [lia|].
  rewrite slice_ok by lia. cbn [bind skipn]. rewrite Nat.sub_0_r.
  assert (Hl : length (firstn (2 + len) t) = 2 + len) by (rewrite firstn_length; lia).
  rewrite idx_nth by lia. cbn [bind].
  assert (E0 : nth 0 (firstn (2 + len) t) 0%N = 8%N) by (fold (byte_at (firstn (2 + len) t) 0); rewrite byte_at_firstn by lia; exact Hty).
  rewrite E0. change (8 =? PRIV)%N with true. cbv iota.
  destruct (Nat.ltb_spec (length (firstn (2 + len) t)) 3); [lia|].
  rewrite idx_nth by lia. cbn [bind].
  assert (E2 : nth 2 (firstn (2 + len) t) 0%N = nth 2 t 0%N) by (fold (byte_at (firstn (2 + len) t) 2); rewrite byte_at_firstn by lia; reflexivity).
  rewrite E2. destruct (Nat.ltb_spec (2 + len) (N.to_nat (nth 2 t 0%N) + 3)); [eauto|lia].
Qed.

(* ---------------------------------------------------------------- the zero fill *)

Definition is0 (b : N) : bool := (b =? 0)%N.

Lemma sub_S (d : bytes) o z : o < length d -> sub d o (S z) = nth o d 0%N :: sub d (o + 1) z.
Proof.
  intros H. unfold sub. revert d H. induction o as [|o IH]; intros d H.
  - destruct d as [|x d]; [cbn [length] in H; lia|]. reflexivity.
  - destruct d as [|x d]; [cbn [length] in H; lia|]. cbn [skipn nth Nat.add]. apply IH. cbn [length] in H. lia.
Qed.

Lemma zero_skip_spec (data : bytes) z : forall fuel o,
  z < fuel -> z < 4 -> (o + z) mod 4 = 0 -> o + z <= length data ->
  (forallb is0 (sub data o z) = true -> zero_skip fuel data o = Ok (o + z)) /\
  (forallb is0 (sub data o z) = false -> exists o', zero_skip fuel data o = Ok o' /\ o' mod 4 <> 0).
Proof.
  induction z as [|z IH]; intros fuel o Hf Hz Hm Hl; (destruct fuel as [|fuel]; [lia|]); cbn [zero_skip].
  - rewrite Nat.add_0_r in *. rewrite Hm. cbn [Nat.eqb negb andb]. split; [reflexivity|].
    unfold sub. cbn [firstn forallb]. discriminate.
  - destruct (Nat.eqb_spec (o mod 4) 0) as [He|Hne]; [lia|]. cbn [negb andb].
    destruct (Nat.ltb_spec o (length data)); [|lia]. rewrite idx_nth by lia. cbn [bind].
    rewrite sub_S by lia. cbn [forallb]. unfold is0 at 1 3.
    destruct (N.eqb_spec (nth o data 0%N) 0) as [Hz0|Hnz]; cbn [andb].
    + destruct (IH fuel (o + 1)) as [I1 I2]; try lia.
      split; intros Hall; [rewrite (I1 Hall); f_equal; lia|exact (I2 Hall)].
    + split; [discriminate|]. intros _. exists o. split; [reflexivity|exact Hne].
Qed.

(* ---------------------------------------------------------------- the rest of a chunk: items, fill, alignment *)

Definition chunk_tail (fuel base : nat) (data : bytes) (o : nat) : pres (list item_view * nat) :=
  '(items, offset) <- items_loop fuel base data o ;;
  offset <- zero_skip 4 data offset ;;
  if negb (pad4 offset =? offset) then Err (Truncated (pad4 offset) offset) else Ok (items, offset).

Lemma chunk_tail_item fuel base (data : bytes) o it k :
  o < length data -> nth o data 0%N <> 0%N -> item_parse (skipn o data) = Ok (it, k) ->
  chunk_tail (S fuel) base data o =
  ('(its, o') <- chunk_tail fuel base data (o + k) ;; Ok (mk_item (base + o) it :: its, o')).
Proof.
  intros Ho Hnz Hip. unfold chunk_tail. cbn [items_loop].
  destruct (Nat.ltb_spec o (length data)); [|lia]. rewrite idx_nth by lia. cbn [bind].
  destruct (N.eqb_spec (nth o data 0%N) 0); [contradiction|].
  rewrite tail_from_ok by lia. cbn [bind]. rewrite Hip. cbn [bind].
  destruct (items_loop fuel base data (o + k)) as [[its o']| | |]; cbn [bind]; try reflexivity.
  destruct (zero_skip 4 data o') as [o''| | |]; cbn [bind]; try reflexivity.
  destruct (negb (pad4 o'' =? o'')); reflexivity.
Qed.

Lemma chunk_tail_item_err fuel base (data : bytes) o err :
  o < length data -> nth o data 0%N <> 0%N -> item_parse (skipn o data) = Err err ->
  chunk_tail (S fuel) base data o = Err err.
Proof.
  intros Ho Hnz Hip. unfold chunk_tail. cbn [items_loop].
  destruct (Nat.ltb_spec o (length data)); [|lia]. rewrite idx_nth by lia. cbn [bind].
  destruct (N.eqb_spec (nth o data 0%N) 0); [contradiction|].
  rewrite tail_from_ok by lia. cbn [bind]. rewrite Hip. reflexivity.
Qed.

Lemma chunk_tail_end fuel base (data : bytes) o :
  o < length data -> nth o data 0%N = 0%N ->
  chunk_tail (S fuel) base data o =
  (offset <- zero_skip 4 data (o + 1) ;;
   if negb (pad4 offset =? offset) then Err (Truncated (pad4 offset) offset) else Ok ([], offset)).
Proof.
  intros Ho Hz. unfold chunk_tail. cbn [items_loop].
  destruct (Nat.ltb_spec o (length data)); [|lia]. rewrite idx_nth by lia. cbn [bind].
  rewrite Hz. change (0 =? 0)%N with true. cbv iota. reflexivity.
Qed.

Section Agree.
  Variables (l : bytes) (e off : nat).
  Hypothesis Hw : wfb l.
  Hypothesis Hoff : off <= e.
  Hypothesis He : e <= length l.
  Hypothesis Hal : off mod 4 = 0.

  Let data := firstn (e - off) (skipn off l).

  Lemma data_length : length data = e - off.
  Proof. unfold data. rewrite firstn_length, skipn_length. lia. Qed.

  Lemma data_nth o : o < e - off -> nth o data 0%N = byte_at l (off + o).
  Proof.
    intros H. unfold data. fold (byte_at (firstn (e - off) (skipn off l)) o).
    rewrite byte_at_firstn by lia. apply byte_at_skipn.
  Qed.

  Lemma data_tail o : o <= e - off -> skipn o data = firstn (e - off - o) (skipn (off + o) l).
  Proof. intros H. unfold data. rewrite skipn_firstn_comm, skipn_skipn. replace (o + off) with (off + o) by lia. reflexivity. Qed.

  Lemma tail_nth o i : o + i < e - off -> nth i (skipn o data) 0%N = byte_at l (off + o + i).
  Proof.
    intros H. fold (byte_at (skipn o data) i). rewrite byte_at_skipn. unfold byte_at at 1. rewrite data_nth by lia.
    replace (off + (o + i)) with (off + o + i) by lia. reflexivity.
  Qed.

  Lemma data_sub o z : o + z <= e - off -> sub data o z = sub l (off + o) z.
  Proof.
    intros H. unfold sub, data. rewrite skipn_firstn_comm, skipn_skipn, firstn_firstn.
    replace (Nat.min z (e - off - o)) with z by lia. replace (o + off) with (off + o) by lia. reflexivity.
  Qed.

  Lemma pad4_shift x : pad4 (off + x) = off + pad4 x.
  Proof. unfold pad4. lia. Qed.

  Theorem items_agree fr : forall fm p,
    off <= p -> e - p < fm ->
    match ref_items fr l e p with
    | Done (rits, stop) =>
        exists its S, chunk_tail fm off data (p - off) = Ok (its, stop - off) /\
                      map obs_item its = map obs_ref_item rits /\
                      items_len_sum its = Ok S /\ stop = pad4 (p + S + 1) /\ p < stop <= e
    | Reject => exists err, chunk_tail fm off data (p - off) = Err err
    | Ambiguous => True
    end.
  Proof.
    induction fr as [|fr IH]; intros fm p Hp Hfm; cbn [ref_items]; [exact I|].
    destruct (Nat.leb_spec e p) as [|Hlt]; [exact I|].
    destruct fm as [|fm]; [lia|].
    set (o := p - off). assert (Ho : o < length data) by (rewrite data_length; unfold o; lia).
    assert (Hb : nth o data 0%N = byte_at l p) by (rewrite data_nth by (unfold o; lia); f_equal; unfold o; lia).
    destruct (N.eqb_spec (byte_at l p) 0) as [Hz|Hnz].
    - (* terminator and fill *)
      destruct (Nat.ltb_spec e (pad4 (p + 1))) as [|Hfit]; [exact I|].
      rewrite chunk_tail_end by (assumption || (rewrite Hb; exact Hz)).
      set (stop := pad4 (p + 1)) in *. set (z := stop - (p + 1)).
      assert (Hstop : p + 1 <= stop /\ stop < p + 1 + 4 /\ stop mod 4 = 0) by (unfold stop, pad4; lia).
      destruct (zero_skip_spec data z 4 (o + 1)) as [Z1 Z2]; try (unfold z, o; rewrite ?data_length; lia).
      assert (Hsub : sub l p (stop - p) = 0%N :: sub data (o + 1) z).
      { replace (stop - p) with (S z) by (unfold z; lia). rewrite sub_S by lia. fold (byte_at l p). rewrite Hz. f_equal.
        rewrite data_sub by (unfold o, z; lia). f_equal. unfold o. lia. }
      rewrite Hsub. cbn [forallb]. change (0 =? 0)%N with true. cbn [andb].
      change (fun b : N => (b =? 0)%N) with is0.
      destruct (forallb is0 (sub data (o + 1) z)) eqn:Hall.
      + rewrite (Z1 eq_refl). cbn [bind]. replace (o + 1 + z) with (stop - off) by (unfold o, z; lia).
        assert (Hp4 : pad4 (stop - off) = stop - off) by (unfold pad4; lia). rewrite Hp4, Nat.eqb_refl. cbn [negb].
        exists [], 0. split; [reflexivity|]. split; [reflexivity|]. split; [reflexivity|].
        split; [unfold stop; f_equal; lia|lia].
      + destruct (Z2 eq_refl) as [o' [-> Hm]]. cbn [bind].
        destruct (Nat.eqb_spec (pad4 o') o') as [Hp4|_]; [unfold pad4 in Hp4; lia|]. cbn [negb]. eauto.
    - (* an item *)
      set (t := skipn o data).
      assert (Htl : length t = e - p) by (unfold t; rewrite skipn_length, data_length; unfold o; lia).
      assert (Hwt : wfb t) by (unfold t, data; apply wfb_skipn, wfb_firstn, wfb_skipn, Hw).
      assert (Hnzd : nth o data 0%N <> 0%N) by (rewrite Hb; exact Hnz).
      destruct (Nat.ltb_spec e (p + 2)) as [Hs|Hs].
      { destruct (item_parse_short t ltac:(lia)) as [err Herr]. exists err. apply chunk_tail_item_err; assumption. }
      assert (T0 : nth 0 t 0%N = byte_at l p) by (unfold t; rewrite tail_nth by (unfold o; lia); f_equal; unfold o; lia).
      assert (T1 : nth 1 t 0%N = byte_at l (p + 1)) by (unfold t; rewrite tail_nth by (unfold o; lia); f_equal; unfold o; lia).
      set (len := N.to_nat (byte_at l (p + 1))) in *.
      destruct (Nat.ltb_spec e (p + 2 + len)) as [Hov|Hfit].
      { destruct (item_parse_overrun t ltac:(lia) ltac:(rewrite T1; fold len; lia)) as [err Herr].
        exists err. apply chunk_tail_item_err; assumption. }
      assert (T2 : 1 <= len -> nth 2 t 0%N = byte_at l (p + 2)).
      { intros H1. unfold t. rewrite tail_nth by (unfold o; lia). f_equal. unfold o. lia. }
      (* PRIV prefix *)
      assert (Hcase : (byte_at l p = 8%N /\ len = 0) \/
                      (byte_at l p = 8%N /\ 1 <= len /\ len < N.to_nat (byte_at l (p + 2)) + 1) \/
                      (byte_at l p = 8%N -> 1 <= len /\ N.to_nat (byte_at l (p + 2)) + 1 <= len)).
      { destruct (N.eq_dec (byte_at l p) 8) as [E8|N8]; [|right; right; intros; contradiction].
        destruct (Nat.eq_dec len 0) as [L0|L0]; [left; auto|].
        destruct (Nat.lt_ge_cases len (N.to_nat (byte_at l (p + 2)) + 1)); [right; left|right; right]; intros; lia. }
      destruct Hcase as [[E8 L0]|[[E8 [L1 Lpl]]|Hgood]].
      { rewrite E8. change (8 =? 8)%N with true. cbv iota. rewrite L0. cbn [Nat.eqb]. exact I. }
      { rewrite E8. change (8 =? 8)%N with true. cbv iota.
        destruct (Nat.eqb_spec len 0); [lia|]. destruct (Nat.ltb_spec len (N.to_nat (byte_at l (p + 2)) + 1)); [|lia].
        destruct (item_parse_prefix_overrun t Hwt ltac:(lia)) as [err Herr]; try (rewrite ?T0, ?T1, ?T2; fold len; assumption || lia).
        exists err. apply chunk_tail_item_err; assumption. }
      (* a well-formed item: the model parses the same token *)
      assert (Hpriv_t : nth 0 t 0%N = 8%N -> 1 <= N.to_nat (nth 1 t 0%N) /\ N.to_nat (nth 2 t 0%N) + 1 <= N.to_nat (nth 1 t 0%N)).
      { rewrite T0, T1. fold len. intros E8. destruct (Hgood E8) as [G1 G2]. rewrite (T2 G1). auto. }
      destruct (item_cfg_of_ok t Hwt ltac:(lia) ltac:(rewrite T1; fold len; lia) Hpriv_t) as [Hcalc [Hsplit Hty]].
      rewrite T1 in Hcalc, Hsplit. fold len in Hcalc, Hsplit.
      assert (Hip : item_parse t = Ok (rfc_item (item_cfg_of t), 2 + len)).
      { rewrite Hsplit at 1. apply item_parse_rfc. exact Hcalc. }
      pose proof (exp_item_token p t Hwt ltac:(lia) ltac:(rewrite T1; fold len; lia) Hpriv_t) as Htok.
      destruct (item_view_rfc (off + o) (item_cfg_of t) (2 + len) Hcalc) as [Hobs Hilen].
      rewrite (chunk_tail_item fm off data o _ _ Ho Hnzd Hip).
      specialize (IH fm (p + 2 + len) ltac:(lia) ltac:(lia)).
      replace (p + 2 + len - off) with (o + (2 + len)) in IH by (unfold o; lia).
      (* the reference's view of the prefix *)
      assert (Hpre : (if (byte_at l p =? 8)%N
                      then if len =? 0 then Ambiguous
                           else if len <? N.to_nat (byte_at l (p + 2)) + 1 then Reject
                                else Done (Some (p + 3, N.to_nat (byte_at l (p + 2))))
                      else Done None) =
                     Done (if (byte_at l p =? 8)%N then Some (p + 3, N.to_nat (byte_at l (p + 2))) else None)).
      { destruct (N.eqb_spec (byte_at l p) 8) as [E8|]; [|reflexivity]. destruct (Hgood E8) as [G1 G2].
        destruct (Nat.eqb_spec len 0); [lia|]. destruct (Nat.ltb_spec len (N.to_nat (byte_at l (p + 2)) + 1)); [lia|reflexivity]. }
      rewrite Hpre.
      destruct (ref_items fr l e (p + 2 + len)) as [[rits stop]| |].
      + destruct IH as [its [S [Hct [Hmap [Hsum [Hstop Hle]]]]]]. rewrite Hct. cbn [bind].
        eexists _, (2 + len + S). split; [reflexivity|]. split; [|split; [|split; [|lia]]].
        * cbn [map]. f_equal; [|exact Hmap]. rewrite Hobs.
          replace (off + o) with p by (unfold o; lia). rewrite Htok. unfold ref_token. rewrite T0, T1. fold len.
          destruct (N.eqb_spec (byte_at l p) 8) as [E8|]; [|reflexivity]. destruct (Hgood E8) as [G1 G2].
          rewrite (T2 G1). cbn [fst snd]. reflexivity.
        * cbn [items_len_sum]. rewrite Hilen, Hsum. cbn [bind]. f_equal. lia.
        * rewrite Hstop. f_equal. lia.
      + destruct IH as [err Hct]. rewrite Hct. cbn [bind]. eauto.
      + exact I.
  Qed.
End Agree.

(* ---------------------------------------------------------------- chunks and the packet *)

Lemma chunk_parse_tail base (data : bytes) :
  4 < length data ->
  chunk_parse base data =
  ('(its, o) <- chunk_tail (S (length data)) base data 4 ;; Ok (mk_chunk (be_dec (firstn 4 data)) its, o)).
Proof.
  intros H. unfold chunk_parse, chunk_tail. destruct (Nat.ltb_spec (length data) 4); [lia|].
  rewrite slice_ok by lia. cbn [bind skipn Nat.sub]. rewrite be_dec_exact_ok by (rewrite firstn_length; lia). cbn [bind].
  destruct (Nat.ltb_spec 4 (length data)); [|lia].
  destruct (items_loop (S (length data)) base data 4) as [[its o]| | |]; cbn [bind]; try reflexivity.
  destruct (zero_skip 4 data o) as [o'| | |]; cbn [bind]; try reflexivity.
  destruct (negb (pad4 o' =? o')); reflexivity.
Qed.

Section AgreeChunks.
  Variables (l : bytes) (e : nat).
  Hypothesis Hw : wfb l.
  Hypothesis He : e <= length l.

  Theorem chunks_agree fr : forall fm p,
    p mod 4 = 0 -> e - p < fm ->
    match ref_chunks fr l e p with
    | Done rcs => exists cs, chunks_loop fm l e p = Ok cs /\ map obs_chunk cs = map obs_ref_chunk rcs
    | Reject => exists err, chunks_loop fm l e p = Err err
    | Ambiguous => True
    end.
  Proof.
    induction fr as [|fr IH]; intros fm p Hal Hfm; cbn [ref_chunks]; [exact I|].
    destruct fm as [|fm]; [lia|]. cbn [chunks_loop].
    destruct (Nat.leb_spec e p) as [Hle|Hlt].
    { destruct (Nat.ltb_spec p e); [lia|]. exists []. split; reflexivity. }
    destruct (Nat.ltb_spec e (p + 4)) as [|H4]; [exact I|].
    destruct (Nat.leb_spec e (p + 4)) as [Heq|Hgt].
    { (* an SSRC and nothing else *)
      assert (Hamb : ref_items (S (length l)) l e (p + 4) = Ambiguous).
      { cbn [ref_items]. destruct (Nat.leb_spec e (p + 4)); [reflexivity|lia]. }
      rewrite Hamb. exact I. }
    destruct (Nat.ltb_spec p e); [|lia]. rewrite slice_ok by lia. cbn [bind].
    set (data := firstn (e - p) (skipn p l)).
    assert (Hdl : length data = e - p) by (unfold data; rewrite firstn_length, skipn_length; lia).
    rewrite chunk_parse_tail by lia.
    pose proof (items_agree l e p Hw ltac:(lia) He Hal (S (length l)) (S (length data)) (p + 4) ltac:(lia) ltac:(lia)) as Hit.
    replace (p + 4 - p) with 4 in Hit by lia. fold data in Hit.
    destruct (ref_items (S (length l)) l e (p + 4)) as [[rits stop]| |].
    - destruct Hit as [its [S [Hct [Hmap [Hsum [Hstop Hle]]]]]]. rewrite Hct. cbn [bind].
      assert (Hsm : stop mod 4 = 0) by (rewrite Hstop; unfold pad4; lia).
      specialize (IH fm stop Hsm ltac:(lia)). replace (p + (stop - p)) with stop by lia.
      destruct (ref_chunks fr l e stop) as [rcs| |].
      + destruct IH as [cs [Hcl Hcm]]. rewrite Hcl. cbn [bind]. eexists. split; [reflexivity|].
        cbn [map]. f_equal; [|exact Hcm].
        unfold obs_chunk, obs_ref_chunk, chunk_length. cbn [ch_ssrc ch_items rc_ssrc rc_len rc_items].
        rewrite Hsum. cbn [bind]. unfold obs_list. rewrite Hmap.
        assert (Hss : be_dec (firstn 4 data) = beN l p 4).
        { unfold data, beN, sub. rewrite firstn_firstn. replace (Nat.min 4 (e - p)) with 4 by lia. reflexivity. }
        assert (Hlen : pad4 (4 + S + 1) = stop - p) by (rewrite Hstop; unfold pad4; lia).
        rewrite Hss, Hlen. reflexivity.
      + destruct IH as [err Hcl]. rewrite Hcl. cbn [bind]. eauto.
      + exact I.
    - destruct Hit as [err Hct]. rewrite Hct. cbn [bind]. eauto.
    - exact I.
  Qed.
End AgreeChunks.

(* sdes_ref on a string framed as an SDES packet *)
Theorem sdes_agrees (l : bytes) :
  wfb l -> check_packet 4 202 l = Ok tt ->
  match sdes_ref l with
  | MustAccept rcs => exists cs, sdes_parse l = Ok cs /\ map obs_chunk cs = map obs_ref_chunk rcs
  | MustReject => exists err, sdes_parse l = Err err
  | Either => True
  end.
Proof.
  intros Hw Hc. destruct (acc_padding 4 202 l ltac:(lia) Hc) as [Hp [Hpl [H4 _]]].
  unfold sdes_ref, sdes_parse, SDES_MIN, SDES_PT. rewrite Hc, Hp. cbn [bind]. rewrite pad_amount.
  rewrite usub_ok by lia. cbn [bind].
  pose proof (chunks_agree l (length l - ref_pad_len l) Hw ltac:(lia) (S (length l)) (S (length l)) 4 eq_refl ltac:(lia)) as H.
  destruct (Nat.ltb_spec 4 (length l)) as [Hlt|Hge].
  - destruct (ref_chunks (S (length l)) l (length l - ref_pad_len l) 4) as [rcs| |]; exact H.
  - (* header only *)
    assert (Hl : length l = 4) by lia. assert (Hz : ref_pad_len l = 0) by lia. rewrite Hl, Hz in *.
    cbn [ref_chunks Nat.sub Nat.leb]. exists []. split; reflexivity.
Qed.

(* the same, through the typed parser and the accessor view *)
Theorem sdes_tokenisation (l : bytes) :
  wfb l -> well_framed 4 202 l = true ->
  match sdes_ref l with
  | MustAccept rcs =>
      exists pv, typed_parse VSdes l = Ok pv /\ pk_data pv = l /\
                 obs_view pv = ref_view VSdes l ++ [("chunks", OL (map obs_ref_chunk rcs))]
  | MustReject => exists err, typed_parse VSdes l = Err err
  | Either => True
  end.
Proof.
  intros Hw Hf. pose proof (proj2 (check_packet_iff 4 202 l ltac:(lia)) Hf) as Hc.
  pose proof (sdes_agrees l Hw Hc) as H. destruct (sdes_ref l) as [rcs| |]; [| |exact I].
  - destruct H as [cs [Hp Hm]]. exists (mk_pkt VSdes l cs). cbn [typed_parse]. rewrite Hp. cbn [bind].
    split; [reflexivity|]. split; [reflexivity|].
    destruct (acc_padding 4 202 l ltac:(lia) Hc) as [Hpad [_ [H4 _]]].
    unfold obs_view, ref_view. cbn [pk_variant pk_data pk_chunks app]. rewrite acc_hdr by exact H4.
    rewrite (obs_padding_ref l Hpad). unfold obs_list. rewrite Hm. reflexivity.
  - destruct H as [err Hp]. exists err. cbn [typed_parse]. rewrite Hp. reflexivity.
Qed.

(* for every accepted input, ambiguous ones included, each yielded item is the type / length / value
   token found at its offset in the input (ParseTotal.sdes_parse_post, restated) *)
Theorem accepted_items_are_tokens (l : bytes) cs :
  sdes_parse l = Ok cs -> Forall (fun c => Forall (item_in_packet l) (ch_items c)) cs.
Proof. intros H. pose proof (sdes_parse_post l) as P. rewrite H in P. cbn [post] in P. tauto. Qed.

(* the three verdicts occur: a two-chunk packet with a PRIV item and padding; an item overrunning the
   packet; a non-zero byte in the fill; a chunk that ends without a terminator *)
Example verdicts_occur :
  let good := [162; 202; 0; 7; 18; 52; 86; 120; 1; 3; 97; 98; 99; 8; 4; 2; 112; 113; 118; 0;
               0; 0; 0; 7; 2; 0; 0; 0; 0; 0; 0; 4]%N in
  let overrun := [129; 202; 0; 2; 0; 0; 0; 9; 1; 9; 97; 0]%N in
  let fill := [129; 202; 0; 2; 0; 0; 0; 9; 1; 0; 0; 5]%N in
  let open := [129; 202; 0; 2; 0; 0; 0; 9; 1; 2; 97; 98]%N in
  (exists rcs, sdes_ref good = MustAccept rcs /\ length rcs = 2 /\ well_framed 4 202 good = true) /\
  sdes_ref overrun = MustReject /\ sdes_ref fill = MustReject /\ sdes_ref open = Either.
Proof.
  cbv zeta. split; [eexists; split; [vm_compute; reflexivity|split; [reflexivity|vm_compute; reflexivity]]|].
  split; [vm_compute; reflexivity|]. split; vm_compute; reflexivity.
Qed.
