(* Every parser returns normally (a value or an error, never a panic, never out of fuel) on every
   byte string, with the structural facts about accepted values that the accessors rely on (C01). *)
From RtcpV Require Export Proofs.C11.

Lemma le4_4 : 4 <= 4. Proof. lia. Qed.
Lemma le4_8 : 4 <= 8. Proof. lia. Qed.
Lemma le4_12 : 4 <= 12. Proof. lia. Qed.
Lemma le4_28 : 4 <= 28. Proof. lia. Qed.

Ltac post_step :=
  match goal with
  | |- post (Ok _) _ => cbn [post]
  | |- post (Err _) _ => exact I
  | |- post (bind _ _) _ => eapply post_bind; [|intros]
  | |- post (if ?c then _ else _) _ => destruct c eqn:?
  end.

(* ---------------------------------------------------------------- header helpers on framed input *)

Lemma post_parse_count (l : bytes) :
  1 <= length l -> post (parse_count l) (fun n => (n < 32)%N /\ N.to_nat n = count_of l).
Proof.
  intros H. destruct l as [|b r]; [cbn [length] in H; lia|]. rewrite parse_count_cons. cbn [post count_of].
  split; [apply N.mod_lt; lia|reflexivity].
Qed.

(* facts about an input accepted by check_packet *)
Record framed (min : nat) (l : bytes) : Prop := {
  fr_len : min <= length l;
  fr_len4 : 4 <= length l;
  fr_pad : post (parse_padding l)
             (fun o => match o with
                       | Some p => (0 < p)%N /\ min + N.to_nat p <= length l /\ p = last l 0%N
                       | None => True
                       end);
  fr_hdr : exists a b c d r, l = a :: b :: c :: d :: r /\ length l = hdr_len c d
}.

Lemma check_packet_framed min pt l : 4 <= min -> check_packet min pt l = Ok tt -> framed min l.
Proof.
  intros Hmin H. pose proof (check_packet_spec min pt l Hmin) as Hs. revert H.
  destruct Hs as [ | | | | | | | a b c d r Hp Hl Hv Ht Hlen Hpb Hz Hfit | a b c d r Hp Hl Hv Ht Hlen Hpb];
    intros Hx; try discriminate.
  - constructor; [lia|lia| |exists a, b, c, d, r; split; [exact Hp|lia]].
    subst l. rewrite parse_padding_cons by lia.
    destruct (N.eqb_spec ((a / 32) mod 2) 0); [contradiction|]. cbn [negb post].
    split; [lia|]. split; [lia|reflexivity].
  - constructor; [lia|lia| |exists a, b, c, d, r; split; [exact Hp|lia]].
    subst l. rewrite parse_padding_cons by lia.
    destruct (N.eqb_spec ((a / 32) mod 2) 0); [|contradiction]. cbn [negb post]. exact I.
Qed.

Lemma framed_pad_sub min l :
  framed min l ->
  post (pad <- parse_padding l ;; usub (length l) (N.to_nat match pad with Some p => p | None => 0%N end))
       (fun e => min <= e <= length l).
Proof.
  intros F. eapply post_bind; [apply (fr_pad _ _ F)|]. intros o _ Ho. cbv beta in Ho.
  destruct o as [p|].
  - destruct Ho as [Hp [Hfit _]]. rewrite usub_ok by lia. cbn [post]. lia.
  - rewrite usub_ok by lia. cbn [post]. pose proof (fr_len _ _ F). lia.
Qed.

(* ---------------------------------------------------------------- SDES items and chunks *)

(* an accepted item is a prefix of the data it was parsed from, long enough for its accessors *)
Definition item_ok (data : bytes) (it : bytes) (e : nat) : Prop :=
  it = firstn e data /\ 2 <= e <= length data /\
  exists ty lenb, nth_error it 0 = Some ty /\ nth_error it 1 = Some lenb /\ e = 2 + N.to_nat lenb /\
    (ty = PRIV -> 3 <= e /\ exists pl, nth_error it 2 = Some pl /\ N.to_nat pl + 3 <= e).

Lemma nth_error_firstn {A} (l : list A) n i : i < n -> nth_error (firstn n l) i = nth_error l i.
Proof.
  revert l i. induction n as [|n IH]; intros l i H; [lia|].
  destruct l as [|x l]; [destruct i; reflexivity|]. destruct i as [|i]; [reflexivity|].
  cbn [firstn nth_error]. apply IH. lia.
Qed.

Lemma item_parse_post data : post (item_parse data) (fun r => item_ok data (fst r) (snd r)).
Proof.
  unfold item_parse.
  destruct (Nat.ltb_spec (length data) 2) as [Hs|Hs]; [exact I|].
  assert (Hidx : 1 < length data) by lia; destruct (idx_ok (E:=perr) data 1 Hidx) as [lenb [-> Hlen]]; clear Hidx. cbn [bind].
  destruct (Nat.ltb_spec (length data) (2 + N.to_nat lenb)) as [He|He]; [exact I|].
  destruct (255 <? N.to_nat lenb); [exact I|].
  rewrite slice_ok by lia. cbn [bind skipn]. rewrite Nat.sub_0_r.
  set (e := 2 + N.to_nat lenb) in *. set (it := firstn e data).
  assert (Hitl : length it = e) by (unfold it; rewrite firstn_length; lia).
  assert (Hidx : 0 < length it) by lia; destruct (idx_ok (E:=perr) it 0 Hidx) as [ty [-> Hty]]; clear Hidx. cbn [bind].
  assert (Hlen' : nth_error it 1 = Some lenb) by (unfold it; rewrite nth_error_firstn by lia; exact Hlen).
  destruct (N.eqb_spec ty PRIV) as [Hpriv|Hpriv].
  - destruct (Nat.ltb_spec (length it) 3) as [H3|H3]; [exact I|].
    assert (Hidx : 2 < length it) by lia; destruct (idx_ok (E:=perr) it 2 Hidx) as [pl [-> Hpl]]; clear Hidx. cbn [bind].
    destruct (Nat.ltb_spec e (N.to_nat pl + 3)) as [Hb|Hb]; [exact I|].
    cbn [post fst snd]. unfold item_ok. split; [reflexivity|]. split; [lia|].
    exists ty, lenb. split; [exact Hty|]. split; [exact Hlen'|]. split; [reflexivity|].
    intros _. split; [lia|]. exists pl. split; [exact Hpl|lia].
  - cbn [post fst snd]. unfold item_ok. split; [reflexivity|]. split; [lia|].
    exists ty, lenb. split; [exact Hty|]. split; [exact Hlen'|]. split; [reflexivity|]. intros; contradiction.
Qed.

(* all items of a chunk: each lies inside the chunk data at its recorded offset *)
Definition items_ok (base : nat) (data : bytes) (its : list item_view) : Prop :=
  Forall (fun it => exists o e, it_off it = base + o /\ o + e <= length data /\
                               item_ok (skipn o data) (it_data it) e) its.

Lemma items_loop_post fuel base data off :
  off <= length data -> length data - off < fuel ->
  post (items_loop fuel base data off)
       (fun r => items_ok base data (fst r) /\ off <= snd r <= length data).
Proof.
  revert off. induction fuel as [|f IH]; intros off Hoff Hf; [lia|]. cbn [items_loop].
  destruct (Nat.ltb_spec off (length data)) as [Hlt|Hge].
  - destruct (idx_ok (E:=perr) data off Hlt) as [b [-> Hb]]. cbn [bind].
    destruct (N.eqb_spec b 0).
    + cbn [post fst snd]. split; [constructor|lia].
    + rewrite tail_from_ok by lia. cbn [bind].
      eapply post_bind; [apply item_parse_post|]. intros [it e] _ Hit. cbn [fst snd] in Hit.
      assert (He : 2 <= e <= length (skipn off data)) by (destruct Hit as [_ [H _]]; exact H).
      rewrite skipn_length in He.
      eapply post_bind; [apply IH; lia|]. intros [its off'] _ [Hits Hoff']. cbn [fst snd] in *.
      cbn [post fst snd]. split; [|lia]. constructor; [|exact Hits].
      exists off, e. cbn [it_off it_data]. split; [reflexivity|]. split; [lia|exact Hit].
  - cbn [post fst snd]. split; [constructor|lia].
Qed.

Lemma zero_skip_post fuel data off :
  off <= length data -> (4 - off mod 4) mod 4 < fuel ->
  post (zero_skip fuel data off) (fun o => off <= o <= length data).
Proof.
  revert off. induction fuel as [|f IH]; intros off Hoff Hf; [lia|]. cbn [zero_skip].
  destruct (Nat.eqb_spec (off mod 4) 0) as [Hm|Hm]; cbn [negb andb]; [cbn [post]; lia|].
  destruct (Nat.ltb_spec off (length data)) as [Hlt|Hge]; [|cbn [post]; lia].
  destruct (idx_ok (E:=perr) data off Hlt) as [b [-> _]]. cbn [bind].
  destruct (b =? 0)%N; [|cbn [post]; lia].
  eapply post_weaken; [apply IH; [lia|]|cbv beta; intros; lia].
  lia.
Qed.

Definition chunk_ok (base : nat) (data : bytes) (c : chunk_view) (sz : nat) : Prop :=
  4 <= sz <= length data /\ sz mod 4 = 0 /\ items_ok base data (ch_items c).

Lemma chunk_parse_post base data : post (chunk_parse base data) (fun r => chunk_ok base data (fst r) (snd r)).
Proof.
  unfold chunk_parse.
  destruct (Nat.ltb_spec (length data) 4) as [Hs|Hs]; [exact I|].
  rewrite slice_ok by lia. cbn [bind]. rewrite be_dec_exact_ok
    by (rewrite firstn_length, skipn_length; lia). cbn [bind].
  destruct (Nat.ltb_spec 4 (length data)) as [Hm|Hm].
  - eapply (post_bind _ _ (fun r => items_ok base data (fst r) /\ 4 <= snd r <= length data)).
    + eapply post_bind; [apply (items_loop_post (S (length data)) base data 4); lia|].
      intros [its off] _ [Hits Hoff]. cbn [fst snd] in *.
      eapply post_bind; [apply zero_skip_post; [lia|]|].
      * assert ((4 - off mod 4) mod 4 < 4) by (apply Nat.mod_upper_bound; lia). lia.
      * intros o _ Ho. cbn [post fst snd]. cbv beta in Ho. split; [exact Hits|lia].
    + intros [its off] _ [Hits Hoff]. cbn [fst snd] in *.
      destruct (Nat.eqb_spec (pad4 off) off) as [Hp|Hp]; cbn [negb]; [|exact I].
      cbn [post fst snd]. unfold chunk_ok. cbn [ch_items]. split; [lia|]. split; [|exact Hits].
      rewrite <- Hp. apply pad4_mod.
  - cbn [bind]. replace (pad4 4 =? 4) with true by reflexivity. cbn [negb post fst snd].
    unfold chunk_ok. cbn [ch_items]. split; [lia|]. split; [reflexivity|constructor].
Qed.

(* the chunk list of an accepted SDES packet: every item lies inside the packet *)
Definition item_in_packet (d : bytes) (it : item_view) : Prop :=
  exists e, it_off it + e <= length d /\ item_ok (skipn (it_off it) d) (it_data it) e.

Lemma chunks_loop_post fuel d endp off :
  off <= endp -> endp <= length d -> endp - off < fuel ->
  post (chunks_loop fuel d endp off)
       (fun cs => Forall (fun c => Forall (item_in_packet d) (ch_items c)) cs).
Proof.
  revert off. induction fuel as [|f IH]; intros off Hoff Hend Hf; [lia|]. cbn [chunks_loop].
  destruct (Nat.ltb_spec off endp) as [Hlt|Hge]; [|cbn [post]; constructor].
  rewrite slice_ok by lia. cbn [bind].
  set (s := firstn (endp - off) (skipn off d)).
  assert (Hsl : length s = endp - off) by (unfold s; rewrite firstn_length, skipn_length; lia).
  eapply post_bind; [apply chunk_parse_post|]. intros [c sz] _ Hc. cbn [fst snd] in Hc.
  destruct Hc as [Hsz [Hmod Hits]]. rewrite Hsl in Hsz.
  eapply post_bind; [apply IH; lia|]. intros cs _ Hcs. cbn [post].
  constructor; [|exact Hcs].
  unfold items_ok in Hits. rewrite Forall_forall in Hits. apply Forall_forall. intros it Hin.
  destruct (Hits it Hin) as [o [e [Ho [Hoe Hit]]]]. rewrite Hsl in Hoe.
  exists e. rewrite Ho. split; [lia|].
  (* an item inside the chunk slice is the same item inside the packet *)
  destruct Hit as [Hd [He Hrest]]. unfold item_ok.
  assert (Hpre : firstn e (skipn o s) = firstn e (skipn (off + o) d)).
  { unfold s. rewrite <- skipn_skipn. rewrite skipn_firstn_comm.
    rewrite firstn_firstn. f_equal. lia. }
  split; [rewrite Hd; exact Hpre|]. split; [rewrite skipn_length in *; lia|exact Hrest].
Qed.

Theorem sdes_parse_post d :
  post (sdes_parse d) (fun cs => framed 4 d /\ Forall (fun c => Forall (item_in_packet d) (ch_items c)) cs).
Proof.
  unfold sdes_parse, SDES_MIN.
  destruct (check_packet_total 4 SDES_PT d le4_4) as [Hc|[e Hc]]; rewrite Hc; [|exact I].
  cbn [bind]. pose proof (check_packet_framed 4 SDES_PT d le4_4 Hc) as F.
  pose proof (framed_pad_sub 4 d F) as Hps.
  destruct (parse_padding d) as [pad| | |]; cbn [bind post] in *; try contradiction; [|exact I].
  destruct (usub (length d) (N.to_nat match pad with Some p => p | None => 0%N end)) as [endp| | |];
    cbn [bind post] in *; try contradiction; [|exact I].
  destruct (Nat.ltb_spec 4 (length d)).
  - eapply post_weaken; [apply chunks_loop_post; lia|]. cbv beta. intros cs Hcs. split; assumption.
  - cbn [post]. split; [exact F|constructor].
Qed.

(* ---------------------------------------------------------------- every parser returns normally *)

Lemma post_normal {A} (r : pres A) Q : post r Q -> returns_normally r.
Proof. destruct r; cbn; auto. Qed.

Lemma framed_count min l : framed min l -> post (parse_count l) (fun n => (n < 32)%N /\ N.to_nat n = count_of l).
Proof. intros F. apply post_parse_count. pose proof (fr_len4 _ _ F). lia. Qed.

Theorem typed_parse_post v l :
  post (typed_parse v l) (fun p => pk_data p = l /\ pk_variant p = v /\
                                   (v <> VUnknown -> framed (variant_min v) l) /\
                                   Forall (fun c => Forall (item_in_packet l) (ch_items c)) (pk_chunks p)).
Proof.
  destruct v; cbn [typed_parse variant_min].
  - (* App *) unfold app_parse, APP_MIN.
    destruct (check_packet_total 12 APP_PT l le4_12) as [Hc|[e Hc]]; rewrite Hc; [|exact I].
    cbn [bind post pk_data pk_variant pk_chunks]. split; [reflexivity|]. split; [reflexivity|].
    split; [intros _; eapply check_packet_framed; eauto; lia|constructor].
  - (* Bye *) unfold bye_parse, BYE_MIN.
    destruct (check_packet_total 4 BYE_PT l le4_4) as [Hc|[e Hc]]; rewrite Hc; [|exact I].
    cbn [bind]. pose proof (check_packet_framed 4 BYE_PT l le4_4 Hc) as F.
    eapply post_bind.
    + eapply (post_bind _ _ _ (fun d => d = l)); [apply (framed_count _ _ F)|]. intros n _ [Hn Hcnt].
      destruct (Nat.ltb_spec (length l) (4 + 4 * N.to_nat n)); [exact I|].
      destruct (Nat.ltb_spec (4 + 4 * N.to_nat n) (length l)) as [Hlt|Hge]; [|reflexivity].
      destruct (idx_ok (E:=perr) l (4 + 4 * N.to_nat n) Hlt) as [rl [-> _]]. cbn [bind].
      destruct (length l <? 4 + 4 * N.to_nat n + 1 + N.to_nat rl); [exact I|reflexivity].
    + intros d _ ->. cbn [post pk_data pk_variant pk_chunks]. split; [reflexivity|]. split; [reflexivity|].
      split; [intros _; exact F|constructor].
  - (* Rr *) unfold rr_parse, RR_MIN.
    destruct (check_packet_total 8 RR_PT l le4_8) as [Hc|[e Hc]]; rewrite Hc; [|exact I].
    cbn [bind]. pose proof (check_packet_framed 8 RR_PT l le4_8 Hc) as F.
    eapply post_bind.
    + eapply (post_bind _ _ _ (fun d => d = l)); [apply (framed_count _ _ F)|]. intros n _ _.
      destruct (length l <? 8 + N.to_nat n * RB_SIZE); [exact I|reflexivity].
    + intros d _ ->. cbn [post pk_data pk_variant pk_chunks]. split; [reflexivity|]. split; [reflexivity|].
      split; [intros _; exact F|constructor].
  - (* Sdes *)
    eapply post_bind; [apply sdes_parse_post|]. intros cs _ [F Hcs].
    cbn [post pk_data pk_variant pk_chunks]. split; [reflexivity|]. split; [reflexivity|].
    split; [intros _; exact F|exact Hcs].
  - (* Sr *) unfold sr_parse, SR_MIN.
    destruct (check_packet_total 28 SR_PT l le4_28) as [Hc|[e Hc]]; rewrite Hc; [|exact I].
    cbn [bind]. pose proof (check_packet_framed 28 SR_PT l le4_28 Hc) as F.
    eapply post_bind.
    + eapply (post_bind _ _ _ (fun d => d = l)); [apply (framed_count _ _ F)|]. intros n _ _.
      destruct (length l <? 28 + N.to_nat n * RB_SIZE); [exact I|reflexivity].
    + intros d _ ->. cbn [post pk_data pk_variant pk_chunks]. split; [reflexivity|]. split; [reflexivity|].
      split; [intros _; exact F|constructor].
  - (* Tfb *) unfold fb_parse, FB_MIN, fb_pt.
    destruct (check_packet_total 12 TFB_PT l le4_12) as [Hc|[e Hc]]; rewrite Hc; [|exact I].
    cbn [bind post pk_data pk_variant pk_chunks]. split; [reflexivity|]. split; [reflexivity|].
    split; [intros _; eapply check_packet_framed; eauto; lia|constructor].
  - (* Pfb *) unfold fb_parse, FB_MIN, fb_pt.
    destruct (check_packet_total 12 PFB_PT l le4_12) as [Hc|[e Hc]]; rewrite Hc; [|exact I].
    cbn [bind post pk_data pk_variant pk_chunks]. split; [reflexivity|]. split; [reflexivity|].
    split; [intros _; eapply check_packet_framed; eauto; lia|constructor].
  - (* Unknown *) unfold unknown_parse, UNK_MIN.
    destruct (Nat.ltb_spec (length l) 4) as [Hs|Hs]; [exact I|].
    destruct l as [|a [|b [|c [|d r]]]]; cbn [length] in Hs; try lia.
    rewrite parse_version_cons. cbn [bind]. destruct (negb (a / 64 =? VERSION)%N); [exact I|].
    rewrite parse_length_cons. cbn [bind].
    destruct (length (a :: b :: c :: d :: r) <? 4 * (N.to_nat (c * 256 + d) + 1)); [exact I|].
    destruct (4 * (N.to_nat (c * 256 + d) + 1) <? length (a :: b :: c :: d :: r)); [exact I|].
    cbn [bind post pk_data pk_variant pk_chunks]. split; [reflexivity|]. split; [reflexivity|].
    split; [congruence|constructor].
Qed.

Theorem packet_parse_post l :
  post (packet_parse l) (fun p => pk_data p = l /\ 4 <= length l /\
                                  (pk_variant p <> VUnknown -> framed (variant_min (pk_variant p)) l) /\
                                  Forall (fun c => Forall (item_in_packet l) (ch_items c)) (pk_chunks p)).
Proof.
  unfold packet_parse. destruct (Nat.ltb_spec (length l) 4) as [Hs|Hs]; [exact I|].
  destruct l as [|a [|b r]]; cbn [length] in Hs; try lia.
  rewrite parse_packet_type_cons. cbn [bind].
  eapply post_weaken; [apply typed_parse_post|]. cbv beta. intros p [Hd [Hv [Hf Hc]]].
  split; [exact Hd|]. split; [cbn [length]; lia|]. split; [|exact Hc]. rewrite Hv. exact Hf.
Qed.

Theorem packet_parse_total l : returns_normally (packet_parse l).
Proof. eapply post_normal. apply packet_parse_post. Qed.

Theorem typed_parse_total v l : returns_normally (typed_parse v l).
Proof. eapply post_normal. apply typed_parse_post. Qed.

Lemma compound_check_post fuel l off :
  off <= length l -> length l - off < fuel -> post (compound_check fuel l off) (fun _ => True).
Proof.
  revert off. induction fuel as [|f IH]; intros off Hoff Hf; [lia|]. cbn [compound_check]. unfold UNK_MIN.
  destruct (Nat.ltb_spec off (length l)); [|exact I].
  destruct (Nat.ltb_spec (length l) (off + 4)); [exact I|].
  rewrite tail_from_ok by lia. cbn [bind]. rewrite parse_length_skipn by lia. cbn [bind].
  destruct (Nat.ltb_spec (length l) (off + 4 * (N.to_nat (beN l (off + 2) 2) + 1))); [exact I|].
  apply IH; lia.
Qed.

Theorem compound_parse_total l : returns_normally (compound_parse l).
Proof.
  unfold compound_parse. destruct l as [|x l]; [exact I|].
  apply (post_normal _ (fun _ => True)).
  eapply post_bind; [apply (compound_check_post (S (length (x :: l)))); lia|].
  intros. cbn [post]. exact I.
Qed.

Theorem rb_parse_total l : returns_normally (rb_parse l).
Proof. unfold rb_parse. destruct (length l <? RB_SIZE); [exact I|]. destruct (RB_SIZE <? length l); exact I. Qed.

Theorem fci_parse_raw_total t l : returns_normally (fci_parse_raw t l).
Proof.
  destruct t; cbn [fci_parse_raw]; unfold fir_parse, sli_parse, rpsi_parse, pli_parse, rpsi_padding_bytes; try exact I.
  - destruct (length l <? 8); exact I.
  - destruct (length l <? 4); exact I.
  - destruct (Nat.ltb_spec (length l) 4); [exact I|].
    assert (Hidx : 0 < length l) by lia. destruct (idx_ok (E:=perr) l 0 Hidx) as [b [-> _]]. cbn [bind].
    destruct (length l - 2 <? N.to_nat (b / 8)); exact I.
  - destruct (negb (length l =? 0)); exact I.
Qed.

(* the compound iterator, for every number of next() calls (closes the Section hypothesis of C11) *)
Theorem compound_iteration_total l c ts :
  compound_parse l = Ok c -> tiling_of l = Some ts ->
  forall k, nexts k c = Ok (expected_nexts k (iter_spec l ts)).
Proof. exact (compound_iteration packet_parse_total l c ts). Qed.
