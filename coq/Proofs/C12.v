(* C12: generic dispatch and conversions agree with the typed parsers. *)
From RtcpV Require Export Proofs.C08.

(* the packet-type octet names the variant *)
Lemma variant_of_pt_spec pt :
  match variant_of_pt pt with
  | VUnknown => ~ In pt [200; 201; 202; 203; 204; 205; 206]%N
  | v => variant_pt v = pt
  end.
Proof.
  unfold variant_of_pt, APP_PT, BYE_PT, RR_PT, SDES_PT, SR_PT, PFB_PT, TFB_PT.
  repeat match goal with |- context[(pt =? ?k)%N] => destruct (N.eqb_spec pt k); [subst; reflexivity|] end.
  cbn [In]. intros H. repeat destruct H as [H|H]; try congruence.
Qed.

Theorem generic_is_typed l :
  4 <= length l ->
  exists b, nth_error l 1 = Some b /\ packet_parse l = typed_parse (variant_of_pt b) l.
Proof.
  intros H. destruct l as [|a [|b r]]; cbn [length] in H; try lia.
  exists b. split; [reflexivity|]. unfold packet_parse.
  destruct (Nat.ltb_spec (length (a :: b :: r)) 4); [cbn [length] in *; lia|].
  rewrite parse_packet_type_cons. reflexivity.
Qed.

Theorem generic_short l : length l < 4 -> packet_parse l = Err (Truncated 4 (length l)).
Proof. intros H. unfold packet_parse. destruct (Nat.ltb_spec (length l) 4); [reflexivity|lia]. Qed.

Theorem unknown_exposes_input l p : typed_parse VUnknown l = Ok p -> pk_data p = l /\ pk_variant p = VUnknown.
Proof.
  cbn [typed_parse]. intros H. apply bind_ok_inv in H. destruct H as [x [H1 [= <-]]].
  apply unknown_accept_framed in H1. destruct H1 as [_ ->]. auto.
Qed.

(* conversions *)
Theorem convert_same p t : pk_variant p = t -> packet_try_as p t = Ok p.
Proof.
  intros <-. unfold packet_try_as.
  replace (variant_eqb (pk_variant p) (pk_variant p)) with true; [reflexivity|].
  destruct (pk_variant p); reflexivity.
Qed.

Lemma variant_eqb_neq a b : a <> b -> variant_eqb a b = false.
Proof. destruct a, b; cbn; congruence. Qed.

Theorem convert_unknown p t :
  pk_variant p = VUnknown -> t <> VUnknown -> packet_try_as p t = typed_parse t (pk_data p).
Proof.
  intros Hv Ht. unfold packet_try_as. rewrite Hv, variant_eqb_neq by congruence. reflexivity.
Qed.

Theorem convert_mismatch p t a b r :
  pk_variant p <> VUnknown -> pk_variant p <> t -> pk_data p = a :: b :: r -> 4 <= length (pk_data p) ->
  packet_try_as p t = Err (PacketTypeMismatch b (variant_pt t)).
Proof.
  intros Hu Hne Hd Hl. unfold packet_try_as. rewrite variant_eqb_neq by exact Hne.
  destruct (pk_variant p) eqn:Hv; try congruence;
    unfold header_data; rewrite slice_ok by lia; rewrite Hd in *;
    destruct r as [|c [|d r']]; cbn [length] in Hl; try lia; reflexivity.
Qed.

(* together: what converting a parsed generic packet yields *)
Theorem conversion_matrix l p t :
  packet_parse l = Ok p -> t <> VUnknown ->
  packet_try_as p t =
    if variant_eqb (pk_variant p) t then Ok p
    else if variant_eqb (pk_variant p) VUnknown then typed_parse t l
    else Err (PacketTypeMismatch (nth 1 l 0%N) (variant_pt t)).
Proof.
  intros H Ht. pose proof (generic_accept_framed l p H) as [Hd _].
  destruct (variant_eqb (pk_variant p) t) eqn:E1.
  - apply convert_same. destruct (pk_variant p), t; cbn in E1; congruence.
  - destruct (variant_eqb (pk_variant p) VUnknown) eqn:E2.
    + rewrite <- Hd. apply convert_unknown; [destruct (pk_variant p); cbn in E2; congruence|exact Ht].
    + assert (Hl : 4 <= length l).
      { unfold packet_parse in H. destruct (Nat.ltb_spec (length l) 4); [discriminate|lia]. }
      destruct l as [|a [|b r]]; cbn [length] in Hl; try lia. cbn [nth].
      apply (convert_mismatch p t a b r).
      * destruct (pk_variant p); cbn in E2; congruence.
      * intros <-. destruct (pk_variant p); cbn in E1; congruence.
      * exact Hd.
      * rewrite Hd. cbn [length]. lia.
Qed.
