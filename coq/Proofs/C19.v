(* C19: third-party packet types built on the public helpers interoperate. *)
From RtcpV Require Export Proofs.C16 Proofs.C02.

(* the header/padding writers, as a third party sees them *)
Theorem write_header_spec pt padding count (buf : bytes) :
  4 <= length buf -> (count < 32)%N ->
  write_header_unchecked pt padding count buf =
    Ok (4, rfc_header pt padding count (length buf) ++ skipn 4 buf).
Proof. intros H Hc. rewrite write_header_ok by exact H. rewrite hdr_bytes_rfc by exact Hc. reflexivity. Qed.

Theorem write_padding_spec padding (buf : bytes) :
  N.to_nat padding <= length buf ->
  write_padding_unchecked padding buf = Ok (N.to_nat padding, rfc_trailer padding ++ skipn (N.to_nat padding) buf).
Proof. apply write_padding_ok. Qed.

Theorem write_header_short pt padding count (buf : bytes) :
  length buf < 4 -> write_header_unchecked pt padding count buf = Panic.
Proof.
  intros H. unfold write_header_unchecked. cbn [bind].
  destruct buf as [|b0 [|b1 [|b2 [|b3 r]]]]; cbn [length] in H; try lia.
  - reflexivity.
  - rewrite set_at_ok by (cbn [length]; lia). cbn [bind firstn skipn app]. reflexivity.
  - rewrite set_at_ok by (cbn [length]; lia). cbn [bind firstn skipn app].
    rewrite set_at_ok by (cbn [length]; lia). cbn [bind firstn skipn app]. reflexivity.
  - rewrite set_at_ok by (cbn [length]; lia). cbn [bind firstn skipn app].
    rewrite set_at_ok by (cbn [length]; lia). cbn [bind firstn skipn app]. reflexivity.
Qed.

(* raw images: header ++ payload ++ trailer *)
Lemma rfc_raw_image pt pad cnt payload :
  rfc_raw pt pad cnt payload = image pt pad cnt (4 + length payload + N.to_nat pad) payload.
Proof. reflexivity. Qed.

Lemma image_unknown_parse min pt pad cnt total body :
  image_ok min pad cnt total body ->
  unknown_parse (image pt pad cnt total body) = Ok (image pt pad cnt total body).
Proof.
  intros H. pose proof H as [Hc Hp Hl Hm Hmin Hmax H4].
  pose proof (image_length pt pad cnt total body Hl) as Hlen.
  remember (image pt pad cnt total body) as img eqn:Himg.
  assert (Hcons : img = (128 + (if (0 <? pad)%N then 32 else 0) + cnt)%N :: pt ::
                        ((N.of_nat (total / 4 - 1) / 256) mod 256)%N :: (N.of_nat (total / 4 - 1) mod 256)%N ::
                        body ++ rfc_trailer pad) by (subst img; reflexivity).
  assert (E1 : parse_version img = Ok ((128 + (if (0 <? pad)%N then 32 else 0) + cnt) / 64)%N)
    by (rewrite Hcons; apply parse_version_cons).
  assert (E3 : parse_length img = Ok total).
  { rewrite Hcons, parse_length_cons. f_equal. lia. }
  unfold unknown_parse, UNK_MIN. rewrite Hlen, E1, E3.
  destruct (Nat.ltb_spec total 4); [lia|]. cbn [bind]. unfold VERSION.
  destruct (N.eqb_spec ((128 + (if (0 <? pad)%N then 32 else 0) + cnt) / 64) 2) as [_|Hv];
    [|exfalso; apply Hv; destruct (0 <? pad)%N; lia].
  cbn [negb bind]. destruct (Nat.ltb_spec total total); [lia|]. reflexivity.
Qed.

(* a raw packet of a type the crate does not know is yielded by the generic parser as an unknown
   packet exposing exactly the bytes *)
Theorem raw_roundtrip pt pad cnt payload n :
  ~ In pt [200; 201; 202; 203; 204; 205; 206]%N ->
  image_ok 4 pad cnt n payload -> n = 4 + length payload + N.to_nat pad ->
  packet_parse (rfc_raw pt pad cnt payload) = Ok (mk_pkt VUnknown (rfc_raw pt pad cnt payload) []) /\
  obs_view (mk_pkt VUnknown (rfc_raw pt pad cnt payload) []) = exp_raw cnt pt n.
Proof.
  intros Hpt Hio Hn. rewrite rfc_raw_image, <- Hn.
  pose proof (image_length pt pad cnt n payload (io_len _ _ _ _ _ Hio)) as Hlen.
  split.
  - destruct (generic_is_typed (image pt pad cnt n payload)) as [b [Hb Hg]]; [rewrite Hlen; pose proof (io_min _ _ _ _ _ Hio); lia|].
    rewrite Hg. unfold image, rfc_header in Hb. cbn [app nth_error] in Hb. injection Hb as <-.
    assert (Hv : variant_of_pt pt = VUnknown).
    { pose proof (variant_of_pt_spec pt) as Hs. destruct (variant_of_pt pt); try reflexivity;
        exfalso; apply Hpt; rewrite <- Hs; cbn; tauto. }
    rewrite Hv. cbn [typed_parse]. rewrite (image_unknown_parse 4) by exact Hio. reflexivity.
  - unfold obs_view, exp_raw. cbn [pk_variant pk_data]. rewrite (image_obs_hdr 4) by exact Hio. rewrite Hlen. reflexivity.
Qed.

(* the third-party parser (check_packet with its own type and minimum) accepts its own packets *)
Theorem custom_roundtrip c n :
  custom_calc c = Ok n -> (cu_count c < 32)%N -> (cu_padding c < 256)%N -> length (cu_payload c) mod 4 = 0 ->
  4 <= cu_min c -> cu_min c + N.to_nat (cu_padding c) <= n -> (N.of_nat n <= 262144)%N ->
  custom_parse (cu_pt c) (cu_min c) (rfc_image (MCustom c)) = Ok (rfc_image (MCustom c)).
Proof.
  intros Hc Hcnt Hp Hpm Hmin Hfit Hmax. apply custom_calc_ok in Hc. destruct Hc as [Hpad Hn].
  cbn [rfc_image]. rewrite rfc_raw_image, <- Hn. unfold custom_parse.
  rewrite image_check_packet; [reflexivity|]. constructor; try lia.
Qed.

(* check_packet accepts precisely the well-framed strings: for every type number and minimum *)
Theorem check_packet_exactly_well_framed min pt l :
  4 <= min -> (custom_parse pt min l = Ok l <-> well_framed min pt l = true).
Proof.
  intros Hmin. unfold custom_parse. rewrite <- check_packet_iff by exact Hmin.
  destruct (check_packet min pt l) as [[]|e| |]; cbn [bind]; split; congruence.
Qed.

Example raw_roundtrip_nonvacuous :
  image_ok 4 4 3 12 [1; 2; 3; 4]%N /\ ~ In 199%N [200; 201; 202; 203; 204; 205; 206]%N.
Proof.
  split; [constructor; cbn; lia|]. cbn. intros H. repeat destruct H as [H|H]; try discriminate. exact H.
Qed.
