(* Any image of the shape header ++ body ++ trailer is accepted by check_packet (used by every
   round-trip theorem), and its header/padding accessors report the configuration. *)
From RtcpV Require Export Proofs.ReadLemmas Proofs.C08 Spec.Views.

Definition image (pt pad cnt : N) (total : nat) (body : bytes) : bytes :=
  rfc_header pt pad cnt total ++ body ++ rfc_trailer pad.

Record image_ok (min : nat) (pad cnt : N) (total : nat) (body : bytes) : Prop := {
  io_cnt : (cnt < 32)%N;
  io_pad : (pad < 256)%N;
  io_len : 4 + length body + N.to_nat pad = total;
  io_mod : total mod 4 = 0;
  io_min : min + N.to_nat pad <= total;
  io_max : (N.of_nat total <= 262144)%N;
  io_min4 : 4 <= min
}.

Lemma image_length pt pad cnt total body :
  4 + length body + N.to_nat pad = total -> length (image pt pad cnt total body) = total.
Proof. intros H. unfold image, rfc_header. rewrite !app_length, rfc_trailer_length, be16_length. cbn [length]. lia. Qed.

Lemma image_last pt pad cnt total body : (0 < pad)%N -> last (image pt pad cnt total body) 0%N = pad.
Proof.
  intros Hp. unfold image. rewrite app_assoc. rewrite last_app_nonempty by (apply rfc_trailer_nonempty; exact Hp).
  apply rfc_trailer_last. exact Hp.
Qed.

Lemma image_well_framed min pt pad cnt total body :
  image_ok min pad cnt total body -> well_framed min pt (image pt pad cnt total body) = true.
Proof.
  intros [Hc Hp Hl Hm Hmin Hmax H4].
  pose proof (image_length pt pad cnt total body Hl) as Hlen.
  destruct (N.ltb_spec 0 pad) as [Hpos|Hz].
  - pose proof (image_last pt pad cnt total body Hpos) as Hlast. revert Hlen Hlast.
    unfold image, rfc_header. unfold be16. cbn [app].
    replace (if (0 <? pad)%N then 32%N else 0%N) with 32%N by (destruct (N.ltb_spec 0 pad); [reflexivity|lia]).
    intros Hlen Hlast. rewrite well_framed_cons. cbv zeta. rewrite Hlen, Hlast.
    replace (((128 + 32 + cnt) / 32) mod 2 =? 1)%N with true by (symmetry; apply N.eqb_eq; lia).
    repeat (apply andb_true_iff; split); try (apply Nat.leb_le; lia); try (apply N.eqb_eq; lia);
      try (apply Nat.eqb_eq; unfold hdr_len; lia); try (apply Nat.ltb_lt; lia).
  - assert (pad = 0%N) by lia. subst pad. revert Hlen.
    unfold image, rfc_header. unfold be16. cbn [app].
    replace (if (0 <? 0)%N then 32%N else 0%N) with 0%N by reflexivity.
    intros Hlen. rewrite well_framed_cons. cbv zeta. rewrite Hlen.
    replace (((128 + 0 + cnt) / 32) mod 2 =? 1)%N with false by (symmetry; apply N.eqb_neq; lia).
    repeat (apply andb_true_iff; split); try (apply Nat.leb_le; cbn in *; lia); try (apply N.eqb_eq; lia);
      try (apply Nat.eqb_eq; unfold hdr_len; lia); reflexivity.
Qed.

Lemma image_check_packet min pt pad cnt total body :
  image_ok min pad cnt total body -> check_packet min pt (image pt pad cnt total body) = Ok tt.
Proof. intros H. apply check_packet_iff; [apply (io_min4 _ _ _ _ _ H)|apply image_well_framed; exact H]. Qed.

(* header accessors on an image *)
Lemma image_obs_hdr min pt pad cnt total body :
  image_ok min pad cnt total body ->
  obs_hdr (image pt pad cnt total body) = exp_hdr pt cnt total.
Proof.
  intros [Hc Hp Hl Hm Hmin Hmax H4]. unfold image, rfc_header, be16. cbn [app].
  rewrite header_accessors. cbv [exp_hdr okN okI okO].
  repeat f_equal; destruct (0 <? pad)%N; lia.
Qed.

Lemma image_parse_count min pt pad cnt total body :
  image_ok min pad cnt total body -> parse_count (image pt pad cnt total body) = Ok cnt.
Proof.
  intros [Hc Hp Hl Hm Hmin Hmax H4]. unfold image, rfc_header. cbn [app]. rewrite parse_count_cons.
  f_equal. destruct (0 <? pad)%N; lia.
Qed.

Lemma image_parse_padding min pt pad cnt total body :
  image_ok min pad cnt total body ->
  parse_padding (image pt pad cnt total body) = Ok (get_padding_of pad).
Proof.
  intros H. pose proof H as [Hc Hp Hl Hm Hmin Hmax H4].
  pose proof (image_length pt pad cnt total body Hl) as Hlen.
  unfold get_padding_of. destruct (N.eqb_spec pad 0) as [->|Hnz].
  - revert Hlen. unfold image, rfc_header, be16. cbn [app]. intros Hlen.
    rewrite parse_padding_cons by (rewrite Hlen; unfold hdr_len; replace (if (0 <? 0)%N then 32 else 0)%N with 0%N by reflexivity; lia).
    replace (if (0 <? 0)%N then 32%N else 0%N) with 0%N by reflexivity.
    replace (negb (((128 + 0 + cnt) / 32) mod 2 =? 0)%N) with false; [reflexivity|].
    symmetry. apply negb_false_iff. apply N.eqb_eq. lia.
  - assert (Hpos : (0 < pad)%N) by lia. pose proof (image_last pt pad cnt total body Hpos) as Hlast.
    revert Hlen Hlast. unfold image, rfc_header, be16. cbn [app].
    replace (if (0 <? pad)%N then 32%N else 0%N) with 32%N by (destruct (N.ltb_spec 0 pad); [reflexivity|lia]).
    intros Hlen Hlast.
    rewrite parse_padding_cons by (rewrite Hlen; unfold hdr_len; lia).
    replace (negb (((128 + 32 + cnt) / 32) mod 2 =? 0)%N) with true; [rewrite Hlast; reflexivity|].
    symmetry. apply negb_true_iff. apply N.eqb_neq. lia.
Qed.
