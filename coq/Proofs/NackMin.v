(* C07: the NACK words the builder writes are as few as any list of words can be.
   A word with packet identifier p can name the numbers p .. p+16 (its PID and the 16 bits of its BLP);
   "covering" is meant without wrap-around, as for the strictly increasing words the property speaks of. *)
From RtcpV Require Export Proofs.NackFir.

Definition in_window (p x : N) : Prop := (p <= x <= p + 16)%N.

Lemma nack_take_rest_gt b l : asc (b :: l) -> forall y, In y (snd (nack_take b l)) -> (b + 16 < y)%N.
Proof.
  induction l as [|x r IH]; intros Hasc y Hy; cbn [nack_take] in Hy; [contradiction|].
  destruct (N.leb_spec x (b + 16)) as [Hle|Hgt].
  - assert (Hasc' : asc (b :: r)).
    { cbn [asc] in *. destruct Hasc as [Hbx [Hxr Hr]]. destruct r as [|w r']; [cbn; auto|]. split; [lia|exact Hr]. }
    specialize (IH Hasc' y). destruct (nack_take b r) as [blp rest]. cbn [snd] in *. apply IH. exact Hy.
  - cbn [snd] in Hy. cbn [asc] in Hasc. destruct Hasc as [_ Hxr]. destruct Hy as [<-|Hy]; [exact Hgt|].
    pose proof (asc_head_lt x r Hxr y Hy). lia.
Qed.

Theorem nack_words_minimal fuel : forall (l : list N) (ws : list (N * N)),
  length l <= fuel -> asc l ->
  (forall x, In x l -> exists w, In w ws /\ in_window (fst w) x) ->
  length (rfc_nack_words fuel l) <= length ws.
Proof.
  induction fuel as [|f IH]; intros l ws Hf Hasc Hcov; [cbn; lia|].
  destruct l as [|pid r]; [cbn; lia|]. cbn [rfc_nack_words].
  pose proof (nack_take_rest pid r) as Hlen. pose proof (nack_take_asc pid r Hasc) as [Hra Hrin].
  pose proof (nack_take_rest_gt pid r Hasc) as Hgt.
  destruct (nack_take pid r) as [blp rest]. cbn [snd length] in *.
  destruct (Hcov pid ltac:(now left)) as [w [Hw Hwin]].
  destruct (in_split w ws Hw) as [a [b ->]]. rewrite app_length. cbn [length].
  assert (Hle : length (rfc_nack_words f rest) <= length (a ++ b)).
  { apply IH; [lia|exact Hra|]. intros y Hy.
    destruct (Hcov y ltac:(right; apply Hrin; exact Hy)) as [w' [Hw' Hwin']].
    exists w'. split; [|exact Hwin'].
    apply in_app_or in Hw'. apply in_or_app. destruct Hw' as [Ha|[Heq|Hb]]; [left; exact Ha| |right; exact Hb].
    exfalso. subst w'. specialize (Hgt y Hy). unfold in_window in *. lia. }
  rewrite app_length in Hle. lia.
Qed.

(* each word the decoder reads names only numbers in its window, unless it wraps past 65535 *)
Example window_example : in_window 65519 65535 /\ ~ in_window 65530 0.
Proof. unfold in_window. split; lia. Qed.

(* The exclusion made formal: with windows that wrap past 65535 the statement above is false of the
   encoder.  The decoder does read wrapping words (base.wrapping_add): the one word (65530, bit 5) decodes
   to 65530 and 0, while the encoder, which walks the set in numeric order, writes two words for {0, 65530}.
   The property speaks of strictly increasing (PID, BLP) words over an ascending set, so this is recorded
   as the boundary of what is proved, not as a defect (DESIGN.md section 0). *)
Definition in_window_wrap (p x : N) : Prop := exists d, (d <= 16)%N /\ x = ((p + d) mod 65536)%N.

Theorem nack_minimal_with_wrapping_refuted :
  exists (l : list N) (ws : list (N * N)),
    asc l /\ (forall x, In x l -> exists w, In w ws /\ in_window_wrap (fst w) x) /\
    length ws < length (rfc_nack_words (length l) l) /\
    nack_words None 0%N l = rfc_nack_words (length l) l /\
    nack_entries (concat (map (fun w => be16 (fst w) ++ be16 (snd w)) ws)) = Ok [65530%N; 0%N].
Proof.
  exists [0%N; 65530%N], [(65530%N, 32%N)]. split; [cbn; lia|]. split.
  - intros x [<-|[<-|[]]]; exists (65530%N, 32%N); (split; [now left|]).
    + exists 6%N. split; [lia|reflexivity].
    + exists 0%N. split; [lia|reflexivity].
  - split; [vm_compute; lia|]. split; vm_compute; reflexivity.
Qed.
