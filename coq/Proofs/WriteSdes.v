(* SDES item, chunk and packet writers produce exactly the RFC image. *)
From RtcpV Require Export Proofs.WriteFbTop Model.Sdes.

Lemma item_calc_ok it k :
  item_calc it = Ok k ->
  k = length (rfc_item it) /\
  (if (it_c_type it =? PRIV)%N then length (it_c_prefix it) + 1 + length (it_c_value it) <= 255
   else length (it_c_value it) <= 255).
Proof.
  unfold item_calc, rfc_item, PRIV. destruct (it_c_type it =? 8)%N.
  - destruct (Nat.ltb_spec 255 (length (it_c_prefix it) + 1)) as [G1|G1]; [discriminate|].
    destruct (Nat.ltb_spec 255 (length (it_c_prefix it) + 1 + length (it_c_value it))) as [G2|G2]; [discriminate|].
    intros [= <-]. rewrite !app_length. cbn [length]. split; lia.
  - destruct (Nat.ltb_spec 255 (length (it_c_value it))) as [G1|G1]; [discriminate|].
    intros [= <-]. rewrite app_length. cbn [length]. split; lia.
Qed.

Lemma item_write_ok it k (rest : bytes) :
  item_calc it = Ok k -> k <= length rest ->
  item_write_unchecked it rest = Ok (k, rfc_item it ++ skipn k rest).
Proof.
  intros Hc Hfit. apply item_calc_ok in Hc. destruct Hc as [Hk Hlim]. revert Hk Hlim.
  unfold item_write_unchecked, rfc_item, PRIV. destruct (it_c_type it =? 8)%N eqn:Hty; intros Hk Hlim.
  - rewrite !app_length in Hk. cbn [length] in Hk.
    rewrite (set_at_cur [] rest) by (cbn [length]; lia). cbn [bind].
    rewrite set_at_cur by len. cbn [bind]. rewrite skipn_skipn.
    rewrite set_at_cur by len. cbn [bind]. rewrite skipn_skipn.
    rewrite copy_at by len. cbn [bind]. rewrite skipn_skipn.
    rewrite copy_at by len. cbn [bind]. rewrite skipn_skipn.
    rewrite (N.mod_small (N.of_nat (length (it_c_prefix it) + 1 + length (it_c_value it))) 256) by lia.
    rewrite (N.mod_small (N.of_nat (length (it_c_prefix it))) 256) by lia.
    replace (length (it_c_prefix it) + 1 + length (it_c_value it)) with (1 + length (it_c_prefix it) + length (it_c_value it)) by lia.
    replace (length (it_c_prefix it) + 3 + length (it_c_value it)) with k by lia.
    replace (1 + 1 + 1 + length (it_c_prefix it) + length (it_c_value it)) with k by lia.
    rewrite <- !app_assoc. reflexivity.
  - rewrite app_length in Hk. cbn [length] in Hk.
    rewrite (set_at_cur [] rest) by (cbn [length]; lia). cbn [bind].
    rewrite set_at_cur by len. cbn [bind]. rewrite skipn_skipn.
    rewrite copy_at by len. cbn [bind]. rewrite skipn_skipn.
    rewrite (N.mod_small (N.of_nat (length (it_c_value it))) 256) by lia.
    replace (length (it_c_value it) + 2) with k by lia.
    replace (1 + 1 + length (it_c_value it)) with k by lia.
    rewrite <- !app_assoc. reflexivity.
Qed.

Lemma items_calc_ok its n :
  items_calc its = Ok n -> n = length (concat (map rfc_item its)) /\ Forall (fun it => exists k, item_calc it = Ok k) its.
Proof.
  revert n. induction its as [|it its IH]; intros n; cbn [items_calc map concat].
  - intros [= <-]. split; [reflexivity|constructor].
  - intros H. apply bind_ok_inv in H. destruct H as [k [Hk H]]. apply bind_ok_inv in H. destruct H as [m [Hm [= <-]]].
    destruct (IH m Hm) as [-> Hf]. apply item_calc_ok in Hk as Hk'. destruct Hk' as [-> _].
    rewrite app_length. split; [reflexivity|constructor; eauto].
Qed.

Lemma items_write_ok its : forall (done rest : bytes) i,
  i = length done -> Forall (fun it => exists k, item_calc it = Ok k) its ->
  length (concat (map rfc_item its)) <= length rest ->
  items_write its i (done ++ rest) =
    Ok (i + length (concat (map rfc_item its)),
        (done ++ concat (map rfc_item its)) ++ skipn (length (concat (map rfc_item its))) rest).
Proof.
  induction its as [|it its IH]; intros done rest i Hi Hf Hfit; cbn [items_write map concat].
  - cbn [length skipn]. rewrite app_nil_r, Nat.add_0_r. reflexivity.
  - inversion Hf as [|? ? [k Hk] Hfs]; subst. cbn [map concat] in Hfit. rewrite app_length in Hfit.
    apply item_calc_ok in Hk as Hk'. destruct Hk' as [Hkl _].
    rewrite with_tail_at by reflexivity. rewrite (item_write_ok it k) by (assumption || lia). cbn [bind].
    rewrite app_assoc. rewrite IH by (rewrite ?app_length, ?skipn_length; lia || assumption).
    rewrite skipn_skipn. rewrite !app_length. rewrite <- Hkl.
    rewrite Nat.add_assoc. rewrite <- !app_assoc. reflexivity.
Qed.

Lemma chunk_calc_ok c n :
  chunk_calc c = Ok n ->
  n = length (rfc_chunk c) /\ n mod 4 = 0 /\ Forall (fun it => exists k, item_calc it = Ok k) (ch_c_items c).
Proof.
  unfold chunk_calc. intros H. apply bind_ok_inv in H. destruct H as [m [Hm [= <-]]].
  apply items_calc_ok in Hm. destruct Hm as [-> Hf]. split; [|split; [apply pad4_mod|exact Hf]].
  unfold rfc_chunk. rewrite !app_length, be32_length, zeros_length. unfold pad4. lia.
Qed.

Lemma chunk_write_ok c n (rest : bytes) :
  chunk_calc c = Ok n -> n <= length rest ->
  chunk_write_unchecked c rest = Ok (n, rfc_chunk c ++ skipn n rest).
Proof.
  intros Hc Hfit. apply chunk_calc_ok in Hc. destruct Hc as [Hn [_ Hf]].
  unfold rfc_chunk in Hn. rewrite !app_length, be32_length, zeros_length in Hn.
  set (L := length (concat (map rfc_item (ch_c_items c)))) in *.
  unfold chunk_write_unchecked.
  change rest with ([] ++ rest) at 1. rewrite copy_at by len. cbn [bind app].
  change (be32 (ch_c_ssrc c) ++ skipn (length (be32 (ch_c_ssrc c))) rest)
    with (be32 (ch_c_ssrc c) ++ skipn 4 rest).
  rewrite items_write_ok by (rewrite ?skipn_length, ?be32_length; (reflexivity || assumption || (fold L; lia))).
  cbn [bind]. fold L. rewrite skipn_skipn.
  assert (Hp : pad4 (4 + L + 1) = 4 + L + (4 - L mod 4)) by (unfold pad4; lia).
  rewrite Hp. rewrite fill_if_at by len. cbn [bind]. rewrite skipn_skipn.
  replace (4 + L + (4 - L mod 4) - (4 + L)) with (4 - L mod 4) by lia.
  replace (4 + L + (4 - L mod 4)) with n by lia. unfold rfc_chunk. fold L. rewrite <- !app_assoc. reflexivity.
Qed.

Lemma chunks_calc_ok cs n :
  chunks_calc cs = Ok n ->
  n = length (concat (map rfc_chunk cs)) /\ n mod 4 = 0 /\ Forall (fun c => exists k, chunk_calc c = Ok k) cs.
Proof.
  revert n. induction cs as [|c cs IH]; intros n; cbn [chunks_calc map concat].
  - intros [= <-]. split; [reflexivity|split; [reflexivity|constructor]].
  - intros H. apply bind_ok_inv in H. destruct H as [k [Hk H]]. apply bind_ok_inv in H. destruct H as [m [Hm [= <-]]].
    destruct (IH m Hm) as [-> [Hmod Hf]]. apply chunk_calc_ok in Hk as Hk'. destruct Hk' as [-> [Hkm _]].
    rewrite app_length. split; [reflexivity|split; [lia|constructor; eauto]].
Qed.

Lemma chunks_write_ok cs : forall (done rest : bytes) i,
  i = length done -> Forall (fun c => exists k, chunk_calc c = Ok k) cs ->
  length (concat (map rfc_chunk cs)) <= length rest ->
  chunks_write cs i (done ++ rest) =
    Ok (i + length (concat (map rfc_chunk cs)),
        (done ++ concat (map rfc_chunk cs)) ++ skipn (length (concat (map rfc_chunk cs))) rest).
Proof.
  induction cs as [|c cs IH]; intros done rest i Hi Hf Hfit; cbn [chunks_write map concat].
  - cbn [length skipn]. rewrite app_nil_r, Nat.add_0_r. reflexivity.
  - inversion Hf as [|? ? [k Hk] Hfs]; subst. cbn [map concat] in Hfit. rewrite app_length in Hfit.
    apply chunk_calc_ok in Hk as Hk'. destruct Hk' as [Hkl _].
    rewrite with_tail_at by reflexivity. rewrite (chunk_write_ok c k) by (assumption || lia). cbn [bind].
    rewrite app_assoc. rewrite IH by (rewrite ?app_length, ?skipn_length; lia || assumption).
    rewrite skipn_skipn. rewrite !app_length. rewrite <- Hkl.
    rewrite Nat.add_assoc. rewrite <- !app_assoc. reflexivity.
Qed.

Lemma sdes_calc_ok c n :
  sdes_calc c = Ok n ->
  length (sdes_c_chunks c) <= 31 /\ (sdes_c_padding c mod 4 = 0)%N /\
  Forall (fun ch => exists k, chunk_calc ch = Ok k) (sdes_c_chunks c) /\
  length (concat (map rfc_chunk (sdes_c_chunks c))) mod 4 = 0 /\
  n = 4 + length (concat (map rfc_chunk (sdes_c_chunks c))) + N.to_nat (sdes_c_padding c).
Proof.
  unfold sdes_calc, SDES_MIN. destruct (Nat.ltb_spec 31 (length (sdes_c_chunks c))) as [G|G]; [discriminate|].
  intros H. apply bind_ok_inv in H. destruct H as [[] [Hp H]]. apply check_padding_ok in Hp.
  apply bind_ok_inv in H. destruct H as [k [Hk [= <-]]]. apply chunks_calc_ok in Hk. destruct Hk as [-> [Hm Hf]].
  repeat split; auto.
Qed.

Theorem sdes_write_ok c n (s : bytes) :
  sdes_calc c = Ok n -> length s = n -> sdes_write_unchecked c s = Ok (n, rfc_sdes c).
Proof.
  intros Hc Hs. apply sdes_calc_ok in Hc. destruct Hc as [Hnc [Hp [Hf [Hm Hn]]]].
  destruct (count_mod _ Hnc) as [Hcm Hc32].
  unfold sdes_write_unchecked. rewrite write_header_ok by lia. cbn [bind]. rewrite Hcm.
  rewrite hdr_bytes_rfc by exact Hc32. rewrite Hs.
  remember (rfc_header SDES_PT (sdes_c_padding c) (N.of_nat (length (sdes_c_chunks c))) n) as hdr eqn:Hhdr.
  assert (Hh : length hdr = 4) by (subst hdr; reflexivity).
  rewrite chunks_write_ok by (rewrite ?skipn_length; (assumption || lia)). cbn [bind]. rewrite skipn_skipn.
  rewrite trailer_at_end by len. cbn [bind].
  f_equal. f_equal; [lia|]. subst hdr. unfold rfc_sdes. fold SDES_PT. rewrite <- Hn.
  rewrite <- !app_assoc. reflexivity.
Qed.
