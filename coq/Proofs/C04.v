(* C04: BYE and APP packets survive a build-then-parse round trip. *)
From RtcpV Require Export Proofs.C14.

(* ---------------------------------------------------------------- APP *)

Definition app_wf (c : app_cfg) : Prop :=
  (app_c_ssrc c < 4294967296 /\ app_c_padding c < 256)%N.

Definition app_body (c : app_cfg) : bytes :=
  be32 (app_c_ssrc c) ++ app_c_name c ++ zeros (4 - length (app_c_name c)) ++ app_c_data c.

Lemma app_image_ok c n :
  app_wf c -> app_calc c = Ok n -> (N.of_nat n <= 262144)%N ->
  image_ok 12 (app_c_padding c) (app_c_subtype c) n (app_body c) /\
  n = 12 + length (app_c_data c) + N.to_nat (app_c_padding c) /\ length (app_c_name c) <= 4.
Proof.
  intros [H1 H2] Hc Hmax. apply app_calc_ok in Hc. destruct Hc as [Hst [Hnl [_ [Hd [Hp Hn]]]]].
  split; [|split; [lia|exact Hnl]]. constructor; try lia.
  unfold app_body. rewrite !app_length, zeros_length, be32_length. lia.
Qed.

Theorem app_roundtrip c n :
  app_wf c -> app_calc c = Ok n -> (N.of_nat n <= 262144)%N ->
  typed_parse VApp (rfc_app c) = Ok (mk_pkt VApp (rfc_app c) []) /\
  obs_view (mk_pkt VApp (rfc_app c) []) = exp_app c.
Proof.
  intros Hwf Hc Hmax. destruct (app_image_ok c n Hwf Hc Hmax) as [Hio [Hn Hnl]]. destruct Hwf as [H1 H2].
  assert (Himg : rfc_app c = image 204 (app_c_padding c) (app_c_subtype c) n (app_body c)).
  { unfold rfc_app, image, app_body. rewrite <- Hn, <- !app_assoc. reflexivity. }
  rewrite Himg. set (img := image 204 (app_c_padding c) (app_c_subtype c) n (app_body c)).
  assert (Hlen : length img = n) by (apply image_length; apply (io_len _ _ _ _ _ Hio)).
  split.
  - cbn [typed_parse]. unfold app_parse, APP_MIN, APP_PT. unfold img. rewrite (image_check_packet 12 204) by exact Hio. reflexivity.
  - unfold obs_view, exp_app. cbn [pk_variant pk_data]. fold img.
    unfold img at 1. rewrite (image_obs_hdr 12) by exact Hio. rewrite <- Hn.
    unfold img at 1. rewrite (image_parse_padding 12) by exact Hio.
    assert (Hbody : img = rfc_header 204 (app_c_padding c) (app_c_subtype c) n ++ be32 (app_c_ssrc c) ++
                          (app_c_name c ++ zeros (4 - length (app_c_name c))) ++ app_c_data c ++ rfc_trailer (app_c_padding c)).
    { unfold img, image, app_body. rewrite <- !app_assoc. reflexivity. }
    remember (rfc_header 204 (app_c_padding c) (app_c_subtype c) n) as hdr eqn:Hhdr.
    assert (Hh : length hdr = 4) by (subst hdr; reflexivity).
    assert (Hnz : length (app_c_name c ++ zeros (4 - length (app_c_name c))) = 4) by (rewrite app_length, zeros_length; lia).
    assert (Essrc : parse_ssrc img = Ok (app_c_ssrc c)).
    { rewrite Hbody. unfold parse_ssrc. rewrite slice_skip by lia. rewrite Hh. cbn [Nat.sub].
      rewrite slice_take by reflexivity. cbn [bind]. rewrite be_dec_exact_ok by reflexivity.
      rewrite be_dec_be32 by exact H1. reflexivity. }
    assert (Ename : app_name img = Ok (app_c_name c ++ zeros (4 - length (app_c_name c)))).
    { rewrite Hbody. unfold app_name. rewrite slice_skip by lia. rewrite Hh. cbn [Nat.sub].
      rewrite slice_skip by len. rewrite be32_length. cbn [Nat.sub].
      rewrite slice_take by (symmetry; exact Hnz). reflexivity. }
    assert (Edata : app_data img = Ok (12, length (app_c_data c))).
    { unfold app_data. unfold img at 1. rewrite (image_parse_padding 12) by exact Hio. cbn [bind].
      assert (Hpn : N.to_nat (match get_padding_of (app_c_padding c) with Some p => p | None => 0%N end) = N.to_nat (app_c_padding c))
        by (unfold get_padding_of; destruct (N.eqb_spec (app_c_padding c) 0) as [->|]; reflexivity).
      rewrite Hpn, Hlen. rewrite usub_ok by lia. cbn [bind].
      rewrite slice_ok by lia. cbn [bind]. rewrite firstn_length, skipn_length, Hlen. f_equal. f_equal. lia. }
    rewrite Essrc, Ename, Edata.
    cbv [obs_pres obs_res okPad okO okN obs_optN obs_rng fst snd]. reflexivity.
Qed.

(* ---------------------------------------------------------------- BYE *)

Definition bye_wf (c : bye_cfg) : Prop :=
  (bye_c_padding c < 256)%N /\ Forall (fun s => (s < 4294967296)%N) (bye_c_sources c).

Definition bye_body (c : bye_cfg) : bytes := concat (map be32 (bye_c_sources c)) ++ rfc_reason (bye_c_reason c).

Lemma chunks_exact_be32 (ss : list N) fuel :
  length ss <= fuel -> Forall (fun s => (s < 4294967296)%N) ss ->
  map be_dec (chunks_exact 4 fuel (concat (map be32 ss))) = ss.
Proof.
  revert fuel. induction ss as [|s ss IH]; intros fuel Hf Hw.
  - destruct fuel; reflexivity.
  - destruct fuel as [|fuel]; [cbn [length] in Hf; lia|]. inversion Hw; subst. cbn [chunks_exact map concat].
    destruct (Nat.ltb_spec (length (be32 s ++ concat (map be32 ss))) 4) as [Hlt|Hge];
      [rewrite app_length, be32_length in Hlt; lia|].
    rewrite firstn_app_len by reflexivity. rewrite (skipn_app_len (be32 s) _ 4 0) by (rewrite be32_length; lia).
    cbn [skipn map]. rewrite be_dec_be32 by assumption. f_equal. apply IH; [cbn [length] in Hf; lia|assumption].
Qed.

Lemma bye_image_ok c n :
  bye_wf c -> bye_calc c = Ok n ->
  image_ok 4 (bye_c_padding c) (N.of_nat (length (bye_c_sources c))) n (bye_body c) /\
  n = 4 + 4 * length (bye_c_sources c) + length (rfc_reason (bye_c_reason c)) + N.to_nat (bye_c_padding c) /\
  length (bye_c_sources c) <= 31 /\ length (bye_c_reason c) <= 255.
Proof.
  intros [H1 H2] Hc. pose proof (leaf_bye c n Hc) as [_ [Hmod _]].
  apply bye_calc_ok in Hc. destruct Hc as [Hns [Hp [Hrl Hn]]].
  split; [|split; [exact Hn|split; assumption]].
  assert (Hr : length (rfc_reason (bye_c_reason c)) <= 256).
  { destruct (bye_c_reason c) as [|x r] eqn:E; [cbn; lia|]. rewrite rfc_reason_length by congruence.
    pose proof (pad4_lt (1 + length (x :: r))). pose proof (pad4_mod (1 + length (x :: r))). lia. }
  constructor; try lia.
  unfold bye_body. rewrite app_length, concat_be32_length. lia.
Qed.

Theorem bye_roundtrip c n :
  bye_wf c -> bye_calc c = Ok n ->
  typed_parse VBye (rfc_bye c) = Ok (mk_pkt VBye (rfc_bye c) []) /\
  obs_view (mk_pkt VBye (rfc_bye c) []) = exp_bye c.
Proof.
  intros Hwf Hc. destruct (bye_image_ok c n Hwf Hc) as [Hio [Hn [Hns Hrl]]]. destruct Hwf as [H1 H2].
  set (ns := length (bye_c_sources c)) in *.
  assert (Himg : rfc_bye c = image 203 (bye_c_padding c) (N.of_nat ns) n (bye_body c)).
  { unfold rfc_bye, image, bye_body. fold ns. rewrite app_length, concat_be32_length. fold ns.
    replace (4 + (4 * ns + length (rfc_reason (bye_c_reason c))) + N.to_nat (bye_c_padding c)) with n by lia.
    rewrite <- !app_assoc. reflexivity. }
  rewrite Himg. set (img := image 203 (bye_c_padding c) (N.of_nat ns) n (bye_body c)).
  assert (Hlen : length img = n) by (apply image_length; apply (io_len _ _ _ _ _ Hio)).
  assert (Hcount : parse_count img = Ok (N.of_nat ns)) by (eapply image_parse_count; eauto).
  assert (Hbody : img = rfc_header 203 (bye_c_padding c) (N.of_nat ns) n ++ concat (map be32 (bye_c_sources c)) ++
                        rfc_reason (bye_c_reason c) ++ rfc_trailer (bye_c_padding c)).
  { unfold img, image, bye_body. rewrite <- !app_assoc. reflexivity. }
  remember (rfc_header 203 (bye_c_padding c) (N.of_nat ns) n) as hdr eqn:Hhdr.
  assert (Hh : length hdr = 4) by (subst hdr; reflexivity).
  assert (Hcl : length (concat (map be32 (bye_c_sources c))) = 4 * ns) by apply concat_be32_length.
  (* the byte at the reason-length position, when there is one *)
  assert (Hidx : 4 + 4 * ns < n -> exists b, idx (E:=perr) img (4 + 4 * ns) = Ok b /\
                 4 + 4 * ns + 1 + N.to_nat b <= n /\
                 (bye_c_reason c <> [] -> b = N.of_nat (length (bye_c_reason c)))).
  { intros Hlt. rewrite Hbody. rewrite idx_skip by lia. rewrite Hh. rewrite idx_skip by lia. rewrite Hcl.
    replace (4 + 4 * ns - 4 - 4 * ns) with 0 by lia.
    destruct (bye_c_reason c) as [|x r] eqn:Er.
    - cbn [rfc_reason app length] in *. unfold rfc_trailer. destruct (N.ltb_spec 0 (bye_c_padding c)); [|lia].
      assert (Hp4 : 4 <= N.to_nat (bye_c_padding c)) by (pose proof (io_mod _ _ _ _ _ Hio); lia).
      destruct (N.to_nat (bye_c_padding c) - 1) as [|k] eqn:Ek; [lia|]. cbn [zeros repeat app].
      exists 0%N. split; [reflexivity|]. split; [lia|congruence].
    - unfold rfc_reason. cbn [app]. exists (N.of_nat (length (x :: r))). split; [reflexivity|].
      rewrite rfc_reason_length in Hn by congruence. pose proof (pad4_ge (1 + length (x :: r))). split; [lia|auto]. }
  split.
  - cbn [typed_parse]. unfold bye_parse, BYE_MIN, BYE_PT. unfold img at 1. rewrite (image_check_packet 4 203) by exact Hio.
    cbn [bind]. fold img. rewrite Hcount. cbn [bind]. rewrite Nat2N.id, Hlen. fold ns.
    destruct (Nat.ltb_spec n (4 + 4 * ns)); [lia|].
    destruct (Nat.ltb_spec (4 + 4 * ns) n) as [Hlt|Hge]; [|reflexivity].
    destruct (Hidx Hlt) as [b [-> [Hfit _]]]. cbn [bind].
    destruct (Nat.ltb_spec n (4 + 4 * ns + 1 + N.to_nat b)); [lia|reflexivity].
  - unfold obs_view, exp_bye. cbn [pk_variant pk_data]. fold img. fold ns.
    unfold img at 1. rewrite (image_obs_hdr 4) by exact Hio.
    replace (4 + 4 * ns + length (rfc_reason (bye_c_reason c)) + N.to_nat (bye_c_padding c)) with n by lia.
    unfold img at 1. rewrite (image_parse_padding 4) by exact Hio.
    assert (Essrcs : bye_ssrcs img = Ok (bye_c_sources c)).
    { unfold bye_ssrcs. rewrite Hcount. cbn [bind]. rewrite Nat2N.id. fold ns. rewrite Hbody.
      rewrite slice_skip by lia. rewrite Hh. replace (4 - 4) with 0 by lia. replace (4 + ns * 4 - 4) with (4 * ns) by lia.
      rewrite slice_take by (symmetry; exact Hcl). cbn [bind]. rewrite Hcl.
      rewrite chunks_exact_be32 by (fold ns; lia || assumption). reflexivity. }
    assert (Ereason : bye_reason img = Ok (match bye_c_reason c with [] => None | r => Some (4 + 4 * ns + 1, length r) end)).
    { unfold bye_reason. rewrite Hcount. cbn [bind]. rewrite Nat2N.id. fold ns.
      unfold header_data. rewrite slice_ok by lia. cbn [bind skipn Nat.sub].
      assert (Ehl : parse_length (firstn 4 img) = Ok n).
      { rewrite Hbody. rewrite firstn_app_len by (symmetry; exact Hh). subst hdr. unfold rfc_header, be16. cbn [app].
        rewrite parse_length_cons. f_equal. pose proof (io_mod _ _ _ _ _ Hio). pose proof (io_max _ _ _ _ _ Hio). lia. }
      rewrite Ehl. cbn [bind]. unfold img at 1. rewrite (image_parse_padding 4) by exact Hio. cbn [bind].
      assert (Hpn : N.to_nat (match get_padding_of (bye_c_padding c) with Some p => p | None => 0%N end) = N.to_nat (bye_c_padding c))
        by (unfold get_padding_of; destruct (N.eqb_spec (bye_c_padding c) 0) as [->|]; reflexivity).
      rewrite Hpn. destruct (bye_c_reason c) as [|x r] eqn:Er.
      - cbn [rfc_reason length] in Hn. destruct (Nat.ltb_spec n (ns * 4 + 4 + 1 + N.to_nat (bye_c_padding c))); [reflexivity|lia].
      - rewrite rfc_reason_length in Hn by congruence. pose proof (pad4_ge (1 + length (x :: r))).
        assert (Hp4 : 4 <= pad4 (1 + length (x :: r))) by (cbn [length]; unfold pad4; lia).
        destruct (Nat.ltb_spec n (ns * 4 + 4 + 1 + N.to_nat (bye_c_padding c))); [lia|].
        destruct (Nat.eqb_spec (n - (ns * 4 + 4 + 1 + N.to_nat (bye_c_padding c))) 0); [lia|].
        replace (ns * 4 + 4) with (4 + 4 * ns) by lia.
        destruct (Hidx ltac:(lia)) as [b [-> [Hfit Hb]]]. cbn [bind]. rewrite (Hb ltac:(congruence)). rewrite Nat2N.id.
        rewrite slice_ok by lia. cbn [bind]. rewrite firstn_length, skipn_length, Hlen. f_equal. f_equal. f_equal. lia. }
    rewrite Essrcs, Ereason.
    cbv [obs_pres obs_res okPad okO okN obs_optN obs_list]. destruct (bye_c_reason c); reflexivity.
Qed.

(* ---------------------------------------------------------------- the full statements *)

Lemma packet_parse_of_image pt pad cnt n body v :
  4 <= n -> length (image pt pad cnt n body) = n -> variant_of_pt pt = v ->
  packet_parse (image pt pad cnt n body) = typed_parse v (image pt pad cnt n body).
Proof.
  intros H4 Hl Hv. destruct (generic_is_typed (image pt pad cnt n body)) as [b [Hb Hg]]; [lia|].
  rewrite Hg. unfold image, rfc_header in Hb. cbn [app nth_error] in Hb. injection Hb as <-. rewrite Hv. reflexivity.
Qed.

Theorem app_build_then_parse c n (buf : bytes) :
  app_wf c -> m_calc (MApp c) = Ok n -> (N.of_nat n <= 262144)%N -> n <= length buf ->
  m_write_into (MApp c) buf = (Ok n, rfc_app c ++ skipn n buf) /\
  packet_parse (rfc_app c) = Ok (mk_pkt VApp (rfc_app c) []) /\
  obs_view (mk_pkt VApp (rfc_app c) []) = exp_app c.
Proof.
  intros Hwf Hc Hmax Hn. cbn [m_calc] in Hc. destruct (app_roundtrip c n Hwf Hc Hmax) as [Hp Hv].
  split; [|split; [|exact Hv]].
  - unfold m_write_into. cbn [m_calc m_write_unchecked].
    apply write_into_ok; [exact Hc|exact Hn|]. intros s Hs. apply app_write_ok; assumption.
  - destruct (app_image_ok c n Hwf Hc Hmax) as [Hio [Hn' Hnl]].
    assert (Himg : rfc_app c = image 204 (app_c_padding c) (app_c_subtype c) n (app_body c)).
    { unfold rfc_app, image, app_body. rewrite <- Hn', <- !app_assoc. reflexivity. }
    rewrite Himg in *. rewrite (packet_parse_of_image _ _ _ _ _ VApp); [exact Hp| |apply image_length; apply (io_len _ _ _ _ _ Hio)|reflexivity].
    pose proof (io_min _ _ _ _ _ Hio). lia.
Qed.

Theorem bye_build_then_parse c n (buf : bytes) :
  bye_wf c -> m_calc (MBye c) = Ok n -> n <= length buf ->
  m_write_into (MBye c) buf = (Ok n, rfc_bye c ++ skipn n buf) /\
  packet_parse (rfc_bye c) = Ok (mk_pkt VBye (rfc_bye c) []) /\
  obs_view (mk_pkt VBye (rfc_bye c) []) = exp_bye c.
Proof.
  intros Hwf Hc Hn. cbn [m_calc] in Hc. destruct (bye_roundtrip c n Hwf Hc) as [Hp Hv].
  split; [|split; [|exact Hv]].
  - unfold m_write_into. cbn [m_calc m_write_unchecked].
    apply write_into_ok; [exact Hc|exact Hn|]. intros s Hs. apply bye_write_ok; assumption.
  - destruct (bye_image_ok c n Hwf Hc) as [Hio [Hn' _]].
    assert (Himg : rfc_bye c = image 203 (bye_c_padding c) (N.of_nat (length (bye_c_sources c))) n (bye_body c)).
    { unfold rfc_bye, image, bye_body. rewrite app_length, concat_be32_length.
      replace (4 + (4 * length (bye_c_sources c) + length (rfc_reason (bye_c_reason c))) + N.to_nat (bye_c_padding c)) with n by lia.
      rewrite <- !app_assoc. reflexivity. }
    rewrite Himg in *. rewrite (packet_parse_of_image _ _ _ _ _ VBye); [exact Hp| |apply image_length; apply (io_len _ _ _ _ _ Hio)|reflexivity].
    pose proof (io_min _ _ _ _ _ Hio). lia.
Qed.

(* the size bound in the APP statement is exactly the known finding D13: without it the statement fails *)
Lemma app_oversize_rejected (k : nat) :
  k mod 4 = 0 -> (262144 <= N.of_nat k)%N ->
  let c := mk_app 1 0 0 [] (repeat 0%N k) in
  app_calc c = Ok (12 + 0 + k) /\ exists e, typed_parse VApp (rfc_app c) = Err e.
Proof.
  intros Hk Hbig c.
  assert (Hc : app_calc c = Ok (12 + 0 + k)).
  { unfold app_calc, c. cbn [app_c_subtype app_c_name app_c_data app_c_padding length is_ascii forallb].
    replace (31 <? 0)%N with false by reflexivity. replace (4 <? 0) with false by reflexivity. cbn [orb negb].
    rewrite repeat_length. destruct (Nat.eqb_spec (k mod 4) 0); [|contradiction]. cbn [negb].
    unfold check_padding. replace (0 mod 4 =? 0)%N with true by reflexivity. cbn [negb bind]. reflexivity. }
  split; [exact Hc|].
  (* the image is 12 + k bytes long but its 16-bit length field cannot say so *)
  assert (Hlen : length (rfc_app c) = 12 + k).
  { unfold rfc_app, c. cbn [app_c_subtype app_c_name app_c_data app_c_padding app_c_ssrc length].
    unfold rfc_header. repeat rewrite ?app_length, ?rfc_trailer_length, ?be32_length, ?be16_length, ?zeros_length, ?repeat_length.
    cbn [length]. lia. }
  cbn [typed_parse]. unfold app_parse.
  pose proof (check_packet_total APP_MIN APP_PT (rfc_app c) ltac:(unfold APP_MIN; lia)) as [Hcp|[e Hcp]];
    rewrite Hcp; cbn [bind]; [|eauto].
  exfalso. apply check_packet_iff in Hcp; [|unfold APP_MIN; lia]. apply well_framed_conditions in Hcp.
  destruct Hcp as [a [b [c0 [d [r [Hp [_ [_ [_ [Hl _]]]]]]]]]].
  assert (Hcd : (c0 < 256 /\ d < 256)%N).
  { unfold rfc_app, rfc_header, be16 in Hp. cbn [app] in Hp. injection Hp as _ _ <- <- _. lia. }
  rewrite Hlen in Hl. lia.
Qed.

(* the size bound in the APP statement is exactly the known finding D13: without it the statement fails *)
Theorem app_oversize_refuted :
  exists c n, app_wf c /\ app_calc c = Ok n /\ (262144 < N.of_nat n)%N /\
              exists e, typed_parse VApp (rfc_app c) = Err e.
Proof.
  assert (Hk : N.to_nat 262144 mod 4 = 0) by lia.
  assert (Hb : (262144 <= N.of_nat (N.to_nat 262144))%N) by lia.
  destruct (app_oversize_rejected (N.to_nat 262144) Hk Hb) as [Hc He].
  eexists _, _. split; [|split; [exact Hc|split; [lia|exact He]]]. unfold app_wf. cbn [app_c_ssrc app_c_padding]. lia.
Qed.
